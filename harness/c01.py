"""C01 — Exp is the matrix exponential on so3, se3, rxso3 and sim3.

Model: lean/Pose/Model/Lie.lean (so3Exp, so3Jl, se3Exp, rxso3Exp, rxso3Ws, sim3Exp, *matrix); driver ops
`c01.<alg>` (lean/Pose/Driver/C01.lean) return `Exp(x).tensor()` followed by `Exp(x).matrix()`.
Theorems: lean/Proofs/Props/C01.lean.

Correspondence streams (real code in-process, batched, vs the model in 192-bit arithmetic)
  corpus : seed-independent corner corpus: every pair of (theta, sigma) corner values (0, tiny, switch-over point
           -1 ulp / exact / +1 ulp, sqrt(eps), O(1), pi, 2pi, 4pi, |sigma| = 8) along an axis (norm exact) and a generic
           direction, fixed translations (0, O(1), 1e3, 1e-30), fixed mixed-regime batch cuts, degenerate shapes;
  grid   : cross product of the theta ladder x the signed sigma ladder (every regime pair of
           rxso3_Ws and its boundaries, angles beyond pi) for all four types and both dtypes, random
           directions / translations, mixed-regime batches;
  random : random structured elements (blocks drawn independently from ladders, dense bands around eps and
           sqrt(eps), log-uniform 1e-30..1e-3, O(1), rotation up to 7, |sigma| up to 8, |tau| up to 1e3),
           random batch shapes of rank 0..3, float32/float64, through pp.Exp / x.Exp() / pp.<alg>(...) wrappers;
  repeat : the same tensor object is exponentiated twice and the same shape is reused with different regime
           content (stale state between calls).
Oracle on the real code (the property's own statement): mpmath.expm of the generator matrix at 50 digits
against `Exp(x).matrix()` / `.tensor()`, unit norm of the rotation part.

Tolerances are the property's: rotation and scale blocks 16 eps (relative), translation block 4 sqrt(eps)
relative to the translation scale |tau|_inf * max(1, (e^sigma-1)/sigma), unit norm 8 eps.
"""
from __future__ import annotations

import math
import warnings

import torch

from . import common, util_lie as U
from .common import Ctx

META = {
    "rule": "reuse + corpus (seed-independent): call histories under one batch shape with type/dtype/regimes/grad modes changing between calls in three orders, failing calls interleaved; copies probe (deepcopy/pickle/clone, two generations); every grad mode / operand type (no_grad, inference_mode, in-graph, leaf, plain Tensor, pp.Parameter, nn.Parameter) x memory layout with output-ownership checks; special batch shapes (3, 4, 6, 7, 8, primes in every position); threshold density eps(1 +- k ulp, 2^-10, 1e-3); every ordered pair / each alone / all together of 8 representative items per type; views (strided, batch-sliced, transposed, expanded); all pairs of corner values theta in {0,smallest subnormal,1e-300,1e-30,eps-1ulp,eps,eps+1ulp,2eps,64eps,sqrt(eps),1e-3,1,"
            "pi,pi+,2pi,7,4pi} x sigma in +-{0,1e-30,eps-1ulp,eps,eps+1ulp,2eps,64eps,2^20 eps,sqrt(eps),1e-3,1,8}, axis-aligned and "
            "generic direction, fixed translations (0, O(1), 1e3, 1e-30, up to 1e9), quarter-decade log sweeps of theta (1e-18..10) "
            "and |sigma| (1e-18..5.6, both signs), fixed mixed-regime batch cuts, degenerate shapes; grid: theta ladder x signed "
            "sigma ladder x random direction x translation magnitude, shuffled into mixed-regime batches; random: every block "
            "drawn independently (ladder / dense band around eps / around sqrt(eps) / log-uniform 1e-30..1e-3 / uniform(0,pi) / "
            "uniform(pi,4pi); |sigma| <= 8; |tau| 0..1e3 and occasionally to 1e12), random batch shape of rank 0..3 and empty "
            "batches, five ways of building/calling (x.Exp(), pp.Exp(x), pp.<alg>(data), non-contiguous input, requires_grad input); all four types, "
            "float32 and float64. A case is one algebra element; non-trivial = not the zero element; distinct by (type, dtype, "
            "branch bit and quantised |phi|, branch bit, sign and quantised |sigma|, quantised |tau|)",
    "trusted": ["the model writes em1 := exp(sigma) - 1 and bm1 := em1*cos(theta) - 2 sin^2(theta/2) where the code calls torch.expm1(sigma): over the reals and at 192 bits these are the same numbers, so NO theorem speaks about the cancellation the code avoids; the clause that the float code does not lose accuracy for tiny sigma / theta (D12) is decided only by the high-precision correspondence (corpus log sweeps, thresholds) and the mpmath oracle",
                "glue stream: pp.Exp(LieTensor(data, ltype)) against the model's own dispatch / shape handling / dtype-eps selection (ppExp, c01.glue); accept/reject of INVALID caller input is recorded as an observation only",
                "mpmath.expm at 60 digits (oracle on the real code: sampled stream, confirmation of every disagreement, search, replay)",
                "the generator matrices hatM / se3Gen / rxso3Gen / sim3Gen of Proofs/Lemmas/LieExp.lean are the standard hat maps "
                "[[sigma*1 + phi^, tau],[0,0]] (the harness builds the same matrices independently for mpmath)",
                "IEEE rounding is not modelled: the theorems are exact identities (exact regimes) and explicit truncation bounds "
                "(thin Taylor regimes, <= 9*eps) over the reals; the float accuracy at the property's tolerances is measured"],
    "assumptions": ["the translation scale of the tolerance, |tau|_inf * (e^sigma-1)/sigma, is the `sim3TransScale` of theorems sim3Exp_translation_relative / sim3Exp_translation_sqrt_eps (over the reals the 4*sqrt(eps) clause holds for eps <= 2^-23, |sigma| <= 8, every tau and phi)",
                    "generator bounds: rotation angle <= 4*pi, |log-scale| <= 8, finite inputs",
                    "relative error of the rotation block is measured against 1 (unit quaternion / orthogonal matrix), of the "
                    "scale block against e^sigma, of the translation block against |tau|_inf * (e^sigma-1)/sigma"],
    "partial": ["rounding (reduced in pass 3 to four per-call accuracies gamma_q, gamma_s, gamma_t, gamma_M that are measured on every sampled case; theorems rounded_so3Exp / rounded_sim3Exp turn them into the entrywise bound for every input): the clause 'relative error at most k*eps / k*sqrt(eps)' is decided as theorem over the reals (58 theorems: "
                "matrix(Exp x) = exp(generator) in every exact regime of all four types, entrywise bounds <= 9*eps*e^|sigma|*(1+|tau|_1) "
                "for every input) + measured agreement of the float code with the 192-bit model and with mpmath on the generated inputs"],
}

K_ROT, K_SCALE, K_TRANS, K_UNIT = 16.0, 16.0, 4.0, 8.0
THETA_MAX, SIGMA_MAX, TAU_MAX = 4 * math.pi, 8.0, 1e3


def alg_ltype(name):
    return getattr(U.pp(), U.ALG[name] + "_type")


# ----------------------------------------------------------------------------- ladders / generators

def theta_ladder(e):
    se = math.sqrt(e)
    return [0.0, 1e-30, e / 2, e * (1 - 2 ** -10), e, e * (1 + 2 ** -10), 2 * e, 1e-12, 1e-9, se, 1e-6, 1e-3, 0.1, 1.0,
            3.0, math.pi - 1e-6, math.pi, math.pi + 1e-3, 5.0, 2 * math.pi - 1e-6, 2 * math.pi + 1e-6, 7.0, 3 * math.pi, 10.0,
            4 * math.pi - 1e-6, 4 * math.pi]


def sigma_ladder(e):
    se = math.sqrt(e)
    pos = [1e-30, e / 2, e * (1 - 2 ** -10), e, e * (1 + 2 ** -10), 2 * e, 1e-12, 1e-9, se, 1e-6, 1e-3, 0.1, 0.7, 3.0, 8.0]
    return [0.0] + pos + [-v for v in pos]


def gen_theta(rng, e):
    c = rng.random()
    if c < 0.45:
        return rng.choice(theta_ladder(e) + common.ladder(e) + common.ladder_big())
    if c < 0.55:
        return e * (1 + rng.choice([-1, 1]) * 2.0 ** -rng.randint(1, 45))       # dense around the switch-over
    if c < 0.63:
        return math.sqrt(e) * 2.0 ** rng.uniform(-3, 3)                          # dense around sqrt(eps)
    if c < 0.75:
        return 10 ** rng.uniform(-30, -3)
    if c < 0.88:
        return rng.uniform(0, math.pi)
    return rng.uniform(math.pi, THETA_MAX)


def gen_sigma(rng, e):
    c = rng.random()
    if c < 0.45:
        return rng.choice(sigma_ladder(e))
    s = rng.choice([-1.0, 1.0])
    if c < 0.55:
        return s * e * (1 + rng.choice([-1, 1]) * 2.0 ** -rng.randint(1, 45))
    if c < 0.63:
        return s * math.sqrt(e) * 2.0 ** rng.uniform(-3, 3)
    if c < 0.78:
        return s * 10 ** rng.uniform(-30, -3)
    if c < 0.9:
        return s * rng.uniform(0, 1.0)
    return s * rng.uniform(1.0, SIGMA_MAX)


def gen_tau(rng, e):
    """translation magnitude: 0, ladder 1e-30..1e3, log-uniform 1e-6..1e3, occasionally far beyond (1e3..1e12)"""
    if rng.random() < 0.08:
        return 10 ** rng.uniform(3, 12)
    return U.gen_mag(rng, e, TAU_MAX)


def make_item(rng, name, e, th, sg, tm):
    """algebra element in storage order from block magnitudes"""
    out = []
    if name in ("SE3", "Sim3"):
        out += U.vec(rng, tm)
    out += U.vec(rng, th)
    if name in ("RxSO3", "Sim3"):
        out.append(sg)
    return out


def gen_item(rng, name, e):
    return make_item(rng, name, e, gen_theta(rng, e), gen_sigma(rng, e), gen_tau(rng, e))


def blocks_of(name, xi):
    phi = xi[U.PHISL[name]]
    th = math.sqrt(sum(v * v for v in phi))
    tau = xi[U.TAUSL[name]] if U.TAUSL[name] is not None else None
    sg = xi[U.SIGIDX[name]] if U.SIGIDX[name] is not None else None
    return th, tau, sg


def regime_tag(name, xi, e):
    th, tau, sg = blocks_of(name, xi)
    tag = [("T" if th > e else "t") + str(common.sig_mag(th))]
    if sg is not None:
        tag.append(("S" if abs(sg) > e else "s") + ("-" if sg < 0 else "+") + str(common.sig_mag(sg)))
    if tau is not None:
        tag.append("tau" + str(common.sig_mag(U.max_abs(tau))))
    return "/".join(tag)


def coarse_regime(name, xi, e):
    th, tau, sg = blocks_of(name, xi)

    def cls(v):
        v = abs(v)
        if v == 0:
            return "0"
        if v <= e:
            return "<=eps"
        if v < 1e-6:
            return "eps..1e-6"
        if v <= math.pi:
            return "1e-6..pi"
        return ">pi"
    k = f"theta:{cls(th)}"
    if sg is not None:
        k += f" sigma:{'-' if sg < 0 else ''}{cls(sg)}"
    return k


def tscale_of(name, xi):
    th, tau, sg = blocks_of(name, xi)
    if tau is None:
        return None
    c = 1.0
    if sg is not None and sg != 0:
        c = math.expm1(sg) / sg      # the coupling matrix W has the eigenvalue C = (e^sigma - 1)/sigma along phi
    return U.max_abs(tau) * c


# ----------------------------------------------------------------------------- comparison of one item

def item_errors(name, dtype, xi, got_t, got_m, want_t, want_m):
    """block errors in units of the property's tolerances (<= 1 is fine); got/want are float lists"""
    e = common.EPS[dtype]
    n = U.MATN[name]
    out = {}
    if not all(math.isfinite(v) for v in got_t + got_m):
        return {"nonfinite": float("inf")}
    q = got_t[U.QSL[name]]
    out["unit"] = abs(math.sqrt(sum(v * v for v in q)) - 1.0) / (K_UNIT * e)
    out["q"] = U.quat_dist(q, want_t[U.QSL[name]]) / (K_ROT * e)
    s_want = want_t[U.SIDX[name]] if U.SIDX[name] is not None else 1.0
    if U.SIDX[name] is not None:
        out["s"] = abs(got_t[U.SIDX[name]] - s_want) / s_want / (K_SCALE * e)
    out["R"] = max(abs(got_m[r * n + c] - want_m[r * n + c]) for r in range(3) for c in range(3)) / s_want / (K_ROT * e)
    tsc = tscale_of(name, xi)
    if tsc is not None:
        tt = K_TRANS * math.sqrt(e) * tsc
        dt_ = max(abs(a - b) for a, b in zip(got_t[U.TSL[name]], want_t[U.TSL[name]]))
        dm = max(abs(got_m[r * n + 3] - want_m[r * n + 3]) for r in range(3))
        out["t"] = (dt_ / tt) if tt > 0 else (0.0 if dt_ == 0 else float("inf"))
        out["tm"] = (dm / tt) if tt > 0 else (0.0 if dm == 0 else float("inf"))
    if n == 4:
        last = got_m[12:16]
        out["row4"] = 0.0 if last == [0.0, 0.0, 0.0, 1.0] else float("inf")
        if tsc is None:   # rxso3: no translation
            out["col4"] = 0.0 if [got_m[3], got_m[7], got_m[11]] == [0.0, 0.0, 0.0] else float("inf")
    return out


def fast_nums(rep):
    """reply `ok m:e m:e …` -> floats (int -> float is correctly rounded and ldexp is exact, so this is the nearest double of the
    192-bit value; much cheaper than going through Fraction for 10^6 numbers)"""
    toks = rep.split()
    if not toks or toks[0] != "ok":
        raise common.InfraError(f"model error reply: {rep[:120]}")
    out = []
    for t in toks[1:]:
        m_, e_ = t.split(":")
        out.append(math.ldexp(float(int(m_)), int(e_)))
    return out


def bad_blocks(errs):
    return {k: (v if math.isfinite(v) else "inf") for k, v in errs.items() if not (v <= 1.0)}


# ----------------------------------------------------------------------------- real code

MODES = ["default", "no_grad", "inference_mode", "inside-graph(non-leaf)", "requires_grad-leaf", "plain-Tensor->ltype.Exp",
         "pp.Parameter", "nn.Parameter->ltype.Exp", "user-subclass-of-LieTensor"]
_USER_CLS = []


def user_subclass():
    """a user class deriving from pp.LieTensor that overrides nothing relevant: dispatch by isinstance / class identity must
    still give the library's Exp"""
    if not _USER_CLS:
        P = U.pp()

        class MyLieTensor(P.LieTensor):
            def describe(self):
                return "user subclass"
        _USER_CLS.append(MyLieTensor)
    return _USER_CLS[0]


def run_impl(name, dtype, rows64, shape, api=0, mode=0, own=False):
    """Exp on the real code for a batch; rows64 = list of algebra elements (already exact in `dtype`).
    api  = how the argument is built / laid out in memory (0 LieTensor(data), 1 pp.Exp(x), 2 pp.<alg>(data), 3 stride-2 view,
           4 requires_grad leaf, 5 batch-row slice of a larger buffer, 6 transposed batch dims, 7 expanded, 8 from a python list,
           9 module-level pp.tensor / pp.matrix);
    mode = grad mode / operand type (MODES);  own = also check that the outputs own their memory.
    returns (T, M) as float64 tensors of shape (N, GDIM), (N, n*n), structural problems (list of str), the LieTensor"""
    import contextlib
    P = U.pp()
    D = U.dt(dtype)
    n, g, a = U.MATN[name], U.GDIM[name], U.ADIM[name]
    data = torch.tensor(rows64, dtype=torch.float64).reshape(tuple(shape) + (a,)).to(D)
    problems = []
    big = big_before = None
    if api == 3:     # non-contiguous view as input (stride 2 in the last dim)
        big = torch.full(tuple(shape) + (2 * a,), 7.5, dtype=D)
        big[..., ::2] = data
        data = big[..., ::2]
    elif api == 5 and len(shape) >= 1:   # every second batch row of a larger buffer
        big = torch.full((2 * shape[0] + 1,) + tuple(shape[1:]) + (a,), -3.25, dtype=D)
        big[1::2] = data
        data = big[1::2]
    elif api == 6 and len(shape) >= 2:   # transposed batch dims
        big = data.transpose(0, 1).contiguous()
        data = big.transpose(0, 1)
    elif api == 10 and len(shape) >= 2:   # batch dims with fully reversed (permuted) strides: storage built in reversed dim order, viewed back
        rev = list(range(len(shape)))[::-1]
        big = data.permute(*rev, len(shape)).contiguous()
        data = big.permute(*rev, len(shape))
    elif api == 11 and len(shape) >= 3:   # cyclically permuted batch strides (movedim)
        big = data.movedim(0, len(shape) - 1).contiguous()
        data = big.movedim(len(shape) - 1, 0)
    elif api == 7 and rows64 and all(r == rows64[0] for r in rows64):   # expanded (stride 0) batch
        big = torch.tensor(rows64[0], dtype=torch.float64).to(D)
        data = big.expand(tuple(shape) + (a,))
    if big is not None:
        big_before = big.clone()
    if api == 4 or mode == 4:     # an input that requires grad (forward values must be the same)
        data = data.clone().requires_grad_(True)
    elif mode == 3 and big is None:   # a non-leaf inside an autograd graph
        data = data.clone().requires_grad_(True) * 1.0
    cm = torch.no_grad() if mode == 1 else torch.inference_mode() if mode == 2 else contextlib.nullcontext()
    with cm:
        lt_ = alg_ltype(name)
        if mode == 5:
            x, X = P.LieTensor(data, ltype=lt_), lt_.Exp(data)
        elif mode == 7:
            prm = torch.nn.Parameter(data.detach())
            x, X = P.LieTensor(prm, ltype=lt_), lt_.Exp(prm)
        else:
            if api == 2:     # wrapper constructors of utils.py
                x = getattr(P, U.ALG[name])(data)
            elif api == 8 and dtype == "float32" and mode == 0 and big is None and rows64:   # nested python list (default dtype float32)
                x = getattr(P, U.ALG[name])(data.tolist())
            else:
                x = P.LieTensor(data, ltype=lt_)
            if mode == 6:
                x = P.Parameter(x)
            if mode == 8:
                x = user_subclass()(data, ltype=lt_)
            X = P.Exp(x) if api == 1 else x.Exp()
        before = torch.Tensor.as_subclass(x, torch.Tensor).detach().clone()
        if not isinstance(X, P.LieTensor) or (mode != 8 and type(X).__name__ != "LieTensor") or X.ltype != U.ltype(name):
            problems.append(f"type: Exp({U.ALG[name]}) [{MODES[mode]}] returned {type(X).__name__} of ltype {getattr(X, 'ltype', None)}")
        if tuple(X.shape) != tuple(shape) + (g,) or X.dtype != D:
            problems.append(f"type: Exp({U.ALG[name]}) [{MODES[mode]}] returned shape {tuple(X.shape)} dtype {X.dtype} for input "
                            f"{tuple(x.shape)} {D}")
            return None, None, problems, None
        Tr = P.tensor(X) if api == 9 else X.tensor()
        Mr = P.matrix(X) if api == 9 else X.matrix()
    if tuple(Mr.shape) != tuple(shape) + (n, n) or Mr.dtype != D:
        problems.append(f"type: matrix() returned shape {tuple(Mr.shape)} dtype {Mr.dtype}")
        return None, None, problems, None
    T = Tr.detach().double().reshape(-1, g).clone()
    M = Mr.detach().double().reshape(-1, n * n).clone()
    if own and rows64 and mode != 2:
        # the outputs own their memory: overwrite one item of each result in place — nothing else may move
        first = (0,) * len(shape)
        with torch.no_grad():
            Mr.detach()[first] = 55.0
            if not torch.equal(torch.nan_to_num(X.tensor().detach().double().reshape(-1, g)), torch.nan_to_num(T)):
                problems.append("alias: writing into the result of matrix() changed the group element it was computed from")
            if not torch.equal(torch.nan_to_num(Mr.detach().double().reshape(-1, n * n)[1:]), torch.nan_to_num(M[1:])):
                problems.append("alias: the items of the result of matrix() overlap in memory (writing item 0 changed another item)")
            Tr.detach()[first] = 77.0
            if not torch.equal(torch.nan_to_num(Tr.detach().double().reshape(-1, g)[1:]), torch.nan_to_num(T[1:])):
                problems.append("alias: the items of the result of Exp overlap in memory (writing item 0 changed another item)")
        if not torch.equal(torch.nan_to_num(x.Exp().tensor().detach().double().reshape(-1, g)), torch.nan_to_num(T)):
            problems.append("alias: writing into the result of Exp changed a later Exp of the same argument")
    if not torch.equal(torch.Tensor.as_subclass(x, torch.Tensor).detach(), before):
        problems.append("purity: Exp modified its argument" + (" (or its result aliases the argument)" if own else ""))
    if big is not None and not torch.equal(big, big_before):
        problems.append("purity: Exp/matrix modified the buffer its argument is a view of")
    return T, M, problems, x


def check_batch(ctx: Ctx, stream, name, dtype, rows, shape, api, lines, metas, extra=None, mode=0, own=False):
    """run the real code on one batch and queue the model lines"""
    e = common.EPS[dtype]
    _, r64 = U.to_dtype_exact(rows, dtype) if rows else (None, torch.zeros(0, U.ADIM[name], dtype=torch.float64))
    rows64 = r64.tolist()
    case = {"stream": stream, "type": name, "dtype": dtype, "shape": list(shape), "api": api, "mode": mode, "own": own, "X": rows64}
    if extra:
        case.update(extra)
    try:
        T, M, problems, x = run_impl(name, dtype, rows64, shape, api, mode, own)
        if x is not None and rows64 and mode != 2 and ctx.rng.random() < 0.25:
            # second call on the same object and algebra-level matrix(): bitwise the same answer
            P = U.pp()
            X2 = x.Exp()
            if not torch.equal(torch.nan_to_num(X2.tensor().detach().double().reshape(-1, U.GDIM[name]), nan=1.25e300), torch.nan_to_num(T, nan=1.25e300)):
                problems.append("repeat: a second Exp() on the same tensor gives a different result")
            M2 = x.matrix()
            if not torch.equal(torch.nan_to_num(M2.detach().double().reshape(-1, U.MATN[name] ** 2), nan=1.25e300), torch.nan_to_num(M, nan=1.25e300)):
                problems.append("repeat: x.matrix() differs from x.Exp().matrix()")
            ctx.count("repeat-calls")
    except Exception as ex:  # the real code must not raise on a valid algebra element
        if mode in (2, 7):   # inference_mode / nn.Parameter through ltype.Exp are not documented usage: observation only
            ctx.count(f"observation.raises.{MODES[mode]}")
            return
        ctx.fail(case, f"raises: Exp/matrix on {U.ALG[name]} {dtype} shape {tuple(shape)} raised {type(ex).__name__}: {str(ex)[:160]}")
        return
    for pr in problems:
        ctx.fail(case, pr)
    if T is None:
        return
    if rows64:   # non-finite output for a finite input is a failure of the property by itself
        bad = (~torch.isfinite(T)).any(dim=1) | (~torch.isfinite(M)).any(dim=1)
        if bool(bad.any()):
            i = int(bad.nonzero()[0])
            ctx.fail(case | {"item": i}, f"nonfinite: Exp/matrix of a finite {U.ALG[name]} element is not finite ({dtype}, regime "
                                         f"{regime_tag(name, rows64[i], e)}); x = {rows64[i]}")
    for i, xi in enumerate(rows64):
        lines.append(U.model_call(f"c01.{U.ALG[name]}", e, xi))
        metas.append((case, i, T[i].tolist(), M[i].tolist()))
        nontriv = any(v != 0 for v in xi)
        ctx.note_case((name, dtype, regime_tag(name, xi, e)), nontriv)
        ctx.count(f"{U.ALG[name]}.{dtype} {coarse_regime(name, xi, e)}")
    ctx.count(f"batch.{stream}.{U.ALG[name]}.{dtype}")
    ctx.count(f"shape.rank{len(shape)}")
    ctx.count(f"mode.{MODES[mode]}")
    if rows64:
        ctx.sample({"type": U.ALG[name], "dtype": dtype, "shape": list(shape), "regimes": [regime_tag(name, r, e) for r in rows64[:4]]}, cap=10)


def near_threshold(name, dtype, xi):
    e = common.EPS[dtype]
    th, _, sg = blocks_of(name, xi)
    w = 64 * e
    return abs(th - e) <= w * e or (sg is not None and abs(abs(sg) - e) <= w * e)


def compare_all(ctx: Ctx, lines, metas):
    """send the queued lines to the model, compare item-wise; near a switch-over point the neighbouring
    branch (eps scaled by 1 -+ 2^-20 >> dtype rounding of theta) is accepted as well"""
    reps = ctx.driver.run(lines)
    retry = []
    worst = {}
    for rep, (case, i, gt, gm) in zip(reps, metas):
        name, dtype = case["type"], case["dtype"]
        g = U.GDIM[name]
        w = fast_nums(rep)
        errs = item_errors(name, dtype, case["X"][i], gt, gm, w[:g], w[g:])
        for k2, v in errs.items():
            key = f"{dtype}.{k2}"
            if v > worst.get(key, 0.0):
                worst[key] = v
        bad = bad_blocks(errs)
        if bad:
            if near_threshold(name, dtype, case["X"][i]):
                retry.append((case, i, gt, gm, bad))
            else:
                report(ctx, case, i, bad)
    if retry:
        l2 = []
        for case, i, gt, gm, bad in retry:
            e = common.EPS[case["dtype"]]
            for f in (1 - 2.0 ** -20, 1 + 2.0 ** -20):
                l2.append(U.model_call(f"c01.{U.ALG[case['type']]}", e * f, case["X"][i]))
        r2 = ctx.driver.run(l2)
        for j, (case, i, gt, gm, bad) in enumerate(retry):
            name, dtype = case["type"], case["dtype"]
            g = U.GDIM[name]
            ok = False
            for rep in r2[2 * j:2 * j + 2]:
                w = fast_nums(rep)
                if not bad_blocks(item_errors(name, dtype, case["X"][i], gt, gm, w[:g], w[g:])):
                    ok = True
            ctx.count("near-threshold-retries")
            if not ok:
                report(ctx, case, i, bad)
    ctx.notes.append("worst block errors (x the property's tolerance): " +
                     ", ".join(f"{k2}={v:.3f}" for k2, v in sorted(worst.items())))
    measure_rounded(ctx, reps, metas)
    return worst


K_GQ, K_GS, K_GM = 16.0, 16.0, 8.0


def measure_rounded(ctx: Ctx, reps, metas):
    """the hypotheses of the rounded-arithmetic theorems (`rounded_so3Exp`, `rounded_se3Exp`, `rounded_rxso3Exp`, `rounded_sim3Exp`), measured on every sampled
    case: gamma_q = componentwise distance of the stored quaternion to the model's (up to the overall sign), gamma_s = relative
    distance of the stored scale, gamma_t = distance of the stored translation, gamma_M = distance of the stored matrix to the
    EXACT matrix of the STORED element (model `matrix` in 192 bits on the stored floats: the rounding of `matrix()` alone)."""
    l2, idx = [], []
    for k, (case, i, gt, gm) in enumerate(metas):
        if all(math.isfinite(v) for v in gt + gm):
            l2.append(U.model_call(f"{case['type']}.matrix", common.EPS[case["dtype"]], gt))
            idx.append(k)
    r2 = ctx.driver.run(l2)
    wq, ws, wm, wt = {}, {}, {}, {}
    for rep, k in zip(r2, idx):
        case, i, gt, gm = metas[k]
        name, dtype = case["type"], case["dtype"]
        e = common.EPS[dtype]
        n, g = U.MATN[name], U.GDIM[name]
        w = fast_nums(reps[k])
        q, qm = gt[U.QSL[name]], w[:g][U.QSL[name]]
        gq = min(max(abs(a - b) for a, b in zip(q, qm)), max(abs(a + b) for a, b in zip(q, qm)))
        s_st = gt[U.SIDX[name]] if U.SIDX[name] is not None else 1.0
        gs = abs(s_st - w[U.SIDX[name]]) / w[U.SIDX[name]] if U.SIDX[name] is not None else 0.0
        Mx = fast_nums(rep)          # exact matrix of the stored element
        gM = max(abs(gm[r * n + c] - Mx[r * n + c]) for r in range(3) for c in range(3)) / abs(s_st)
        wq[dtype] = max(wq.get(dtype, 0.0), gq / e)
        ws[dtype] = max(ws.get(dtype, 0.0), gs / e)
        wm[dtype] = max(wm.get(dtype, 0.0), gM / e)
        bad = {}
        if not gM <= K_GM * e:
            bad["gamma_M(rotation block)"] = gM / e
        if n == 4:
            tsc = max((abs(v) for v in gt[U.TSL[name]]), default=0.0) if U.TSL[name] is not None else 0.0
            gMt = max(abs(gm[r * 4 + 3] - Mx[r * 4 + 3]) for r in range(3))
            wt[dtype] = max(wt.get(dtype, 0.0), (gMt / (e * tsc)) if tsc > 0 else (0.0 if gMt == 0 else float("inf")))
            if not gMt <= 4 * e * tsc:
                bad["gamma_M(translation column)"] = gMt
            if gm[12:16] != Mx[12:16]:
                bad["gamma_M(bottom row)"] = "differs"
        ctx.count("rounded-hypotheses-measured")
        if bad:
            c = dict(case)
            c["item"] = i
            ctx.disagree("rounded", c, f"{U.ALG[name]} {dtype} item {i}: matrix() of the stored element is not the exact matrix of that "
                                       f"element to the accuracy assumed by the rounded-arithmetic theorems (x eps): {bad}; stored = {gt}")
    ctx.notes.append("rounded-arithmetic hypotheses measured on every sampled case (x eps): " + ", ".join(
        f"{d}: gamma_q={wq.get(d, 0):.2f} gamma_s={ws.get(d, 0):.2f} gamma_M={wm.get(d, 0):.2f} gamma_M(t)={wt.get(d, 0):.2f}"
        for d in sorted(wq)) + f" (assumed <= {K_GQ:g}, {K_GS:g}, {K_GM:g}, 4)")


def report(ctx: Ctx, case, i, bad):
    name, dtype = case["type"], case["dtype"]
    e = common.EPS[dtype]
    c = dict(case)
    c["item"] = i
    ctx.disagree("exp", c, f"{U.ALG[name]} {dtype} item {i} of shape {case['shape']} regime {regime_tag(name, case['X'][i], e)}: "
                           f"blocks beyond tolerance (x tol) {bad}; x = {case['X'][i]}")


# ----------------------------------------------------------------------------- streams

def batches_from(rng, items, maxn=27):
    """cut a shuffled item list into batches with random shapes (mixed regimes inside one batch)"""
    rng.shuffle(items)
    out, i = [], 0
    while i < len(items):
        shape = U.rand_shape(rng, 3)
        n = int(math.prod(shape))
        if rng.random() < 0.5:
            n = rng.randint(4, maxn)
            shape = (n,)
        n = min(n, len(items) - i)
        if int(math.prod(shape)) != n:
            shape = (n,)
        out.append((items[i:i + n], shape))
        i += n
    return out


def run_grid(ctx: Ctx, lines, metas, reps_per_cell=1):
    rng = ctx.rng
    for dtype in ("float64", "float32"):
        e = common.EPS[dtype]
        for name in U.GROUPS:
            items = []
            sigs = sigma_ladder(e) if name in ("RxSO3", "Sim3") else [0.0]
            for th in theta_ladder(e):
                for sg in sigs:
                    for _ in range(reps_per_cell * (1 if len(sigs) > 1 else 8)):
                        items.append(make_item(rng, name, e, th, sg, gen_tau(rng, e)))
            for rows, shape in batches_from(rng, items):
                check_batch(ctx, "grid", name, dtype, rows, shape, rng.randrange(3), lines, metas)


def run_random(ctx: Ctx, n_batches, lines, metas):
    rng = ctx.rng
    for bi in range(n_batches):
        name = rng.choice(U.GROUPS)
        dtype = rng.choice(["float64", "float64", "float32"])
        e = common.EPS[dtype]
        c = rng.random()
        if c < 0.03:
            shape = rng.choice([(0,), (2, 0), (0, 3)])
        elif c < 0.5:
            shape = U.rand_shape(rng, 3)
        else:
            shape = (rng.randint(2, 12),)
        n = int(math.prod(shape))
        rows = [gen_item(rng, name, e) for _ in range(n)]
        check_batch(ctx, "random", name, dtype, rows, shape, rng.randrange(12), lines, metas,
                    mode=rng.choice([0, 0, 0, 1, 2, 3, 4, 5, 6, 7]), own=rng.random() < 0.3)


def run_repeat(ctx: Ctx, n_rounds, lines, metas):
    """the same batch shape is reused many times in a row while everything else changes between the calls: regime
    content (all small / all large / mixed), algebra type, dtype, way of calling — a cache keyed by too little
    (shape only, shape+dtype, …) or a mask kept from an earlier call only shows in such a history"""
    rng = ctx.rng
    for _ in range(n_rounds):
        shape = (rng.randint(1, 4),)
        order = [(nm, dt_) for nm in U.GROUPS for dt_ in ("float64", "float32")]
        rng.shuffle(order)
        for k, (name, dtype) in enumerate(order[:6]):
            e = common.EPS[dtype]
            rows = []
            for i in range(shape[0]):
                small = (k % 3 == 0) or (k % 3 == 2 and i % 2 == 0)
                if small:
                    rows.append(make_item(rng, name, e, rng.choice([0.0, e / 2, 1e-30]), rng.choice([0.0, e / 2, -e / 2]),
                                          U.gen_mag(rng, e, TAU_MAX)))
                else:
                    rows.append(make_item(rng, name, e, rng.uniform(0.1, THETA_MAX), rng.choice([-1, 1]) * rng.uniform(0.1, 3.0),
                                          U.gen_mag(rng, e, TAU_MAX)))
            check_batch(ctx, "repeat", name, dtype, rows, shape, rng.randrange(3), lines, metas, extra={"round": k})


# ----------------------------------------------------------------------------- deterministic corner corpus

def corner_values(e):
    """switch-over point -1 ulp / exact / +1 ulp, zero, tiny, sqrt(eps), O(1), extremes — all exactly representable"""
    up, dn = e * (1 + e), e * (1 - e / 2)
    se = math.sqrt(e)
    sub, tiny = (5e-324, 1e-300) if e < 1e-10 else (1.401298464324817e-45, 1e-36)   # smallest subnormal, near the bottom
    th = [0.0, sub, tiny, 1e-30, dn, e, up, 2 * e, 64 * e, se, 1e-3, 1.0, math.pi, math.pi * (1 + 2 * e), 2 * math.pi, 7.0, THETA_MAX]
    sg_pos = [sub, tiny, 1e-30, dn, e, up, 2 * e, 64 * e, e * 2.0 ** 20, se, 1e-3, 1.0, SIGMA_MAX]
    return th, [0.0] + sg_pos + [-v for v in sg_pos]


CORNER_DIRS = [(0.0, 0.0, 1.0), (0.36, -0.48, 0.8)]
CORNER_TAUS = [(0.0, 0.0, 0.0), (1.0, -2.0, 0.5), (TAU_MAX, 0.0, 0.0), (1e-30, 1e-30, -1e-30), (-0.3, 0.4, 1e-9), (2e6, -1e9, 3e3),
               (1e30, -1e25, 1e28), (1e-36, 0.0, -2e-36)]


def up_of(e):
    return e * (1 + e)


def corpus_batches():
    """7-tuples (name, dtype, rows, shape, api, mode, own)"""
    for t in _corpus_batches():
        yield t if len(t) == 7 else tuple(t) + (0, False)


SPECIAL_SHAPES = [(3,), (3, 3), (1, 3), (3, 1), (3, 3, 3), (2, 3), (3, 2), (4,), (4, 4), (6,), (6, 6), (7,), (7, 7), (8,), (5,), (11,), (13,),
                  (17,), (1, 1, 3), (3, 1, 1), (4, 3), (3, 4), (6, 3), (3, 7)]


def _corpus_batches():
    """seed-independent: every (theta, sigma) corner pair, axis-aligned (norm exact) and generic direction, fixed
    translations, logarithmic sweeps, fixed batch cuts (mixed regimes), degenerate shapes.
    yields (name, dtype, rows, shape, api)"""
    for dtype in ("float64", "float32"):
        e = common.EPS[dtype]
        ths, sgs = corner_values(e)
        for name in ("Sim3", "SE3", "RxSO3", "SO3"):
            has_s, has_t = name in ("RxSO3", "Sim3"), name in ("SE3", "Sim3")
            items, k = [], 0
            for th in ths:
                for d in CORNER_DIRS:
                    for sg in (sgs if has_s else [0.0]):
                        out = []
                        if has_t:
                            out += list(CORNER_TAUS[k % len(CORNER_TAUS)])
                        out += [th * d[0], th * d[1], th * d[2]]
                        if has_s:
                            out.append(sg)
                        items.append(out)
                        k += 1
            # logarithmic sweeps, 4 points per decade: no band of theta or |sigma| wider than a quarter decade is skipped
            d = CORNER_DIRS[1]
            sw = []
            for j in range(-72, 5):          # theta = 1e-18 .. 10
                th = 10.0 ** (j / 4)
                for sg in ((0.0, 1e-30, -e / 2, 3e-9, -1e-3, 1.0) if has_s else (0.0,)):
                    sw.append((th, sg))
            if has_s:
                for j in range(-72, 4):      # |sigma| = 1e-18 .. 5.6
                    for sgn in (1.0, -1.0):
                        for th in (0.0, e / 2, 1e-9, 1e-3, 1.0, 4.0):
                            sw.append((th, sgn * 10.0 ** (j / 4)))
            for th, sg in sw:
                out = (list(CORNER_TAUS[1]) if has_t else []) + [th * d[0], th * d[1], th * d[2]] + ([sg] if has_s else [])
                items.append(out)
            for i in range(0, len(items), 23):
                rows = items[i:i + 23]
                yield name, dtype, rows, (len(rows),), (i // 23) % 6
            # mixed-regime pairs: every ordered pair of representative items, each item alone, all together in both
            # orders (a batch-level any()/all() decision shows in exactly one of these), expanded and view inputs
            reps = []
            for th, sg, tk in ((0.0, 0.0, 1), (e / 2, -e / 2, 1), (up_of(e), up_of(e), 4), (1e-9, 3e-9, 1), (1.0, -1.0, 5),
                               (4.0, 3.0, 2), (0.0, 1.0, 1), (2.0, 0.0, 1)):
                reps.append((list(CORNER_TAUS[tk]) if has_t else []) + [th * d[0], th * d[1], th * d[2]] + ([sg] if has_s else []))
            for r in reps:
                yield name, dtype, [r], (1,), 0
                yield name, dtype, [r, r, r], (3,), 7           # expanded (stride 0) input
                yield name, dtype, [r] * 4, (2, 2), 7
            for i1, r1 in enumerate(reps):
                for i2, r2 in enumerate(reps):
                    if i1 != i2:
                        yield name, dtype, [r1, r2], (2,), 0
            yield name, dtype, reps, (len(reps),), 5
            yield name, dtype, reps[::-1], (len(reps),), 3
            yield name, dtype, reps, (2, 4), 6
            yield name, dtype, reps[::-1], (4, 2), 5
            # grad modes x operand types x memory layouts (varied together), outputs must own their memory
            for mode in range(8):   # mode 8 (user subclass of LieTensor) cannot even be constructed on the clean tree: observation only
                for api in ((0, 1, 3, 5, 9) if mode in (0, 1, 4) else (0, 5)):
                    yield name, dtype, reps, (len(reps),), api, mode, True
                yield name, dtype, reps, (2, 4), 6, mode, True
                yield name, dtype, [reps[4]] * 3, (3,), 7, mode, True
            yield name, dtype, reps, (len(reps),), 8, 0, True
            # special sizes in every batch position (3 = torch.cross without dim, 4/6/7/8 = feature dims, primes), mixed regimes
            pool = reps + items[::37]
            kk = 0
            for shp in SPECIAL_SHAPES:
                nn_ = int(math.prod(shp))
                rows = [pool[(kk + 5 * i) % len(pool)] for i in range(nn_)]
                kk += 3
                yield name, dtype, rows, shp, 0, 0, (nn_ <= 16)
                if nn_ <= 9:
                    yield name, dtype, [reps[4 + (i % 2)] for i in range(nn_)], shp, 0, 0, True       # homogeneous large
                    yield name, dtype, [reps[i % 2] for i in range(nn_)], shp, 0, 0, True             # homogeneous zero / tiny
            # density around the switch-over points: eps(1 +- k ulp), eps(1 +- 2^-10), eps(1 +- 1e-3), both blocks, both signs
            dens = []
            for rel in (-1e-3, -2.0 ** -10, -3 * e, -2 * e, -e, -e / 2, 0.0, e, 2 * e, 3 * e, 2.0 ** -10, 1e-3):
                v = e * (1 + rel)
                for (th, sg) in ((v, 0.7), (1.0, v), (1.0, -v), (v, v), (v, -v)):
                    for dd in CORNER_DIRS:
                        dens.append((list(CORNER_TAUS[1]) if has_t else []) + [th * dd[0], th * dd[1], th * dd[2]] + ([sg] if has_s else []))
            for i in range(0, len(dens), 24):
                yield name, dtype, dens[i:i + 24], (len(dens[i:i + 24]),), 0
            # exact coincidences of two data-dependent quantities (bit for bit): theta == |sigma|, theta == 2|sigma|, equal and
            # opposite components, theta an exact multiple of pi/2 in the dtype, sigma == +-theta at the switch-over point
            ties = []
            pif = float(torch.tensor(math.pi, dtype=U.dt(dtype)))
            for v in (0.5, 1.0, 2.0 ** -20, e, e * (1 + e), 3.0, pif, pif / 2, 2 * pif, 64 * e):
                for (th, sg) in ((v, v), (v, -v), (2 * v, v), (v, 2 * v), (v, -2 * v)):
                    for dd in ((0.0, 0.0, 1.0), (1.0, 0.0, 0.0)):
                        ties.append((list(CORNER_TAUS[1]) if has_t else []) + [th * dd[0], th * dd[1], th * dd[2]] + ([sg] if has_s else []))
                for comp in ((v, v, v), (v, -v, v), (v, v, 0.0), (-v, 0.0, v)):
                    ties.append(([v, v, v] if has_t else []) + list(comp) + ([v] if has_s else []))
            # NEAR coincidences, between round-off and the default tolerances of allclose / isclose (rtol 1e-5, atol 1e-8): a hidden
            # "helpful" heuristic keyed on `isclose(theta, |sigma|)`, `isclose(x, 0)` … only shows in this band; huge tau so it matters
            for v in (0.5, 1e-3, 2.0, 1e-7):
                for rel in (1e-6, -1e-6, 1e-9, 3e-6, -1e-5, 1e-12):
                    for sgn in (1.0, -1.0):
                        ties.append(([TAU_MAX, -2.0, 0.5] if has_t else []) + [0.0, 0.0, v] + ([sgn * v * (1 + rel)] if has_s else []))
            for v in (1e-9, 1e-8 * (1 - 1e-3), 1e-8 * (1 + 1e-3), 1e-6, 1e-5 * (1 - 1e-3), 1e-5 * (1 + 1e-3)):
                ties.append(([1e6, -2e6, 3e5] if has_t else []) + [v * d[0], v * d[1], v * d[2]] + ([v] if has_s else []))
                ties.append(([1e6, -2e6, 3e5] if has_t else []) + [1.0 * d[0], 1.0 * d[1], 1.0 * d[2]] + ([-v] if has_s else []))
            for i in range(0, len(ties), 20):
                yield name, dtype, ties[i:i + 20], (len(ties[i:i + 20]),), 0
            # degenerate shapes
            z = [0.0] * U.ADIM[name]
            one = items[len(items) // 2]
            for shape, rows in (((), [one]), ((1,), [z]), ((1, 1, 1), [one]), ((0,), []), ((2, 0), []), ((2, 1, 2), [z, one, one, z])):
                yield name, dtype, rows, shape, 0


def reuse_history():
    """seed-independent call history under ONE batch shape: types, dtypes, regimes and grad modes alternate between the
    calls, in three different orders (a module-level cache written by one type/dtype and read by another)"""
    d = CORNER_DIRS[1]
    k = 0
    seq = ["SE3", "Sim3", "SO3", "RxSO3", "Sim3", "SE3", "RxSO3", "SO3"]
    for rnd, order in enumerate((seq, seq[::-1], seq[3:] + seq[:3])):
        for name in order:
            for dtype in (("float64", "float32") if rnd % 2 == 0 else ("float32", "float64")):
                e = common.EPS[dtype]
                has_s, has_t = name in ("RxSO3", "Sim3"), name in ("SE3", "Sim3")
                rows = []
                for i in range(3):
                    small = (k % 3 == 0) or (k % 3 == 2 and i == 1)
                    th, sg = ((e / 2, -e / 2) if small else (1.0 + i, 0.5 * (i + 1) * (-1) ** k))
                    rows.append((list(CORNER_TAUS[1]) if has_t else []) + [th * d[0], th * d[1], th * d[2]] + ([sg] if has_s else []))
                yield name, dtype, rows, (3,), 0, (k * 3) % 8
                k += 1


def failing_calls(ctx: Ctx):
    """error paths: calls that must raise (Exp of a group element, an algebra type applied to a tensor of the wrong width).
    They are placed between the calls of the reuse history — whatever they do, the next valid call must be right."""
    P = U.pp()
    for fn in (lambda: P.identity_SE3(3).Exp(),
               lambda: P.so3_type.Exp(torch.ones(3, 4)),
               lambda: P.sim3_type.Exp(torch.ones(3, 6, dtype=torch.float64)),
               lambda: P.se3_type.Exp(torch.ones(3, 3)),
               lambda: P.rxso3_type.Exp("not a tensor")):
        try:
            fn()
            ctx.count("error-path.no-raise")
        except Exception:
            ctx.count("error-path.raised")


def copies_probe(ctx: Ctx):
    """copy.deepcopy / pickle round trip / clone of an algebra LieTensor, then original and copies are updated in place
    independently and read interleaved: each must give the Exp of its own current data (bit for bit against a fresh
    LieTensor built from that data); copy.copy shares storage with the original (torch semantics) and must follow it."""
    import copy
    import pickle
    P = U.pp()
    d = CORNER_DIRS[1]
    for name in U.GROUPS:
        for dtype in ("float64", "float32"):
            D = U.dt(dtype)
            lt_ = alg_ltype(name)
            has_s, has_t = name in ("RxSO3", "Sim3"), name in ("SE3", "Sim3")
            rows = [(list(CORNER_TAUS[1]) if has_t else []) + [th * d[0], th * d[1], th * d[2]] + ([sg] if has_s else [])
                    for th, sg in ((1.0, 0.5), (0.0, 0.0), (3.5, -1.0))]
            case = {"stream": "copies", "type": name, "dtype": dtype}
            try:
                x = P.LieTensor(torch.tensor(rows, dtype=torch.float64).to(D), ltype=lt_)
                x.Exp()                                     # a cache would be filled here
                objs = {"original": x, "deepcopy": copy.deepcopy(x), "pickle": pickle.loads(pickle.dumps(x)), "clone": x.clone()}
                shallow = copy.copy(x)
                bump = torch.tensor(rows, dtype=torch.float64).to(D)
                sched = [("original", 0.5), ("deepcopy", -0.25), ("pickle", 2.0), ("clone", 0.0), ("original", 1.5), ("GEN2", 0.0),
                         ("deepcopy2", 0.5), ("pickle2", -0.5), ("deepcopy2", 0.25), ("original", -1.0), ("pickle2", 0.125),
                         ("deepcopy2", 1.0), ("deepcopy", 0.75), ("pickle2", -2.0)]
                for step, (who, fac) in enumerate(sched):
                    if who == "GEN2":   # copies taken from an object that has a history of updates and reads
                        objs["deepcopy2"] = copy.deepcopy(objs["original"])
                        objs["pickle2"] = pickle.loads(pickle.dumps(objs["original"]))
                        continue
                    objs[who].add_(fac * bump)
                    for label, o in list(objs.items()) + [("copy.copy(shares storage)", shallow)]:
                        ref = P.LieTensor(torch.Tensor.as_subclass(o, torch.Tensor).detach().clone(), ltype=lt_)
                        got, want = o.Exp().tensor(), ref.Exp().tensor()
                        gm, wm = o.matrix(), ref.matrix()
                        ctx.note_case(("copies", name, dtype, label, step), True)
                        ctx.count("copies")
                        if not (bool(torch.isfinite(got).all()) and bool(torch.isfinite(gm).all())):
                            ctx.fail(case | {"step": step, "read": label, "x": torch.Tensor.as_subclass(o, torch.Tensor).detach().double().tolist()},
                                     f"nonfinite: Exp/matrix of the {label} of a {U.ALG[name]} LieTensor is not finite (step {step}, {dtype})")
                        if not (torch.equal(torch.nan_to_num(got), torch.nan_to_num(want)) and torch.equal(torch.nan_to_num(gm), torch.nan_to_num(wm))):
                            ctx.fail(case | {"step": step, "updated": who, "read": label},
                                     f"copies: Exp/matrix of the {label} of a {U.ALG[name]} LieTensor after updating the {who} in place "
                                     f"(step {step}) is not the Exp of its current data ({dtype})")
                if not torch.equal(torch.Tensor.as_subclass(shallow, torch.Tensor), torch.Tensor.as_subclass(x, torch.Tensor)):
                    ctx.count("copies.shallow-detached")
            except Exception as ex:   # copy operations that do not work on this tree are an observation, not a verdict
                ctx.count("observation.copies-probe-raised")
                ctx.notes.append(f"copies probe on {U.ALG[name]} {dtype} raised {type(ex).__name__}: {str(ex)[:120]}")


def run_corpus(ctx: Ctx, lines, metas):
    for j, (name, dtype, rows, shape, api, mode) in enumerate(reuse_history()):
        if j % 4 == 1:
            failing_calls(ctx)
        check_batch(ctx, "reuse", name, dtype, rows, shape, api, lines, metas, mode=mode)
    copies_probe(ctx)
    for name, dtype, rows, shape, api, mode, own in corpus_batches():
        check_batch(ctx, "corpus", name, dtype, rows, shape, api, lines, metas, mode=mode, own=own)





# ----------------------------------------------------------------------------- layout x regime-minority x size (class 39 / 41)

def minority_batches(quick=False):
    """seed independent: 2-D / 3-D lshapes of 20..64 items in which ONE / A FEW (<= 1/8) / MOST items are EXACTLY degenerate in one
    block (rotation, scale, translation, all) and the rest generic; yields (name, dtype, rows, shape, degenerate indices)"""
    d = CORNER_DIRS[1]
    for dtype in ("float64", "float32"):
        for name in U.GROUPS:
            has_s, has_t = name in ("RxSO3", "Sim3"), name in ("SE3", "Sim3")
            blocks = ["rot", "all"] + (["scale"] if has_s else []) + (["trans"] if has_t else [])
            for shape in (((6, 4), (2, 3, 4), (4, 4, 4)) if quick else ((6, 4), (9, 5), (2, 3, 4), (4, 4, 4), (3, 7), (2, 2, 8))):
                n = int(math.prod(shape))
                for kdeg in (1, max(1, n // 8), n - 2):
                    for block in blocks:
                        deg = sorted({(3 + 7 * j) % n for j in range(kdeg)} | ({n - 1} if kdeg > 1 else set()))[:kdeg] if kdeg < n - 2 \
                            else [i for i in range(n) if i not in (1, n // 2)]
                        rows = []
                        for i in range(n):
                            th = 0.3 + 0.07 * (i % 29)
                            sg = (0.2 + 0.05 * (i % 23)) * (-1) ** i
                            tau = [1.0 + 0.1 * i, -2.0 + 0.05 * i, 0.5 * (-1) ** i]
                            if i in deg:
                                if block in ("rot", "all"):
                                    th = 0.0
                                if block in ("scale", "all"):
                                    sg = 0.0
                                if block in ("trans", "all"):
                                    tau = [0.0, 0.0, 0.0]
                            rows.append((tau if has_t else []) + [th * d[0], th * d[1], th * d[2]] + ([sg] if has_s else []))
                        yield name, dtype, rows, shape, deg, f"{block}:{kdeg}/{n}"


def run_minority(ctx: Ctx, lines, metas):
    """every entry point on batches whose batch dimensions have PERMUTED strides, with exactly-degenerate items in minority and in
    majority: the batched result of each layout must equal, bit for bit, the result on the contiguous clone; the degenerate items
    (and two generic ones) must equal the same call on that item ALONE; those items also go to the model (and the mpmath oracle on
    the same batch and layout if they disagree)."""
    P = U.pp()
    for name, dtype, rows, shape, deg, tag in minority_batches(ctx.quick):
        e = common.EPS[dtype]
        g, m = U.GDIM[name], U.MATN[name]
        r64 = U.to_dtype_exact(rows, dtype)[1].tolist()
        n = len(r64)
        ref = None
        for api in (0, 10, 6, 11):
            if api == 11 and len(shape) < 3:
                continue
            case = {"stream": "minority", "type": name, "dtype": dtype, "shape": list(shape), "api": api, "mode": 0, "own": False, "X": r64,
                    "composition": tag}
            try:
                T, M, problems, x = run_impl(name, dtype, r64, shape, api)
            except Exception as ex:
                ctx.fail(case, f"raises: Exp/matrix on {U.ALG[name]} {dtype} shape {tuple(shape)} (layout {api}, {tag} degenerate) raised "
                               f"{type(ex).__name__}: {str(ex)[:140]}")
                continue
            for pr in problems:
                ctx.fail(case, pr)
            if T is None:
                continue
            ctx.count(f"minority.{U.ALG[name]}.layout{api}")
            nf = (~torch.isfinite(T)).any(dim=1) | (~torch.isfinite(M)).any(dim=1)
            if bool(nf.any()):
                i = int(nf.nonzero()[0])
                ctx.fail(case | {"item": i}, f"nonfinite: item {i} of a {U.ALG[name]} batch {tuple(shape)} (layout {api}, {tag} degenerate) is not finite; x = {r64[i]}")
                continue
            if api == 0:
                ref = (T, M)
                # the special items and two generic ones against the same call on the item alone, and to the model
                for i in sorted(set(deg[:3] + deg[-1:] + [1, n // 2])):
                    Ti, Mi, _, _ = run_impl(name, dtype, [r64[i]], (1,), 0)
                    if not (torch.equal(Ti[0], T[i]) and torch.equal(Mi[0], M[i])):
                        ctx.fail(case | {"item": i}, f"alone: item {i} of a {U.ALG[name]} batch {tuple(shape)} ({dtype}, {tag} degenerate) differs from the same "
                                                     f"element evaluated alone: {T[i].tolist()} vs {Ti[0].tolist()}; x = {r64[i]}")
                    lines.append(U.model_call(f"c01.{U.ALG[name]}", e, r64[i]))
                    metas.append((case, i, T[i].tolist(), M[i].tolist()))
                    ctx.note_case((name, dtype, regime_tag(name, r64[i], e), "minority", tag), True)
            elif ref is not None:
                neq = (~(T == ref[0])).any(dim=1) | (~(M == ref[1])).any(dim=1)
                if bool(neq.any()):
                    i = int(neq.nonzero()[0])
                    ctx.fail(case | {"item": i}, f"layout: item {i} of a {U.ALG[name]} batch {tuple(shape)} ({dtype}, {tag} degenerate) with permuted batch strides "
                                                 f"(layout {api}) differs from the contiguous clone: {T[i].tolist()} vs {ref[0][i].tolist()}; x = {r64[i]}")
                    # the same item of THIS layout to the model / oracle as well
                    lines.append(U.model_call(f"c01.{U.ALG[name]}", e, r64[i]))
                    metas.append((case, i, T[i].tolist(), M[i].tolist()))

# ----------------------------------------------------------------------------- large batches (internal block boundaries)

def large_rows(name, dtype, n):
    """n rows cycling through a fixed mixed-regime pool (seed independent); the LAST rows are ordinary large-angle items"""
    e = common.EPS[dtype]
    d = CORNER_DIRS[1]
    has_s, has_t = name in ("RxSO3", "Sim3"), name in ("SE3", "Sim3")
    pool = []
    for th, sg, tk in ((1.0, -1.0, 1), (0.0, 0.0, 1), (e / 2, -e / 2, 4), (2.5, 0.5, 5), (1e-9, 3e-9, 1), (4.0, 3.0, 2), (0.3, 0.0, 1),
                       (e * (1 + e), e * (1 + e), 1), (3.0, -2.0, 1), (0.7, 1e-3, 4), (6.0, 0.25, 1)):
        pool.append((list(CORNER_TAUS[tk]) if has_t else []) + [th * d[0], th * d[1], th * d[2]] + ([sg] if has_s else []))
    t = torch.tensor(pool, dtype=torch.float64)
    idx = (torch.arange(n) * 7) % len(pool)
    rows = t[idx]
    scale = 1.0 + (torch.arange(n, dtype=torch.float64) % 13) / 64.0      # every row different, exactly representable factors
    rows = rows * scale.unsqueeze(-1)
    if has_s:
        rows[:, -1] = t[idx][:, -1]
    rows[-1] = t[0] * 1.25
    rows[-2] = t[3]
    return rows.to(U.dt(dtype))


def run_large(ctx: Ctx, configs):
    """batches around internal block sizes (2^k, 2^k +- 1, up to > 2^16): split consistency bit for bit —
    f(x) == cat(f(x[:a]), f(x[a:])) for a few cuts, f(x)[i] == f(x[i:i+1]) for first / last / some items — and the mpmath oracle on
    sampled items including the LAST one.  No model needed on 10^5 items."""
    P = U.pp()
    for name, dtype, shape in configs:
        n = int(math.prod(shape))
        g, m = U.GDIM[name], U.MATN[name]
        lt_ = alg_ltype(name)
        case = {"stream": "large", "type": name, "dtype": dtype, "shape": list(shape), "n": n}
        try:
            rows = large_rows(name, dtype, n)
            data = rows.reshape(tuple(shape) + (U.ADIM[name],))

            def f(t):
                X = P.LieTensor(t, ltype=lt_).Exp()
                return X.tensor(), X.matrix()
            T, M = f(data)
            if tuple(T.shape) != tuple(shape) + (g,) or tuple(M.shape) != tuple(shape) + (m, m):
                ctx.fail(case, f"type: Exp/matrix of a {U.ALG[name]} batch of shape {tuple(shape)} returned {tuple(T.shape)} / {tuple(M.shape)}")
                continue
            Tf, Mf = T.reshape(n, g), M.reshape(n, m * m)
            nf = (~torch.isfinite(Tf)).any(dim=1) | (~torch.isfinite(Mf)).any(dim=1)
            if bool(nf.any()):      # a non-finite result for a finite input fails by itself (and would compare "equal" to itself below)
                i = int(nf.nonzero()[0])
                xi = rows[i].double().tolist()
                ctx.fail(case | {"item": i, "x": xi}, f"nonfinite: item {i} of a {U.ALG[name]} batch of {n} ({dtype}): Exp/matrix is not finite; x = {xi}")
                continue
            ctx.note_case(("large", name, dtype, tuple(shape)), True)
            ctx.count(f"large.{U.ALG[name]}.{dtype}.n={n}")
            bad = None
            for a in ((n // 2, n - 1) if n <= (1 << 15) else (n // 2,)):
                if 0 < a < n:
                    T1, M1 = f(rows[:a])
                    T2, M2 = f(rows[a:])
                    Tc, Mc = torch.cat([T1, T2]), torch.cat([M1.reshape(-1, m * m), M2.reshape(-1, m * m)])
                    neq = (~((Tf == Tc) | (Tf.isnan() & Tc.isnan()))).any(dim=1) | (~((Mf == Mc) | (Mf.isnan() & Mc.isnan()))).any(dim=1)
                    if bool(neq.any()):
                        bad = (int(neq.nonzero()[0]), f"cut at {a}")
                        break
            blocks = {((n - 1) >> k) << k for k in (10, 12, 14, 16, 17, 18, 20)}          # first item of the last (partial) block of size 2^k
            sample = sorted(({0, n - 1, n - 2, n - 37, (1 << 14), (1 << 16), (1 << 17), (1 << 18), n // 3} | blocks | {b - 1 for b in blocks}) & set(range(n)))
            if bad is None:
                for i in sample:
                    Ti, Mi = f(rows[i:i + 1])
                    if not (torch.equal(torch.nan_to_num(Ti[0]), torch.nan_to_num(Tf[i])) and
                            torch.equal(torch.nan_to_num(Mi.reshape(-1)), torch.nan_to_num(Mf[i]))):
                        bad = (i, "item alone")
                        break
            if bad is not None:
                i, how = bad
                xi = rows[i].double().tolist()
                alone_T, alone_M = f(rows[i:i + 1])
                ctx.fail(case | {"item": i, "x": xi}, f"split: item {i} of a {U.ALG[name]} batch of {n} ({dtype}, shape {tuple(shape)}) differs from the "
                         f"same item evaluated in a smaller batch ({how}): batched {Tf[i].tolist()} vs {alone_T[0].tolist()}; x = {xi}")
                continue
            # the property itself on sampled items of the LARGE result (mpmath), including the last item
            for i in sample[:1] + sample[-3:]:
                xi = rows[i].double().tolist()
                E = truth_matrix(name, xi)
                want_m = [float(E[r, c]) for r in range(m) for c in range(m)]
                gt, gm = Tf[i].double().tolist(), Mf[i].double().tolist()
                want_t = list(gt)
                if U.TSL[name] is not None:
                    want_t[U.TSL[name]] = [float(E[r, 3]) for r in range(3)]
                errs = item_errors(name, dtype, xi, gt, gm, want_t, want_m)
                errs.pop("q", None)
                errs.pop("s", None)
                b = bad_blocks(errs)
                if b:
                    ctx.fail(case | {"item": i, "x": xi}, f"{U.ALG[name]}.{sorted(b)[0]}: item {i} of a batch of {n} ({dtype}): matrix/tensor of Exp(x) "
                             f"differs from exp(generator) beyond the property's tolerance: x tol {b}; x = {xi}")
                    break
        except Exception as ex:
            ctx.fail(case, f"raises: Exp/matrix on a {U.ALG[name]} batch of shape {tuple(shape)} ({dtype}) raised {type(ex).__name__}: {str(ex)[:140]}")


def large_configs(quick):
    K14, K16 = 1 << 14, 1 << 16
    cfg = []
    for name in U.GROUPS:
        cfg += [(name, "float64", (K14 + 1,)), (name, "float32", (K14 + 1,)), (name, "float32", (K14,)), (name, "float64", (128, 129)),
                (name, "float64", (K16 + 1,)), (name, "float32", (1, K16 + 1)), (name, "float64", (2 * K14 + 1,)),
                (name, "float32" if name in ("SO3", "Sim3") else "float64", ((1 << 17) + 1,))]
    if not quick:
        for name in U.GROUPS:
            for dtype in ("float64", "float32"):
                for k in (10, 13, 14, 15, 16):
                    for dn in (-1, 0, 1):
                        cfg.append((name, dtype, ((1 << k) + dn,)))
                cfg += [(name, dtype, (257, 257)), (name, dtype, (3, K14 + 1)), (name, dtype, (K14 + 1, 1)), (name, dtype, (3 * K14 + 1,)),
                        (name, dtype, ((1 << 18) + 1,)), (name, dtype, ((1 << 18) + 37,))]
            cfg.append((name, "float64" if name in ("SO3", "SE3") else "float32", ((1 << 20) + 1,)))
    return cfg

# ----------------------------------------------------------------------------- glue stream (dispatch, shapes, dtype eps in the model)

ALL_LTYPES = ["SO3", "so3", "SE3", "se3", "Sim3", "sim3", "RxSO3", "rxso3"]
LT_DIM = {"SO3": 4, "so3": 3, "SE3": 7, "se3": 6, "Sim3": 8, "sim3": 7, "RxSO3": 5, "rxso3": 4}
GROUP_OF = {"so3": "SO3", "se3": "SE3", "sim3": "Sim3", "rxso3": "RxSO3"}


def glue_cases(rng, n_random):
    """(ltype name, dtype, shape incl. last dim, rows) — seed-independent part first: every type x dtype x a list of lshapes
    (rank 0..3, extents 0/1/3), then wrong last dimensions and rank-0 tensors, then random ones"""
    out = []
    for lt in ALL_LTYPES:
        for dtype in ("float64", "float32"):
            for lshape in ((), (1,), (3,), (0,), (2, 3), (3, 1, 2), (2, 0, 3), (1, 1, 1)):
                out.append((lt, dtype, tuple(lshape) + (LT_DIM[lt],), None))
            for bad in (LT_DIM[lt] + 1, LT_DIM[lt] - 1, 1):
                out.append((lt, dtype, (2, bad), None))
            out.append((lt, dtype, (), None))
    for _ in range(n_random):
        lt = rng.choice(ALL_LTYPES)
        dtype = rng.choice(["float64", "float32"])
        lshape = rng.choice([U.rand_shape(rng, 3), (rng.randint(0, 9),), (rng.randint(1, 4), rng.randint(0, 4))])
        last = LT_DIM[lt] if rng.random() < 0.85 else rng.choice([3, 4, 5, 6, 7, 8])
        out.append((lt, dtype, tuple(lshape) + (last,), None))
    return out


def run_glue(ctx: Ctx, n_random):
    """the public path `pp.Exp(pp.LieTensor(data, ltype))` -> `.tensor()`, `.matrix()` against the model's own dispatch
    (`ppExp`, lean/Pose/Model/ExpGlue.lean): accepted/rejected, result ltype, shapes, and the values with the threshold the
    MODEL derives from the dtype (the harness does not pass eps here)"""
    rng = ctx.rng
    P = U.pp()
    lines, metas = [], []
    plines, pmetas = [], []
    for lt, dtype, shape, _ in glue_cases(rng, n_random):
        e = common.EPS[dtype]
        D = U.dt(dtype)
        width = shape[-1] if shape else 1
        nrows = int(math.prod(shape[:-1])) if shape else 1
        alg = lt in GROUP_OF
        if alg and width == LT_DIM[lt]:
            rows = [gen_item(rng, GROUP_OF[lt], e) for _ in range(nrows)]
        elif (not alg) and width == LT_DIM[lt]:
            rows = [U.gen_group(rng, lt, e)[0] for _ in range(nrows)]
        else:
            rows = [[rng.uniform(-1, 1) for _ in range(width)] for _ in range(nrows)]
        data = torch.tensor(rows, dtype=torch.float64).reshape(shape).to(D) if shape else torch.tensor(0.5, dtype=D)
        flat = data.double().reshape(-1).tolist()
        case = {"stream": "glue", "ltype": lt, "dtype": dtype, "shape": list(shape), "data": flat}
        valid = alg and bool(shape) and width == LT_DIM[lt]
        status, X = "ok", None
        try:
            x = P.LieTensor(data, ltype=getattr(P, lt + "_type"))
            try:
                X = P.Exp(x) if rng.random() < 0.5 else x.Exp()
                T, M = X.tensor(), X.matrix()
            except AttributeError:
                status = "noExp"
        except AssertionError:
            status = "lastDim"
        except Exception as ex:
            if valid:
                ctx.fail(case, f"raises: pp.Exp(LieTensor(shape {tuple(shape)}, {lt})) raised {type(ex).__name__}: {str(ex)[:140]}")
                continue
            status = "other:" + type(ex).__name__
        # the plain-Tensor branch of `<lt>_type.Exp(x)`
        pstatus, XP = "ok", None
        try:
            XP = getattr(P, lt + "_type").Exp(data)
        except AttributeError:
            pstatus = "noExp"
        except Exception as ex:
            pstatus = "lastDim" if not valid else "other:" + type(ex).__name__
        if valid:
            if pstatus != "ok":
                ctx.fail(case, f"raises: {lt}_type.Exp(plain Tensor of shape {tuple(shape)}) was rejected ({pstatus})")
            elif status == "ok" and not (isinstance(XP, P.LieTensor) and XP.ltype == X.ltype and XP.shape == X.shape
                                         and torch.equal(torch.nan_to_num(XP.tensor()), torch.nan_to_num(T))):
                ctx.fail(case, f"duck: {lt}_type.Exp(plain Tensor) differs from Exp of the LieTensor with the same data (shape {tuple(shape)}, {dtype})")
        ctx.count(f"glueplain.{lt}.{pstatus}")
        plines.append(f"c01.glueplain {lt} {dtype} {len(shape)} " + " ".join(str(v) for v in shape) + " " + common.wire_list(flat))
        pmetas.append((valid, pstatus, lt))
        ctx.note_case(("glue", lt, dtype, tuple(shape), status), valid)
        ctx.count(f"glue.{lt}.{status}")
        lines.append(f"c01.glue {lt} {dtype} {len(shape)} " + " ".join(str(v) for v in shape) + " " + common.wire_list(flat))
        metas.append((case, valid, status, X, (T, M) if status == "ok" else None, rows))
    for rep, (valid, pstatus, lt) in zip(ctx.driver.run(plines), pmetas):
        mst = "ok" if rep.split()[0] == "ok" else rep.split()[1]
        if valid and mst != "ok":
            raise common.InfraError(f"glue model (plain branch) rejected a valid input: {rep[:80]}")
        if not valid and ((mst == "ok") != (pstatus == "ok") or (mst != "ok" and pstatus != mst)):
            ctx.count(f"observation.glueplain.invalid-input.{lt}.model={mst}.code={pstatus}")
    reps = ctx.driver.run(lines)
    for rep, (case, valid, status, X, TM, rows) in zip(reps, metas):
        toks = rep.split()
        lt, dtype = case["ltype"], case["dtype"]
        mstatus = "ok" if toks[0] == "ok" else toks[1]
        if not valid:
            # invalid caller input: the model says "rejected"; what the code does there is recorded, not judged
            if (mstatus == "ok") != (status == "ok") or (mstatus != "ok" and status != mstatus):
                ctx.count(f"observation.glue.invalid-input.model={mstatus}.code={status}")
            continue
        if mstatus != "ok":
            raise common.InfraError(f"glue model rejected a valid input: {rep[:80]} for {case['ltype']} {case['shape']}")
        if status != "ok":
            ctx.fail(case, f"raises: pp.Exp on a valid {lt} tensor of shape {tuple(case['shape'])} was rejected ({status})")
            continue
        T, M = TM
        g = GROUP_OF[lt]
        pos = 1
        mlt = toks[pos]; pos += 1
        rk = int(toks[pos]); pos += 1
        mshape = [int(v) for v in toks[pos:pos + rk]]; pos += rk
        nd = int(toks[pos]); pos += 1
        mdata = [float(common.from_wire(v)) for v in toks[pos:pos + nd]]; pos += nd
        mrk = int(toks[pos]); pos += 1
        mmshape = [int(v) for v in toks[pos:pos + mrk]]; pos += mrk
        nm = int(toks[pos]); pos += 1
        mmdata = [float(common.from_wire(v)) for v in toks[pos:pos + nm]]
        if type(X).__name__ != "LieTensor" or X.ltype != getattr(U.pp(), mlt + "_type") or list(T.shape) != mshape \
                or list(M.shape) != mmshape or T.dtype != U.dt(dtype) or M.dtype != U.dt(dtype):
            ctx.fail(case, f"type: pp.Exp({lt} of shape {tuple(case['shape'])}) returned {type(X).__name__} ltype "
                           f"{type(getattr(X, 'ltype', None)).__name__} shape {list(T.shape)} / matrix {list(M.shape)} {T.dtype}; "
                           f"the dispatch model gives {mlt} {mshape} / {mmshape}")
            continue
        gd, n = U.GDIM[g], U.MATN[g]
        Tf = T.detach().double().reshape(-1, gd).tolist()
        Mf = M.detach().double().reshape(-1, n * n).tolist()
        for i, xi in enumerate(rows):
            xi = U.to_dtype_exact([xi], dtype)[1][0].tolist()
            errs = item_errors(g, dtype, xi, Tf[i], Mf[i], mdata[i * gd:(i + 1) * gd], mmdata[i * n * n:(i + 1) * n * n])
            bad = bad_blocks(errs)
            if bad and not near_threshold(g, dtype, xi):
                c = {"stream": "glue", "type": g, "dtype": dtype, "shape": case["shape"][:-1], "api": 0, "mode": 0, "own": False,
                     "X": [U.to_dtype_exact([r], dtype)[1][0].tolist() for r in rows], "item": i}
                ctx.disagree("glue", c, f"{lt} {dtype} shape {case['shape']} item {i}: blocks beyond tolerance against the model's own "
                                        f"dispatch/eps (x tol) {bad}; x = {xi}")



# ----------------------------------------------------------------------------- every other LieTensor operation between two Exp/matrix() calls

def _other_ops(P, name, D, shape, rng_state):
    """(label, thunk) for every other public LieTensor operation of group type `name` on a batch of `shape` (() = unbatched),
    forward and, where differentiable, with a backward pass.  Built from fixed numbers (seed independent)."""
    import itertools
    k = rng_state[0]
    rng_state[0] += 1
    n = int(math.prod(shape)) if shape else 1
    d = CORNER_DIRS[1]
    alg = []
    for i in range(n):
        th, sg = 0.3 + 0.2 * ((k + i) % 5), 0.25 * (-1) ** (k + i)
        row = ([0.5, -1.0 - i, 0.25] if name in ("SE3", "Sim3") else []) + [th * d[0], th * d[1], th * d[2]] + ([sg] if name in ("RxSO3", "Sim3") else [])
        alg.append(row)
    a_t = torch.tensor(alg, dtype=torch.float64).reshape(tuple(shape) + (U.ADIM[name],)).to(D)
    lta, ltg = alg_ltype(name), U.ltype(name)

    def G(req=False):
        with torch.no_grad():
            base = P.LieTensor(a_t.clone(), ltype=lta).Exp().tensor().clone()
        if req:
            base.requires_grad_(True)
        return P.LieTensor(base, ltype=ltg), base
    p3 = torch.tensor([0.3, -0.7, 1.1], dtype=D).expand(tuple(shape) + (3,)).clone()
    p4 = torch.tensor([0.3, -0.7, 1.1, 1.0], dtype=D).expand(tuple(shape) + (4,)).clone()
    av = P.LieTensor(0.5 * a_t.clone(), ltype=lta)
    fw = [("Log", lambda X: X.Log().tensor()), ("Inv", lambda X: X.Inv().tensor()), ("Mul@", lambda X: (X @ X).tensor()),
          ("Mul*", lambda X: (X * X).tensor()), ("Act3", lambda X: X.Act(p3)), ("Act4", lambda X: X.Act(p4)),
          ("Adj", lambda X: X.Adj(av).tensor()), ("AdjT", lambda X: X.AdjT(av).tensor()), ("Jinvp", lambda X: X.Jinvp(av).tensor()),
          ("Retr", lambda X: X.Retr(av).tensor()), ("matrix", lambda X: X.matrix()), ("rotation", lambda X: X.rotation().tensor()),
          ("translation", lambda X: X.translation()), ("scale", lambda X: X.scale()), ("Jr", lambda X: X.Jr()),
          ("add", lambda X: (X + 0.1 * a_t).tensor()), ("Log.Exp", lambda X: X.Log().Exp().tensor()),
          ("identity_like", lambda X: P.identity_like(X).tensor()), ("euler", lambda X: X.euler()),
          ("cumprod", lambda X: X.cumprod(0).tensor() if X.dim() > 1 else X.tensor()), ("alg.Jr", lambda X: X.Log().Jr())]
    out = []
    if rng_state[-1] == "quick":
        fw = [t_ for t_ in fw if t_[0] not in ("identity_like", "euler", "cumprod", "Log.Exp", "add", "rotation")]
    for label, f in fw:
        if len(shape) <= 1 and n == 1:      # forward alone on the degenerate shapes; elsewhere the backward variant contains the forward
            out.append((f"{name}.{label}", lambda f=f: f(G()[0])))

        def bw(f=f):
            X, base = G(True)
            r = f(X)
            if r.requires_grad:
                r.sum().backward()
            return r
        out.append((f"{name}.{label}+backward", bw))
    return out


def interleave_probe(ctx: Ctx, lines, metas):
    """between two identical `Exp` / `matrix()` evaluations EVERY other public LieTensor operation is run (all four group types,
    both dtypes, unbatched / all-1 batch / batched, forward and with backward); after each of them the reference evaluations of that
    dtype are repeated and must be bit-identical to the first ones; at the end the references go through the model as well.
    A module-level constant written in place by another operation on a degenerate shape only shows in such a history."""
    P = U.pp()
    refs = {}
    d = CORNER_DIRS[1]
    for dtype in ("float64", "float32"):
        D = U.dt(dtype)
        e = common.EPS[dtype]
        for name in U.GROUPS:
            has_s, has_t = name in ("RxSO3", "Sim3"), name in ("SE3", "Sim3")
            rows = [(list(CORNER_TAUS[1]) if has_t else []) + [th * d[0], th * d[1], th * d[2]] + ([sg] if has_s else [])
                    for th, sg in ((1.0, 0.5), (0.0, 0.0), (e / 2, -e / 2), (3.5, -1.0))]
            r64 = U.to_dtype_exact(rows, dtype)[1].tolist()
            x = torch.tensor(r64, dtype=torch.float64).to(D)
            single = x[0].clone()

            def ev(x=x, single=single, name=name):
                lt_ = alg_ltype(name)
                X = P.LieTensor(x, ltype=lt_).Exp()
                X1 = P.LieTensor(single, ltype=lt_).Exp()
                return [X.tensor().clone(), X.matrix().clone(), X1.matrix().clone()]
            try:
                first = ev()
                if not all(bool(torch.isfinite(t_).all()) for t_ in first):
                    ctx.fail({"stream": "interleave", "type": name, "dtype": dtype, "X": r64},
                             f"nonfinite: Exp/matrix of a finite {U.ALG[name]} {dtype} batch is not finite; x = {r64}")
                refs[(name, dtype)] = (ev, first, r64)
            except Exception as ex:
                ctx.fail({"stream": "interleave", "type": name, "dtype": dtype, "X": r64},
                         f"raises: Exp/matrix on {U.ALG[name]} {dtype} raised {type(ex).__name__}: {str(ex)[:140]}")
    state = [0, "quick" if ctx.quick else "thorough"]
    poisoned = set()
    for dtype in ("float64", "float32"):
        D = U.dt(dtype)
        for shape in (((), (1,), (3,)) if ctx.quick else ((), (1,), (1, 1), (3,))):
            for gname in U.GROUPS:
                ops = _other_ops(P, gname, D, shape, state)
                for oi, (label, thunk) in enumerate(ops):
                    try:
                        with warnings.catch_warnings():
                            warnings.simplefilter("ignore")
                            thunk()
                        ctx.count("interleave.ops-run")
                    except Exception:
                        ctx.count("observation.interleave.other-op-raised")   # not this property's business
                    last = oi == len(ops) - 1
                    for (name, dt_), (ev, first, r64) in refs.items():
                        if dt_ != dtype or (name, dt_) in poisoned:
                            continue
                        if not last and name not in ("Sim3", "SO3"):   # 4x4 and 3x3 constants; all four types after each block
                            continue
                        try:
                            now = ev()
                        except Exception as ex:
                            now = None
                            what = f"raised {type(ex).__name__}: {str(ex)[:100]}"
                        if now is None or not all(torch.equal(torch.nan_to_num(a), torch.nan_to_num(b)) for a, b in zip(now, first)):
                            if now is not None:
                                which = ["Exp().tensor()", "Exp().matrix()", "Exp().matrix() [single item]"]
                                k = [torch.equal(torch.nan_to_num(a), torch.nan_to_num(b)) for a, b in zip(now, first)].index(False)
                                what = f"{which[k]} changed by {float((now[k].double() - first[k].double()).abs().max()):.3e}"
                            poisoned.add((name, dt_))
                            ctx.fail({"stream": "interleave", "type": name, "dtype": dt_, "X": r64, "after": label, "op_shape": list(shape), "op_dtype": dtype},
                                     f"poisoned: after {label} on a {dtype} batch of shape {tuple(shape)}, the same {U.ALG[name]} {dt_} evaluation as before: {what} "
                                     f"(x = {r64[0]} …)")
                        ctx.note_case(("interleave", name, dt_, label, tuple(shape)), True)
    # the references once more, now through the model (and the oracle if they disagree)
    for (name, dtype), (ev, first, r64) in refs.items():
        check_batch(ctx, "interleave", name, dtype, r64, (len(r64),), 0, lines, metas)
        check_batch(ctx, "interleave", name, dtype, r64[:1], (), 0, lines, metas)


def dtype_probe(ctx: Ctx):
    """every floating dtype the entry point accepts besides float32/float64 (float16, bfloat16): undocumented, so what the clean
    tree does is an OBSERVATION — except that a result, when one is returned, must have the dtype of the argument (no silent
    promotion) and bfloat16 values (which the clean tree gets right) stay within the property's tolerance in bfloat16 eps"""
    P = U.pp()
    d = CORNER_DIRS[1]
    lines, metas = [], []
    for dtn, D, e in (("bfloat16", torch.bfloat16, 2.0 ** -7), ("float16", torch.float16, 2.0 ** -10)):
        for name in U.GROUPS:
            has_s, has_t = name in ("RxSO3", "Sim3"), name in ("SE3", "Sim3")
            rows = [(list(CORNER_TAUS[1]) if has_t else []) + [th * d[0], th * d[1], th * d[2]] + ([sg] if has_s else [])
                    for th, sg in ((1.0, 0.5), (0.25, -0.5), (2.0, 0.125), (0.5, 1.0))]
            x = torch.tensor(rows, dtype=torch.float64).to(D)
            r64 = x.double().tolist()
            case = {"stream": "dtype", "type": name, "dtype": dtn, "X": r64}
            try:
                X = P.LieTensor(x, ltype=alg_ltype(name)).Exp()
                T, M = X.tensor(), X.matrix()
            except Exception:
                ctx.count(f"observation.dtype.{dtn}.raises")
                continue
            if T.dtype != D or M.dtype != D:
                ctx.fail(case, f"dtype: Exp/matrix of a {dtn} {U.ALG[name]} tensor returned {T.dtype} / {M.dtype} (silent promotion)")
                continue
            if not (bool(torch.isfinite(T).all()) and bool(torch.isfinite(M).all())):
                ctx.count(f"observation.dtype.{dtn}.nonfinite")
                continue
            ctx.count(f"dtype.{dtn}.ok")
            if dtn == "bfloat16":
                g = U.GDIM[name]
                for i, xi in enumerate(r64):
                    lines.append(U.model_call(f"c01.{U.ALG[name]}", e, xi))
                    metas.append((case, name, xi, T[i].double().tolist(), M[i].double().reshape(-1).tolist()))
    common.EPS.setdefault("bfloat16", 2.0 ** -7)
    for rep, (case, name, xi, gt, gm) in zip(ctx.driver.run(lines), metas):
        g = U.GDIM[name]
        w = fast_nums(rep)
        bad = bad_blocks(item_errors(name, "bfloat16", xi, gt, gm, w[:g], w[g:]))
        ctx.note_case(("dtype", name, "bfloat16", tuple(xi)), True)
        if bad:
            ctx.fail(case, f"dtype: bfloat16 {U.ALG[name]} Exp beyond the property's tolerance in bfloat16 eps (x tol) {bad}; x = {xi}")

# ----------------------------------------------------------------------------- grad-mode orders on fresh keys (cache poisoned by a mode)

def mode_order_probe(ctx: Ctx):
    """for batch shapes that have not been used before in this process (prime extents), the FIRST call is made under
    inference_mode / no_grad, later calls with autograd (requires_grad leaf, including a backward pass) and back: a module-level
    buffer created under one mode and reused under another raises or gives other values only in such an order"""
    P = U.pp()
    d = CORNER_DIRS[1]
    fresh = iter([29, 31, 37, 41, 43, 47, 53, 59, 61, 67, 71, 73, 79, 83, 89, 97, 101, 103, 107, 109, 113, 127, 131, 137, 139, 149, 151, 157,
                  163, 167, 173, 179])
    orders = [("inference_mode", "grad", "inference_mode", "grad"), ("no_grad", "grad", "default"), ("grad", "inference_mode", "grad"),
              ("inference_mode", "default", "no_grad", "grad")]
    for name in U.GROUPS:
        for dtype in ("float64", "float32"):
            e = common.EPS[dtype]
            D = U.dt(dtype)
            lt_ = alg_ltype(name)
            has_s, has_t = name in ("RxSO3", "Sim3"), name in ("SE3", "Sim3")
            for order in orders[(0 if dtype == "float64" else 2):][:2]:
                n = next(fresh)
                rows = []
                for i in range(n):
                    th, sg = ((e / 2, -e / 2) if i % 3 == 0 else (0.1 + 0.05 * i, 0.3 * (-1) ** i))
                    rows.append((list(CORNER_TAUS[1]) if has_t else []) + [th * d[0], th * d[1], th * d[2]] + ([sg] if has_s else []))
                base = torch.tensor(rows, dtype=torch.float64).to(D)
                ref = None
                case = {"stream": "mode-order", "type": name, "dtype": dtype, "n": n, "order": list(order)}
                for k, md in enumerate(order):
                    try:
                        if md == "inference_mode":
                            with torch.inference_mode():
                                out = P.LieTensor(base.clone(), ltype=lt_).Exp().tensor().clone()
                        elif md == "no_grad":
                            with torch.no_grad():
                                out = P.LieTensor(base.clone(), ltype=lt_).Exp().tensor()
                        elif md == "grad":
                            leaf = base.clone().requires_grad_(True)
                            X = P.LieTensor(leaf, ltype=lt_).Exp()
                            X.tensor().sum().backward()
                            out = X.tensor().detach()
                            if leaf.grad is None or not bool(torch.isfinite(leaf.grad).all()):
                                ctx.fail(case | {"call": k}, f"grad: no finite gradient through Exp({U.ALG[name]}) in call {k} ({md}) of the order {order}")
                        else:
                            out = P.LieTensor(base.clone(), ltype=lt_).Exp().tensor()
                    except Exception as ex:
                        ctx.fail(case | {"call": k}, f"raises: Exp({U.ALG[name]}, batch {n}, {dtype}) raised {type(ex).__name__} in call {k} ({md}) of the "
                                                     f"grad-mode order {order}: {str(ex)[:120]}")
                        break
                    out = out.detach().clone()
                    if not bool(torch.isfinite(out).all()):
                        i = int((~torch.isfinite(out)).any(dim=-1).nonzero()[0])
                        ctx.fail(case | {"call": k, "x": rows[i]}, f"nonfinite: Exp({U.ALG[name]}, batch {n}, {dtype}) in call {k} ({md}) is not finite at "
                                                                  f"item {i}; x = {rows[i]}")
                        break
                    ctx.count(f"mode-order.{md}")
                    ctx.note_case(("mode-order", name, dtype, n, k), True)
                    if ref is None:
                        ref = out
                    elif not torch.equal(torch.nan_to_num(out), torch.nan_to_num(ref)):
                        ctx.fail(case | {"call": k}, f"mode-order: Exp({U.ALG[name]}, batch {n}, {dtype}) in call {k} ({md}) differs from call 0 "
                                                     f"({order[0]}) of the same data by {float((out.double() - ref.double()).abs().max()):.3e}")
                        break
                # the values of this fresh key against the model / oracle come from the ordinary streams (same items occur there)


# ----------------------------------------------------------------------------- batch-level scatter models (driver: c01.so3scatter / c01.wsscatter)

def run_scatter(ctx: Ctx, n_batches):
    """the batch-level models that follow the code's masked scatter (zeros, masks from the whole batch, each regime evaluated on its
    masked sub-batch only, masked assignment) against the real batched `so3_Exp` and `rxso3_Ws`"""
    rng = ctx.rng
    P = U.pp()
    import pypose.lietensor.operation as OPS
    lines, metas = [], []
    for b in range(n_batches):
        dtype = "float64" if b % 3 else "float32"
        e = common.EPS[dtype]
        D = U.dt(dtype)
        n = rng.choice([1, 2, 3, 5, 8, 13])
        sims = [gen_item(rng, "Sim3", e) if rng.random() < 0.6 else
                make_item(rng, "Sim3", e, rng.choice(theta_ladder(e)), rng.choice(sigma_ladder(e)), 1.0) for _ in range(n)]
        _, s64 = U.to_dtype_exact(sims, dtype)
        s64 = s64.tolist()
        so3rows = [r[3:6] for r in s64]
        rxrows = [r[3:7] for r in s64]
        try:
            Q = P.LieTensor(torch.tensor(so3rows, dtype=torch.float64).to(D), ltype=P.so3_type).Exp().tensor().double().tolist()
            W = OPS.rxso3_Ws(torch.tensor(rxrows, dtype=torch.float64).to(D)).double().reshape(n, 9).tolist()
        except Exception as ex:
            ctx.fail({"stream": "scatter", "type": "Sim3", "dtype": dtype, "shape": [n], "api": 0, "mode": 0, "own": False, "X": s64},
                     f"raises: so3 Exp / rxso3_Ws on a mixed batch raised {type(ex).__name__}: {str(ex)[:140]}")
            continue
        lines.append("c01.so3scatter " + common.wire_list([e] + [v for r in so3rows for v in r]))
        lines.append("c01.wsscatter " + common.wire_list([e] + [v for r in rxrows for v in r]))
        metas.append((dtype, s64, Q, W))
        ctx.count("scatter-batches")
    reps = ctx.driver.run(lines)
    for j, (dtype, s64, Q, W) in enumerate(metas):
        e = common.EPS[dtype]
        mq = fast_nums(reps[2 * j])
        mw = fast_nums(reps[2 * j + 1])
        for i, xi in enumerate(s64):
            ctx.note_case(("scatter", dtype, regime_tag("Sim3", xi, e)), True)
            dq = U.quat_dist(Q[i], mq[4 * i:4 * i + 4])
            sg = xi[6]
            csc = abs(math.expm1(sg) / sg) if sg != 0 else 1.0
            dw = max(abs(a - b) for a, b in zip(W[i], mw[9 * i:9 * i + 9]))
            bad = {}
            if not all(math.isfinite(v) for v in Q[i] + W[i]):     # NaN polarity: python max() may drop a NaN — test finiteness first
                bad["nonfinite"] = "inf"
            if not dq <= K_ROT * e:
                bad["q"] = dq / (K_ROT * e)
            if not dw <= K_TRANS * math.sqrt(e) * csc:
                bad["W"] = dw / (K_TRANS * math.sqrt(e) * csc)
            if bad and not near_threshold("Sim3", dtype, xi):
                c = {"stream": "scatter", "type": "Sim3", "dtype": dtype, "shape": [len(s64)], "api": 0, "mode": 0, "own": False, "X": s64, "item": i}
                ctx.disagree("scatter", c, f"batch-level scatter model vs the real batched so3_Exp / rxso3_Ws, item {i} of {len(s64)} ({dtype}): "
                                           f"(x tol) {bad}; x = {xi}")

# ----------------------------------------------------------------------------- oracle (mpmath, the property itself)

def generator_mp(name, xi):
    import mpmath as mp
    th, tau, sg = blocks_of(name, xi)
    p = [mp.mpf(v) for v in xi[U.PHISL[name]]]
    n = U.MATN[name]
    G = mp.zeros(n, n)
    G[0, 1], G[0, 2], G[1, 0], G[1, 2], G[2, 0], G[2, 1] = -p[2], p[1], p[2], -p[0], -p[1], p[0]
    if sg is not None:
        for i in range(3):
            G[i, i] = mp.mpf(sg)
    if tau is not None:
        for i in range(3):
            G[i, 3] = mp.mpf(tau[i])
    return G


def truth_matrix(name, xi):
    """50-digit matrix exponential of the generator (scaling by 2^-k keeps Taylor well inside its radius)"""
    import mpmath as mp
    mp.mp.dps = 60
    return mp.expm(generator_mp(name, xi), method="taylor")


def oracle_batch(ctx: Ctx, case, items=None, verbose=False) -> bool:
    """the property's own statement on the real code for (some items of) the batch in `case`"""
    import mpmath as mp
    name, dtype = case["type"], case["dtype"]
    e = common.EPS[dtype]
    n, g = U.MATN[name], U.GDIM[name]
    ok = True
    try:
        T, M, problems, _ = run_impl(name, dtype, case["X"], case["shape"], case.get("api", 0), case.get("mode", 0), case.get("own", False))
    except Exception as ex:
        ctx.fail(case, f"raises: Exp/matrix on {U.ALG[name]} {dtype} raised {type(ex).__name__}: {str(ex)[:160]}")
        return False
    for pr in problems:
        ctx.fail(case, pr)
        ok = False
    if T is None:
        return False
    idx = range(len(case["X"])) if items is None else items
    for i in idx:
        xi = case["X"][i]
        E = truth_matrix(name, xi)
        want_m = [float(E[r, c]) for r in range(n) for c in range(n)]
        gt, gm = T[i].tolist(), M[i].tolist()
        # tensor(): its blocks against the truth — rotation through the matrix of the returned quaternion
        s_true = float(mp.e ** mp.mpf(xi[U.SIGIDX[name]])) if U.SIGIDX[name] is not None else 1.0
        want_t = list(gt)
        if U.TSL[name] is not None:
            want_t[U.TSL[name]] = [float(E[r, 3]) for r in range(3)]
        if U.SIDX[name] is not None:
            want_t[U.SIDX[name]] = s_true
        errs = item_errors(name, dtype, xi, gt, gm, want_t, want_m)
        errs.pop("q", None)
        # rotation matrix of the returned quaternion (exact arithmetic on the stored floats) against exp(phi^)
        qx, qy, qz, qw = [mp.mpf(v) for v in gt[U.QSL[name]]]
        Rq = [[1 - 2 * (qy * qy + qz * qz), 2 * (qx * qy - qz * qw), 2 * (qx * qz + qy * qw)],
              [2 * (qx * qy + qz * qw), 1 - 2 * (qx * qx + qz * qz), 2 * (qy * qz - qx * qw)],
              [2 * (qx * qz - qy * qw), 2 * (qy * qz + qx * qw), 1 - 2 * (qx * qx + qy * qy)]]
        errs["Rq"] = float(max(abs(Rq[r][c] - E[r, c] / mp.mpf(s_true)) for r in range(3) for c in range(3))) / (2 * K_ROT * e)
        bad = bad_blocks(errs)
        if verbose:
            print(f"  item {i}: x = {xi}")
            print(f"    implementation tensor  = {gt}")
            print(f"    implementation matrix  = {gm}")
            print(f"    exp(generator) (mpmath) = {want_m}")
            print(f"    errors in units of the property's tolerance: { {k2: round(v, 4) if math.isfinite(v) else 'inf' for k2, v in errs.items()} }")
        if bad:
            ok = False
            c = dict(case)
            c["item"] = i
            blk = sorted(bad)[0]
            ctx.fail(c, f"{U.ALG[name]}.{blk}: matrix/tensor of Exp(x) differs from exp(generator) beyond the property's tolerance "
                        f"({dtype}, regime {regime_tag(name, xi, e)}): x tol {bad}; x = {xi}")
    return ok


def run_oracle(ctx: Ctx, n_items):
    rng = ctx.rng
    for k in range(n_items):
        name = rng.choice(U.GROUPS)
        dtype = rng.choice(["float64", "float64", "float32"])
        e = common.EPS[dtype]
        if k % 2 == 0:
            xi = gen_item(rng, name, e)
        else:
            xi = make_item(rng, name, e, rng.choice(theta_ladder(e)), rng.choice(sigma_ladder(e)), gen_tau(rng, e))
        xi = U.to_dtype_exact([xi], dtype)[1][0].tolist()
        case = {"stream": "oracle", "type": name, "dtype": dtype, "shape": [1], "api": 0, "X": [xi]}
        oracle_batch(ctx, case)
        ctx.count(f"oracle.{U.ALG[name]}.{dtype}")
        ctx.note_case((name, dtype, regime_tag(name, xi, e), "oracle"), any(v != 0 for v in xi))


# ----------------------------------------------------------------------------- entry points

def confirm_disagreements(ctx: Ctx, limit=12):
    """turn model/implementation disagreements into concrete failing inputs of the property itself (mpmath oracle)"""
    seen = set()
    for d in ctx.disagreements:
        c = d["case"]
        if "X" not in c or "item" not in c:
            continue
        key = (c["type"], c["dtype"], regime_tag(c["type"], c["X"][c["item"]], common.EPS[c["dtype"]]).split("/tau")[0])
        if key in seen:
            continue
        seen.add(key)
        oracle_batch(ctx, {k2: v for k2, v in c.items() if k2 != "item"}, items=[c["item"]])
        if len(seen) >= limit:
            break


def probe(ctx: Ctx):
    """stale reads: one algebra LieTensor is updated in place (add_, copy_, item assignment) and every read that goes
    through Exp must describe the current state (shared helper util_lie.persistent_probe)"""
    from . import util_lie as _UL
    def _reads(name):
        return {"Exp": lambda o: o.Exp().tensor(), "matrix": lambda o: o.matrix(), "pp.Exp": lambda o: U.pp().Exp(o).tensor(),
                "rotation": lambda o: o.rotation().tensor()}
    _UL.persistent_probe(ctx, _reads, algebra=True)


def run(ctx: Ctx):
    nthreads = torch.get_num_threads()
    torch.set_num_threads(1)   # small tensors throughout; intra-op threads only add contention on a shared machine
    try:
        _run(ctx)
    finally:
        torch.set_num_threads(nthreads)


def _run(ctx: Ctx):
    mode_order_probe(ctx)      # first: its batch shapes must be fresh in the process
    probe(ctx)
    lines, metas = [], []
    interleave_probe(ctx, lines, metas)
    dtype_probe(ctx)
    run_corpus(ctx, lines, metas)
    run_minority(ctx, lines, metas)
    run_grid(ctx, lines, metas, reps_per_cell=ctx.pick(1, 10))
    run_random(ctx, ctx.pick(600, 20000), lines, metas)
    run_repeat(ctx, ctx.pick(12, 400), lines, metas)
    compare_all(ctx, lines, metas)
    run_glue(ctx, ctx.pick(120, 3000))
    run_large(ctx, large_configs(ctx.quick))
    run_scatter(ctx, ctx.pick(60, 1500))
    confirm_disagreements(ctx)
    run_oracle(ctx, ctx.pick(300, 8000))


def search(ctx: Ctx):
    """after a broken proof / correspondence: look for a concrete failing input with the mpmath oracle —
    first on the disagreeing items themselves, then on the grid and on fresh random elements."""
    seen = 0
    for d in ctx.disagreements[:40]:
        c = d["case"]
        if "X" in c and "item" in c:
            oracle_batch(ctx, {k2: v for k2, v in c.items() if k2 != "item"}, items=[c["item"]])
            seen += 1
            if len(ctx.failures) >= 5:
                return
    if ctx.failures:
        return
    # the whole deterministic corpus (corners, thresholds +-1 ulp, quarter-decade sweeps) through the mpmath oracle
    for name, dtype, rows, shape, api, mode, own in corpus_batches():
        if not rows:
            continue
        r64 = U.to_dtype_exact(rows, dtype)[1].tolist()
        oracle_batch(ctx, {"stream": "search-corpus", "type": name, "dtype": dtype, "shape": list(shape), "api": api, "mode": mode,
                           "own": own, "X": r64})
        if len(ctx.failures) >= 5:
            return
    run_oracle(ctx, 3000)


def replay(ctx: Ctx, case) -> bool:
    c = case["case"]
    if c.get("stream") == "large":
        print(f"  re-running the large-batch check: {U.ALG[c['type']]} {c['dtype']} shape {c['shape']}")
        run_large(ctx, [(c["type"], c["dtype"], tuple(c["shape"]))])
        for f in ctx.failures[:5]:
            print("  fails:", f["what"][:400])
        return not ctx.failures
    if c.get("stream") in ("interleave", "dtype") and "shape" not in c:
        print(f"  re-running the {c['stream']} probe ({c.get('type')}, {c.get('dtype')}, after {c.get('after')})")
        l_, m_ = [], []
        interleave_probe(ctx, l_, m_) if c["stream"] == "interleave" else dtype_probe(ctx)
        for f in ctx.failures[:5]:
            print("  fails:", f["what"][:300])
        return not ctx.failures
    if c.get("stream") == "mode-order":
        print(f"  re-running the grad-mode order probe ({c.get('type')}, {c.get('dtype')}, order {c.get('order')})")
        mode_order_probe(ctx)
        for f in ctx.failures[:5]:
            print("  fails:", f["what"][:300])
        return not ctx.failures
    if "X" not in c:   # persistent-object probe (stale reads): deterministic, re-run it
        print(f"  re-running the persistent-object probe ({c.get('type')}, {c.get('dtype')}, update {c.get('update')}, read {c.get('read')})")
        probe(ctx)
        copies_probe(ctx)
        for f in ctx.failures[:5]:
            print("  fails:", f["what"][:300])
        return not ctx.failures
    items = [c["item"]] if "item" in c else None
    print(f"  {U.ALG[c['type']]} {c['dtype']} batch shape {c['shape']}" + (f", item {c['item']}" if items else ""))
    base = {k2: v for k2, v in c.items() if k2 != "item"}
    ok = oracle_batch(ctx, base, items=items, verbose=True)
    for f in ctx.failures:
        print("  fails:", f["what"][:300])
    return ok
