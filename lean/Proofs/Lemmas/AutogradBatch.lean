/-
C04 (pass 3): the batched / broadcasting layer `Pose/Model/AutogradBatch.lean` — index safety, and the relation to the per-item core.
-/
import Proofs.Lemmas.AutogradGrad
import Pose.Model.AutogradBatch
set_option linter.unusedSimpArgs false
set_option linter.unusedVariables false
namespace PP.AD
open PP

/-- `ls` (innermost dimension first) broadcasts to `bs`: it is not longer and every dimension agrees or is `1` -/
def CompatRev : List Nat → List Nat → Prop
  | _, [] => True
  | [], _ :: _ => False
  | b :: bs, l :: ls => (l = b ∨ l = 1) ∧ CompatRev bs ls

theorem compatRev_nil (b : List Nat) : CompatRev b [] := by cases b <;> simp [CompatRev]

theorem compatRev_refl (a : List Nat) : CompatRev a a := by
  induction a with
  | nil => trivial
  | cons x a ih => exact ⟨Or.inl rfl, ih⟩

/-- **accepted shapes satisfy the precondition**: if `torch.broadcast_shapes` accepts, both arguments broadcast to the result -/
theorem bcastRev_compat : ∀ (a b c : List Nat), bcastRev a b = some c → CompatRev c a ∧ CompatRev c b
  | [], b, c, h => by
    simp only [bcastRev] at h; cases h; exact ⟨compatRev_nil _, compatRev_refl _⟩
  | x :: a, [], c, h => by
    simp only [bcastRev] at h; cases h; exact ⟨compatRev_refl _, compatRev_nil _⟩
  | x :: a, y :: b, c, h => by
    simp only [bcastRev] at h
    split at h
    · rename_i hxy
      cases hr : bcastRev a b with
      | none => simp [hr] at h
      | some r =>
        simp only [hr, Option.map_some, Option.some.injEq] at h
        subst h
        obtain ⟨h1, h2⟩ := bcastRev_compat a b r hr
        exact ⟨⟨Or.inl rfl, h1⟩, ⟨Or.inl hxy.symm, h2⟩⟩
    · split at h
      · rename_i hx1
        cases hr : bcastRev a b with
        | none => simp [hr] at h
        | some r =>
          simp only [hr, Option.map_some, Option.some.injEq] at h
          subst h
          obtain ⟨h1, h2⟩ := bcastRev_compat a b r hr
          exact ⟨⟨Or.inr hx1, h1⟩, ⟨Or.inl rfl, h2⟩⟩
      · split at h
        · rename_i hy1
          cases hr : bcastRev a b with
          | none => simp [hr] at h
          | some r =>
            simp only [hr, Option.map_some, Option.some.injEq] at h
            subst h
            obtain ⟨h1, h2⟩ := bcastRev_compat a b r hr
            exact ⟨⟨Or.inl rfl, h1⟩, ⟨Or.inr hy1, h2⟩⟩
        · simp at h

/-- rejected shapes are exactly those with a dimension on which the two disagree and neither is `1` -/
theorem bcastRev_none_cons (x y : Nat) (a b : List Nat) (hxy : x ≠ y) (hx : x ≠ 1) (hy : y ≠ 1) :
    bcastRev (x :: a) (y :: b) = none := by
  simp [bcastRev, hxy, hx, hy]

theorem foldl_mul_start (l : List Nat) (s : Nat) : l.foldl (· * ·) s = s * l.foldl (· * ·) 1 := by
  induction l generalizing s with
  | nil => simp
  | cons a l ih => simp only [List.foldl_cons]; rw [ih (s * a), ih (1 * a)]; ring

theorem numel_cons (a : Nat) (l : List Nat) : numel (a :: l) = a * numel l := by
  simp only [numel, List.foldl_cons]; rw [foldl_mul_start]; ring

theorem numel_nil : numel [] = 1 := rfl

theorem numel_append (a b : List Nat) : numel (a ++ b) = numel a * numel b := by
  induction a with
  | nil => simp [numel_nil]
  | cons x a ih => simp only [List.cons_append, numel_cons, ih]; ring

theorem numel_reverse (a : List Nat) : numel a.reverse = numel a := by
  induction a with
  | nil => rfl
  | cons x a ih => simp only [List.reverse_cons, numel_append, numel_cons, numel_nil, ih]; ring

/-- **index safety**: the item a batch index reads from a leaf exists -/
theorem itemIndexRev_lt : ∀ (bs ls : List Nat) (k : Nat), CompatRev bs ls → (∀ d ∈ ls, 0 < d) → itemIndexRev bs ls k < numel ls
  | _, [], k, _, _ => by simp [itemIndexRev, numel_nil]
  | [], l :: ls, k, h, _ => by simp [CompatRev] at h
  | b :: bs, l :: ls, k, h, hp => by
    obtain ⟨hl, hr⟩ := h
    have hlpos : 0 < l := hp l (List.mem_cons_self)
    have ih := itemIndexRev_lt bs ls (k / b) hr (fun d hd => hp d (List.mem_cons_of_mem _ hd))
    simp only [itemIndexRev, numel_cons]
    have h1 : (if l = 1 then 0 else k % b) < l := by
      split
      · exact hlpos
      · rename_i hne
        rcases hl with h | h
        · subst h; exact Nat.mod_lt _ hlpos
        · exact absurd h hne
    calc (if l = 1 then 0 else k % b) + l * itemIndexRev bs ls (k / b)
        < l + l * itemIndexRev bs ls (k / b) := Nat.add_lt_add_right h1 _
      _ = l * (itemIndexRev bs ls (k / b) + 1) := by ring
      _ ≤ l * numel ls := Nat.mul_le_mul_left l ih

/-- a tensor that already has the broadcast shape is read item by item -/
theorem itemIndexRev_self : ∀ (bs : List Nat) (k : Nat), k < numel bs → itemIndexRev bs bs k = k
  | [], k, h => by simp [numel_nil] at h; simp [itemIndexRev, h]
  | b :: bs, k, h => by
    rw [numel_cons] at h
    have hb : 0 < b := by
      rcases Nat.eq_zero_or_pos b with h0 | h0
      · subst h0; simp at h
      · exact h0
    have hk : k / b < numel bs := by
      apply (Nat.div_lt_iff_lt_mul hb).mpr; rw [Nat.mul_comm]; exact h
    simp only [itemIndexRev, itemIndexRev_self bs (k / b) hk]
    split
    · rename_i h1; subst h1; simp
    · exact Nat.mod_add_div k b

theorem itemIndex_scalar (bs : List Nat) (k : Nat) : itemIndex bs [] k = 0 := by
  simp [itemIndex, itemIndexRev]

theorem itemIndex_self (bs : List Nat) (k : Nat) (h : k < numel bs) : itemIndex bs bs k = k := by
  simp only [itemIndex]; exact itemIndexRev_self _ k (by rw [numel_reverse]; exact h)

theorem itemIndex_lt (bs ls : List Nat) (k : Nat) (h : CompatRev bs.reverse ls.reverse) (hp : ∀ d ∈ ls, 0 < d) :
    itemIndex bs ls k < numel ls := by
  have := itemIndexRev_lt bs.reverse ls.reverse k h (fun d hd => hp d (List.mem_reverse.mp hd))
  rwa [numel_reverse] at this

theorem bcast2_compat (a b c : List Nat) (h : bcast2 a b = some c) :
    CompatRev c.reverse a.reverse ∧ CompatRev c.reverse b.reverse := by
  simp only [bcast2] at h
  cases hr : bcastRev a.reverse b.reverse with
  | none => simp [hr] at h
  | some r =>
    simp only [hr, Option.map_some, Option.some.injEq] at h
    subst h
    rw [List.reverse_reverse]
    exact bcastRev_compat _ _ _ hr

theorem backprop_below (dJ : DJ ℝ) (eps : ℝ) (env : List (DVec ℝ)) (L : Nat) (p : Prog) (hp : p.leavesBelow L) :
    ∀ go, ∀ c ∈ backprop dJ eps env p go, c.1 < L := by
  induction p with
  | leaf i => intro go c hc; simp only [backprop, List.mem_singleton] at hc; subst hc; exact hp
  | un o g p ih => intro go c hc; exact ih hp _ c hc
  | bin o g p q ihp ihq =>
    intro go c hc
    simp only [backprop, List.mem_append] at hc
    rcases hc with hc | hc
    · exact ihp hp.1 _ c hc
    · exact ihq hp.2 _ c hc

theorem pairSum_flatMap (tan : List (DVec ℝ)) (l : List Nat) (f : Nat → List (Nat × DVec ℝ)) :
    pairSum tan (l.flatMap f) = (l.map fun k => pairSum tan (f k)).sum := by
  induction l with
  | nil => simp [pairSum]
  | cons a l ih => simp only [List.flatMap_cons, pairSum_append, ih, List.map_cons, List.sum_cons]

theorem pairSum_readdress (ftan : List (DVec ℝ)) (f : Nat → Nat) (L : Nat) (cs : List (Nat × DVec ℝ)) (h : ∀ c ∈ cs, c.1 < L) :
    pairSum ftan (cs.map fun c => (f c.1, c.2)) = pairSum ((List.range L).map fun l => ftan.getD (f l) []) cs := by
  simp only [pairSum, List.map_map]
  congr 1
  apply List.map_congr_left
  intro c hc
  simp [h c hc]

/-- the tangents batch item `k` sees, read from the tangents of all leaf items (`ftan`, indexed by `gid`) -/
noncomputable def tanAt (bs : List Nat) (lshapes : List (List Nat)) (ftan : List (DVec ℝ)) (k : Nat) : List (DVec ℝ) :=
  (List.range lshapes.length).map fun l => ftan.getD (gid lshapes l (itemIndex bs (lshapes.getD l []) k)) []

/-- **the batched reverse sweep is the sum of the per-item sweeps** (in the pairing with any tangents of the leaf items): broadcasting
is sharing — an expanded leaf item receives the sum over the batch items that read it. -/
theorem bcontribs_pairing (dJ : DJ ℝ) (eps : ℝ) (p : Prog) (bs : List Nat) (lshapes : List (List Nat)) (vals : List (List (DVec ℝ)))
    (cots ftan : List (DVec ℝ)) (hp : p.leavesBelow lshapes.length) :
    pairSum ftan (bcontribs dJ eps p bs lshapes vals cots) =
      ((List.range (numel bs)).map fun k =>
        pairSum (tanAt bs lshapes ftan k) (backprop dJ eps (envAt bs lshapes vals k) p (cots.getD k []))).sum := by
  simp only [bcontribs, pairSum_flatMap]
  congr 1
  apply List.map_congr_left
  intro k _
  exact pairSum_readdress ftan (fun l => gid lshapes l (itemIndex bs (lshapes.getD l []) k)) lshapes.length _
    (backprop_below dJ eps _ _ p hp _)

/-- hence the batched chain rule: `Σ_items ⟨.grad, tangent⟩ = Σ_k ⟨cot_k, forward tangent of batch item k⟩` -/
theorem batched_adjoint (dJ : DJ ℝ) (hdJ : DJShape dJ) (eps : ℝ) (lt : List Ty) (p : Prog) (bs : List Nat) (lshapes : List (List Nat))
    (vals : List (List (DVec ℝ))) (cots ftan : List (DVec ℝ)) (hp : p.leavesBelow lshapes.length) (ty : Ty)
    (hty : tyOf lt p = some ty) (hE : ∀ k, k < numel bs → EnvOK lt (envAt bs lshapes vals k) (tanAt bs lshapes ftan k))
    (hc : ∀ k, k < numel bs → (cots.getD k []).length = ty.dim) :
    pairSum ftan (bcontribs dJ eps p bs lshapes vals cots) =
      ((List.range (numel bs)).map fun k =>
        DVec.dot (cots.getD k []) (tangent dJ eps (envAt bs lshapes vals k) (tanAt bs lshapes ftan k) p)).sum := by
  rw [bcontribs_pairing dJ eps p bs lshapes vals cots ftan hp]
  congr 1
  apply List.map_congr_left
  intro k hk
  have hk' : k < numel bs := List.mem_range.mp hk
  exact (backprop_adjoint_aux dJ hdJ eps lt _ _ (hE k hk') p ty _ hty (hc k hk')).1

theorem gid_unbatched (lshapes : List (List Nat)) (h : ∀ s ∈ lshapes, s = []) (l : Nat) (hl : l ≤ lshapes.length) : gid lshapes l 0 = l := by
  simp only [gid, Nat.add_zero]
  have : ∀ (xs : List (List Nat)), (∀ s ∈ xs, s = []) → (xs.map numel).foldl (· + ·) 0 = xs.length := by
    intro xs hx
    have e : xs.map numel = List.replicate xs.length 1 := by
      apply List.eq_replicate_iff.mpr
      refine ⟨by simp, ?_⟩
      intro b hb
      obtain ⟨s, hs, rfl⟩ := List.mem_map.mp hb
      rw [hx s hs]; rfl
    rw [e]
    generalize xs.length = n
    have : ∀ s : Nat, (List.replicate n 1).foldl (· + ·) s = s + n := by
      induction n with
      | zero => simp
      | succ n ih => intro s; simp only [List.replicate_succ, List.foldl_cons, ih]; ring
    simpa using this 0
  rw [this _ (fun s hs => h s (List.mem_of_mem_take hs))]
  simp [List.length_take, hl]

/-- **the wrapper reduces to the core on an unbatched call** (all batch shapes `()`): one item, the environment is the list of the
single items, and the contributions are those of the per-item sweep, addressed to the leaves themselves -/
theorem bcontribs_unbatched (dJ : DJ ℝ) (eps : ℝ) (p : Prog) (lshapes : List (List Nat)) (vals : List (List (DVec ℝ)))
    (cots : List (DVec ℝ)) (h : ∀ s ∈ lshapes, s = []) (hp : p.leavesBelow lshapes.length) :
    bcontribs dJ eps p [] lshapes vals cots = backprop dJ eps (envAt [] lshapes vals 0) p (cots.getD 0 []) := by
  simp only [bcontribs, numel_nil, List.range_one, List.flatMap_cons, List.flatMap_nil, List.append_nil]
  conv_rhs => rw [← List.map_id (backprop dJ eps (envAt [] lshapes vals 0) p (cots.getD 0 []))]
  apply List.map_congr_left
  intro c hc
  have hlt := backprop_below dJ eps _ _ p hp _ c hc
  have hs : lshapes.getD c.1 [] = [] := by
    have hm : lshapes.getD c.1 [] ∈ lshapes := by
      rw [List.getD_eq_getElem?_getD, List.getElem?_eq_getElem hlt]; simp
    exact h _ hm
  simp only [hs, itemIndex_scalar, gid_unbatched lshapes h c.1 (le_of_lt hlt), id]

end PP.AD
