"""Helpers for C20: exact oracles, state codes, fake optimizer, snapshots.

Nothing here imports the Lean model; the oracles are written from the property's text
(first documented cause) and from the documented formulas evaluated in exact rational arithmetic.
"""
from __future__ import annotations

import math
from fractions import Fraction

import numpy as np
import torch

INF = float("inf")


# ----------------------------------------------------------------------------- codes

CODE_BASE = 1 << 60      # counters up to 2^60 (class 22: counters beyond 2^24 / 2^53)


def st_code(steps: int, pc: int, cont: bool) -> int:
    return (int(steps) * CODE_BASE + int(pc)) * 2 + (1 if cont else 0)


def st_decode(code: int):
    return code // 2 // CODE_BASE, (code // 2) % CODE_BASE, bool(code % 2)


def obs_code(nodec: bool, below: bool = False, rej: bool = False) -> int:
    return (1 if nodec else 0) + (2 if below else 0) + (4 if rej else 0)


class NonFinite(Exception):
    """the real code produced a non-finite / non-integer counter or a non-boolean flag for a valid input: a failing
    input of the property (reported with the case), never a crash of the harness"""


def ctl_code(ctl) -> int:
    """state code of a real controller (scheduler or stepper); counters are tested for being finite integers BEFORE
    they are encoded / sent to the Lean driver"""
    c = ctl.continual()
    vals = {"steps": ctl.steps, "patience_count": ctl.patience_count}
    for k, v in vals.items():
        if torch.is_tensor(v):
            v = v.item() if v.numel() == 1 else float("nan")
        if isinstance(v, bool) or not isinstance(v, (int, float)) or v != v or v in (float("inf"), float("-inf")) or v != int(v) \
                or v < 0:
            raise NonFinite(f"non-finite result: controller.{k} = {vals[k]!r} (a non-negative integer is documented)")
        vals[k] = int(v)
    if torch.is_tensor(c):
        c = bool(c) if c.numel() == 1 else None
    if c is None or not isinstance(c, (bool, int)):
        raise NonFinite(f"non-finite result: continual() returned {c!r}")
    return st_code(vals["steps"], vals["patience_count"], bool(c))


# ----------------------------------------------------------------------------- the property's own statement

def spec_causes(kind: str, max_steps, patience, obs, i: int):
    """documented causes present at step i (0-based) of the history `obs` (list of (nodec, below, rej))"""
    out = []
    if i + 1 >= max_steps:
        out.append("budget")
    if patience <= 0 or (i + 1 >= patience and all(o[0] for o in obs[i + 1 - patience:i + 1])):
        out.append("patience")
    if kind == "sop" and obs[i][2]:
        out.append("rejected")
    if kind == "rtb" and obs[i][1]:
        out.append("below-tol")
    return out


def spec_continual(kind: str, max_steps, patience, obs, n: int) -> bool:
    """continual() after n steps of a freshly constructed / freshly reset controller, per the property"""
    return not any(spec_causes(kind, max_steps, patience, obs, i) for i in range(n))


def spec_first_stop(kind, max_steps, patience, obs):
    """number of steps after which continual() is first false (None if never within obs)"""
    for i in range(len(obs)):
        if spec_causes(kind, max_steps, patience, obs, i):
            return i + 1
    return None


def spec_trailing(obs, n: int) -> int:
    """documented meaning of patience_count: consecutive non-decreasing steps ending at step n"""
    r = 0
    while r < n and obs[n - 1 - r][0]:
        r += 1
    return r


# ----------------------------------------------------------------------------- numeric predicates

NP = {"float64": np.float64, "float32": np.float32}
TD = {"float64": torch.float64, "float32": torch.float32}
EPSF = {"float64": 2.0 ** -52, "float32": 2.0 ** -23}


def rnd(x: float, dtype: str) -> float:
    """value of a python float after conversion to dtype"""
    with np.errstate(all="ignore"):
        return float(NP[dtype](x))


def rel_nodec_elem(last: float, loss: float, d: float, dtype: str):
    """(exact decision, float decision) of `(last - loss)/loss < d` for finite loss (no -0.0);
    last may be +inf. d is already rounded to dtype. exact decision follows the IEEE conventions for
    inf and division by zero, and real arithmetic otherwise."""
    if last == INF:
        r = loss < 0
        return r, r
    if loss == 0:
        r = last < 0
        return r, r
    ratio = (Fraction(last) - Fraction(loss)) / Fraction(loss)
    ex = ratio < Fraction(d)
    t = NP[dtype]
    with np.errstate(all="ignore"):
        fl = bool((t(last) - t(loss)) / t(loss) < t(d))
    # a decision closer to the threshold than a few ulp (but not exactly on it) may flip under any equivalent
    # re-formulation of the float expression: report it as ambiguous (ex != fl)
    if ratio != Fraction(d) and abs(ratio - Fraction(d)) <= 32 * Fraction(EPSF[dtype]) * max(abs(ratio), abs(Fraction(d)), 1):
        fl = not ex
    return ex, fl


def abs_nodec(last: float, loss: float, d: float, dtype: str):
    diff = Fraction(last) - Fraction(loss)
    ex = diff < Fraction(d)
    t = NP[dtype]
    with np.errstate(all="ignore"):
        fl = bool(t(last) - t(loss) < t(d))
    if diff != Fraction(d) and abs(diff - Fraction(d)) <= 32 * Fraction(EPSF[dtype]) * max(abs(Fraction(last)), abs(Fraction(loss)), abs(Fraction(d))):
        fl = not ex
    return ex, fl


def finite_all(vals) -> bool:
    return all(isinstance(v, (int, float)) and math.isfinite(v) for v in vals)


def rtb_obs_ieee(last, loss, d, tol, dtype):
    """(nodec, below) with numpy's IEEE arithmetic — used when a loss is NaN / inf (what the comparisons of the code are
    specified to give there: every comparison with NaN is false); finite inputs go through `rtb_obs_exact`"""
    t = NP[dtype]
    with np.errstate(all="ignore"):
        x = np.array(loss, dtype=t)
        l = np.array(np.inf if last is None else last, dtype=t)
        return bool(np.all((l - x) / x < t(d))), bool(np.all(x < t(tol))), False


def abs_nodec_ieee(last, loss, d, dtype):
    t = NP[dtype]
    with np.errstate(all="ignore"):
        r = bool(t(last) - t(loss) < t(d))
    return r, r


def rtb_obs_exact(last, loss, d, tol, dtype):
    """last: None (inf) or list of floats; loss: list of floats (flattened batch).
    -> (nodec, below, ambiguous)"""
    amb = False
    nd = True
    for i, x in enumerate(loss):
        l = INF if last is None else last[i]
        ex, fl = rel_nodec_elem(l, x, d, dtype)
        if ex != fl:
            amb = True
        nd = nd and ex
    below = all(Fraction(x) < Fraction(tol) for x in loss)
    return nd, below, amb


# ----------------------------------------------------------------------------- fake optimizer

class SolverFailed(RuntimeError):
    """what a user callback / solver may legitimately raise inside a driver loop"""


def make_fake_optimizer_class():
    from pypose.optim.optimizer import _Optimizer

    class FakeOpt(_Optimizer):
        """an `_Optimizer` whose step() replays a script of (last, loss, reject_count|None)"""

        def __init__(self, has_reject: bool):  # noqa: no super().__init__: no parameters needed
            self.defaults, self.state, self.param_groups = {}, {}, []   # what torch's Optimizer pickling expects
            self.script = []
            self.calls = 0
            self.loss = None
            if has_reject:
                self.reject, self.reject_count = 16, 0   # like LM

        def __getstate__(self):          # torch's Optimizer pickles only defaults/state/param_groups
            return dict(self.__dict__)

        def __setstate__(self, state):
            self.__dict__.update(state)

        def feed(self, last, loss, rc):
            self.last, self.loss = last, loss
            if rc is not None:
                self.reject_count = rc

        def step(self, input=None, target=None, weight=None):
            self.args = (input, target, weight)
            if getattr(self, "raise_at", None) == self.calls:
                self.raise_at = None
                raise SolverFailed("linear solver failed (injected)")
            last, loss, rc = self.script[self.calls]
            self.calls += 1
            if getattr(self, "own_buffer", None) is not None:
                # an optimizer that keeps ONE buffer for its readings, updates it in place and hands out views of it
                # (or a Parameter): what it returns IS its own state
                self.own_buffer[0], self.own_buffer[1] = float(last), float(loss)
                last, loss = self.own_buffer[0], self.own_buffer[1]
                if getattr(self, "as_parameter", False):
                    loss = torch.nn.Parameter(loss.clone())
            self.feed(last, loss, rc)
            return loss

    FakeOpt.__module__, FakeOpt.__qualname__ = __name__, "FakeOpt"    # picklable (copies stream)
    globals()["FakeOpt"] = FakeOpt
    return FakeOpt


# ----------------------------------------------------------------------------- user subclasses (class 21)

_SUB = {}


def controller_class(kind: str, klass: str):
    """the shipped class, a trivial user subclass, or a user subclass that overrides step() and calls super()"""
    import pypose
    base = pypose.utils.ReduceToBason if kind == "rtb" else pypose.optim.scheduler.StopOnPlateau
    if klass in (None, "lib"):
        return base
    key = (kind, klass)
    if key not in _SUB:
        name = f"User{kind.title()}{klass.title().replace('_', '')}"
        if klass == "sub":
            cls = type(name, (base,), {"user_tag": "mine"})
        elif klass == "falsy_len":
            # a valid user stepper that is FALSY when handed over: it records the losses it saw and offers the container
            # protocol (__len__ = number of recorded steps: 0 at hand-over and after every reset)
            def step(self, loss, _b=base):
                self.__dict__.setdefault("seen_losses", []).append(1)
                return _b.step(self, loss)

            def reset(self, _b=base):
                self.__dict__["seen_losses"] = []
                return _b.reset(self)
            cls = type(name, (base,), {"step": step, "reset": reset, "__len__": lambda self: len(self.__dict__.get("seen_losses", []))})
        elif klass == "falsy_bool":
            # a valid user controller whose truth value is continual(): falsy once it has stopped (e.g. handed to a second
            # driver after an earlier run exhausted it — legitimate, the drivers reset their stepper)
            cls = type(name, (base,), {"__bool__": lambda self: bool(self.continual())})
        elif klass == "sub_prop":
            # a user subclass that turns configuration ATTRIBUTES into PROPERTIES backed by its own private fields
            def mkprop(field):
                priv = "_user_" + field
                return property(lambda self, _p=priv: getattr(self, _p), lambda self, v, _p=priv: setattr(self, _p, v))
            fields = ["decreasing", "patience"] + (["tol", "max_steps"] if kind == "rtb" else [])
            cls = type(name, (base,), {f: mkprop(f) for f in fields})
        else:
            def step(self, loss, _b=base):
                self.seen = getattr(self, "seen", 0) + 1
                return _b.step(self, loss)
            cls = type(name, (base,), {"step": step})
        cls.__module__, cls.__qualname__ = __name__, name
        globals()[name] = cls
        _SUB[key] = cls
    return _SUB[key]


# ----------------------------------------------------------------------------- snapshots

def snap(obj) -> dict:
    return dict(obj.__dict__)


def restore(obj, saved: dict):
    obj.__dict__.clear()
    obj.__dict__.update(saved)


def flat(x) -> list:
    """flattened float list of a loss (tensor / python number)"""
    if torch.is_tensor(x):
        return [float(v) for v in x.detach().double().flatten().tolist()]
    return [float(x)]
