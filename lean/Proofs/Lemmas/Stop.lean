import Pose.Model.Stop
import Proofs.Real
/-!
Helper definitions and lemmas for C20 (stopping controllers).

The *documented causes* of stopping are defined here from the raw history of observations only
(`budgetCause`, `patienceCause`, `sopCause`, `rtbCause`) — they do not mention the controller's
counters — and the lemmas relate the counters of the code to them.
-/
namespace PP.Stop

/-! ### the documented stopping causes, as predicates of the history (0-based step index `i`) -/

/-- the step budget is reached at step `i` (the `(i+1)`-th step) -/
def budgetCause (c : Cfg) (i : Nat) : Prop := c.maxSteps ≤ ((i + 1 : Nat) : Int)

/-- at step `i`, at least `p` consecutive steps — the last `m ≥ p` ones up to and including `i` — all
failed to decrease the loss by the configured amount -/
def patienceCause (p : Int) (obs : Nat → Obs) (i : Nat) : Prop :=
  ∃ m : Nat, p ≤ (m : Int) ∧ m ≤ i + 1 ∧ ∀ j, i + 1 - m ≤ j → j ≤ i → (obs j).nodec = true

/-- StopOnPlateau: budget, patience, or the optimizer's last step involved a rejection -/
def sopCause (c : Cfg) (obs : Nat → Obs) (i : Nat) : Prop :=
  budgetCause c i ∨ patienceCause c.patience obs i ∨ (obs i).rej = true

/-- ReduceToBason: budget, patience, or all losses below `tol` -/
def rtbCause (c : Cfg) (obs : Nat → Obs) (i : Nat) : Prop :=
  budgetCause c i ∨ patienceCause c.patience obs i ∨ (obs i).below = true

/-- length of the maximal run of `nodec` observations ending just before index `n` -/
def trail (obs : Nat → Obs) : Nat → Nat
  | 0 => 0
  | n+1 => if (obs n).nodec then trail obs n + 1 else 0

/-- `patience_count` after `n` steps when it was `p0` before them -/
def pcFrom (p0 : Nat) (obs : Nat → Obs) : Nat → Nat
  | 0 => p0
  | n+1 => if (obs n).nodec then pcFrom p0 obs n + 1 else 0

theorem pcFrom_zero (obs : Nat → Obs) (n : Nat) : pcFrom 0 obs n = trail obs n := by
  induction n with
  | zero => rfl
  | succ n ih => simp [pcFrom, trail, ih]

theorem trail_ge_iff (obs : Nat → Obs) (n m : Nat) :
    m ≤ trail obs n ↔ m ≤ n ∧ ∀ j, n - m ≤ j → j < n → (obs j).nodec = true := by
  induction n generalizing m with
  | zero => simp [trail]
  | succ n ih =>
    unfold trail
    by_cases h : (obs n).nodec = true
    · rw [if_pos h]
      cases m with
      | zero =>
        constructor
        · intro _; exact ⟨by omega, fun j h1 h2 => by omega⟩
        · intro _; omega
      | succ m' =>
        have := ih m'
        constructor
        · intro hm
          have h1 := this.mp (by omega)
          refine ⟨by omega, fun j hj1 hj2 => ?_⟩
          by_cases hjn : j = n
          · subst hjn; exact h
          · exact h1.2 j (by omega) (by omega)
        · intro ⟨hm, hall⟩
          have : m' ≤ trail obs n := this.mpr ⟨by omega, fun j hj1 hj2 => hall j (by omega) (by omega)⟩
          omega
    · rw [if_neg h]
      constructor
      · intro hm
        have : m = 0 := by omega
        subst this
        exact ⟨by omega, fun j h1 h2 => by omega⟩
      · intro ⟨hm, hall⟩
        by_cases hm0 : m = 0
        · omega
        · exact absurd (hall n (by omega) (by omega)) h

theorem trail_le (obs : Nat → Obs) (n : Nat) : trail obs n ≤ n := by
  induction n with
  | zero => simp [trail]
  | succ n ih => unfold trail; split <;> omega

theorem patienceCause_iff (p : Int) (obs : Nat → Obs) (i : Nat) :
    patienceCause p obs i ↔ p ≤ (trail obs (i+1) : Int) := by
  constructor
  · rintro ⟨m, hp, hm, hall⟩
    have : m ≤ trail obs (i+1) :=
      (trail_ge_iff obs (i+1) m).mpr ⟨hm, fun j h1 h2 => hall j h1 (by omega)⟩
    omega
  · intro h
    have := (trail_ge_iff obs (i+1) (trail obs (i+1))).mp (Nat.le_refl _)
    exact ⟨trail obs (i+1), h, this.1, fun j h1 h2 => this.2 j h1 (by omega)⟩

/-- If the run of non-decreases is not broken in the first `n` steps the stale count `p0` is still in
`patience_count`; as soon as one step decreases, `patience_count` forgets `p0`. -/
theorem pcFrom_eq (p0 : Nat) (obs : Nat → Obs) (n : Nat) :
    pcFrom p0 obs n = if trail obs n = n then p0 + n else trail obs n := by
  induction n with
  | zero => simp [pcFrom, trail]
  | succ n ih =>
    unfold pcFrom trail
    have hle := trail_le obs n
    by_cases h : (obs n).nodec = true
    · rw [if_pos h, if_pos h, ih]
      by_cases ht : trail obs n = n
      · rw [if_pos ht, if_pos (by omega)]; omega
      · rw [if_neg ht, if_neg (by omega)]
    · rw [if_neg h, if_neg h, if_neg (by omega)]

/-- HISTORICAL (defect D31, found by this check, repaired in /repo by `fix: stepper reset also clears the patience
counter`): the `_Stepper.reset` of the original code left `patience_count` untouched. Not part of the model. -/
def rtbResetOld (s : St) : St := ⟨0, s.pc, true⟩

/-! ### what a controller step does (both controllers share this shape; `halt` is the
controller-specific immediate cause) -/
structure IsCtl (stepf : St → Obs → St) (c : Cfg) (halt : Obs → Bool) : Prop where
  steps : ∀ s o, (stepf s o).steps = s.steps + 1
  pc : ∀ s o, (stepf s o).pc = if o.nodec then s.pc + 1 else 0
  cont : ∀ s o, (stepf s o).cont = true ↔
    (s.cont = true ∧ ¬ c.maxSteps ≤ ((s.steps + 1 : Nat) : Int) ∧
      ¬ c.patience ≤ (((if o.nodec then s.pc + 1 else 0 : Nat)) : Int) ∧ halt o = false)

theorem sop_isCtl (c : Cfg) : IsCtl (sopStep c) c (fun o => o.rej) := by
  refine ⟨fun s o => rfl, fun s o => rfl, fun s o => ?_⟩
  simp only [sopStep]
  by_cases h1 : c.maxSteps ≤ ((s.steps + 1 : Nat) : Int) <;>
  by_cases h2 : c.patience ≤ (((if o.nodec then s.pc + 1 else 0 : Nat)) : Int) <;>
  cases hr : o.rej <;> cases hc : s.cont <;> simp only [h1, h2, ↓reduceIte] <;> simp

theorem rtb_isCtl (c : Cfg) : IsCtl (rtbStep c) c (fun o => o.below) := by
  refine ⟨fun s o => rfl, fun s o => rfl, fun s o => ?_⟩
  simp only [rtbStep]
  by_cases h1 : c.maxSteps ≤ ((s.steps + 1 : Nat) : Int) <;>
  by_cases h2 : c.patience ≤ (((if o.nodec then s.pc + 1 else 0 : Nat)) : Int) <;>
  cases hr : o.below <;> cases hc : s.cont <;> simp only [h1, h2, ↓reduceIte] <;> simp

section generic
variable {stepf : St → Obs → St} {c : Cfg} {halt : Obs → Bool} (H : IsCtl stepf c halt)
include H

theorem run_steps (s : St) (obs : Nat → Obs) (n : Nat) : (run stepf s obs n).steps = s.steps + n := by
  induction n with
  | zero => rfl
  | succ n ih => simp only [run, H.steps, ih]; omega

theorem run_pc (s : St) (obs : Nat → Obs) (n : Nat) : (run stepf s obs n).pc = pcFrom s.pc obs n := by
  induction n with
  | zero => rfl
  | succ n ih => simp only [run, H.pc, ih, pcFrom]

/-- the flag after `n` steps from an arbitrary state -/
theorem run_cont (s : St) (obs : Nat → Obs) (n : Nat) :
    (run stepf s obs n).cont = true ↔
      (s.cont = true ∧ ∀ i, i < n →
        (¬ c.maxSteps ≤ ((s.steps + i + 1 : Nat) : Int) ∧
         ¬ c.patience ≤ ((pcFrom s.pc obs (i+1) : Nat) : Int) ∧ halt (obs i) = false)) := by
  induction n with
  | zero => simp [run]
  | succ n ih =>
    simp only [run]
    rw [H.cont, ih, run_steps H, run_pc H]
    constructor
    · rintro ⟨⟨hs, hall⟩, h1, h2, h3⟩
      refine ⟨hs, fun i hi => ?_⟩
      by_cases hin : i = n
      · subst hin; exact ⟨h1, by simpa [pcFrom] using h2, h3⟩
      · exact hall i (by omega)
    · rintro ⟨hs, hall⟩
      have := hall n (by omega)
      exact ⟨⟨hs, fun i hi => hall i (by omega)⟩, this.1, by simpa [pcFrom] using this.2.1, this.2.2⟩

/-- absorbing: a stopped controller stays stopped whatever it is fed -/
theorem run_absorbing (s : St) (hs : s.cont = false) (obs : Nat → Obs) (n : Nat) :
    (run stepf s obs n).cont = false := by
  cases h : (run stepf s obs n).cont with
  | false => rfl
  | true => have := ((run_cont H s obs n).mp h).1; simp [hs] at this

/-- monotone: the flag can only go from true to false -/
theorem run_cont_mono (s : St) (obs : Nat → Obs) (n m : Nat) (hnm : n ≤ m)
    (h : (run stepf s obs m).cont = true) : (run stepf s obs n).cont = true := by
  have hm := (run_cont H s obs m).mp h
  exact (run_cont H s obs n).mpr ⟨hm.1, fun i hi => hm.2 i (by omega)⟩

/-- while the flag is true the step count is below the budget -/
theorem run_cont_budget (s : St) (obs : Nat → Obs) (n : Nat) (hn : 1 ≤ n)
    (h : (run stepf s obs n).cont = true) : ((s.steps + n : Nat) : Int) < c.maxSteps := by
  have := ((run_cont H s obs n).mp h).2 (n-1) (by omega)
  have e : s.steps + (n - 1) + 1 = s.steps + n := by omega
  rw [e] at this
  omega

end generic

/-! ### from the initial state: the documented characterisation -/

theorem init_cont_iff {stepf : St → Obs → St} {c : Cfg} {halt : Obs → Bool} (H : IsCtl stepf c halt)
    (obs : Nat → Obs) (n : Nat) :
    (run stepf St.init obs n).cont = true ↔
      ∀ i, i < n → ¬ (budgetCause c i ∨ patienceCause c.patience obs i ∨ halt (obs i) = true) := by
  rw [run_cont H]
  simp only [St.init, true_and, Nat.zero_add, pcFrom_zero]
  constructor
  · intro h i hi
    have := h i hi
    rw [patienceCause_iff]
    unfold budgetCause
    rintro (h1 | h2 | h3)
    · exact this.1 h1
    · exact this.2.1 h2
    · simp [this.2.2] at h3
  · intro h i hi
    have := h i hi
    rw [patienceCause_iff] at this
    unfold budgetCause at this
    refine ⟨fun h1 => this (Or.inl h1), fun h2 => this (Or.inr (Or.inl h2)), ?_⟩
    cases hh : halt (obs i) with
    | false => rfl
    | true => exact absurd (Or.inr (Or.inr hh)) this

/-! ### the driver loop -/

theorem run_shift (stepf : St → Obs → St) (s : St) (obs : Nat → Obs) (n : Nat) :
    run stepf (stepf s (obs 0)) (fun j => obs (j+1)) n = run stepf s obs (n+1) := by
  induction n with
  | zero => rfl
  | succ n ih => simp only [run] at ih ⊢; rw [ih]

/-- what `loop` computes: it performs `m ≤ fuel` iterations, the state is the `m`-step run, the flag
was true before each iteration, and the loop ended because the flag is false (or the fuel ran out). -/
theorem loop_spec (stepf : St → Obs → St) (obs : Nat → Obs) (fuel i : Nat) (s : St) :
    ∃ m, m ≤ fuel ∧ loop stepf obs fuel i s = (i + m, run stepf s (fun j => obs (i + j)) m) ∧
      (∀ j, j < m → (run stepf s (fun j => obs (i + j)) j).cont = true) ∧
      (m = fuel ∨ (run stepf s (fun j => obs (i + j)) m).cont = false) := by
  induction fuel generalizing i s with
  | zero => exact ⟨0, Nat.le_refl _, rfl, fun j hj => by omega, Or.inl rfl⟩
  | succ fuel ih =>
    unfold loop
    by_cases hc : s.cont = true
    · simp only [hc, if_true]
      obtain ⟨m, hm, heq, hbefore, hend⟩ := ih (i+1) (stepf s (obs i))
      have hshift : ∀ n, run stepf (stepf s (obs i)) (fun j => obs (i + 1 + j)) n
          = run stepf s (fun j => obs (i + j)) (n+1) := by
        intro n
        have := run_shift stepf s (fun j => obs (i + j)) n
        simp only [Nat.add_zero] at this
        rw [← this]
        congr 1
        funext j
        congr 1
        omega
      refine ⟨m+1, by omega, ?_, ?_, ?_⟩
      · rw [heq, hshift]; congr 1; omega
      · intro j hj
        cases j with
        | zero => exact hc
        | succ j => rw [← hshift]; exact hbefore j (by omega)
      · rcases hend with h | h
        · left; omega
        · right; rw [← hshift]; exact h
    · have hc' : s.cont = false := by cases h : s.cont <;> simp_all
      simp only [hc', Bool.false_eq_true, if_false]
      exact ⟨0, by omega, rfl, fun j hj => by omega, Or.inr hc'⟩

/-- With the fuel `fuelFor c s` the loop always ends because the flag is false, after at most
`max 1 (max_steps - steps)` iterations (0 iterations if the controller is already stopped). -/
theorem loop_bounded {stepf : St → Obs → St} {c : Cfg} {halt : Obs → Bool} (H : IsCtl stepf c halt)
    (obs : Nat → Obs) (s : St) :
    ∃ m, loop stepf obs (fuelFor c s) 0 s = (m, run stepf s obs m) ∧
      (run stepf s obs m).cont = false ∧
      (∀ j, j < m → (run stepf s obs j).cont = true) ∧
      ((m : Int) ≤ max 1 (c.maxSteps - (s.steps : Int))) ∧
      (s.cont = false → m = 0) ∧ (s.cont = true → 1 ≤ m) := by
  obtain ⟨m, hm, heq, hbefore, hend⟩ := loop_spec stepf obs (fuelFor c s) 0 s
  have hobs : (fun j => obs (0 + j)) = obs := by funext j; simp
  rw [hobs] at heq hbefore hend
  simp only [Nat.zero_add] at heq
  have hfalse : (run stepf s obs m).cont = false := by
    rcases hend with h | h
    · cases hcm : (run stepf s obs m).cont with
      | false => rfl
      | true =>
        have hm1 : 1 ≤ m := by rw [h]; unfold fuelFor; omega
        have := run_cont_budget H s obs m hm1 hcm
        rw [h] at this
        unfold fuelFor at this
        omega
    · exact h
  refine ⟨m, heq, hfalse, hbefore, ?_, ?_, ?_⟩
  · by_cases hm2 : m ≤ 1
    · omega
    · have hc := hbefore (m-1) (by omega)
      have := run_cont_budget H s obs (m-1) (by omega) hc
      omega
  · intro hs
    by_cases hm0 : m = 0
    · exact hm0
    · have := hbefore 0 (by omega)
      simp [run, hs] at this
  · intro hs
    by_cases hm0 : m = 0
    · subst hm0; simp [run, hs] at hfalse
    · omega

/-- From the constructor state the loop ends exactly at the first documented cause. -/
theorem loop_init_first_cause {stepf : St → Obs → St} {c : Cfg} {halt : Obs → Bool} (H : IsCtl stepf c halt)
    (obs : Nat → Obs) :
    1 ≤ (loop stepf obs (fuelFor c St.init) 0 St.init).1 ∧
    (budgetCause c ((loop stepf obs (fuelFor c St.init) 0 St.init).1 - 1) ∨
      patienceCause c.patience obs ((loop stepf obs (fuelFor c St.init) 0 St.init).1 - 1) ∨
      halt (obs ((loop stepf obs (fuelFor c St.init) 0 St.init).1 - 1)) = true) ∧
    ∀ i, i + 1 < (loop stepf obs (fuelFor c St.init) 0 St.init).1 →
      ¬ (budgetCause c i ∨ patienceCause c.patience obs i ∨ halt (obs i) = true) := by
  obtain ⟨m, heq, hf, hb, _, _, h1⟩ := loop_bounded H obs St.init
  rw [heq]
  have hm : 1 ≤ m := h1 rfl
  have hprev := (init_cont_iff H obs (m-1)).mp (hb (m-1) (by omega))
  refine ⟨hm, ?_, fun i hi => hprev i (by omega)⟩
  by_cases hcause : (budgetCause c (m-1) ∨ patienceCause c.patience obs (m-1) ∨ halt (obs (m-1)) = true)
  · exact hcause
  · have : (run stepf St.init obs m).cont = true :=
      (init_cont_iff H obs m).mpr fun i hi => by
        by_cases him : i = m - 1
        · subst him; exact hcause
        · exact hprev i (by omega)
    rw [hf] at this
    exact absurd this (by decide)

/-! ### numeric layer over ℝ -/
section real

theorem relNoDec1_none (d x : ℝ) : relNoDec1 d none x = true ↔ x < 0 := by
  simp [relNoDec1]

theorem relNoDec1_pos (d l x : ℝ) (hx : 0 < x) : relNoDec1 d (some l) x = true ↔ l - x < d * x := by
  simp only [relNoDec1, lt_real, k_real, Nat.cast_zero, hx, decide_true, Bool.true_or, if_true,
    decide_eq_true_eq]
  rw [div_lt_iff₀ hx]

theorem relNoDec1_neg (d l x : ℝ) (hx : x < 0) : relNoDec1 d (some l) x = true ↔ d * x < l - x := by
  simp only [relNoDec1, lt_real, k_real, Nat.cast_zero, hx, decide_true, Bool.or_true, if_true,
    decide_eq_true_eq]
  rw [div_lt_iff_of_neg hx]

theorem relNoDec1_zero (d l : ℝ) : relNoDec1 d (some l) 0 = true ↔ l < 0 := by
  simp [relNoDec1]

theorem absNoDec_iff (d last loss : ℝ) : absNoDec d last loss = true ↔ last - loss < d := by
  simp [absNoDec]

theorem belowTol_iff (tol : ℝ) (loss : List ℝ) : belowTol tol loss = true ↔ ∀ x ∈ loss, x < tol := by
  simp [belowTol]

theorem relNoDec_none_of_nonneg (d : ℝ) (loss : List ℝ) (h : ∃ x ∈ loss, 0 ≤ x) :
    relNoDec d none loss = false := by
  obtain ⟨x, hx, hx0⟩ := h
  cases hh : relNoDec d none loss with
  | false => rfl
  | true =>
    simp only [relNoDec, List.all_eq_true] at hh
    have := (relNoDec1_none d x).mp (hh x hx)
    linarith

theorem relNoDec_some_pos (d : ℝ) (prev loss : List ℝ) (hpos : ∀ x ∈ loss, 0 < x) :
    relNoDec d (some prev) loss = true ↔ ∀ p ∈ List.zip prev loss, p.1 - p.2 < d * p.2 := by
  simp only [relNoDec, List.all_eq_true]
  constructor
  · intro h p hp
    exact (relNoDec1_pos d p.1 p.2 (hpos p.2 (List.of_mem_zip hp).2)).mp (h p hp)
  · intro h p hp
    exact (relNoDec1_pos d p.1 p.2 (hpos p.2 (List.of_mem_zip hp).2)).mpr (h p hp)

/-- step `j` failed to decrease: every element's decrease relative to its **new** value is below `d`
(`j ≥ 1`; the first step after `reset` compares with `last = +inf` and never counts for losses `≥ 0`) -/
def failsAt (d : ℝ) (loss : Nat → List ℝ) (j : Nat) : Prop :=
  ∃ j', j = j' + 1 ∧ ∀ p ∈ List.zip (loss j') (loss j), p.1 - p.2 < d * p.2

/-- observation stream of a numeric run -/
noncomputable def numObs (d tol : ℝ) (last0 : Option (List ℝ)) (loss : Nat → List ℝ) (i : Nat) : Obs :=
  rtbObs d tol (match i with | 0 => last0 | j+1 => some (loss j)) (loss i)

theorem rtbRunNum_last (c : Cfg) (d tol : ℝ) (s : RtbSt ℝ) (loss : Nat → List ℝ) (n : Nat) :
    (rtbRunNum c d tol s loss n).last = (match n with | 0 => s.last | j+1 => some (loss j)) := by
  cases n <;> rfl

theorem rtbRunNum_st (c : Cfg) (d tol : ℝ) (s : RtbSt ℝ) (loss : Nat → List ℝ) (n : Nat) :
    (rtbRunNum c d tol s loss n).st = run (rtbStep c) s.st (numObs d tol s.last loss) n := by
  induction n with
  | zero => rfl
  | succ n ih =>
    simp only [rtbRunNum, rtbStepNum, run]
    rw [ih, rtbRunNum_last]
    rfl

end real

end PP.Stop
