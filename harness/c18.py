"""C18 — point-cloud filters and camera helpers match their brute-force definitions.

Model: lean/Pose/Model/Cloud.lean; theorems: lean/Proofs/Props/C18.lean; driver ops: lean/Pose/Driver/C18.lean.

Streams (each: real code in-process  vs  exact brute-force oracle  vs  Lean model through the driver)
  knn      : knn(ref, nbr, k, ord, largest, sorted) on batched clouds; the returned indices are distinct, in range
             and their exact distances are the k smallest (largest) in order; values are those distances;
             equivariance under a permutation of nbr / ref.
  nbr      : nbr_filter: mask[i] <=> at least n OTHER points within the radius (exact integer decision, hits
             of the radius included on lattice clouds); output == points[mask] bit for bit; equivariance.
  voxel    : voxel_filter centroid branch: one row per occupied voxel == centroid of its members (all channels);
             member branch with the RNG driven to the extremes of its contract: row j is a member of voxel j.
  knnf     : knn_filter with / without radius, batched without radius: rows == mean of the point and its k nearest
             neighbours in the whole cloud, for exactly the retained points, in input order; equivariance.
  randf    : random_filter: distinct in-range indices (tag channel), same indices for every batch item,
             equals points[..., perm[:num], :] for the observed randperm draw.
  camera   : cart2homo/homo2cart, point2pixel, pixel2point, reprojerr on broadcast batches with magnitude
             ladders for focal lengths / depths / homogeneous weights; mutual inverses; reprojerr == 0 iff.
"""
from __future__ import annotations

import itertools
import math
import random
from concurrent.futures import ThreadPoolExecutor
from fractions import Fraction

import numpy as np
import torch

from . import common
from . import util_cloud as U
from .common import Ctx, to_wire

META = {
    "rule": "cases are drawn from ctx.rng as (function, cloud kind in lattice/line/dupes/blobs+outliers/uniform/gauss, "
            "N in 1..300 (two thirds <= 24, a tenth 71..300), 1..6 point dims + 0..3 feature channels, ord in 1/2/inf, "
            "k / n / radius / voxel sizes derived from the cloud's own distance spectrum incl. exact hits of the radius and "
            "of cell boundaries on fixed-point clouds, dtype float32/float64, batch shapes where documented); points are "
            "shuffled so that outliers sit at arbitrary positions; hand-made corner clouds first (1..3 points, one voxel, "
            "nothing retained, #retained <= k), then a FIXED-SEED CORPUS of 1661 cases independent of VERIF_SEED (quick runs a fixed two-thirds of its small-case sweeps) (per stream "
            "ord x dtype x kind crossed with: magnitudes 2^-400..2^400 (f32: 2^-40..2^30), exact radius hits / 0 / inf, "
            "duplicates, k >= 17 and N2 > 40, every flag combination, memory layouts cols/rows/transposed/expanded, one "
            "tensor in two roles, mixed-regime batches, RNG extremes, 36 call histories on caller-held tensors with one "
            "argument varied per call, failing calls and in-place updates between calls; pass 2: every call style x grad mode "
            "/ input type, integer clouds, tuple / int arguments, N, D, k, batch in {1,2,3}, radius and cell size just above / "
            "below / far from the point spacing; every corpus case also checks that results own their memory), then seeded "
            "cases; pass 4: sizes 2^14+1 / 2^16+1 per entry point (2^10+1, 2^11+1 for the quadratic ones) with vectorised exact oracles and "
            "split-consistency, mode / default-dtype sequences on fresh keys, user Tensor subclass, default dtype float64 x cloud dtype, "
            "numpy scalars and refilled numpy size vectors, negative radius, all-negative sizes, clouds <= 0; "
            "quick: 50 knn + 60 nbr + 60 voxel + 60 knn_filter + 25 random_filter + 50 camera + 25 homo + 8 histories (+20% later calls with the "
            "same shapes), thorough: about 12x that; every case goes to "
            "the exact integer oracle, all but the largest clouds beyond a per-stream budget also to the 192-bit Lean model; "
            "a case is non-trivial when N >= 2 and distinct by (stream, kind, N-bucket, dims, ord, k/n bucket, flags, dtype, "
            "batch shape)",
    "trusted": ["torch.topk / torch.unique / torch.argsort / randperm / randint (external kernels: contract parameters "
                "of the model; the driver stand-ins re-check the contract on every call)",
                "numpy int64 / Python int arithmetic of the exact brute-force oracle"],
    "assumptions": [
        "radius >= 0 (for radius < 0 and n = 0 the code keeps nothing while 'at least 0 others' keeps everything)",
        "index claims are made only where the relevant distances are separated by more than 256 eps relative "
        "(ties excluded); on lattice clouds, where float arithmetic is exact, ties are decided exactly and any "
        "index attaining the tied distance is accepted",
        "voxel sizes are float32-representable: the code converts `voxel` with torch.tensor(voxel) (float32) "
        "whatever the dtype of the cloud, so the grid of a float64 cloud is the float32-rounded one",
        "knn: dim = -1 (the default) only (another `dim` is used by the code for both the norm and topk and has no model); "
        "sorted=False: the model (knnApiS, knn_unsorted_spec) fixes the answer as a multiset, compared in any order; "
        "the values torch.topk returns are compared with the distances at the returned indices by the harness only; rows of ref "
        "and nbr have one common width (knn_api_spec)",
        "entry points at degenerate sizes (voxel=[], pdim=0 or width-0 points, the empty cloud (0, D)) are outside the property's "
        "quantifier (1..300 points, 1..6 dimensions): there the check is differential — implementation raises <=> the entry-point "
        "model rejects (`*_api_spec`), plus a brute-force count for nbr_filter",
        "camera: the clause 'point2pixel and pixel2point are mutually inverse' is about intrinsics of the exact form "
        "[[fx,0,cx],[0,fy,cy],[0,0,1]] with fx, fy != 0: with a skew entry or a last row (0,0,w), w != 1, it is FALSE of code and model "
        "(pixel_point_inverse_iff_no_skew, pixel_point_inverse_iff_unit_last_row); general 3x3 matrices are used for point2pixel / reprojerr alone; "
        "|depth| >= finfo.tiny (homo2cart clamps the divisor); batch shapes of (points/pixels, depth, intrinsics, "
        "extrinsics) are broadcastable",
    ],
    "partial": [
        "IEEE rounding is not modelled: numerical outputs are compared at 64 eps relative (+2 eps per summand for "
        "means, condition-aware for projections); theorems are over the reals. The DISCRETE results are tied to the float code "
        "by theorems over arbitrary perturbed distances / quotients within delta (knn_indices_robust, knn_filter_robust, "
        "nbr_filter_robust, voxel_key_robust): outside the band the harness excludes, the selection of the float code is the "
        "model's; that the code's distances are within delta = half that band (128 eps relative) of the exact ones is measured by the harness (values at 64 eps), not proved",
        "equivariance of random_filter / voxel_filter(random=True) in distribution rides on the RNG contract; the "
        "theorems are stated for every draw and every argsort kernel (random_filter_perm, voxel_random_perm)",
    ],
}

ORDS = [2, 1, "inf"]


def pp():
    import pypose
    return pypose


def dt(case):
    return U.DT[case["dtype"]]


def rt(case):
    """relative tolerance of the property for this dtype"""
    return 64 * U.EPS[case["dtype"]]


# ============================================================================ driver job queue

class Jobs:
    def __init__(self):
        self.items = []  # (cost, line, callback)

    def add(self, cost, line, cb):
        self.items.append((cost, line, cb))

    def flush(self, ctx: Ctx, workers: int = 6):
        items, self.items = self.items, []
        if not items:
            return
        # balance by cost over chunks, keep chunks < 200 lines so that Driver.run stays single-process per chunk
        nchunk = max(workers, math.ceil(len(items) / 180))
        order = sorted(range(len(items)), key=lambda i: -items[i][0])
        loads = [0.0] * nchunk
        chunks = [[] for _ in range(nchunk)]
        for i in order:
            j = loads.index(min(loads))
            chunks[j].append(i)
            loads[j] += items[i][0] + 1
        chunks = [c for c in chunks if c]

        def work(ch):
            return ctx.driver.run([items[i][1] for i in ch])
        with ThreadPoolExecutor(max_workers=workers) as ex:
            results = list(ex.map(work, chunks))
        for ch, reps in zip(chunks, results):
            for i, rep in zip(ch, reps):
                st, toks = common.parse_reply(rep)
                if st == "err" and str(toks).startswith("contract"):
                    raise common.InfraError(f"driver stand-in violated its contract: {rep} on {items[i][1][:80]}")
                items[i][2](st, toks)


def nonfinite(ctx, case, label, *tensors):
    """class 38: every value the real code returns for a finite valid input is tested for finiteness BEFORE it goes to the
    Lean driver or into a tolerance comparison; a NaN / inf result is a failure with the input as replay. (The only
    specified non-finite results are the overflowing quotients `p / tiny` of homo2cart / point2pixel at a clamped weight —
    those two checks compare against the overflowing expectation instead.)"""
    for t_ in tensors:
        if isinstance(t_, torch.Tensor) and (t_.is_floating_point() or t_.is_complex()) and not bool(torch.isfinite(t_).all()):
            bad = (~torch.isfinite(t_)).nonzero()[0].tolist()
            ctx.fail(case, f"{label}-non-finite: non-finite result ({t_[tuple(bad)].item()!r} at {bad}) for a finite valid input")
            return True
    return False


def far(a, b, tol):
    """elementwise 'differs by more than tol' that is TRUE for NaN / inf (a NaN must never pass a comparison)"""
    return ~((a - b).abs() <= tol)


def sfar(a: float, b: float, tol: float) -> bool:
    return not (abs(a - b) <= tol)


def wire_radius(r: float) -> str:
    return "1:2000" if math.isinf(r) else to_wire(r)


def cloud_tokens(x: torch.Tensor) -> str:
    return " ".join(to_wire(v) for v in x.reshape(-1).tolist())


def nums(toks):
    return [float(common.from_wire(t)) for t in toks]


# ============================================================================ call styles, grad modes, ownership

import contextlib
import types

STYLES = ["kw", "kw", "min", "pos", "mix", "kwreq"]
GMODES = [None] * 6 + ["req", "nograd", "inference", "graph", "param", "subclass"]
_STATE = {"backward": False}
GRAD_FINITE = {"nbr_filter", "random_filter", "voxel_filter", "pixel2point", "knn_filter"}   # selection / linear in the input


class UserCloud(torch.Tensor):
    """a user's own Tensor subclass (class 21): the functions must treat it by its values"""
    pass
REQ_NAMES = {"knn": ("ref", "nbr"), "nbr_filter": ("points", "nbr", "radius"), "voxel_filter": ("points", "voxel"),
             "knn_filter": ("points", "k"), "random_filter": ("points", "num"), "point2pixel": ("points", "intrinsics"),
             "pixel2point": ("pixels", "depth", "intrinsics"), "reprojerr": ("points", "pixels", "intrinsics")}


def same_arg(v, d):
    if v is None or d is None:
        return v is None and d is None
    if isinstance(v, torch.Tensor) or isinstance(d, torch.Tensor):
        return False
    return type(v) is type(d) and v == d


def detach_all(r):
    if isinstance(r, torch.Tensor):
        return r.detach().as_subclass(torch.Tensor) if type(r) is UserCloud else r.detach()
    if hasattr(r, "values") and hasattr(r, "indices") and isinstance(r, tuple):
        return types.SimpleNamespace(values=r.values.detach(), indices=r.indices.detach())
    if isinstance(r, tuple):
        return tuple(detach_all(q) for q in r)
    return r


def styled(name, style, req, opt):
    """call pypose.<name> passing the optional arguments the way `style` says: all by keyword / only the non-default ones
    / all positionally / half-half / everything (required ones too) by keyword"""
    fn = getattr(pp(), name)
    if style == "pos":
        r = fn(*req, *[v for _, v, _ in opt])
    elif style == "min":
        r = fn(*req, **{n_: v for n_, v, d in opt if not same_arg(v, d)})
    elif style == "mix":
        h = (len(opt) + 1) // 2
        r = fn(*req, *[v for _, v, _ in opt[:h]], **{n_: v for n_, v, d in opt[h:] if not same_arg(v, d)})
    elif style == "kwreq":
        r = fn(**dict(zip(REQ_NAMES[name], req)), **{n_: v for n_, v, _ in opt})
    else:
        r = fn(*req, **{n_: v for n_, v, _ in opt})
    if _STATE["backward"]:
        # the call is part of an autograd graph: it must be differentiable NOW, whatever mode earlier calls ran in
        outs_ = [r] if isinstance(r, torch.Tensor) else [q_ for q_ in r if isinstance(q_, torch.Tensor)] if isinstance(r, tuple) else []
        for q_ in outs_:
            if q_.is_floating_point() and q_.requires_grad and q_.numel() > 0:
                q_.sum().backward(retain_graph=True)
        for a_ in req:
            if isinstance(a_, torch.Tensor) and a_.is_leaf and a_.grad is not None and not bool(torch.isfinite(a_.grad).all()) \
                    and name in GRAD_FINITE:
                raise FloatingPointError(f"non-finite gradient of {name} with respect to its input")
    return detach_all(r)


def prep(x, case):
    """the tensor as the caller holds it in this grad mode / input type"""
    gm = case.get("gmode")
    if gm is None or x is None or not x.is_floating_point():
        return x
    if gm == "req":
        return x.clone().requires_grad_()
    if gm == "graph":
        return x.clone().requires_grad_() * 1.0
    if gm == "param":
        return torch.nn.Parameter(x.clone())
    if gm == "subclass":
        return x.clone().as_subclass(UserCloud)
    return x


def mode_ctx(case):
    gm = case.get("gmode")
    if gm == "nograd":
        return torch.no_grad()
    if gm == "inference":
        return torch.inference_mode()
    return contextlib.nullcontext()


def as_scalar(v, case):
    """radius / sizes the way a caller may write them: a python int when the value is integral"""
    if case.get("np_scalars") and isinstance(v, float):
        return np.float32(v) if case.get("dtype") == "float32" and float(np.float32(v)) == v else np.float64(v)   # numpy scalar
    if case.get("int_scalars") and isinstance(v, float) and math.isfinite(v) and v == int(v) and abs(v) < 2 ** 40:
        return int(v)
    return v


def as_int(v, case):
    """k / n / num / pdim the way a numpy user passes them"""
    return np.int64(v) if case.get("np_scalars") and isinstance(v, int) and not isinstance(v, bool) else v


def _d(t_):
    return torch.view_as_real(t_).double() if t_.is_complex() else t_.double()


def owns_memory(ctx, case, label, outs, inputs, recall):
    """OUTPUTS OWN THEIR MEMORY: write distinct values into every element of every result in place — each must read back
    (no internal overlap), no argument and no other result may change, and a later identical call must still return
    the original result (the result is not a window onto a cache)"""
    if case.get("gmode") is not None or not case.get("own_check"):
        return True
    outs = [o_ for o_ in outs if isinstance(o_, torch.Tensor) and o_.numel() > 0]
    snaps_in = [(t_, t_.detach().clone()) for t_ in inputs if isinstance(t_, torch.Tensor)]
    originals = [o_.clone() for o_ in outs]
    for i_, o_ in enumerate(outs):
        fill = (torch.arange(o_.numel()).reshape(o_.shape) % 2 == 0) if o_.dtype == torch.bool else \
            (torch.arange(o_.numel(), dtype=torch.float64).reshape(o_.shape) + 3).to(o_.dtype)
        try:
            o_.copy_(fill)
        except Exception as e:
            ctx.fail(case, f"{label}-output-memory: result #{i_} cannot be written in place: {type(e).__name__}: {str(e)[:100]}")
            return False
        if not torch.equal(o_, fill):
            ctx.fail(case, f"{label}-output-memory: result #{i_} overlaps itself (expanded / stride-0 memory returned)")
            return False
        for j_, q_ in enumerate(outs):
            if j_ > i_ and not torch.equal(torch.nan_to_num(_d(q_), nan=1.5), torch.nan_to_num(_d(originals[j_]), nan=1.5)):
                ctx.fail(case, f"{label}-output-memory: writing into result #{i_} changed result #{j_}")
                return False
    for t_, sn in snaps_in:
        if not torch.equal(torch.nan_to_num(_d(t_.detach()), nan=1.5), torch.nan_to_num(_d(sn), nan=1.5)):
            ctx.fail(case, f"{label}-output-memory: writing into the result changed an argument (the result aliases its input)")
            return False
    try:
        again = [o_ for o_ in recall() if isinstance(o_, torch.Tensor) and o_.numel() > 0]
    except Exception as e:
        ctx.fail(case, f"{label}-output-memory: the same call raises after an earlier result was modified: {type(e).__name__}: {str(e)[:100]}")
        return False
    for i_, o_ in enumerate(outs):
        fill = (torch.arange(o_.numel()).reshape(o_.shape) % 2 == 0) if o_.dtype == torch.bool else \
            (torch.arange(o_.numel(), dtype=torch.float64).reshape(o_.shape) + 3).to(o_.dtype)
        if not torch.equal(o_, fill):
            ctx.fail(case, f"{label}-output-memory: a later call overwrote result #{i_} of the earlier call (results live in a shared buffer)")
            return False
    for a_, b_ in zip(again, originals):
        if a_.shape != b_.shape or not torch.equal(torch.nan_to_num(_d(a_), nan=1.5), torch.nan_to_num(_d(b_), nan=1.5)):
            ctx.fail(case, f"{label}-output-memory: a later identical call returns another result after an earlier result "
                           f"was modified in place (results share memory with internal state)")
            return False
    return True


# ============================================================================ cloud construction

_NPBUF = {}   # caller-held numpy buffers for scalar-vector arguments (voxel sizes), refilled in place between calls
_KEPT = {}    # history stream: tensors held by the caller across calls: key -> {"x": typed tensor, "nb": bumps applied}
_BASES = []   # (buffer, snapshot) of every larger buffer a view was cut from during the current check

HIST_KINDS = ["blobs", "uniform", "gauss", "blobs", "lattice"]   # mostly tie-free: tie rows are skipped by the oracle


def build_cloud(case, item=0, which="pts"):
    """float64 cloud of batch item `item`; per-item kinds / magnitudes make mixed-regime batches"""
    kinds, mags = case.get("item_kinds"), case.get("item_mags")
    kind = kinds[item % len(kinds)] if kinds else case["kind"]
    r = random.Random(case["data_seed"] * 1009 + item * 31 + (0 if which == "pts" else 7))
    N = case["N"] if which == "pts" else case["N2"]
    x = U.gen_cloud(r, N, case["pdim"], case.get("extra", 0), kind, case["dtype"])
    m = mags[item % len(mags)] if mags else case.get("mag_exp", 0)
    if case["dtype"] in ("float16", "bfloat16"):
        x = x.clamp(-2000.0, 2000.0).to(U.DT[case["dtype"]]).double()
    sh = case.get("shift")
    if sh in ("neg", "max0") and x.numel():
        pdc = case["pdim"]
        top = x[:, :pdc].amax(0, keepdim=True)
        x = x.clone()
        x[:, :pdc] = x[:, :pdc] - top - (top.abs() + 1 if sh == "neg" else 0)    # exact on fixed-point clouds
        if case["dtype"] in ("float32", "float16", "bfloat16"):
            x = x.to(U.DT[case["dtype"]]).double()
    elif sh == "zero":
        x = torch.zeros_like(x)
    if U.is_int_like(case["dtype"]):
        dn = case["dtype"]
        xi = torch.round(x * 64)
        if dn == "int8":
            xi = torch.round(x).clamp(-60, 60)            # differences stay inside int8
        elif dn == "uint8":
            xi = (torch.round(x) - torch.round(x).amin(0, keepdim=True)).clamp(0, 250)
        elif dn == "int16":
            xi = torch.round(x * 4).clamp(-8000, 8000)
        elif dn == "bool":
            xi = (x > x.median()).double()
        return xi.clamp(-2.0 ** 20, 2.0 ** 20)      # integer-valued cloud (also the real part of a complex one)
    if m:
        x = x * 2.0 ** m          # exact: the whole cloud moved to a tiny / huge magnitude
    return x


def lay(x: torch.Tensor, layout):
    """the same values in another memory layout (what a caller's slice / transpose / expand looks like)"""
    if not layout or x.dim() < 2 or x.shape[-2] == 0:
        return x
    N, D = x.shape[-2], x.shape[-1]
    if layout == "cols":      # columns 1..D of a wider buffer
        base = torch.full(x.shape[:-1] + (D + 3,), 7.5 if x.is_floating_point() else 1, dtype=x.dtype)
        base[..., 1:1 + D] = x
        v = base[..., 1:1 + D]
    elif layout == "rows":    # every second row of a longer buffer
        base = torch.full(x.shape[:-2] + (2 * N + 1, D), -3.25 if x.is_floating_point() else 1, dtype=x.dtype)
        base[..., 1:2 * N:2, :] = x
        v = base[..., 1:2 * N:2, :]
    elif layout == "T":       # transposed storage
        base = x.transpose(-1, -2).contiguous()
        v = base.transpose(-1, -2)
    elif layout == "expand" and x.dim() >= 3:   # one cloud broadcast over the batch (stride 0)
        base = x.reshape((-1,) + tuple(x.shape[-2:]))[0].clone()
        v = base.expand(x.shape)
    else:
        return x
    _BASES.append((base, base.clone()))
    return v


def apply_bump(x: torch.Tensor, j: int, seed: int):
    """j-th in-place update a caller makes to its own tensor between two calls (add_, item assignment, copy_, mul_)"""
    r = random.Random(seed * 77 + j)
    N = x.shape[0]
    a, b, c, d = (r.randrange(N) for _ in range(4))
    t = j % 4
    if t == 1:
        x.add_((x[a] - x[b]).clone() if a != b else x[a].clone())
    elif t == 2:
        x[a] = x[b] + (x[c] - x[d])
    elif t == 3:
        x.copy_(x.flip(0))
    else:
        x[:, 0].mul_(2)


def kept(case, which="pts"):
    """the caller-held tensor of a history step, brought to the state this step expects"""
    key = case["keep"] if which == "pts" or case.get("alias") else case["keep2"]
    ent = _KEPT.get(key)
    if ent is None:
        c0 = case["obj"] if which == "pts" or case.get("alias") else case["obj2"]
        x0 = build_cloud(c0).to(U.DT[c0["dtype"]]).clone()
        ent = {"x": x0, "nb": 0, "seed": c0["data_seed"], "np": None}
        if c0.get("numpy"):
            ent["np"] = x0.numpy().copy()                 # the caller's own numpy buffer
            ent["x"] = torch.from_numpy(ent["np"])        # a tensor sharing its memory (no copy)
        _KEPT[key] = ent
    want = case.get("bump" if which == "pts" or case.get("alias") else "bump2", 0)
    while ent["nb"] < want:
        ent["nb"] += 1
        if ent["np"] is None:
            apply_bump(ent["x"], ent["nb"], ent["seed"])
        else:
            tmp = ent["x"].clone()
            apply_bump(tmp, ent["nb"], ent["seed"])
            ent["np"][...] = tmp.numpy()                  # refilled through numpy: the tensor's version counter does not move
    return ent["x"]


def batch_items(case):
    return int(math.prod(case.get("batch", [])))


def stacked(case, which="pts"):
    """(batch..., N, D) tensor in the case dtype and the list of float64 per-item clouds"""
    if case.get("keep") is not None:
        x = kept(case, which)
        return x, [x.double()]
    if which == "nbr" and case.get("alias"):
        return None, None
    nb = max(1, batch_items(case))
    if case.get("layout") == "expand" and case.get("batch"):
        items = [build_cloud(case, 0, which)] * nb
    else:
        items = [build_cloud(case, b, which) for b in range(nb)]
    x = torch.stack(items).reshape(tuple(case.get("batch", [])) + tuple(items[0].shape)).to(dt(case))
    return prep(lay(x, case.get("layout")), case), items


def single(case):
    """(float64 cloud, typed tensor handed to the implementation) for the unbatched functions"""
    if case.get("keep") is not None:
        x = kept(case)
        return x.double(), x
    X64 = build_cloud(case)
    return X64, prep(lay(X64.to(dt(case)), case.get("layout")), case)


def spectrum(K: np.ndarray):
    """sorted distinct off-diagonal exact keys of a square key matrix"""
    n = K.shape[0]
    if n < 2:
        return []
    vals = set(int(v) for v in K[~np.eye(n, dtype=bool)].reshape(-1).tolist())
    return sorted(vals)


def key_to_radius(key: int, s: int, ord_) -> float:
    if ord_ == 2:
        return math.sqrt(Fraction(key, 1)) * 2.0 ** -s if key < (1 << 1000) else float("inf")
    return float(key) * 2.0 ** -s


def choose_radius(r: random.Random, K, s, ord_, dtype, exact, mode=None):
    """radius from the cloud's own distance spectrum: exact hits (lattice), midpoints, below min, above max"""
    sp = spectrum(K)
    if not sp:
        rad = r.choice([0.0, 1.0, 0.5])
    else:
        if mode is None and r.random() < 0.25:
            mode = r.choice(["hit+", "hit-", "hit+", "hit-", "farbelow", "farabove", "neg"])
        c = {"hit": 0.0, "mid": 0.5, "below": 0.8, "above": 0.9, "zero": 0.99}.get(mode, r.random())
        j = r.randrange(len(sp))
        if mode == "neg":
            return -float(torch.tensor(key_to_radius(sp[j], s, ord_), dtype=U.DT[dtype])) or -1.0
        if mode in ("hit+", "hit-", "farbelow", "farabove"):
            # spacing relative to the threshold: just above / just below a distance that occurs (either sign, far
            # outside the rounding band), and radii far below the smallest / far above the largest spacing
            dj = key_to_radius(sp[j], s, ord_)
            dl = 2.0 ** -r.choice([10, 13] if dtype != "float64" else [10, 20, 30, 40])   # outside the 256 eps band
            rad = {"hit+": dj * (1 + dl), "hit-": dj * (1 - dl),
                   "farbelow": key_to_radius(sp[0], s, ord_) * 2.0 ** -30,
                   "farabove": key_to_radius(sp[-1], s, ord_) * 2.0 ** 30}[mode]
            return float(torch.tensor(rad, dtype=U.DT[dtype]))
        if mode == "hit" and ord_ == 2:
            sq = [q for q in range(len(sp)) if math.isqrt(sp[q]) ** 2 == sp[q]]
            j = r.choice(sq) if sq else j
        if c < 0.35 and (exact or mode == "hit"):
            rad = key_to_radius(sp[j], s, ord_)          # hits a distance exactly when representable
        elif c < 0.75:
            a = key_to_radius(sp[j], s, ord_)
            b = key_to_radius(sp[min(j + 1, len(sp) - 1)], s, ord_)
            rad = (a + b) / 2 if b > a else a * 1.25 + 2.0 ** -s
        elif c < 0.85:
            rad = key_to_radius(sp[0], s, ord_) * 0.5
        elif c < 0.93:
            rad = key_to_radius(sp[-1], s, ord_) * 1.5
        else:
            rad = 0.0
    rad = float(torch.tensor(rad, dtype=U.DT[dtype]))      # the code compares in the tensor's dtype
    return rad


# ============================================================================ knn

class KRow(list):
    """one row of exact keys with its rank orders cached"""
    __slots__ = ("_ord",)

    def order(self, largest: bool):
        if not hasattr(self, "_ord"):
            self._ord = {}
        if largest not in self._ord:
            # Python's sort is stable: ties are ordered by index
            self._ord[largest] = sorted(range(len(self)), key=(lambda j: -self[j]) if largest else self.__getitem__)
        return self._ord[largest]


def key_rows(K):
    return [KRow(int(v) for v in row) for row in K.tolist()]


def topk_verdict(drow, Krow, sel, k, largest, is_sorted, tol, exact):
    """is `sel` (indices) a valid top-k of the exact key row up to the tolerance?  returns (ok, why)"""
    n = len(drow)
    if len(sel) != k:
        return False, f"returned {len(sel)} indices for k={k}"
    if len(set(sel)) != k:
        return False, "repeated index"
    if any((j < 0 or j >= n) for j in sel):
        return False, "index out of range"
    order = Krow.order(largest)
    sel_eff = list(sel) if is_sorted else sorted(sel, key=lambda j: (Krow[j] if not largest else -Krow[j]))
    for t in range(k):
        a, b = drow[sel_eff[t]], drow[order[t]]
        if exact:
            if Krow[sel_eff[t]] != Krow[order[t]]:
                return False, f"rank {t}: index {sel_eff[t]} at distance {a!r}, but the rank-{t} distance is {b!r}"
        elif sfar(a, b, 4 * tol * max(a, b)):
            return False, f"rank {t}: index {sel_eff[t]} at distance {a!r}, but the rank-{t} distance is {b!r}"
    return True, ""


def cut_structure(Krow, drow, m, tol, exact):
    """top-m selection on one row: (must, ties, need) — the indices strictly closer than the m-th smallest distance, the
    indices (numerically) AT it, and how many of those a top-m selection takes; `need == len(ties)` means no tie across the cut"""
    order = Krow.order(False)
    c_i = order[m - 1]
    if exact:
        must = [j for j in order if Krow[j] < Krow[c_i]]
        ties = [j for j in order if Krow[j] == Krow[c_i]]
    else:
        c = drow[c_i]
        band = 8 * tol * c
        must = [j for j in order if drow[j] < c - band]
        ties = [j for j in order if abs(drow[j] - c) <= band]
    return must, ties, m - len(must)


def row_unambiguous(Krow, drow, k, largest, tol, exact):
    """True when the top-k index list is uniquely determined (no (near-)tie among ranks 0..k)"""
    ks = Krow.order(largest)
    for t in range(min(k, len(ks) - 1)):
        a, b = drow[ks[t]], drow[ks[t + 1]]
        if exact:
            if Krow[ks[t]] == Krow[ks[t + 1]]:
                return False
        elif abs(a - b) <= 8 * tol * max(a, b):
            return False
    return True


def exact_all_unambiguous(case, r64, n64, k, largest, tol):
    Za, s_ = U.exact_ints(torch.cat([r64, n64], 0))
    K = U.pair_keys(Za[: r64.shape[0]], Za[r64.shape[0]:], case["ord"])
    d = U.keys_to_dist(K, s_, case["ord"]).tolist()
    ex = U.float_exact(Za, s_, case["dtype"], case["ord"])
    return all(row_unambiguous(kr, d[i], k, largest, tol, ex) for i, kr in enumerate(key_rows(K)))


def check_knn(ctx: Ctx, case, jobs: Jobs | None = None) -> bool:
    P = pp()
    o, k, largest, is_sorted = case["ord"], case["k"], case["largest"], case["sorted"]
    ref, ref_items = stacked(case, "pts")
    if case.get("alias"):         # the same tensor object passed as both arguments
        nbr, nbr_items = ref, ref_items
    else:
        nbr, nbr_items = stacked(case, "nbr")
    tol = rt(case)
    ok = True
    mon = common.PurityMonitor()
    style = "min" if case.get("defaults") else case.get("style", "kw")

    def KNN(a_, b_):
        return styled("knn", style, (a_, b_), [("k", as_int(k, case), 1), ("ord", U.ord_arg(o), 2), ("dim", -1, -1),
                                               ("largest", largest, False), ("sorted", is_sorted, True)])
    try:
        res = mon.call("knn", KNN, ref, nbr)
        vals_o, idx_o = res.values, res.indices
        vals, idx = vals_o.clone(), idx_o.clone()
        if nonfinite(ctx, case, "knn", vals):
            return False
    except Exception as e:
        ctx.fail(case, f"knn-raises: knn raises on a valid call: {type(e).__name__}: {str(e)[:120]}")
        return False
    if mon.mutations:
        ctx.fail(case, "knn-mutates: knn changed its argument")
        ok = False
    want_shape = tuple(case.get("batch", [])) + (case["N"], k)
    if vals.dtype != ref.dtype or idx.dtype != torch.int64:
        ctx.fail(case, f"knn-shape: values {vals.dtype} indices {idx.dtype} for {ref.dtype} clouds")
        return False
    if tuple(vals.shape) != want_shape or tuple(idx.shape) != want_shape:
        ctx.fail(case, f"knn-shape: values {tuple(vals.shape)} indices {tuple(idx.shape)}, documented {want_shape}")
        return False
    nB = max(1, batch_items(case)) if case.get("batch") else 1
    vals2 = vals.reshape(nB, case["N"], k).double()
    idx2 = idx.reshape(nB, case["N"], k)
    for b in range(vals2.shape[0]):
        Za, s = U.exact_ints(torch.cat([ref_items[b], nbr_items[b]], 0))
        Zr, Zn = Za[: case["N"]], Za[case["N"]:]
        K = U.pair_keys(Zr, Zn, o)
        d = U.keys_to_dist(K, s, o)
        exact = U.float_exact(Za, s, case["dtype"], o)
        rows = key_rows(K)
        d = d.tolist()
        idx_l, vals_l = idx2[b].tolist(), vals2[b].tolist()
        for i in range(case["N"]):
            sel = idx_l[i]
            Krow = rows[i]
            good, why = topk_verdict(d[i], Krow, sel, k, largest, is_sorted, tol, exact)
            if not good:
                ctx.fail(case, f"knn-neighbours: batch {b} reference {i}: {why} (ord={o}, k={k}, largest={largest})")
                return False
            for t, j in enumerate(sel):
                v = vals_l[i][t]
                if sfar(v, d[i][j], tol * max(d[i][j], abs(v))):
                    ctx.fail(case, f"knn-values: batch {b} reference {i} rank {t}: value {v!r} but the distance to "
                                   f"index {j} is {d[i][j]!r} (ord={o})")
                    return False
        # model
        if jobs is not None and b < case.get("model_items", 1):
            # sorted=False: the model of the unsorted entry point (knnApiS, knn_unsorted_spec) fixes the answer as a multiset
            line = (f"c18.api.{'knn' if is_sorted else 'knnu'} {U.ord_tok(o)} {1 if largest else 0} {k} {case['pdim']} {case['N']} {case['N2']} "
                    + cloud_tokens(ref_items[b]) + " " + cloud_tokens(nbr_items[b]))
            unamb = [row_unambiguous(rows[i], d[i], k, largest, tol, exact) for i in range(case["N"])]

            def cb(st, toks, b=b, vals_b=vals2[b].clone(), idx_b=idx2[b].clone(), unamb=unamb):
                if st != "ok":
                    ctx.disagree("knn", case, f"model replied {toks} where the implementation returned a result")
                    return
                n = case["N"] * k
                mv = nums(toks[:n])
                mi = [int(t) for t in toks[n:]]
                for i in range(case["N"]):
                    av, mvi = vals_b[i].tolist(), mv[i * k:(i + 1) * k]
                    ai, mii = idx_b[i].tolist(), mi[i * k:(i + 1) * k]
                    if not is_sorted:                   # any order: compare as multisets (NaN sorts nowhere: sfar catches it)
                        av, mvi, ai, mii = sorted(av), sorted(mvi), sorted(ai), sorted(mii)
                    for t in range(k):
                        a, m = av[t], mvi[t]
                        if sfar(a, m, tol * max(abs(a), abs(m))):
                            ctx.disagree("knn", case, f"batch {b} row {i} rank {t}: value {a!r} model {m!r} (sorted={is_sorted})")
                            return
                    if unamb[i] and ai != mii:
                        ctx.disagree("knn", case, f"batch {b} row {i}: indices {ai} model {mii} (sorted={is_sorted})")
                        return
            jobs.add(case["N"] * case["N2"], line, cb)
    if ok and not owns_memory(ctx, case, "knn", [vals_o, idx_o], [ref, nbr], lambda: (lambda r_: [r_.values, r_.indices])(KNN(ref, nbr))):
        return False
    # item-wise = batched: every batch item alone must give the row block of the batched call
    if case.get("batch") and ok:
        refs, nbrs = ref.reshape((nB,) + tuple(ref.shape[-2:])), nbr.reshape((nB,) + tuple(nbr.shape[-2:]))
        for b in range(nB):
            try:
                r1 = KNN(refs[b], nbrs[b])
            except Exception as e:
                ctx.fail(case, f"knn-itemwise: knn raises on batch item {b} alone: {type(e).__name__}: {str(e)[:100]}")
                return False
            if tuple(r1.values.shape) != (case["N"], k) or \
                    not torch.allclose(r1.values.double(), vals2[b], rtol=tol, atol=0) or \
                    (is_sorted and not torch.equal(r1.indices, idx2[b]) and exact_all_unambiguous(case, ref_items[b], nbr_items[b], k, largest, tol)):
                ctx.fail(case, f"knn-itemwise: batch item {b} alone gives another result than inside the batch "
                               f"(kinds {case.get('item_kinds')}, magnitudes 2^{case.get('item_mags')})")
                return False
    # equivariance under permutations of nbr and of ref (on the real code itself)
    if case.get("perm_seed") is not None and ok and not case.get("alias") and case.get("keep") is None:
        r = random.Random(case["perm_seed"])
        sn = list(range(case["N2"]))
        r.shuffle(sn)
        sr = list(range(case["N"]))
        r.shuffle(sr)
        try:
            res2 = KNN(ref[..., sr, :], nbr[..., sn, :])
        except Exception as e:
            ctx.fail(case, f"knn-raises: knn raises on the permuted cloud: {type(e).__name__}: {str(e)[:100]}")
            return False
        v2 = res2.values.reshape(nB, case["N"], k).double()
        i2 = res2.indices.reshape(nB, case["N"], k)
        sn_t = torch.tensor(sn)
        for b in range(v2.shape[0]):
            Za, s = U.exact_ints(torch.cat([ref_items[b], nbr_items[b]], 0))
            K = U.pair_keys(Za[: case["N"]], Za[case["N"]:], o)
            d = U.keys_to_dist(K, s, o)
            exact = U.float_exact(Za, s, case["dtype"], o)
            rows = key_rows(K)
            d = d.tolist()
            for ii, i in enumerate(sr):
                if not is_sorted:
                    if not torch.allclose(v2[b, ii].sort().values, vals2[b, i].sort().values, rtol=tol, atol=0):
                        ctx.fail(case, f"knn-equivariance: the set of values of reference {i} changes under a permutation of the clouds (sorted=False)")
                        return False
                    continue
                if not torch.allclose(v2[b, ii], vals2[b, i], rtol=tol, atol=0):
                    ctx.fail(case, f"knn-equivariance: values of reference {i} change under a permutation of the clouds")
                    return False
                if row_unambiguous(rows[i], d[i], k, largest, tol, exact):
                    if sn_t[i2[b, ii]].tolist() != idx2[b, i].tolist():
                        ctx.fail(case, f"knn-equivariance: neighbours of reference {i} change under a permutation of nbr: "
                                       f"{sn_t[i2[b, ii]].tolist()} vs {idx2[b, i].tolist()}")
                        return False
    return ok


# ============================================================================ nbr_filter

def exact_counts(K, Tkey):
    """number of OTHER points with key <= Tkey, per row (exact)"""
    n = K.shape[0]
    if K.dtype == object:
        le = np.vectorize(lambda v: int(v) <= Tkey, otypes=[bool])(K) if K.size else np.zeros(K.shape, dtype=bool)
    else:
        le = K <= Tkey if Tkey < (1 << 62) else np.ones(K.shape, dtype=bool)
    le = le & ~np.eye(n, dtype=bool)
    return le.sum(-1), le


def nbr_oracle(case, X64, radius, o, pdim):
    """exact brute force: (counts lo, counts hi, K, d, s, exact) — lo/hi differ only for undecidable pairs"""
    Z, s = U.exact_ints(X64[:, :pdim])
    K = U.pair_keys(Z, Z, o)
    d = U.keys_to_dist(K, s, o)
    exact = U.float_exact(Z, s, case["dtype"], o)
    Tkey = U.radius_key(radius, s, o)
    cnt, le = exact_counts(K, Tkey)
    tol = rt(case)
    near = (np.abs(d - radius) <= 4 * tol * np.maximum(d, radius)) if math.isfinite(radius) else np.zeros(d.shape, dtype=bool)
    if exact:
        if K.dtype == object:
            hit = np.vectorize(lambda v: int(v) == Tkey, otypes=[bool])(K)
        else:
            hit = K == Tkey
        # an exact hit of the radius (key == threshold and radius**2 == key) is decided exactly by the float code
        if math.isinf(radius):
            thr_exact = False
        else:
            fr = Fraction(radius)
            thr_exact = (fr * fr * Fraction(4) ** s == Tkey) if o == 2 else (fr * Fraction(2) ** s == Tkey)
        decisive_hit = hit & thr_exact
        near = near & ~decisive_hit
    near = near & ~np.eye(K.shape[0], dtype=bool)
    lo = (le & ~near).sum(-1)
    hi = (le | near).sum(-1)
    nbr_oracle.last_hits = int((decisive_hit & ~np.eye(K.shape[0], dtype=bool)).sum()) if exact else 0
    return lo, hi, K, d, s, exact


def check_nbr(ctx: Ctx, case, jobs: Jobs | None = None) -> bool:
    P = pp()
    o, n, pdim, radius = case["ord"], case["n"], case["pdim_arg"], case["radius"]
    X64, X = single(case)
    pd = case["pdim"] if pdim is None else pdim
    mon = common.PurityMonitor()
    style = case.get("style", "kw")
    rad_arg = as_scalar(radius, case)

    def NBR(x_, rm):
        return styled("nbr_filter", style, (x_, as_int(n, case), rad_arg),
                      [("pdim", as_int(pdim, case), None), ("ord", U.ord_arg(o), 2), ("return_mask", rm, False)])
    try:
        out, mask = mon.call("nbr_filter", lambda x_: NBR(x_, True), X)
        out2 = NBR(X, False)
    except Exception as e:
        ctx.fail(case, f"nbr-raises: nbr_filter raises on a valid call: {type(e).__name__}: {str(e)[:120]}")
        return False
    if mon.mutations:
        ctx.fail(case, "nbr-mutates: nbr_filter changed its argument")
        return False
    if mask.dtype != torch.bool or tuple(mask.shape) != (case["N"],):
        ctx.fail(case, f"nbr-shape: mask {mask.dtype} {tuple(mask.shape)}")
        return False
    if out.dtype != X.dtype or not U.rows_equal(out, X.detach()[mask]) or not U.rows_equal(out2, out):
        ctx.fail(case, "nbr-select: output is not points[mask] (with and without return_mask)")
        return False
    if nonfinite(ctx, case, "nbr", out, out2):
        return False
    out_keep, mask_keep = out.clone(), mask.clone()
    if not owns_memory(ctx, case, "nbr", [out, mask, out2], [X], lambda: list(NBR(X, True))):
        return False
    out, mask = out_keep, mask_keep
    lo, hi, K, d, s, exact = nbr_oracle(case, X64, radius, o, pd)
    if radius < 0:
        # theorem nbr_filter_neg_radius: nothing (not even the point itself) is within a negative radius, count = -1
        lo = hi = np.full(case["N"], -1)
        ctx.count("nbr.negative-radius")
    if exact:
        ctx.count("nbr.exact-arithmetic-clouds")
    if nbr_oracle.last_hits:
        ctx.count("nbr.pairs-exactly-at-radius", nbr_oracle.last_hits)
    m = mask.tolist()
    ctx.count("nbr.points-kept", sum(m))
    ctx.count("nbr.points-removed", len(m) - sum(m))
    amb = 0
    for i in range(case["N"]):
        if lo[i] >= n and not m[i]:
            ctx.fail(case, f"nbr-count: point {i} has {int(lo[i])} other points within radius {radius!r} (ord={o}, pdim={pd}) "
                           f">= n={n} but is removed")
            return False
        if hi[i] < n and m[i]:
            ctx.fail(case, f"nbr-count: point {i} has only {int(hi[i])} other points within radius {radius!r} (ord={o}, pdim={pd}) "
                           f"< n={n} but is kept")
            return False
        amb += lo[i] != hi[i]
    if amb:
        ctx.count("nbr.ambiguous-rows", int(amb))
    if jobs is not None:
        line = (f"c18.nbr {U.ord_tok(o)} {pd} {X64.shape[1]} {case['N']} {n} {wire_radius(radius)} " + cloud_tokens(X64))

        def cb(st, toks, m=m, lo=lo, hi=hi):
            if st != "ok":
                ctx.disagree("nbr", case, f"model replied {toks}")
                return
            mm = [int(t) for t in toks[: case["N"]]]
            mc = [int(t) for t in toks[case["N"]: 2 * case["N"]]]
            for i in range(case["N"]):
                if lo[i] == hi[i] and bool(mm[i]) != m[i]:
                    ctx.disagree("nbr", case, f"point {i}: implementation keeps={m[i]} model keeps={bool(mm[i])}")
                    return
                if radius >= 0 and not (lo[i] <= mc[i] <= hi[i]):
                    ctx.disagree("nbr", case, f"point {i}: model count {mc[i]} outside the exact count [{lo[i]}, {hi[i]}]")
                    return
        jobs.add(case["N"] ** 2, line, cb)
        if case["N"] <= 40:
            rm = case["data_seed"] % 2
            line2 = (f"c18.api.nbr {U.ord_tok(o)} {'none' if pdim is None else pdim} {X64.shape[1]} {case['N']} {n} "
                     f"{wire_radius(radius)} {rm} " + cloud_tokens(X64))
            out64 = out.double()

            def cb2(st, toks, m=m, lo=lo, hi=hi, rm=rm, out64=out64):
                if st != "ok":
                    ctx.disagree("nbr", case, f"entry-point model replied {toks} for a call the implementation accepts")
                    return
                if any(lo[i] != hi[i] for i in range(case["N"])):
                    return
                Mm = int(toks[0])
                rest = toks[1:]
                if rm:
                    if rest[0] != "mask" or [bool(int(t)) for t in rest[1:1 + case["N"]]] != m:
                        ctx.disagree("nbr", case, "entry-point model: returned mask differs from the implementation's")
                        return
                    rest = rest[1 + case["N"]:]
                elif rest[0] != "nomask":
                    ctx.disagree("nbr", case, "entry-point model returns a mask although return_mask=False")
                    return
                else:
                    rest = rest[1:]
                mv = torch.tensor(nums(rest), dtype=torch.float64).reshape(Mm, X64.shape[1]) if Mm else torch.zeros(0, X64.shape[1], dtype=torch.float64)
                if Mm != out64.shape[0] or not torch.equal(mv, out64):
                    ctx.disagree("nbr", case, f"entry-point model (pdim={pdim}, return_mask={bool(rm)}): rows differ from the implementation's")
            jobs.add(case["N"] ** 2, line2, cb2)
    # equivariance on the real code
    if case.get("perm_seed") is not None and case.get("keep") is None:
        r = random.Random(case["perm_seed"])
        sg = list(range(case["N"]))
        r.shuffle(sg)
        try:
            o3, m3 = NBR(X[sg], True)
        except Exception as e:
            ctx.fail(case, f"nbr-raises: nbr_filter raises on the permuted cloud: {type(e).__name__}: {str(e)[:100]}")
            return False
        dec = [lo[i] == hi[i] for i in sg]
        if any(dc and (a != m[i]) for dc, a, i in zip(dec, m3.tolist(), sg)):
            ctx.fail(case, "nbr-equivariance: mask of the permuted cloud is not the permuted mask")
            return False
        if not U.rows_equal(o3, X[sg][m3]):
            ctx.fail(case, "nbr-select: output of the permuted cloud is not points[mask]")
            return False
    return True


# ============================================================================ voxel_filter

def voxel_oracle(case, X64, vox):
    """exact voxel keys per point; returns (keys list of tuples, ambiguous flag)"""
    vd = len(vox)
    N = X64.shape[0]
    eps = U.EPS[case["dtype"]]
    cols = [[Fraction(v) for v in X64[:, c].tolist()] for c in range(vd)]
    mins = [min(col) for col in cols]
    keys = [[0] * vd for _ in range(N)]
    amb = False
    for c in range(vd):
        v = Fraction(float(torch.tensor(vox[c], dtype=torch.float32)))
        for i in range(N):
            num = cols[c][i] - mins[c]
            qx = num / v
            t = math.trunc(qx)
            keys[i][c] = t
            frac = abs(qx - round(qx))
            if frac == 0:
                # exact multiple: decided exactly iff the subtraction is exact in the dtype
                f = float(num)
                if case["dtype"] != "float64":
                    cast = U.DT[case["dtype"]] if case["dtype"] in ("float16", "bfloat16") else torch.float32
                    f = float(torch.tensor(f, dtype=cast).double())
                if Fraction(f) != num:
                    amb = True
            elif frac <= 16 * eps * max(1, abs(qx)):
                amb = True
    return [tuple(kk) for kk in keys], amb


def check_voxel(ctx: Ctx, case, jobs: Jobs | None = None) -> bool:
    P = pp()
    vox = case["voxel"]
    X64, X = single(case)
    N, D = X.shape
    keys, amb = voxel_oracle(case, X64, vox)
    if amb:
        ctx.count("voxel.ambiguous-skipped")
        return True
    groups = {}
    for i, kk in enumerate(keys):
        groups.setdefault(kk, []).append(i)
    ukeys = sorted(groups)
    M = len(ukeys)
    eps = U.EPS[case["dtype"]]
    style = case.get("style", "kw")
    vform = case.get("vox_form", "list")
    vox_arg = [as_scalar(v_, case) for v_ in vox]
    vox_arg = tuple(vox_arg) if vform == "tuple" else vox_arg
    if vform in ("np32", "np64"):
        buf = _NPBUF.setdefault((vform, len(vox)), np.zeros(len(vox), dtype=np.float32 if vform == "np32" else np.float64))
        buf[...] = vox                      # the caller re-uses one numpy buffer for the sizes
        vox_arg = buf

    def VOX(x_, rnd_):
        va = vox_arg if isinstance(vox_arg, np.ndarray) else type(vox_arg)(vox_arg)
        r_ = styled("voxel_filter", style, (x_, va), [("random", rnd_, False)])
        if isinstance(vox_arg, np.ndarray) and not np.array_equal(vox_arg, np.asarray(vox, dtype=vox_arg.dtype)):
            raise AssertionError("voxel_filter modified the caller's numpy array of voxel sizes")
        return r_
    if not case["random"]:
        mon = common.PurityMonitor()
        try:
            out = mon.call("voxel_filter", lambda x_: VOX(x_, False), X)
        except Exception as e:
            ctx.fail(case, f"voxel-raises: voxel_filter raises on a valid call: {type(e).__name__}: {str(e)[:120]}")
            return False
        if mon.mutations:
            ctx.fail(case, "voxel-mutates: voxel_filter changed its argument")
            return False
        if nonfinite(ctx, case, "voxel", out):
            return False
        if tuple(out.shape) != (M, D) or out.dtype != X.dtype:
            ctx.fail(case, f"voxel-count: {tuple(out.shape)} {out.dtype} returned, the cloud occupies {M} voxels (D={D})")
            return False
        out_keep = out.clone()
        if not owns_memory(ctx, case, "voxel", [out], [X], lambda: [VOX(X, False)]):
            return False
        out = out_keep
        want = torch.stack([X64[groups[kk]].mean(0) for kk in ukeys])
        scale = torch.stack([X64[groups[kk]].abs().amax(0) for kk in ukeys])
        cnts = torch.tensor([len(groups[kk]) for kk in ukeys], dtype=torch.float64).unsqueeze(1)
        tolm = (64 + 2 * cnts) * eps * scale
        got = out.double()
        bad = far(got, want, tolm)
        if bool(bad.any()):
            # same set in another order?  (the property does not fix the order of the voxels)
            used, match = set(), True
            for j in range(M):
                cand = [q for q in range(M) if q not in used and not bool(far(got[q], want[j], tolm[j]).any())]
                if not cand:
                    match = False
                    break
                used.add(cand[0])
            if not match:
                j = int(bad.any(1).nonzero()[0])
                ctx.fail(case, f"voxel-centroid: row {j} is {got[j].tolist()} but the centroid of the {len(groups[ukeys[j]])} "
                               f"points of voxel {ukeys[j]} is {want[j].tolist()}")
                return False
            ctx.count("voxel.order-differs")
        if jobs is not None:
            line = f"c18.voxel {D} {len(vox)} {N} " + " ".join(to_wire(float(torch.tensor(v, dtype=torch.float32))) for v in vox) \
                   + " " + cloud_tokens(X64)

            def cb(st, toks, got=got, tolm=tolm):
                if st != "ok":
                    ctx.disagree("voxel", case, f"model replied {toks}")
                    return
                Mm = int(toks[0])
                if Mm != M:
                    ctx.disagree("voxel", case, f"model has {Mm} voxels, implementation {M}")
                    return
                vd = len(vox)
                mk = [int(t) for t in toks[1:1 + M * vd]]
                if [tuple(mk[j * vd:(j + 1) * vd]) for j in range(M)] != ukeys:
                    ctx.disagree("voxel", case, "model voxel keys differ from the exact oracle's")
                    return
                mv = torch.tensor(nums(toks[1 + M * vd:]), dtype=torch.float64).reshape(M, D)
                if bool(far(got, mv, tolm).any()) and "voxel.order-differs" not in ctx.hist:
                    j = int(far(got, mv, tolm).any(1).nonzero()[0])
                    ctx.disagree("voxel", case, f"row {j}: implementation {got[j].tolist()} model {mv[j].tolist()}")
            jobs.add(N * M, line, cb)
            if N <= 40:
                line2 = f"c18.api.voxel 0 {D} {len(vox)} {N} 0 " \
                        + " ".join(to_wire(float(torch.tensor(v, dtype=torch.float32))) for v in vox) + " " + cloud_tokens(X64)

                def cb2(st, toks, got=got, tolm=tolm):
                    if st != "ok":
                        ctx.disagree("voxel", case, f"entry-point model replied {toks} for a call the implementation accepts")
                        return
                    if int(toks[0]) != M:
                        ctx.disagree("voxel", case, f"entry-point model has {toks[0]} voxels, implementation {M}")
                        return
                    mv = torch.tensor(nums(toks[1:]), dtype=torch.float64).reshape(M, D)
                    if bool(far(got, mv, tolm).any()) and "voxel.order-differs" not in ctx.hist:
                        ctx.disagree("voxel", case, "entry-point model: centroids differ from the implementation's")
                jobs.add(N * M, line2, cb2)
        if case.get("perm_seed") is not None and case.get("keep") is None:
            r = random.Random(case["perm_seed"])
            sg = list(range(N))
            r.shuffle(sg)
            o2 = VOX(X[sg], False).double()
            if o2.shape != got.shape or bool(far(o2, got, 2 * tolm).any()):
                ctx.fail(case, "voxel-equivariance: result changes under a permutation of the points")
                return False
        return True
    # member branch: drive the RNG to the extremes of its contract and through a scripted draw
    mode = case["rng_mode"]
    script = {"ints": [random.Random(case["data_seed"] + 5 + j).randrange(1 << 20) for j in range(M + 2)]}
    try:
        if mode == "real":
            torch.manual_seed(case["data_seed"])
        with U.observe_rng(mode, script) as log:
            out = VOX(X, True)
    except Exception as e:
        ctx.fail(case, f"voxel-raises: voxel_filter(random=True) raises on a valid call (rng {mode}): "
                       f"{type(e).__name__}: {str(e)[:120]}")
        return False
    if tuple(out.shape) != (M, D):
        ctx.fail(case, f"voxel-count: random=True returned {tuple(out.shape)}, the cloud occupies {M} voxels (D={D})")
        return False
    if out.dtype != X.dtype:
        ctx.fail(case, f"voxel-member: random=True returned dtype {out.dtype} for a {X.dtype} cloud (rows are not the input points)")
        return False
    out_keep = out.clone()

    def VOX_again():
        if mode == "real":
            torch.manual_seed(case["data_seed"])
        with U.observe_rng(mode, script):
            return [VOX(X, True)]
    if not owns_memory(ctx, case, "voxel", [out], [X], VOX_again):
        return False
    out = out_keep
    members = [set(groups[kk]) for kk in ukeys]
    where = {}
    for i, row in enumerate(X.tolist()):
        where.setdefault(tuple(row), set()).add(i)
    rowsets = [where.get(tuple(row), set()) for row in out.tolist()]
    if any(not rs for rs in rowsets):
        j = [bool(rs) for rs in rowsets].index(False)
        ctx.fail(case, f"voxel-member: row {j} {out[j].tolist()} is not an input point (rng {mode})")
        return False
    if any(not (rowsets[j] & members[j]) for j in range(M)):
        # accept another order of the voxels, but every voxel must be represented exactly once
        used, match = set(), True
        for j in range(M):
            cand = [q for q in range(M) if q not in used and (rowsets[q] & members[j])]
            if not cand:
                match = False
                break
            used.add(cand[0])
        if not match:
            j = [bool(rowsets[j] & members[j]) for j in range(M)].index(False)
            ctx.fail(case, f"voxel-member: row {j} {out[j].tolist()} is not a member of voxel {ukeys[j]} "
                           f"(members {sorted(members[j])[:8]}, rng {mode})")
            return False
        ctx.count("voxel.order-differs")
    draws = [v for (nm, a, vs) in log if nm == "randint" for v in vs]
    if jobs is not None and len(draws) == M and all(0 <= dv < len(groups[kk]) for dv, kk in zip(draws, ukeys)):
        line = f"c18.api.voxel 1 {D} {len(vox)} {N} {M} " + " ".join(map(str, draws)) + " " \
               + " ".join(to_wire(float(torch.tensor(v, dtype=torch.float32))) for v in vox) + " " + cloud_tokens(X64)

        def cb(st, toks, out=out.double()):
            if st != "ok":
                ctx.disagree("voxel", case, f"model replied {toks}")
                return
            if int(toks[0]) != M:
                ctx.disagree("voxel", case, f"entry-point model has {toks[0]} voxels, implementation {M}")
                return
            mv = torch.tensor(nums(toks[1:]), dtype=torch.float64).reshape(M, D)
            if not torch.equal(mv, out):
                # torch.argsort is not guaranteed stable: another member of the same voxel is still fine
                ctx.count("voxel.rand-other-member")
        jobs.add(N * M, line, cb)
    elif jobs is not None:
        ctx.count("voxel.rng-unobserved")
    return True


# ============================================================================ knn_filter

def check_knnf(ctx: Ctx, case, jobs: Jobs | None = None) -> bool:
    P = pp()
    o, k, pdim, radius = case["ord"], case["k"], case["pdim_arg"], case["radius"]
    x, items = stacked(case)
    pd = case["pdim"] if pdim is None else pdim
    N, D = items[0].shape
    eps = U.EPS[case["dtype"]]
    tol = rt(case)
    style = case.get("style", "kw")
    rad_arg = as_scalar(radius, case)

    def KNNF(x_):
        return styled("knn_filter", style, (x_, as_int(k, case)),
                      [("pdim", as_int(pdim, case), None), ("radius", rad_arg, None), ("ord", U.ord_arg(o), 2)])
    mon = common.PurityMonitor()
    try:
        out = mon.call("knn_filter", KNNF, x)
    except Exception as e:
        if N < k + 1:
            ctx.count("knnf.k-range-error")
            if jobs is not None:
                line = f"c18.api.knnf {U.ord_tok(o)} {'none' if pdim is None else pdim} {D} {N} {k} {0 if radius is None else 1} {wire_radius(radius or 0.0)} " \
                       + cloud_tokens(items[0])
                jobs.add(1, line, lambda st, toks: None if st == "err" else
                         ctx.disagree("knnf", case, "implementation raises for N < k+1, the model returns a result"))
            return True
        ctx.fail(case, f"knnf-raises: knn_filter raises on a valid call (N={N}, k={k}, radius={radius!r}): "
                       f"{type(e).__name__}: {str(e)[:120]}")
        return False
    if N < k + 1:
        ctx.fail(case, f"knnf-k-range: knn_filter returned a result for N={N} < k+1={k + 1} (no k neighbours exist)")
        return False
    if mon.mutations:
        ctx.fail(case, "knnf-mutates: knn_filter changed its argument")
        return False
    if nonfinite(ctx, case, "knnf", out):
        return False
    if out.dtype != x.dtype:
        ctx.fail(case, f"knnf-shape: dtype {out.dtype} returned for a {x.dtype} cloud")
        return False
    out_keep = out.clone()
    if not owns_memory(ctx, case, "knnf", [out], [x], lambda: [KNNF(x)]):
        return False
    out = out_keep
    outs = out.reshape((-1,) + tuple(out.shape[-2:])).double() if radius is None else out.double().unsqueeze(0)
    if radius is None and tuple(out.shape) != tuple(x.shape):
        ctx.fail(case, f"knnf-shape: {tuple(out.shape)} returned for input {tuple(x.shape)}")
        return False
    for b, X64 in enumerate(items):
        Z, s = U.exact_ints(X64[:, :pd])
        K = U.pair_keys(Z, Z, o)
        d = U.keys_to_dist(K, s, o).tolist()
        exact = U.float_exact(Z, s, case["dtype"], o)
        rows = key_rows(K)
        if radius is None:
            keep = list(range(N))
        else:
            lo, hi, *_ = nbr_oracle(case, X64, radius, o, pd)
            if radius < 0:
                lo = hi = np.full(N, -1)
            if any(lo[i] != hi[i] and (lo[i] < k <= hi[i]) for i in range(N)):
                ctx.count("knnf.ambiguous-skipped")
                return True
            keep = [i for i in range(N) if lo[i] >= k]
        got = outs[b]
        if tuple(got.shape) != (len(keep), D):
            ctx.fail(case, f"knnf-retained: {tuple(got.shape)} returned; {len(keep)} of {N} points have at least k={k} others "
                           f"within radius {radius!r} (ord={o}, pdim={pd}), D={D}")
            return False
        scale_all = X64.abs().amax(0)
        for r_, i in enumerate(keep):
            Krow = rows[i]
            must, ties, need = cut_structure(Krow, d[i], k + 1, tol, exact)
            tolm = (64 + 2 * (k + 1)) * eps * X64[must + ties].abs().amax(0)
            if need == len(ties):
                # no tie ACROSS the cut (ties inside the neighbourhood do not matter): one admissible set
                nb = must + ties
                ctx.count("knnf.rows-checked")
                want = X64[nb].mean(0)
                if bool(far(got[r_], want, tolm).any()):
                    ctx.fail(case, f"knnf-mean: output row {r_} (input point {i}) is {got[r_].tolist()} but the mean of the point and "
                                   f"its {k} nearest neighbours {[j for j in nb if j != i]} is {want.tolist()} "
                                   f"(radius={radius!r}, ord={o}, pdim={pd})")
                    return False
                continue
            # ties at the selection boundary: the row must be the mean over SOME admissible choice —
            # all points closer than the cut distance plus any `need` of the points exactly at it
            ncomb = math.comb(len(ties), need)
            base = X64[must].sum(0) if must else torch.zeros(D, dtype=torch.float64)
            if ncomb <= 600:
                ctx.count("knnf.tie-rows-enumerated")
                hit = False
                for comb in itertools.combinations(ties, need):
                    want = (base + X64[list(comb)].sum(0)) / (k + 1)
                    if not bool(far(got[r_], want, tolm).any()):
                        hit = True
                        break
                if not hit:
                    ctx.fail(case, f"knnf-mean-ties: output row {r_} (input point {i}) is {got[r_].tolist()}: it is not the mean of the "
                                   f"{len(must)} points closer than the cut distance {d[i][ties[0]]!r} plus ANY {need} of the {len(ties)} points "
                                   f"{ties} exactly at it ({ncomb} admissible choices; k={k}, radius={radius!r}, ord={o}, pdim={pd})")
                    return False
            else:
                # too many choices to enumerate: necessary condition per channel (sum of the `need` smallest / largest tied values)
                ctx.count("knnf.tie-rows-bounded")
                tv = X64[ties].sort(0).values
                lo_ = (base + tv[:need].sum(0)) / (k + 1)
                hi_ = (base + tv[-need:].sum(0)) / (k + 1)
                if bool(((got[r_] < lo_ - tolm) | (got[r_] > hi_ + tolm) | ~torch.isfinite(got[r_])).any()):
                    ctx.fail(case, f"knnf-mean-ties: output row {r_} (input point {i}) is {got[r_].tolist()}, outside the range "
                                   f"[{lo_.tolist()}, {hi_.tolist()}] of the means over admissible choices (k={k}, ord={o})")
                    return False
        if jobs is not None and b < case.get("model_items", 1):
            line = f"c18.api.knnf {U.ord_tok(o)} {'none' if pdim is None else pdim} {D} {N} {k} {0 if radius is None else 1} {wire_radius(radius or 0.0)} " \
                   + cloud_tokens(X64)
            unamb = [row_unambiguous(rows[i], d[i], k + 1, False, tol, exact) for i in keep]

            def cb(st, toks, got=got.clone(), keep=keep, unamb=unamb, X64=X64):
                if st != "ok":
                    ctx.disagree("knnf", case, f"model replied {toks} where the implementation returned a result")
                    return
                Mm = int(toks[0])
                if Mm != len(keep):
                    ctx.disagree("knnf", case, f"model retains {Mm} points, implementation {len(keep)}")
                    return
                mv = torch.tensor(nums(toks[1:]), dtype=torch.float64).reshape(Mm, D)
                tolm = (64 + 2 * (k + 1)) * eps * X64.abs().amax(0)
                for r_ in range(Mm):
                    if unamb[r_] and bool(far(got[r_], mv[r_], tolm).any()):
                        ctx.disagree("knnf", case, f"row {r_}: implementation {got[r_].tolist()} model {mv[r_].tolist()}")
                        return
            jobs.add(N * N, line, cb)
    if radius is None and case.get("batch"):
        xs_ = x.reshape((-1, N, D))
        for b in range(xs_.shape[0]):
            try:
                o1 = KNNF(xs_[b]).double()
            except Exception as e:
                ctx.fail(case, f"knnf-itemwise: knn_filter raises on batch item {b} alone: {type(e).__name__}: {str(e)[:100]}")
                return False
            tolm = (64 + 2 * (k + 1)) * eps * items[b].abs().amax(0)
            if o1.shape != outs[b].shape or bool(far(o1, outs[b], tolm).any()):
                ctx.fail(case, f"knnf-itemwise: batch item {b} alone gives other rows than inside the batch "
                               f"(kinds {case.get('item_kinds')}, magnitudes 2^{case.get('item_mags')})")
                return False
    # equivariance on the real code
    if case.get("perm_seed") is not None and case.get("keep") is None:
        r = random.Random(case["perm_seed"])
        sg = list(range(N))
        r.shuffle(sg)
        try:
            o2 = KNNF(x[..., sg, :]).double()
        except Exception as e:
            ctx.fail(case, f"knnf-raises: knn_filter raises on the permuted cloud: {type(e).__name__}: {str(e)[:100]}")
            return False
        if radius is None:
            X64 = items[0]
            Z, s = U.exact_ints(X64[:, :pd])
            K = U.pair_keys(Z, Z, o)
            d = U.keys_to_dist(K, s, o).tolist()
            exact = U.float_exact(Z, s, case["dtype"], o)
            rows = key_rows(K)
            o2 = o2.reshape((-1,) + tuple(o2.shape[-2:]))[0]
            tolm = (64 + 2 * (k + 1)) * eps * X64.abs().amax(0)
            for ii, i in enumerate(sg):
                if row_unambiguous(rows[i], d[i], k + 1, False, tol, exact):
                    if bool(far(o2[ii], outs[0][i], tolm).any()):
                        ctx.fail(case, f"knnf-equivariance: the row of point {i} changes under a permutation of the cloud")
                        return False
    return True


# ============================================================================ random_filter

def check_randf(ctx: Ctx, case, jobs: Jobs | None = None) -> bool:
    P = pp()
    x, items = stacked(case)
    N, D = items[0].shape
    num, mode = case["num"], case["rng_mode"]
    script = None
    if mode == "script":
        pr = list(range(N))
        random.Random(case["data_seed"] + 3).shuffle(pr)
        script = {"perm": [pr]}
    style = case.get("style", "kw")

    def RF(x_):
        return styled("random_filter", style, (x_, as_int(num, case)), [])

    def RF_again():
        if mode == "real":
            torch.manual_seed(case["data_seed"])
        with U.observe_rng(mode, script):
            return [RF(x)]
    mon = common.PurityMonitor()
    try:
        if mode == "real":
            torch.manual_seed(case["data_seed"])
        with U.observe_rng(mode, script) as log:
            out = mon.call("random_filter", lambda x_: RF(x_), x)
    except Exception as e:
        ctx.fail(case, f"randf-raises: random_filter raises on a valid call (N={N}, num={num}): {type(e).__name__}: {str(e)[:120]}")
        return False
    if mon.mutations:
        ctx.fail(case, "randf-mutates: random_filter changed its argument")
        return False
    want_shape = tuple(case.get("batch", [])) + (num, D)
    if tuple(out.shape) != want_shape or out.dtype != x.dtype:
        ctx.fail(case, f"randf-shape: {tuple(out.shape)} {out.dtype} returned, documented {want_shape} {x.dtype}")
        return False
    out_keep = out.clone()
    if not owns_memory(ctx, case, "randf", [out], [x], RF_again):
        return False
    out = out_keep
    nB = max(1, batch_items(case)) if case.get("batch") else 1
    outs = out.reshape(nB, num, D)
    xs = x.reshape(nB, N, D)
    idx_all = []
    for b in range(outs.shape[0]):
        # which input rows can each output row be?  then a matching with distinct indices must exist
        where = {}
        for i, row in enumerate(xs[b].tolist()):
            where.setdefault(tuple(row), []).append(i)
        cands = [where.get(tuple(row), []) for row in outs[b].tolist()]
        if any(not c for c in cands):
            j = [bool(c) for c in cands].index(False)
            ctx.fail(case, f"randf-member: batch {b} output row {j} {outs[b, j].tolist()} is not an input point")
            return False
        # multiset inclusion: every distinct row value is used at most as often as it occurs in the input
        cnt = {}
        for c in cands:
            cnt[tuple(c)] = cnt.get(tuple(c), 0) + 1
        for c, m in cnt.items():
            if m > len(c):
                ctx.fail(case, f"randf-distinct: batch {b}: input point(s) {list(c)} returned {m} times (N={N}, num={num})")
                return False
        idx_all.append([c[0] if len(c) == 1 else None for c in cands])
    for b in range(1, len(idx_all)):
        if any(a is not None and c is not None and a != c for a, c in zip(idx_all[0], idx_all[b])):
            ctx.fail(case, "randf-batch: different batch items are sampled at different indices")
            return False
    if case.get("batch") and nB >= 2:
        for b in range(nB):
            if mode == "real":
                torch.manual_seed(case["data_seed"])
            with U.observe_rng(mode, script):
                o1 = RF(xs[b])
            if not torch.equal(o1, outs[b]):
                ctx.fail(case, f"randf-itemwise: batch item {b} alone (same draw) gives other rows than inside the batch")
                return False
    perms = [vs for (nm, a, vs) in log if nm == "randperm"]
    if case["dtype"] in ("complex64",):
        return True
    if jobs is not None and len(perms) == 1 and sorted(perms[0]) == list(range(N)):
        nb_model = nB if nB * N * D <= 4000 else 1          # the whole batch goes to the model: ONE draw for every item
        line = f"c18.api.randf {D} {N} {num} {nb_model} " + " ".join(map(str, perms[0])) + " " \
               + " ".join(cloud_tokens(items[b_]) for b_ in range(nb_model))

        def cb(st, toks, got=outs[:nb_model].double()):
            if st != "ok":
                ctx.disagree("randf", case, f"model replied {toks}")
                return
            mv = torch.tensor(nums(toks), dtype=torch.float64).reshape(nb_model, num, D)
            if not torch.equal(mv, got):
                ctx.disagree("randf", case, f"implementation is not points[..., perm[:num], :] for the observed draw {perms[0][:num]} "
                                            f"on every one of the {nb_model} batch items")
        jobs.add(N * nb_model, line, cb)
    elif jobs is not None:
        ctx.count("randf.rng-unobserved")
    return True


# ============================================================================ camera helpers

def lad(r: random.Random, lo=-3, hi=3, signed=True):
    v = 10.0 ** r.uniform(lo, hi) if r.random() < 0.7 else r.choice([1.0, 2.0, 0.5, 100.0, 1e-2, 640.0, 3.0])
    return v * (r.choice([-1, 1]) if signed else 1)


def gen_camera(case):
    """tensors of one camera case (all float64 holding dtype-representable values)"""
    r = random.Random(case["data_seed"])
    bp, bk, be = tuple(case["bp"]), tuple(case["bk"]), tuple(case["be"]) if case["ext"] else None
    n = case["n"]
    d = case["dtype"]

    def rnd(shape, f):
        m = int(math.prod(shape))
        t = torch.tensor([f() for _ in range(m)], dtype=torch.float64).reshape(shape)
        return t.to(U.DT[d]).double()
    sp = case.get("span", 0)      # extra decades on every ladder: extreme-but-valid cameras / scenes
    zlo = (-2 if d == "float32" else -6) - sp
    pts = rnd(bp + (n, 3), lambda: lad(r, -2 - sp, 2 + sp))
    if case.get("zmode") == "ladder":
        z = rnd(bp + (n,), lambda: lad(r, zlo, 3 + sp))
        pts[..., 2] = z
    elif case.get("zmode") == "tiny":
        tn = U.TINY[d]      # depth exactly +-tiny, 2 tiny, 0: the clamp of homo2cart, with x, y of the same tiny scale
        pts = rnd(bp + (n, 3), lambda: r.choice([1.0, -3.0, 17.0, 0.0, 64.0])) * tn
        pts[..., 2] = rnd(bp + (n,), lambda: r.choice([1.0, -1.0, 2.0, -2.0, 0.0, 1.0])) * tn
    K = torch.zeros(bk + (3, 3), dtype=torch.float64)
    K[..., 0, 0] = rnd(bk, lambda: lad(r, -1 - sp, 3 + sp))
    K[..., 1, 1] = rnd(bk, lambda: lad(r, -1 - sp, 3 + sp))
    K[..., 0, 2] = rnd(bk, lambda: lad(r, -1 - sp, 3 + sp) if r.random() < 0.9 else 0.0)
    K[..., 1, 2] = rnd(bk, lambda: lad(r, -1 - sp, 3 + sp) if r.random() < 0.9 else 0.0)
    K[..., 2, 2] = 1.0
    if case.get("focal"):
        K[..., 0, 0], K[..., 1, 1] = case["focal"]
    if case.get("center_equal"):
        K[..., 1, 2] = K[..., 0, 2]
    if case.get("general_K"):
        K[..., 0, 1] = rnd(bk, lambda: lad(r, -2, 1))
        K[..., 1, 0] = rnd(bk, lambda: lad(r, -2, 1))
        K[..., 2, 0] = rnd(bk, lambda: lad(r, -3, -1))
        K[..., 2, 1] = rnd(bk, lambda: lad(r, -3, -1))
        K[..., 2, 2] = rnd(bk, lambda: lad(r, -1, 1))
    ext = None
    if case["ext"]:
        m = int(math.prod(be))
        rows = []
        for _ in range(m):
            q = [r.gauss(0, 1) for _ in range(4)]
            nq = math.sqrt(sum(c * c for c in q))
            t = [lad(r, -2, 2) for _ in range(3)]
            rows.append(t + [c / nq for c in q])
        ext = torch.tensor(rows, dtype=torch.float64).reshape(be + (7,)).to(U.DT[d]).double()
    px = rnd(bp + (n, 2), lambda: lad(r, -1 - sp, 3 + sp))
    depth = rnd(bp + (n,), lambda: lad(r, zlo, 3 + sp))
    if case.get("aliasK"):        # the same (3,3) tensor is both the point set and the intrinsics
        K = pts
    return pts, K, ext, px, depth


def quat_rot(q):
    x, y, z, w = q.unbind(-1)
    return torch.stack([
        torch.stack([1 - 2 * (y * y + z * z), 2 * (x * y - z * w), 2 * (x * z + y * w)], -1),
        torch.stack([2 * (x * y + z * w), 1 - 2 * (x * x + z * z), 2 * (y * z - x * w)], -1),
        torch.stack([2 * (x * z - y * w), 2 * (y * z + x * w), 1 - 2 * (x * x + y * y)], -1)], -2)


def check_camera(ctx: Ctx, case, jobs: Jobs | None = None) -> bool:
    P = pp()
    d = case["dtype"]
    eps, tiny = U.EPS[d], U.TINY[d]
    pts, K, ext, px, depth = gen_camera(case)
    T = U.DT[d]
    ptsT, KT, pxT, depthT = pts.to(T), K.to(T), px.to(T), depth.to(T)
    if case.get("aliasK"):
        KT = ptsT                                  # one tensor object, two roles
    elif case.get("layout") == "views":            # slices / transposes / strided views of larger caller buffers
        ptsT, pxT, KT = lay(ptsT, "cols"), lay(pxT, "rows"), lay(KT, "T")
        dbuf = torch.full(depthT.shape[:-1] + (2 * depthT.shape[-1],), 9.0, dtype=T)
        dbuf[..., ::2] = depthT
        _BASES.append((dbuf, dbuf.clone()))
        depthT = dbuf[..., ::2]
    elif case.get("layout") == "expandK" and case["bk"]:
        K = K.reshape(-1, 3, 3)[0].expand(tuple(case["bk"]) + (3, 3)).clone()
        KT = K.reshape(-1, 3, 3)[0].to(T).expand(tuple(case["bk"]) + (3, 3))      # stride-0 intrinsics
    ptsT, pxT, depthT = prep(ptsT, case), prep(pxT, case), prep(depthT, case)
    KT = ptsT if case.get("aliasK") else prep(KT, case)
    extT = P.SE3(prep(ext.to(T), case)) if ext is not None else None
    style = case.get("style", "kw")

    def P2P(p_, k_, e_):
        return styled("point2pixel", style, (p_, k_), [("extrinsics", e_, None)])

    def REP(p_, x_, k_, e_, red_):
        return styled("reprojerr", style, (p_, x_, k_), [("extrinsics", e_, None), ("reduction", red_, "none")])

    def PX2PT(x_, d_, k_):
        return styled("pixel2point", "kwreq" if style == "kwreq" else "kw", (x_, d_, k_), [])
    mon = common.PurityMonitor()
    args = (ptsT, KT) if ext is None else (ptsT, KT, extT)
    try:
        uv = mon.call("point2pixel", lambda *a_: P2P(a_[0], a_[1], a_[2] if len(a_) > 2 else None), *args)
    except Exception as e:
        ctx.fail(case, f"camera-raises: point2pixel raises on a valid call: {type(e).__name__}: {str(e)[:120]}")
        return False
    bshape = torch.broadcast_shapes(tuple(case["bp"]), tuple(case["bk"]), tuple(case["be"]) if ext is not None else ())
    n = case["n"]
    if uv.dtype != T:
        ctx.fail(case, f"camera-shape: point2pixel returned dtype {uv.dtype} for {T} input")
        return False
    if tuple(uv.shape) != tuple(bshape) + (n, 2):
        ctx.fail(case, f"camera-shape: point2pixel returned {tuple(uv.shape)}, documented {tuple(bshape) + (n, 2)}")
        return False
    uv_keep = uv.clone()
    if not owns_memory(ctx, case, "camera", [uv], [ptsT, KT] + ([extT.tensor()] if ext is not None else []),
                       lambda: [P2P(ptsT, KT, extT)]):
        return False
    uv = uv_keep
    # broadcast everything to (B, n, .) in float64 for the item-wise comparison
    B = int(math.prod(bshape))
    ptsB = pts.expand(tuple(bshape) + (n, 3)).reshape(B, n, 3)
    KB = K.expand(tuple(bshape) + (3, 3)).reshape(B, 3, 3)
    extB = ext.expand(tuple(bshape) + (7,)).reshape(B, 7) if ext is not None else None
    uvB = uv.double().reshape(B, n, 2)
    # condition-aware tolerance (64 eps of the accumulated magnitudes)
    if ext is not None:
        R = quat_rot(extB[:, 3:])
        pc = torch.einsum("bij,bnj->bni", R, ptsB) + extB[:, None, :3]
        # q.act(p) = p + w*uv + v x uv with uv = 2(v x p): every component sees terms of size ~|p| (not |R||p|)
        Pmag = 6 * ptsB.abs().amax(-1, keepdim=True).expand_as(ptsB) + extB[:, None, :3].abs()
    else:
        pc, Pmag = ptsB, ptsB.abs()
    h = torch.einsum("bij,bnj->bni", KB, pc)
    A = torch.einsum("bij,bnj->bni", KB.abs(), Pmag)
    den = h[..., 2]
    if not case.get("general_K"):
        # pinhole last row: den is the camera-frame depth itself; |depth| <= tiny is clamped to +-tiny (pm(0) = +1)
        den = torch.where(den < 0, -1.0, 1.0) * den.abs().clamp(min=tiny)
    want = h[..., :2] / den.unsqueeze(-1)
    tolu = 64 * eps * (A[..., :2] / den.abs().unsqueeze(-1) + want.abs() * (A[..., 2] / den.abs()).unsqueeze(-1)) \
        + 64 * eps * want.abs()
    okmask = ((den.abs() > 4 * tiny) | (torch.tensor(not case.get("general_K")) & (ext is None))) & (A[..., 2] / den.abs() < 1e-3 / eps) \
        & torch.isfinite(want.to(T)).all(-1)
    bad = far(uvB, want, tolu) & okmask.unsqueeze(-1)
    if bool(bad.any()):
        b, i, c = [int(v) for v in bad.nonzero()[0]]
        ctx.fail(case, f"camera-project: point2pixel item {b},{i} gives {uvB[b, i].tolist()}, K·(X·p) dehomogenised is "
                       f"{want[b, i].tolist()} (p={ptsB[b, i].tolist()})")
        return False
    ok = True
    # item-wise = batched: each broadcast batch item projected alone
    if 2 <= B <= 6:
        for b in range(B):
            a1 = (ptsB[b].to(T), KB[b].to(T)) if ext is None else (ptsB[b].to(T), KB[b].to(T), P.SE3(extB[b].to(T)))
            try:
                u1 = P2P(a1[0], a1[1], a1[2] if len(a1) > 2 else None).double()
            except Exception as e:
                ctx.fail(case, f"camera-itemwise: point2pixel raises on batch item {b} alone: {type(e).__name__}: {str(e)[:100]}")
                return False
            if u1.shape != uvB[b].shape or bool((far(u1, uvB[b], tolu[b]) & okmask[b].unsqueeze(-1)).any()):
                ctx.fail(case, f"camera-itemwise: batch item {b} alone projects to {u1.tolist()} but inside the batch to {uvB[b].tolist()}")
                return False
    if jobs is not None and B * n <= 40 and not case.get("aliasK") and bool(okmask.all()):
        def shp(t_):
            return f"{len(t_)} " + " ".join(map(str, t_)) if len(t_) else "0"
        bp_, bk_ = tuple(pts.shape[:-2]), tuple(K.shape[:-2])
        line = f"c18.api.p2pb {d} {1 if ext is not None else 0} {shp(bp_)} {shp(bk_)} " \
               + (f"{shp(tuple(ext.shape[:-1]))} " if ext is not None else "") + f"{n} " \
               + common.wire_list(pts.reshape(-1).tolist() + K.reshape(-1).tolist() + (ext.reshape(-1).tolist() if ext is not None else []))

        def cbb(st, toks, uvB=uvB, tolu=tolu):
            if st != "ok":
                ctx.disagree("camera", case, f"broadcasting model replied {toks} where point2pixel returned shape {tuple(uv.shape)}")
                return
            rk = int(toks[0])
            mshape = tuple(int(t_) for t_ in toks[1:1 + rk])
            if mshape != tuple(bshape):
                ctx.disagree("camera", case, f"broadcasting model: batch shape {mshape}, implementation {tuple(bshape)}")
                return
            mv = torch.tensor(nums(toks[1 + rk:]), dtype=torch.float64).reshape(B, n, 2)
            if bool(far(mv, uvB, tolu).any()):
                j = far(mv, uvB, tolu).nonzero()[0].tolist()
                ctx.disagree("camera", case, f"broadcasting model: item {j} implementation {uvB[j[0], j[1]].tolist()} model {mv[j[0], j[1]].tolist()}")
        jobs.add(B * n, line, cbb)
    if jobs is not None:
        sel = [(b, i) for b in range(B) for i in range(n)]
        random.Random(case["data_seed"] + 1).shuffle(sel)
        for (b, i) in sel[: case.get("model_points", 4)]:
            if not bool(okmask[b, i]):
                continue
            xs = KB[b].reshape(-1).tolist() + (extB[b].tolist() if ext is not None else []) + ptsB[b, i].tolist()
            line = f"c18.api.p2p {d} {1 if ext is not None else 0} " + common.wire_list(xs)

            def cb(st, toks, b=b, i=i):
                if st != "ok":
                    ctx.disagree("camera", case, f"model replied {toks}")
                    return
                mv = nums(toks)
                for c in range(2):
                    if sfar(mv[c], float(uvB[b, i, c]), float(tolu[b, i, c])):
                        ctx.disagree("camera", case, f"point2pixel item {b},{i}: implementation {uvB[b, i].tolist()} model {mv}")
                        return
            jobs.add(1, line, cb)
    # reprojerr == 0 exactly on the projected pixels, != 0 off them (all reductions)
    for red in ("none", "norm", "sum"):
        try:
            e0 = REP(ptsT, uv, KT, extT, red)
        except Exception as e:
            ctx.fail(case, f"camera-raises: reprojerr raises on a valid call: {type(e).__name__}: {str(e)[:120]}")
            return False
        wshape = tuple(bshape) + ((n, 2) if red == "none" else (n,))
        if e0.dtype != T:
            ctx.fail(case, f"camera-shape: reprojerr({red}) returns dtype {e0.dtype} for {T} input (default dtype {torch.get_default_dtype()})")
            return False
        if tuple(e0.shape) != wshape:
            ctx.fail(case, f"camera-shape: reprojerr({red}) returned {tuple(e0.shape)}, documented {wshape}")
            return False
        fin = torch.isfinite(uv).all(-1)
        e0m = e0[fin] if red != "none" else e0[fin.unsqueeze(-1).expand_as(e0)]
        if bool((e0m != 0).any()):
            ctx.fail(case, f"camera-reproj-zero: reprojerr({red}) of the pixels produced by point2pixel is not zero: "
                           f"max {float(e0m.abs().max())!r}")
            return False
        # off the projection: offsets (t, -t), (t, 0), (0, t), (t, t)
        r = random.Random(case["data_seed"] + 11)
        pat = r.choice([(1, -1), (1, 0), (0, 1), (1, 1), (-2, 2)])
        mag = (uv.abs().amax(-1, keepdim=True).clamp(min=1.0) * r.choice([1.0, 0.25, 8.0])).to(T)
        off = torch.tensor(pat, dtype=T) * mag
        pix = uv + off
        delta = (uv - pix)            # what an exact reprojection error would be
        e1 = REP(ptsT, pix, KT, extT, red)
        if red == "none":
            wantE = delta
        elif red == "norm":
            wantE = delta.norm(dim=-1)
        else:
            wantE = delta.abs().sum(-1)
        fm = fin if red != "none" else fin.unsqueeze(-1).expand_as(e1)
        if bool(far(e1, wantE, 64 * eps * (wantE.abs() + mag.expand_as(uv).amax(-1, keepdim=(red == "none")).expand_as(e1)))[fm].any()):
            ctx.fail(case, f"camera-reproj-value: reprojerr({red}) off the projection by {pat} x mag is wrong "
                           f"(e.g. {e1.flatten()[:4].tolist()} expected {wantE.flatten()[:4].tolist()})")
            return False
        nz = (e1 != 0) if red != "none" else (e1 != 0).any(-1)
        if bool((~nz)[fin].any()):
            ctx.fail(case, f"camera-reproj-iff: reprojerr({red}) is zero for pixels that are NOT the projection (offset {pat})")
            return False
        if jobs is not None:
            b, i = r.randrange(B), r.randrange(n)
            pixB = pix.double().expand(tuple(bshape) + (n, 2)).reshape(B, n, 2)
            e1B = e1.double().reshape(B, n, -1)
            if bool(okmask[b, i]):
                xs = KB[b].reshape(-1).tolist() + (extB[b].tolist() if ext is not None else []) \
                    + ptsB[b, i].tolist() + pixB[b, i].tolist()
                line = f"c18.api.reproj {d} {red} {1 if ext is not None else 0} " + common.wire_list(xs)

                def cb(st, toks, b=b, i=i, red=red, e1B=e1B, pixB=pixB):
                    if st != "ok":
                        ctx.disagree("camera", case, f"model replied {toks}")
                        return
                    mv = nums(toks)
                    tl = float(tolu[b, i].sum()) * 2 + 64 * eps * float(pixB[b, i].abs().sum())
                    for c in range(len(mv)):
                        if sfar(mv[c], float(e1B[b, i, c]), tl):
                            ctx.disagree("camera", case, f"reprojerr({red}) item {b},{i}: implementation {e1B[b, i].tolist()} model {mv}")
                            return
                jobs.add(1, line, cb)
    # mutual inverses (pinhole intrinsics, camera frame)
    if not case.get("general_K"):
        bsh2 = torch.broadcast_shapes(tuple(case["bp"]), tuple(case["bk"]))
        try:
            P3 = mon.call("pixel2point", PX2PT, pxT, depthT, KT)
            back = P2P(P3, KT, None)
            p3_keep = P3.clone()
            if not owns_memory(ctx, case, "camera", [P3], [pxT, depthT, KT], lambda: [PX2PT(pxT, depthT, KT)]):
                return False
            P3 = p3_keep
        except Exception as e:
            ctx.fail(case, f"camera-raises: pixel2point / point2pixel raise on a valid call: {type(e).__name__}: {str(e)[:120]}")
            return False
        if nonfinite(ctx, case, "camera", P3):
            return False
        if P3.dtype != T or back.dtype != T:
            ctx.fail(case, f"camera-shape: pixel2point / point2pixel return dtype {P3.dtype} / {back.dtype} for {T} input "
                           f"(default dtype {torch.get_default_dtype()})")
            return False
        if tuple(P3.shape) != tuple(bsh2) + (n, 3):
            ctx.fail(case, f"camera-shape: pixel2point returned {tuple(P3.shape)}, documented {tuple(bsh2) + (n, 3)}")
            return False
        cxy = torch.stack([K[..., 0, 2], K[..., 1, 2]], -1).unsqueeze(-2)
        fxy = torch.stack([K[..., 0, 0], K[..., 1, 1]], -1).unsqueeze(-2)
        tolb = 64 * eps * (px.abs() + 2 * cxy.abs())
        if bool(far(back.double(), px, tolb).any()):
            j = far(back.double(), px.expand_as(back), tolb).nonzero()[0].tolist()
            ctx.fail(case, f"camera-inverse: point2pixel(pixel2point(px, depth)) != px at {j}: "
                           f"{back.double()[tuple(j[:-1])].tolist()} vs {px.expand_as(back)[tuple(j[:-1])].tolist()}")
            return False
        if not torch.equal(P3[..., 2], depthT.expand_as(P3[..., 2])):
            ctx.fail(case, "camera-inverse: pixel2point does not return the given depth as z")
            return False
        # whole-batch broadcasting of pixel2point (pixels, depth, intrinsics) through the model
        if jobs is not None and int(math.prod(bsh2)) * n <= 40 and not case.get("aliasK"):
            def shp2(t_):
                return f"{len(t_)} " + " ".join(map(str, t_)) if len(t_) else "0"
            line = f"c18.api.px2ptb {shp2(tuple(px.shape[:-2]))} {shp2(tuple(depth.shape[:-1]))} {shp2(tuple(K.shape[:-2]))} {n} " \
                   + common.wire_list(px.reshape(-1).tolist() + depth.reshape(-1).tolist() + K.reshape(-1).tolist())
            P3d = P3.double()

            def cbp(st, toks, P3d=P3d):
                if st != "ok":
                    ctx.disagree("camera", case, f"broadcasting model replied {toks} where pixel2point returned shape {tuple(P3d.shape)}")
                    return
                rk = int(toks[0])
                mshape = tuple(int(t_) for t_ in toks[1:1 + rk])
                if mshape != tuple(bsh2):
                    ctx.disagree("camera", case, f"pixel2point broadcasting model: batch shape {mshape}, implementation {tuple(bsh2)}")
                    return
                mv = torch.tensor(nums(toks[1 + rk:]), dtype=torch.float64).reshape(P3d.shape)
                cxx = torch.stack([K[..., 0, 2], K[..., 1, 2], torch.zeros_like(K[..., 0, 2])], -1).unsqueeze(-2)
                fxx = torch.stack([K[..., 0, 0], K[..., 1, 1], torch.ones_like(K[..., 0, 0])], -1).unsqueeze(-2)
                tl = 64 * eps * (mv.abs() + (cxx * depth.unsqueeze(-1) / fxx).abs().expand_as(mv))
                if bool(far(mv, P3d, tl).any()):
                    j = far(mv, P3d, tl).nonzero()[0].tolist()
                    ctx.disagree("camera", case, f"pixel2point broadcasting model: differs at {j}")
            jobs.add(n, line, cbp)
        # model for pixel2point
        if jobs is not None:
            r = random.Random(case["data_seed"] + 17)
            B2 = int(math.prod(bsh2))
            pxB = px.expand(tuple(bsh2) + (n, 2)).reshape(B2, n, 2)
            dB = depth.expand(tuple(bsh2) + (n,)).reshape(B2, n)
            K2 = K.expand(tuple(bsh2) + (3, 3)).reshape(B2, 3, 3)
            P3B = P3.double().reshape(B2, n, 3)
            for _ in range(case.get("model_points", 4)):
                b, i = r.randrange(B2), r.randrange(n)
                xs = K2[b].reshape(-1).tolist() + pxB[b, i].tolist() + [float(dB[b, i])]
                line = "c18.px2pt " + common.wire_list(xs)

                def cb(st, toks, b=b, i=i):
                    if st != "ok":
                        ctx.disagree("camera", case, f"model replied {toks}")
                        return
                    mv = nums(toks)
                    for c in range(3):
                        sc = abs(mv[c]) + (abs(float(K2[b, c, 2] * dB[b, i] / K2[b, c, c])) if c < 2 else 0)
                        if sfar(mv[c], float(P3B[b, i, c]), 64 * eps * sc):
                            ctx.disagree("camera", case, f"pixel2point item {b},{i}: implementation {P3B[b, i].tolist()} model {mv}")
                            return
                jobs.add(1, line, cb)
        # other direction: points with usable depth -> pixels -> points
        if ext is None:
            zok = (pts[..., 2].abs() > 1e-6 if d == "float64" else pts[..., 2].abs() > 1e-2)
            uv2 = P2P(ptsT, KT, None)
            P4 = PX2PT(uv2, ptsT.detach()[..., 2].expand(uv2.shape[:-1]), KT).double()
            ptsE = pts.expand_as(P4)
            tolp = 64 * eps * (ptsE.abs() + 2 * (cxy.abs() * ptsE[..., 2:3].abs() / fxy.abs()).expand_as(ptsE[..., :2]).abs().amax(-1, keepdim=True))
            badp = far(P4, ptsE, tolp) & zok.expand(P4.shape[:-1]).unsqueeze(-1)
            if bool(badp.any()):
                j = badp.nonzero()[0].tolist()
                ctx.fail(case, f"camera-inverse: pixel2point(point2pixel(p), p.z) != p at {j}: {P4[tuple(j[:-1])].tolist()} vs "
                               f"{ptsE[tuple(j[:-1])].tolist()}")
                return False
    if mon.mutations:
        ctx.fail(case, f"camera-mutates: {mon.mutations[0]['function']} changed its argument")
        return False
    return ok


def check_homo(ctx: Ctx, case, jobs: Jobs | None = None) -> bool:
    P = pp()
    d = case["dtype"]
    T = U.DT[d]
    eps, tiny = U.EPS[d], U.TINY.get(d, 2.0 ** -126)
    r = random.Random(case["data_seed"])
    shape = tuple(case["shape"])
    m = int(math.prod(shape))
    if U.is_int_like(d):
        # cart2homo is documented for any coordinates: integer / bool / complex inputs keep their dtype
        vals_ = [r.randrange(0, 2) if d == "bool" else r.randrange(0, 60) for _ in range(m)]
        p = torch.tensor(vals_).reshape(shape).to(T)
        h = P.cart2homo(p)
        if h.dtype != T or tuple(h.shape) != shape[:-1] + (shape[-1] + 1,) or not torch.equal(h[..., :-1], p) or \
                not bool((h[..., -1] == torch.ones((), dtype=T)).all()):
            ctx.fail(case, f"homo-cart2homo: cart2homo of a {T} tensor returns {h.dtype} {tuple(h.shape)} / is not p with a one appended")
            return False
        return True
    big = case.get("mag", 1.0)
    p = torch.tensor([lad(r, -3, 3) * big if r.random() < 0.9 else 0.0 for _ in range(m)], dtype=torch.float64).reshape(shape).to(T)
    p_plain = p
    p = prep(p, case)
    try:
        h = P.cart2homo(p).detach()
        h_in = prep(h, case)
        back = P.homo2cart(h_in).detach()
    except Exception as e:
        ctx.fail(case, f"homo-raises: cart2homo/homo2cart raise: {type(e).__name__}: {str(e)[:120]}")
        return False
    h_keep, back_keep = h.clone(), back.clone()
    if h.dtype != T or back.dtype != T:
        ctx.fail(case, f"homo-dtype: cart2homo / homo2cart return {h.dtype} / {back.dtype} for {T} input")
        return False
    if not owns_memory(ctx, case, "homo", [back], [h_in], lambda: [P.homo2cart(h_in).detach()]) or \
            not owns_memory(ctx, case, "homo", [h], [p], lambda: [P.cart2homo(p).detach()]):
        return False
    h, back, p = h_keep, back_keep, p_plain
    if tuple(h.shape) != shape[:-1] + (shape[-1] + 1,) or not torch.equal(h[..., :-1], p) or not bool((h[..., -1] == 1).all()):
        ctx.fail(case, "homo-cart2homo: cart2homo(p) is not p with a one appended")
        return False
    if tuple(back.shape) != shape or not torch.equal(back, p):
        ctx.fail(case, f"homo-roundtrip: homo2cart(cart2homo(p)) != p (max diff {float((back - p).abs().max()) if back.shape == p.shape else 'shape'})")
        return False
    # general homogeneous weights: ladder incl. 0, -0, +-tiny/2, negative
    wl = [0.0, -0.0, tiny / 2, -tiny / 2, tiny, -tiny, 1.0, -1.0, 2.0, -0.5, 1e-3, -1e3, 1e-30 if d == "float64" else 1e-20]
    nw = int(math.prod(shape[:-1]))
    wvals = [r.choice(wl) if r.random() < 0.6 else lad(r, -3, 3) for _ in range(nw)]
    # every case carries the clamp region: a zero (either sign) and a weight at / below the clamp
    forced = [r.choice([0.0, -0.0]), r.choice([tiny, -tiny, tiny / 2, -tiny / 2])]
    for q_, v_ in zip(r.sample(range(nw), min(nw, 2)), forced):
        wvals[q_] = v_
    ws = torch.tensor(wvals, dtype=torch.float64).reshape(shape[:-1] + (1,)).to(T)
    small = (ws.abs() < 1e-3)
    q = torch.where(small.expand_as(p), (p.double().sign() * torch.rand(shape, generator=torch.Generator().manual_seed(case["data_seed"]), dtype=torch.float64)).to(T), p)
    hq = torch.cat([q, ws], -1)
    if case.get("layout") == "cols" and hq.dim() >= 2:
        hq = lay(hq, "cols")
    keep = hq.clone()
    out = P.homo2cart(prep(hq, case) if case.get("gmode") in ("req", "graph", "param") else hq).detach()
    if not torch.equal(hq, keep):
        ctx.fail(case, "homo-mutates: homo2cart changed its argument")
        return False
    w64 = ws.double()
    den = torch.where(w64 < 0, -1.0, 1.0) * w64.abs().clamp(min=tiny)
    want = q.double() / den
    finite = torch.isfinite(want.to(T)).all(-1, keepdim=True).expand_as(want)
    if bool((far(out.double(), want, 16 * eps * want.abs() + 2 * tiny) & finite).any()):
        j = (far(out.double(), want, 16 * eps * want.abs() + 2 * tiny) & finite).nonzero()[0].tolist()
        ctx.fail(case, f"homo-divide: homo2cart at {j}: {out[tuple(j)].item()!r}, expected p / (pm(w)*max(|w|, tiny)) = "
                       f"{want[tuple(j)].item()!r} (w={ws[tuple(j[:-1])].item()!r})")
        return False
    if jobs is not None:
        flat_h = hq.double().reshape(-1, shape[-1] + 1)
        flat_o = out.double().reshape(-1, shape[-1])
        fin = finite.reshape(-1, shape[-1])
        for b in range(min(flat_h.shape[0], 3)):
            if not bool(fin[b].all()):
                continue
            line = f"c18.api.h2c {d} " + common.wire_list(flat_h[b].tolist())

            def cb(st, toks, b=b):
                mv = nums(toks) if st == "ok" else None
                if mv is None or any(sfar(a, c, 16 * eps * abs(a) + 2 * tiny) for a, c in zip(mv, flat_o[b].tolist())):
                    ctx.disagree("homo", case, f"homo2cart({flat_h[b].tolist()}) implementation {flat_o[b].tolist()} model {mv}")
            jobs.add(1, line, cb)
    return True


def check_seq(ctx: Ctx, case, jobs: Jobs | None = None) -> bool:
    """a fixed ORDER of calls with the same key (function, shapes, dtype) in different grad modes / process settings:
    a module-level cache filled under inference_mode / no_grad / another default dtype must not leak into a later call"""
    for i, st in enumerate(case["steps"]):
        n0 = len(ctx.failures)
        good = guarded(ctx, st, jobs)
        for f in ctx.failures[n0:]:
            f["case"] = {"stream": "seq", "steps": case["steps"][: i + 1], "N": 2}
            f["what"] = "sequence-" + f["what"].replace(":", f" (call #{i} of {[q.get('gmode') for q in case['steps'][: i + 1]]}, "
                                                               f"default64={[bool(q.get('default64')) for q in case['steps'][: i + 1]]}):", 1)
        if not good:
            return False
    return True


def gen_seq_cases(r):
    """same key, modes in several orders; the keys (N, D) are unusual so that they are fresh in the process"""
    out = []
    orders = [["inference", "req"], ["nograd", "graph"], ["inference", "param", None], ["req", "inference", "req"],
              [None, "inference", "graph"], ["subclass", "req"]]
    nkey = 41
    for gen in (gen_knn_case, gen_nbr_case, gen_voxel_case, gen_knnf_case, gen_randf_case):
        for oi, order in enumerate(orders):
            nkey += 2
            dtp = ["float32", "float64"][oi % 2]
            steps = []
            for gi, gm in enumerate(order):
                q = dict(N=nkey, pdim=5, extra=2, dtype=dtp, gmode=gm, mag_exp=0, layout=None, kind=["gauss", "blobs", "uniform"][gi % 3],
                         default64=bool((oi + gi) % 3 == 0), shift=None)
                if gen is gen_knn_case:
                    c = gen(r, 60, N2=nkey + 1, alias=False, defaults=False, batch=[], **q)
                elif gen is gen_voxel_case:
                    c = gen(r, 60, random=bool(oi % 2), rng_mode="hi", **q)
                elif gen is gen_knnf_case:
                    c = gen(r, 60, with_radius=bool(oi % 2), batch=[], k=(lambda n: 3), **q)
                elif gen is gen_randf_case:
                    c = gen(r, 60, batch=[], rng_mode="script", **q)
                else:
                    c = gen(r, 60, **q)
                c["perm_seed"] = None
                steps.append(c)
            out.append({"stream": "seq", "steps": steps, "N": 2})
    for oi, order in enumerate(orders):
        steps = [gen_camera_case(r, gmode=gm, dtype=["float32", "float64"][oi % 2], bp=[7], bk=[], be=[7], n=5, ext=bool(oi % 2),
                                 layout=None, span=0, default64=bool((oi + gi) % 2)) for gi, gm in enumerate(order)]
        out.append({"stream": "seq", "steps": steps, "N": 2})
        out.append({"stream": "seq", "N": 2, "steps": [gen_homo_case(r, gmode=gm, dtype=["float32", "float64"][oi % 2], shape=[11, 5],
                                                                     layout=None, default64=bool(gi % 2)) for gi, gm in enumerate(order)]})
    return out


# ============================================================================ corner inputs of the entry points (audit round)

EDGE_CALLS = ["voxel_empty_sizes", "voxel_empty_sizes_random", "nbr_pdim0", "nbr_width0", "nbr_empty_cloud", "knnf_pdim0", "knnf_width0",
              "knn_width0", "randf_width0", "randf_empty_cloud", "voxel_empty_cloud", "knnf_empty_cloud", "knn_mismatch"]


def check_edge(ctx: Ctx, case, jobs: Jobs | None = None) -> bool:
    """degenerate sizes at the entry points: `voxel=[]`, `pdim=0` / width-0 points (max-norm over an empty range raises,
    1- and 2-norm give 0), the empty cloud `(0, D)` with / without explicit `pdim`. Differential: the implementation
    raises  <=>  the entry-point model rejects; when both accept, shapes (and rows where determined) agree."""
    P = pp()
    what, o, dtp = case["what"], case["ord"], case["dtype"]
    T = U.DT[dtp]
    N, D = case["N"], case["D"]
    g = torch.Generator().manual_seed(case["data_seed"])
    X = (torch.randint(-8, 9, (N, D), generator=g).double() / 4).to(T)
    wire = cloud_tokens(X.double())
    oa, ot = U.ord_arg(o), U.ord_tok(o)
    line = None
    try:
        if what.startswith("voxel_empty_sizes"):
            rnd_ = what.endswith("random")
            out = P.voxel_filter(X, [], random=rnd_)
            line = f"c18.api.voxel {1 if rnd_ else 0} {D} 0 {N} 0 " + wire
        elif what in ("nbr_pdim0", "nbr_width0", "nbr_empty_cloud"):
            pdim = case["pdim"]
            out = P.nbr_filter(X, case["n"], 1.0, pdim=pdim, ord=oa)
            line = f"c18.api.nbr {ot} {'none' if pdim is None else pdim} {D} {N} {case['n']} 1:0 0 " + wire
        elif what in ("knnf_pdim0", "knnf_width0", "knnf_empty_cloud"):
            pdim = case["pdim"]
            out = P.knn_filter(X, case["k"], pdim=pdim, ord=oa, radius=case.get("radius"))
            line = f"c18.api.knnf {ot} {'none' if pdim is None else pdim} {D} {N} {case['k']} {0 if case.get('radius') is None else 1} " \
                   f"{to_wire(case.get('radius') or 0.0)} " + wire
        elif what == "knn_width0":
            out = P.knn(X, X, k=case["k"], ord=oa).values
            line = f"c18.api.knn {ot} 0 {case['k']} {D} {N} {N} " + wire + " " + wire
        elif what in ("randf_width0", "randf_empty_cloud"):
            with U.observe_rng("lo", None):
                out = P.random_filter(X, case["num"])
            line = f"c18.api.randf {D} {N} {case['num']} 1 " + " ".join(map(str, range(N))) + " " + wire
        elif what == "voxel_empty_cloud":
            out = P.voxel_filter(X, [1.0] * max(1, D))
            line = f"c18.api.voxel 0 {D} {max(1, D)} {N} 0 " + " ".join(["1:0"] * max(1, D)) + " " + wire
        elif what == "knn_mismatch":
            out = P.knn(X, torch.cat([X, X], -1), k=1).values
            line = None
        raised = None
    except Exception as e:
        raised = f"{type(e).__name__}: {str(e)[:80]}"
        out = None
    ctx.count("edge.raises" if raised else "edge.accepts")
    if raised is None and what.startswith("nbr"):
        # brute force on the real result: in a 0-dimensional coordinate range every distance is 0 (ord 1 / 2)
        pd = D if case["pdim"] is None else case["pdim"]
        Z = (X.double() * 4).round().to(torch.int64).numpy()[:, :pd]
        Kk = U.pair_keys(Z, Z, o) if N else np.zeros((0, 0), dtype=np.int64)
        cnt = (Kk <= U.radius_key(1.0, 2, o)).sum(1) - 1 if N else np.zeros(0, dtype=np.int64)
        want = X[torch.from_numpy(cnt >= case["n"])] if N else X
        if tuple(out.shape) != tuple(want.shape) or not torch.equal(out, want):
            ctx.fail(case, f"edge-nbr: nbr_filter(pdim={case['pdim']}, ord={o}) on a ({N}, {D}) cloud returns {tuple(out.shape)}; "
                           f"with {pd} coordinate columns {int((cnt >= case['n']).sum()) if N else 0} points have >= {case['n']} others within 1.0")
            return False
    if line is not None and jobs is not None:
        shape = None if out is None else tuple(out.shape)
        vals = None if out is None else out.double()

        def cb(st, toks, raised=raised, shape=shape, vals=vals):
            if (st == "err") != (raised is not None):
                ctx.disagree("edge", case, f"{what}: implementation {'raises ' + raised if raised else 'returns ' + str(shape)}, "
                                           f"entry-point model {'rejects (' + str(toks) + ')' if st == 'err' else 'accepts'}")
                return
            if st == "ok" and what.startswith(("nbr", "randf")):
                body = toks[2:] if what.startswith("nbr") else toks        # nbr: "M nomask rows…"
                mv = nums(body)
                if len(mv) != vals.numel() or (mv and not torch.equal(torch.tensor(mv, dtype=torch.float64), vals.reshape(-1))):
                    ctx.disagree("edge", case, f"{what}: implementation returns {vals.tolist()}, entry-point model {mv}")
            if st == "ok" and what.startswith("knnf") and int(toks[0]) != shape[0]:
                ctx.disagree("edge", case, f"{what}: implementation returns {shape}, entry-point model {toks[0]} rows")
        jobs.add(1, line, cb)
    return True


def edge_cases():
    out = []
    seed = 0
    for dtp in ("float32", "float64"):
        for o in ORDS:
            base = {"stream": "edge", "dtype": dtp, "ord": o}
            for N in (0, 1, 3):
                seed += 1
                q = {**base, "N": N, "data_seed": seed}
                out.append({**q, "what": "nbr_pdim0", "D": 3, "pdim": 0, "n": 1})
                out.append({**q, "what": "nbr_width0", "D": 0, "pdim": None, "n": 0})
                out.append({**q, "what": "knnf_pdim0", "D": 2, "pdim": 0, "k": 0})
                out.append({**q, "what": "knnf_width0", "D": 0, "pdim": None, "k": min(1, max(N - 1, 0)), "radius": 1.0})
                out.append({**q, "what": "knn_width0", "D": 0, "k": min(1, N)})
            for pdim in (None, 0, 2, 3, 4):
                seed += 1
                out.append({**base, "what": "nbr_empty_cloud", "N": 0, "D": 3, "pdim": pdim, "n": 0, "data_seed": seed})
                out.append({**base, "what": "knnf_empty_cloud", "N": 0, "D": 3, "pdim": pdim, "k": 0, "data_seed": seed})
        for N in (0, 2):
            seed += 1
            q = {"stream": "edge", "dtype": dtp, "ord": 2, "N": N, "data_seed": seed}
            out.append({**q, "what": "voxel_empty_sizes", "D": 3})
            out.append({**q, "what": "voxel_empty_sizes_random", "D": 2})
            out.append({**q, "what": "randf_width0", "D": 0, "num": 0})
            out.append({**q, "what": "randf_width0", "D": 0, "num": N})
            out.append({**q, "what": "randf_empty_cloud", "N": 0, "D": 3, "num": 0})
            out.append({**q, "what": "voxel_empty_cloud", "N": 0, "D": 2})
    return out


# ============================================================================ sandwich (class 32)

def _battery(P, seed):
    """every public operation of the module, forward and backward, single-item and batched, each dtype, degenerate shapes
    (one point, one column, one voxel, batch of one) — run BETWEEN two identical calls of the operation under test"""
    g = torch.Generator().manual_seed(seed)
    for T in (torch.float32, torch.float64):
        for shape in [(1, 1), (1, 3), (5, 3), (1, 1, 3)]:
            x = torch.randn(shape, generator=g, dtype=torch.float64).to(T).requires_grad_()
            if len(shape) == 2:
                N = shape[0]
                outs = [P.nbr_filter(x, 0, 1.0), P.knn_filter(x, 0), P.knn_filter(x, min(1, N - 1), radius=10.0),
                        P.voxel_filter(x, [100.0] * shape[1]), P.voxel_filter(x, [0.5] * shape[1])]
                with U.observe_rng("lo", None):
                    outs += [P.voxel_filter(x, [100.0] * shape[1], random=True), P.random_filter(x, N)]
            else:
                outs = [P.knn_filter(x, 0)]
                with U.observe_rng("hi", None):
                    outs.append(P.random_filter(x, shape[-2]))
            outs += [P.knn(x, x, k=1).values, P.cart2homo(x), P.homo2cart(P.cart2homo(x))]
            if shape[-1] == 3:
                K = torch.tensor([[2.0, 0, 1], [0, 3, 1], [0, 0, 1]], dtype=T)
                xz = x + torch.tensor([0.0, 0.0, 5.0], dtype=T)
                uv = P.point2pixel(xz, K)
                outs += [uv, P.pixel2point(uv, xz[..., 2], K), P.reprojerr(xz, uv.detach(), K, reduction="norm")]
            tot = sum(o_.sum() for o_ in outs if o_.requires_grad)
            if isinstance(tot, torch.Tensor) and tot.requires_grad:
                tot.backward()


def check_sandwich(ctx: Ctx, case, jobs: Jobs | None = None) -> bool:
    """two identical calls with every other public operation of the module in between must agree bit for bit
    (a module-level constant written in place by another operation on a degenerate shape poisons later calls)"""
    P = pp()
    fn, dtp, deg = case["fn"], case["dtype"], case["degenerate"]
    T = U.DT[dtp]
    g = torch.Generator().manual_seed(case["data_seed"])
    N, D = (1, 1) if deg else (7, 3)
    if fn in ("p2p", "px2pt", "reproj"):
        D = 3
    X = (torch.randint(-20, 21, (N, D), generator=g).double() / 4).to(T)
    K = torch.tensor([[2.0, 0, 1], [0, 3, 1], [0, 0, 1]], dtype=T)

    def call():
        if fn == "knn":
            r_ = P.knn(X, X, k=1)
            return [r_.values, r_.indices]
        if fn == "knnf":
            return [P.knn_filter(X, 0 if deg else 2)]
        if fn == "knnf_r":
            return [P.knn_filter(X, 0 if deg else 1, radius=100.0)]
        if fn == "nbr":
            return list(P.nbr_filter(X, 0, 100.0, return_mask=True))
        if fn == "voxel":
            return [P.voxel_filter(X, [1000.0] * D)]           # one voxel
        if fn == "voxel_r":
            with U.observe_rng("lo", None):
                return [P.voxel_filter(X, [1000.0] * D, random=True)]
        if fn == "randf":
            with U.observe_rng("lo", None):
                return [P.random_filter(X, N)]
        if fn == "c2h":
            return [P.cart2homo(X)]
        if fn == "h2c":
            return [P.homo2cart(torch.cat([X, torch.ones(N, 1, dtype=T)], -1))]
        Xz = X + torch.tensor([0.0, 0.0, 9.0], dtype=T)
        if fn == "p2p":
            return [P.point2pixel(Xz, K)]
        if fn == "px2pt":
            return [P.pixel2point(Xz[:, :2], Xz[:, 2], K)]
        return [P.reprojerr(Xz, Xz[:, :2], K, reduction="sum")]
    try:
        first = [t_.clone() for t_ in call()]
        _battery(P, case["data_seed"] + 1)
        second = call()
    except Exception as e:
        ctx.fail(case, f"sandwich-raises: {fn} / the other operations of the module raise on valid degenerate input: {type(e).__name__}: {str(e)[:120]}")
        return False
    for a_, b_ in zip(first, second):
        if a_.shape != b_.shape or a_.dtype != b_.dtype or not torch.equal(torch.nan_to_num(_d(a_), nan=1.5), torch.nan_to_num(_d(b_), nan=1.5)):
            ctx.fail(case, f"sandwich-{fn}: the same call ({'one point, one column' if deg else '7 points'}, {dtp}) returns another result after "
                           f"the other operations of the module ran: {a_.flatten()[:6].tolist()} then {b_.flatten()[:6].tolist()}")
            return False
    # the degenerate results themselves: one point / one voxel -> the point itself
    if deg and fn in ("knnf", "knnf_r", "voxel", "voxel_r", "randf"):
        if tuple(second[0].shape) != (1, D) or not torch.equal(second[0], X):
            ctx.fail(case, f"sandwich-{fn}: a cloud of one point must come back as that point, got {second[0].tolist()} for {X.tolist()}")
            return False
    return True


def sandwich_cases():
    out = []
    sd = 0
    for fn in ["knn", "knnf", "knnf_r", "nbr", "voxel", "voxel_r", "randf", "c2h", "h2c", "p2p", "px2pt", "reproj"]:
        for deg in (True, False):
            sd += 1
            out.append({"stream": "sandwich", "fn": fn, "dtype": ["float32", "float64"][sd % 2], "degenerate": deg, "data_seed": sd, "N": 2})
    return out


# ============================================================================ large sizes (class 19)

def big_ints(seed, M, D, span):
    g = np.random.default_rng(seed)
    return g.integers(-span, span, size=(M, D), dtype=np.int64)


def check_large(ctx: Ctx, case, jobs: Jobs | None = None) -> bool:
    """sizes 2^k, 2^k +- 1 up to 2^16 + 1: vectorised exact oracles for the cloud functions, split-consistency
    (f(x) == cat(f(x[:a]), f(x[a:])), f(x)[i] == f(x[i:i+1])) for the point-wise helpers, the model on a sample incl. the LAST item"""
    P = pp()
    fn, M, dtp = case["fn"], case["M"], case["dtype"]
    T = U.DT[dtp]
    eps = U.EPS[dtp]
    tol = 64 * eps
    seed = case["data_seed"]
    sc = 2.0 ** -4
    if fn == "knn":
        D, k = 3, case["k"]
        Zn, Zr = big_ints(seed, M, D, 1 << 18), big_ints(seed + 1, 3, D, 1 << 18)
        # the LAST and the FIRST neighbour are the rank-0 answer of reference 0 / 1 (block boundaries, class 19)
        far_ = (1 << 21) if case["largest"] else 1
        Zn[-1], Zn[0] = Zr[0] + far_, Zr[1] - far_
        nbr, ref = torch.tensor(Zn * sc, dtype=T), torch.tensor(Zr * sc, dtype=T)
        res = P.knn(ref, nbr, k=k, ord=U.ord_arg(case["ord"]), largest=case["largest"])
        vals, idx = res.values.double().numpy(), res.indices.numpy()
        if vals.shape != (3, k) or idx.shape != (3, k) or res.values.dtype != T or res.indices.dtype != torch.int64:
            ctx.fail(case, f"large-knn: shapes / dtypes {vals.shape} {res.values.dtype} {idx.shape} {res.indices.dtype} for N2={M}, k={k}")
            return False
        K = U.pair_keys(Zr, Zn, case["ord"])
        d = U.keys_to_dist(K, 4, case["ord"])
        for i in range(3):
            want = np.sort(d[i])[::-1][:k] if case["largest"] else np.sort(d[i])[:k]
            sel = idx[i]
            if len(set(sel.tolist())) != k or sel.min() < 0 or sel.max() >= M:
                ctx.fail(case, f"large-knn: reference {i}: indices not distinct / out of range for N2={M}, k={k}")
                return False
            if not np.all(np.abs(d[i][sel] - want) <= 4 * tol * np.maximum(want, 1e-300)) or \
                    not np.all(np.abs(vals[i] - d[i][sel]) <= tol * np.maximum(d[i][sel], 1e-300)):
                j = int(np.argmax(np.abs(d[i][sel] - want)))
                ctx.fail(case, f"large-knn: reference {i} rank {j}: index {int(sel[j])} at distance {d[i][sel][j]!r}, value {vals[i][j]!r}, "
                               f"but the rank-{j} distance of the {M} neighbours is {want[j]!r}")
                return False
        return True
    if fn in ("nbr", "knnf"):
        D = 2
        Z = big_ints(seed, M, D, case.get("span", 200))
        X = torch.tensor(Z * sc, dtype=T)
        K = U.pair_keys(Z, Z, case["ord"])
        if fn == "nbr":
            r_int = case["r_half"] / 2.0                 # half-integer radius in lattice units: never hits a distance (ord 1/inf)
            radius = r_int * sc
            Tkey = U.radius_key(radius, 4, case["ord"])
            cnt = (K <= Tkey).sum(1) - 1
            n = int(np.median(cnt))
            out, mask = P.nbr_filter(X, n, radius, ord=U.ord_arg(case["ord"]), return_mask=True)
            want = cnt >= n
            if mask.dtype != torch.bool or tuple(mask.shape) != (M,) or not np.array_equal(mask.numpy(), want):
                bad = int(np.argmax(mask.numpy() != want)) if tuple(mask.shape) == (M,) else -1
                ctx.fail(case, f"large-nbr: N={M}: point {bad} has {int(cnt[bad])} others within {radius!r} (ord={case['ord']}), n={n}, "
                               f"kept={bool(mask[bad]) if bad >= 0 else None}")
                return False
            if out.dtype != T or not torch.equal(out, X[mask]):
                ctx.fail(case, f"large-nbr: N={M}: output is not points[mask]")
                return False
            return True
        k = case["k"]
        out = P.knn_filter(X, k, ord=U.ord_arg(case["ord"])).double().numpy()
        if out.shape != (M, D):
            ctx.fail(case, f"large-knnf: {out.shape} returned for N={M}")
            return False
        order = np.argsort(K, axis=1, kind="stable")[:, : k + 2]
        Ks = np.take_along_axis(K, order, 1)
        clean = (Ks[:, k] != Ks[:, k + 1]) if M > k + 1 else np.ones(M, dtype=bool)     # no tie at the cut
        want = (Z[order[:, : k + 1]] * sc).mean(1)
        bad = (~(np.abs(out - want) <= (64 + 2 * (k + 1)) * eps * (np.abs(Z).max() * sc))).any(1) & clean
        if bad.any():
            i = int(np.argmax(bad))
            ctx.fail(case, f"large-knnf: N={M}: row {i} is {out[i].tolist()} but the mean of the point and its {k} nearest is {want[i].tolist()}")
            return False
        return True
    if fn == "voxel":
        D, vd = 4, 3
        Z = big_ints(seed, M, D, case.get("span", 4096))
        X = torch.tensor(Z * sc, dtype=T)
        cell = case["cell"]                               # cell size in lattice units (power of two: exact)
        vox = [cell * sc * (-1 if (case.get("negmask", 0) >> c_) & 1 else 1) for c_ in range(vd)]
        q = (Z[:, :vd] - Z[:, :vd].min(0)) // cell
        keys = q * np.array([(-1 if (case.get("negmask", 0) >> c_) & 1 else 1) for c_ in range(vd)])
        uk, inv, counts = np.unique(keys, axis=0, return_inverse=True, return_counts=True)
        inv = inv.reshape(-1)
        Mv = uk.shape[0]
        if not case["random"]:
            out = P.voxel_filter(X, vox)
            if tuple(out.shape) != (Mv, D) or out.dtype != T:
                ctx.fail(case, f"large-voxel: {tuple(out.shape)} {out.dtype} returned, the {M} points occupy {Mv} voxels")
                return False
            sums = np.zeros((Mv, D))
            np.add.at(sums, inv, Z * sc)
            want = sums / counts[:, None]
            bad = ~(np.abs(out.double().numpy() - want) <= (64 + 2 * counts[:, None]) * eps * (np.abs(Z).max() * sc))
            if bad.any():
                j = int(np.argmax(bad.any(1)))
                ctx.fail(case, f"large-voxel: N={M}: row {j} is {out[j].tolist()} but the centroid of the {int(counts[j])} points of voxel "
                               f"{uk[j].tolist()} is {want[j].tolist()}")
                return False
            return True
        with U.observe_rng(case["rng_mode"], {"ints": [seed + j for j in range(8)]}):
            out = P.voxel_filter(X, vox, random=True)
        if tuple(out.shape) != (Mv, D) or out.dtype != T:
            ctx.fail(case, f"large-voxel: random=True returned {tuple(out.shape)} {out.dtype}, the {M} points occupy {Mv} voxels")
            return False
        Zo = np.rint(out.double().numpy() / sc).astype(np.int64)
        ko = ((Zo[:, :vd] - Z[:, :vd].min(0)) // cell) * np.array([(-1 if (case.get("negmask", 0) >> c_) & 1 else 1) for c_ in range(vd)])
        rows = set(map(tuple, Z.tolist()))
        if not np.array_equal(ko, uk) or any(tuple(r_) not in rows for r_ in Zo.tolist()):
            j = int(np.argmax((ko != uk).any(1))) if not np.array_equal(ko, uk) else -1
            ctx.fail(case, f"large-voxel: N={M}, random=True (rng {case['rng_mode']}): row {j} is not a member of voxel {uk[j].tolist() if j >= 0 else '?'}")
            return False
        return True
    if fn == "randf":
        Z = np.concatenate([big_ints(seed, M, 2, 1 << 18), np.arange(M, dtype=np.int64)[:, None] * 16], 1)
        X = torch.tensor(Z * sc, dtype=torch.float64 if dtp == "float32" and M > (1 << 20) else T)
        num = case["num"]
        with U.observe_rng(case["rng_mode"], None):
            out = P.random_filter(X, num)
        if tuple(out.shape) != (num, 3) or out.dtype != X.dtype:
            ctx.fail(case, f"large-randf: {tuple(out.shape)} {out.dtype} returned for N={M}, num={num}")
            return False
        tags = np.rint(out[:, 2].double().numpy()).astype(np.int64)
        if len(set(tags.tolist())) != num or (num and (tags.min() < 0 or tags.max() >= M)) or not torch.equal(out, X[torch.from_numpy(tags)]):
            ctx.fail(case, f"large-randf: N={M}, num={num}: output rows are not {num} distinct input points")
            return False
        return True
    # point-wise helpers: split consistency
    r = random.Random(seed)
    g = torch.Generator().manual_seed(seed)
    shape = {"flat": (M,), "lead1": (1, M), "trail1": (M, 1)}[case["shape"]]
    blk = [M - (M % (1 << k_)) for k_ in (18, 17, 14, 10) if 0 < M - (M % (1 << k_)) < M]
    cuts = sorted({1, M - 1} | set(blk[:2])) if M > 2 else [1]        # at the largest block boundaries: the last n % 2^k items alone
    items = sorted({0, M - 1, r.randrange(M)} | {M - (M % (1 << k_)) for k_ in (6, 10, 14, 17, 18) if M - (M % (1 << k_)) < M}
                   | {max(0, M - (M % (1 << k_)) - 1) for k_ in (10, 17, 18)})      # first / last item of the last partial block

    def split_ok(f, args, name, ulps, mag=None):
        """args: tensors whose first batch axis (of length M) is cut; returns False after ctx.fail.
        `mag`: magnitude of the accumulated terms per output element (matmul kernels differ between batch sizes, so a
        cancelling sum is reproduced to `ulps` eps of its TERMS, not of its value); None = value itself"""
        ax = 0 if case["shape"] != "lead1" else 1
        full = f(*args)
        if isinstance(full, tuple):
            full = full[0]
        tl = ulps * eps * (full.double().abs() if mag is None else torch.maximum(mag.double(), full.double().abs()))
        for a in cuts:
            parts = [f(*[t_.narrow(ax, 0, a) for t_ in args]), f(*[t_.narrow(ax, a, M - a) for t_ in args])]
            cat = torch.cat(parts, ax)
            if cat.shape != full.shape or bool(far(cat.double(), full.double(), tl).any()):
                j = far(cat.double(), full.double(), tl).nonzero()[0].tolist() if cat.shape == full.shape else "shape"
                ctx.fail(case, f"large-{name}: {M} items ({case['shape']}): f(x) differs from cat(f(x[:{a}]), f(x[{a}:])) at {j}")
                return None
        for i in items:
            one = f(*[t_.narrow(ax, i, 1) for t_ in args])
            if bool(far(one.double(), full.narrow(ax, i, 1).double(), tl.narrow(ax, i, 1)).any()):
                ctx.fail(case, f"large-{name}: {M} items ({case['shape']}): item {i} alone differs from the same item inside the batch")
                return None
        return full
    Kmat = torch.tensor([[lad(r, 0, 3), 0.0, lad(r, 0, 3)], [0.0, lad(r, 0, 3), lad(r, 0, 3)], [0.0, 0.0, 1.0]], dtype=T)
    pts = (torch.rand(shape + (3,), generator=g, dtype=torch.float64) * 8 - 4).to(T)
    pts[..., 2] = pts[..., 2].abs() + 0.5
    mag_uv = (pts.double().abs() @ Kmat.double().abs().mT)[..., :2] / pts.double()[..., 2:].abs()
    if fn == "p2p":
        full = split_ok(lambda p_: P.point2pixel(p_.unsqueeze(-2), Kmat).squeeze(-2), [pts], "point2pixel", 8, mag_uv)
        if full is None:
            return False
        if jobs is not None:
            flat = pts.reshape(-1, 3).double()
            fl_o = full.reshape(-1, 2).double()
            for i in items:
                line = f"c18.api.p2p {dtp} 0 " + common.wire_list(Kmat.double().reshape(-1).tolist() + flat[i].tolist())

                def cb(st, toks, i=i):
                    mv = nums(toks) if st == "ok" else None
                    if mv is None or any(sfar(a_, b_, 256 * eps * (abs(a_) + float(Kmat.abs().max()) * 8)) for a_, b_ in zip(mv, fl_o[i].tolist())):
                        ctx.disagree("large", case, f"point2pixel item {i} of {M}: implementation {fl_o[i].tolist()} model {mv}")
                jobs.add(1, line, cb)
        return True
    if fn == "px2pt":
        px = (torch.rand(shape + (2,), generator=g, dtype=torch.float64) * 600).to(T)
        dep = (torch.rand(shape, generator=g, dtype=torch.float64) * 9 + 0.1).to(T)
        return split_ok(lambda x_, d_: P.pixel2point(x_.unsqueeze(-2), d_.unsqueeze(-1), Kmat).squeeze(-2), [px, dep], "pixel2point", 0) is not None
    if fn == "reproj":
        px = (torch.rand(shape + (2,), generator=g, dtype=torch.float64) * 600).to(T)
        mg = mag_uv + px.double().abs()
        mg = mg if case["red"] == "none" else mg.sum(-1, keepdim=True)
        return split_ok(lambda p_, x_: P.reprojerr(p_.unsqueeze(-2), x_.unsqueeze(-2), Kmat, reduction=case["red"])
                        .reshape(p_.shape[:-1] + (-1,)), [pts, px], "reprojerr", 8, mg) is not None
    if fn == "homo":
        h = split_ok(lambda p_: P.cart2homo(p_), [pts], "cart2homo", 0)
        if h is None:
            return False
        wsel = torch.tensor([0.0, -0.0, 1.0, -2.0, U.TINY[dtp], 0.25], dtype=T)[torch.randint(0, 6, shape, generator=g)]
        hq = torch.cat([pts * 1e-3, wsel.unsqueeze(-1)], -1)
        return split_ok(lambda p_: P.homo2cart(p_), [hq], "homo2cart", 0) is not None
    raise ValueError(fn)


def gen_large_cases(rng, sizes, per_fn=1):
    out = []
    for M in sizes:
        for _ in range(per_fn):
            dtp = rng.choice(["float32", "float64"])
            base = {"stream": "large", "M": M, "dtype": dtp, "data_seed": rng.randrange(1 << 30), "N": M}
            out.append({**base, "fn": "knn", "k": rng.choice([1, 17, min(M, 1000), min(M, 4097)]), "ord": rng.choice(ORDS),
                        "largest": rng.random() < 0.3})
            out.append({**base, "fn": "voxel", "random": False, "cell": rng.choice([64, 256, 1024]), "negmask": rng.choice([0, 0, 5, 7]),
                        "span": rng.choice([4096, 1 << 16])})
            out.append({**base, "fn": "voxel", "random": True, "cell": rng.choice([256, 1024]), "negmask": rng.choice([0, 2]),
                        "rng_mode": rng.choice(["hi", "lo", "script"]), "span": 4096})
            out.append({**base, "fn": "randf", "num": M, "rng_mode": rng.choice(["real", "hi"])})
            out.append({**base, "fn": "randf", "num": rng.choice([M - 1, M // 2 + 1]), "rng_mode": rng.choice(["real", "lo"])})
            out.append({**base, "fn": "voxel", "random": False, "cell": 1 << 14, "negmask": rng.choice([0, 7]), "span": 1 << 14})   # few, crowded voxels
            for fn in ("p2p", "px2pt", "homo"):
                out.append({**base, "fn": fn, "shape": rng.choice(["flat", "lead1", "trail1"])})
            out.append({**base, "fn": "reproj", "shape": rng.choice(["flat", "trail1"]), "red": rng.choice(["none", "sum", "norm"])})
    return out


def gen_pointwise_large(rng, sizes):
    """the point-wise entry points (and random_filter / cart2homo) far beyond the largest block: one call each"""
    out = []
    for M in sizes:
        dtp = rng.choice(["float32", "float64"])
        base = {"stream": "large", "M": M, "dtype": dtp, "data_seed": rng.randrange(1 << 30), "N": M}
        for fn in ("p2p", "px2pt", "homo"):
            out.append({**base, "fn": fn, "shape": rng.choice(["flat", "lead1", "trail1"])})
        out.append({**base, "fn": "reproj", "shape": "flat", "red": rng.choice(["none", "sum", "norm"])})
        out.append({**base, "fn": "randf", "num": M, "rng_mode": "real"})
    return out


def gen_large_quadratic(rng, sizes):
    out = []
    for M in sizes:
        dtp = rng.choice(["float32", "float64"])
        base = {"stream": "large", "M": M, "dtype": dtp, "data_seed": rng.randrange(1 << 30), "N": M}
        out.append({**base, "fn": "nbr", "ord": rng.choice([1, "inf"]), "r_half": rng.choice([21, 41, 81]), "span": rng.choice([200, 1000])})
        out.append({**base, "fn": "knnf", "M": M // 2 + 1, "N": M // 2 + 1, "ord": rng.choice(ORDS), "k": rng.choice([1, 3, 16, 17]),
                    "span": 1 << 16})
    return out


# ============================================================================ case generation

def nbucket(n):
    return 0 if n <= 1 else 1 if n <= 6 else 2 if n <= 24 else 3 if n <= 70 else 4


MAGS = {"float32": [-40, -12, 0, 0, 0, 0, 0, 12, 30], "float64": [-400, -60, 0, 0, 0, 0, 0, 60, 400]}
VOX_MAGS = {"float32": [-40, -12, 0, 0, 0, 0, 12, 30], "float64": [-100, -30, 0, 0, 0, 0, 30, 100]}
LAYOUTS = [None] * 7 + ["cols", "rows", "T"]


def gen_common(rng, hiN, **over):
    pdim = rng.choice([1, 2, 2, 3, 3, 3, 4, 5, 6])
    c = {"kind": rng.choice(U.KINDS), "N": U.pick_N(rng, hiN), "pdim": pdim, "extra": rng.choice([0, 0, 1, 2, 3]),
         "dtype": rng.choice(["float32", "float64"]), "ord": rng.choice(ORDS), "data_seed": rng.randrange(1 << 30),
         "perm_seed": rng.randrange(1 << 30) if rng.random() < 0.5 else None, "layout": rng.choice(LAYOUTS)}
    c.update({"style": rng.choice(STYLES), "gmode": rng.choice(GMODES), "int_scalars": rng.random() < 0.3,
              "own_check": rng.random() < 0.35, "default64": rng.random() < 0.2,
              "np_scalars": rng.random() < 0.15, "shift": rng.choice([None] * 8 + ["neg", "max0", "zero"])})
    c.update({k_: v for k_, v in over.items() if k_ in c or k_ in ("mag_exp",)})
    if c["shift"] is not None and c["kind"] == "gauss":
        c["shift"] = None
    if "mag_exp" not in c:
        c["mag_exp"] = rng.choice(MAGS.get(c["dtype"], [0]))
    if U.is_int_like(c["dtype"]) or c["dtype"] in ("float16", "bfloat16"):
        c["mag_exp"], c["gmode"] = 0, None
    return c


def mix_items(rng, c):
    """mixed-regime batch: every batch item of another kind and magnitude (lattice ties next to gauss, tiny next to huge)"""
    nb = batch_items(c) if c.get("batch") else 0
    if nb >= 2 and rng.random() < 0.7:
        k0 = rng.randrange(len(U.KINDS))
        c["item_kinds"] = [U.KINDS[(k0 + 2 * b_) % len(U.KINDS)] for b_ in range(nb)]
        mg = MAGS.get(c["dtype"], [0])
        c["item_mags"] = [rng.choice(mg) for _ in range(nb)]
        if rng.random() < 0.5:
            c["item_mags"][0], c["item_mags"][-1] = mg[0], mg[-1]
    elif nb >= 2 and rng.random() < 0.3:
        c["layout"] = "expand"


def pick_k(rng, n):
    """k in 0..n with weight on 1, 2, small, n-1, n"""
    if n == 0:
        return 0
    return min(n, max(0, rng.choice([1, 1, 2, 2, 3, rng.randint(0, n), rng.randint(0, n), n, n - 1, n // 2,
                                     rng.randint(1, max(1, n // 2)), 0 if rng.random() < 0.3 else 1])))


def gen_knn_case(rng, hiN, **over):
    c = gen_common(rng, hiN, **over)
    c["stream"] = "knn"
    c["extra"] = 0
    c["N2"] = over.get("N2", U.pick_N(rng, hiN))
    if c["N"] * c["N2"] > 12000:
        c["N"] = max(1, 12000 // c["N2"])
    c["batch"] = over.get("batch", rng.choice([[], [], [], [2], [1], [2, 2], [3]]))
    if c["batch"] and c["N"] * c["N2"] > 2500:
        c["batch"] = []
    c["alias"] = over.get("alias", rng.random() < 0.12)
    if c["alias"]:
        c["N2"] = c["N"]
    c["k"] = max(0, min(c["N2"], over["k"](c["N2"]))) if "k" in over else pick_k(rng, c["N2"])
    c["largest"], c["sorted"] = over.get("flags", rng.choice([(False, True)] * 9 + [(True, True)] * 4 + [(False, False)] * 3
                                                             + [(True, False)] * 4))
    c["defaults"] = over.get("defaults", rng.random() < 0.1)
    if c["defaults"]:
        c["ord"], c["largest"], c["sorted"] = 2, False, True
        c["k"] = min(c["N2"], rng.choice([1, 1, 2]))
    if not c["alias"]:
        mix_items(rng, c)
    return c


def gen_nbr_case(rng, hiN, **over):
    c = gen_common(rng, hiN, **over)
    c["stream"] = "nbr"
    c["pdim_arg"] = None if c["extra"] == 0 and rng.random() < 0.6 else rng.randint(1, c["pdim"])
    derive_radius(rng, c, over)
    return c


def derive_radius(rng, c, over=None, X64=None):
    """radius (and n) from the cloud's own distance spectrum"""
    over = over or {}
    X64 = build_cloud(c) if X64 is None else X64
    pd = c["pdim"] if c["pdim_arg"] is None else c["pdim_arg"]
    Z, s = U.exact_ints(X64[:, :pd])
    K = U.pair_keys(Z, Z, c["ord"])
    exact = U.float_exact(Z, s, c["dtype"], c["ord"])
    if over.get("radius") == "inf":
        c["radius"] = float("inf")
    else:
        c["radius"] = choose_radius(rng, K, s, c["ord"], c["dtype"], exact, over.get("radius_mode"))
    if c["stream"] == "nbr" or "n" in over:
        # n around the counts that actually occur (so that both outcomes happen), sometimes 0 / N / negative
        cnt, _ = exact_counts(K, U.radius_key(c["radius"], s, c["ord"]))
        cand = sorted(set(int(v) for v in cnt.tolist()))
        n = rng.choice(cand + [v + 1 for v in cand]) if cand and rng.random() < 0.8 else rng.choice([0, 1, 2, c["N"], c["N"] - 1, -1])
        c["n"] = int(over.get("n", n))


def f32(v):
    return float(torch.tensor(v, dtype=torch.float32))


def derive_voxel(rng, c, vd, X64=None, mode_over=None):
    X64 = build_cloud(c) if X64 is None else X64
    vox = []
    for j in range(vd):
        col = X64[:, j]
        span = float(col.max() - col.min())
        base = span / rng.choice([1, 2, 3, 5, 9, 0.5, 40]) if span > 0 else 2.0 ** c.get("mag_exp", 0)
        mode = rng.random() if mode_over is None else mode_over
        gaps = [float(q - col.min()) for q in col.tolist() if q > float(col.min())]
        if gaps and ((mode_over is None and rng.random() < 0.15) or mode_over in ("gap+", "gap-", "gap")):
            # cell size relative to the point spacing: a point sits just inside / just outside / exactly on a cell boundary
            g = rng.choice(gaps) / rng.choice([1, 1, 2, 3])
            sgn = {"gap+": 1, "gap-": -1, "gap": 0}.get(mode_over, rng.choice([1, -1, 0]))
            v = f32(g * (1 + sgn * 2.0 ** -rng.choice([10, 13, 16, 20])))      # float32 sizes: 2^-20 is the finest step
            if v != 0 and math.isfinite(v) and span / abs(v) < 2.0 ** 40:
                vox.append(v)
                continue
            mode = 0.2
        elif isinstance(mode, str):
            mode = 0.2
        if mode < 0.45:
            v = 2.0 ** round(math.log2(base)) if base > 0 else 1.0      # power of two: exact cell hits on fixed-point clouds
        elif mode < 0.7:
            v = rng.choice([1, 3, 5, 7]) * 2.0 ** round(math.log2(base) - 1)
        elif mode < 0.93:
            v = base * rng.uniform(0.7, 1.3)
        elif mode < 0.97:
            v = min(base * 2.0 ** 40, 2.0 ** 120)           # one huge cell
        else:
            tiny_pow = -19 if c["dtype"] == "float32" else -33                     # cells far smaller than the spacing:
            v = span * 2.0 ** tiny_pow if span > 0 else base                       # cell indices beyond 2^31 in float64
        if rng.random() < 0.12:
            v = -v
        v = f32(v)
        if v == 0 or not math.isfinite(v) or (span > 0 and span / abs(v) > 2.0 ** 40):
            v = f32(base) if f32(base) != 0 and math.isfinite(f32(base)) else 1.0
        vox.append(v)
    c["voxel"] = vox


def gen_voxel_case(rng, hiN, **over):
    c = gen_common(rng, hiN, **over)
    c["stream"] = "voxel"
    if "mag_exp" not in over:
        c["mag_exp"] = rng.choice(VOX_MAGS.get(c["dtype"], [0]))
    c["random"] = over.get("random", rng.random() < 0.4)
    c["rng_mode"] = over.get("rng_mode", rng.choice(["lo", "hi", "hi", "script", "real"])) if c["random"] else None
    c["vox_form"] = over.get("vox_form", rng.choice(["list", "list", "tuple", "np32", "np64"]))
    if c["random"] and "dtype" not in over and rng.random() < 0.25:
        c["dtype"], c["mag_exp"], c["gmode"] = rng.choice(["int64", "int32", "int16", "int8", "uint8", "float16", "bfloat16"]), 0, None
    if U.is_int_like(c["dtype"]) and not c["random"]:
        c["dtype"] = "float64"
    vd = rng.randint(1, c["pdim"]) if (c["extra"] == 0 and rng.random() < 0.5) else c["pdim"]
    derive_voxel(rng, c, vd, mode_over=over.get("vox_mode"))
    return c


def gen_knnf_case(rng, hiN, **over):
    c = gen_common(rng, hiN, **over)
    c["stream"] = "knnf"
    c["pdim_arg"] = None if c["extra"] == 0 and rng.random() < 0.6 else rng.randint(1, c["pdim"])
    N = c["N"]
    c["k"] = over["k"](N) if "k" in over else max(0, min(N + 1, rng.choice(
        [1, 1, 2, 2, 3, 4, rng.randint(0, max(0, N - 1)), rng.randint(0, max(0, N - 1)), N // 2, N - 2, N - 1,
         N if rng.random() < 0.3 else 1])))
    if over.get("with_radius", rng.random() < 0.6):
        derive_radius(rng, c, over)
        c["batch"] = []
    else:
        c["radius"] = None
        c["batch"] = over.get("batch", rng.choice([[], [], [2], [1, 2], [3]]) if N <= 40 else [])
        mix_items(rng, c)
    return c


def gen_randf_case(rng, hiN, **over):
    c = gen_common(rng, hiN, **over)
    c["stream"] = "randf"
    c["extra"] = rng.choice([1, 1, 2, 0])
    c["batch"] = over.get("batch", rng.choice([[], [], [2], [2, 3], [1]]))
    c["num"] = over["num"](c["N"]) if "num" in over else rng.choice(
        [c["N"], c["N"], max(0, c["N"] - 1), rng.randint(0, c["N"]), 1 if c["N"] else 0, 0])
    c["rng_mode"] = over.get("rng_mode", rng.choice(["real", "real", "hi", "lo", "script", "script"]))
    if "dtype" not in over and rng.random() < 0.25:
        c["dtype"], c["mag_exp"], c["gmode"] = rng.choice(["int64", "int32", "int16", "int8", "uint8", "bool", "float16", "bfloat16",
                                                            "complex64"]), 0, None
    mix_items(rng, c)
    if U.is_int_like(c["dtype"]) or c["dtype"] in ("float16", "bfloat16"):
        c.pop("item_mags", None)
    return c


# ---------------------------------------------------------------------------- histories on caller-held tensors

HIST_ARGS = {"nbr": ["ord", "pdim", "radius", "n"], "knnf": ["ord", "pdim", "k", "radius"],
             "voxel": ["voxel", "random", "vdim"], "randf": ["num", "draw"], "knn": ["ord", "k", "flags", "partner"]}


def gen_hist_case(rng, nsteps=8):
    """a sequence of calls on 2-3 tensors the caller keeps.  The history is made of segments: one function on one
    object is called again and again, each call changing exactly ONE per-call argument (ord, pdim, k, n, radius, voxel
    sizes, vdim, random flag, num, the draw, flags, the partner object) with calls on other objects / of other functions
    interleaved; then the caller updates the tensor in place (add_, item assignment, copy_, mul_) and repeats the last
    call with identical arguments.  Each result must depend on this call's arguments and the CURRENT values only."""
    objs = {}
    for key in ("A", "B", "C")[: rng.choice([2, 3])]:
        pdim = rng.choice([1, 2, 3, 3])
        objs[key] = {"kind": rng.choice(HIST_KINDS), "N": rng.choice([2, 3, 5, 8, 13, 21, 30]), "pdim": pdim,
                     "extra": rng.choice([0, 0, 1, 2]), "dtype": rng.choice(["float32", "float64"]),
                     "data_seed": rng.randrange(1 << 30), "mag_exp": 0, "bumps": 0, "numpy": rng.random() < 0.35}
    if rng.random() < 0.6:      # two objects of the SAME shape and dtype (caches keyed by shape / dtype only)
        objs["B"] = dict(objs["A"], data_seed=rng.randrange(1 << 30), kind=rng.choice(HIST_KINDS))
    sim = {}

    def spec_of(o):
        return {**{k_: o[k_] for k_ in ("kind", "N", "pdim", "extra", "dtype", "data_seed", "mag_exp")},
                "numpy": o.get("numpy", False)}

    def state(key):
        o = objs[key]
        ent = sim.setdefault(key, {"x": build_cloud(spec_of(o)).to(U.DT[o["dtype"]]).clone(), "nb": 0})
        while ent["nb"] < o["bumps"]:
            ent["nb"] += 1
            apply_bump(ent["x"], ent["nb"], o["data_seed"])
        return ent["x"].double()

    def partner(c, key):
        o = objs[key]
        others = [q for q in objs if q != key and objs[q]["pdim"] + objs[q]["extra"] == o["pdim"] + o["extra"]
                  and objs[q]["dtype"] == o["dtype"]]
        for f_ in ("keep2", "bump2", "obj2"):
            c.pop(f_, None)
        if others and (c.get("alias", True) or rng.random() < 0.5):
            q = rng.choice(others)
            state(q)
            c.update(alias=False, N2=objs[q]["N"], keep2=q, bump2=objs[q]["bumps"], obj2=spec_of(objs[q]))
        else:
            c.update(alias=True, N2=o["N"])
        c["k"] = min(c.get("k", 1), c["N2"])

    def fresh(st, key):
        o = objs[key]
        N = o["N"]
        spec = spec_of(o)
        spec["numpy"] = o.get("numpy", False)
        c = {"stream": st, "keep": key, "bump": o["bumps"], "perm_seed": None, "layout": None, "ord": rng.choice(ORDS),
             "style": rng.choice(STYLES), "gmode": None, "int_scalars": rng.random() < 0.3, "own_check": rng.random() < 0.3,
             "obj": dict(spec), **spec}
        X64 = state(key)
        if st in ("nbr", "knnf"):
            c["pdim_arg"] = rng.choice([None, rng.randint(1, o["pdim"])]) if o["extra"] == 0 else rng.randint(1, o["pdim"])
        if st == "nbr":
            derive_radius(rng, c, None, X64)
        elif st == "knnf":
            c["k"] = rng.choice([0, 1, 1, 2, 3, max(0, N - 1), N // 2])
            c["batch"] = []
            c["radius"] = None
            if rng.random() < 0.6:
                derive_radius(rng, c, None, X64)
        elif st == "voxel":
            c["random"] = rng.random() < 0.4
            c["rng_mode"] = rng.choice(["lo", "hi", "script"]) if c["random"] else None
            derive_voxel(rng, c, rng.randint(1, o["pdim"]) if o["extra"] == 0 else o["pdim"], X64)
        elif st == "randf":
            c["batch"] = []
            c["num"] = rng.choice([N, N - 1, rng.randint(0, N), 1])
            c["rng_mode"] = rng.choice(["hi", "lo", "script", "real"])
        else:
            c["pdim"], c["extra"] = o["pdim"] + o["extra"], 0      # knn uses every column
            c["batch"], c["defaults"], c["alias"] = [], False, rng.random() < 0.5
            c["largest"], c["sorted"] = rng.choice([(False, True), (True, True), (False, False)])
            c["k"] = N
            partner(c, key)
            c["k"] = pick_k(rng, c["N2"])
        return c

    def vary(c, arg, key):
        """the same call with exactly one argument changed"""
        o = objs[key]
        c = dict(c)
        N = o["N"]
        if arg == "ord":
            c["ord"] = rng.choice([q for q in ORDS if q != c["ord"]])
        elif arg == "pdim":
            opts = [q for q in ([None] if o["extra"] == 0 else []) + list(range(1, o["pdim"] + 1)) if q != c["pdim_arg"]
                    and not (q is None and c["pdim_arg"] == o["pdim"]) and not (q == o["pdim"] and c["pdim_arg"] is None)]
            if opts:
                c["pdim_arg"] = rng.choice(opts)
        elif arg == "k":
            lim = c["N2"] if c["stream"] == "knn" else max(0, N - 1)
            c["k"] = rng.choice([q for q in range(0, lim + 1) if q != c["k"]] or [c["k"]])
        elif arg == "radius":
            n_old = c.get("n")
            if c["stream"] == "knnf" and c["radius"] is not None and rng.random() < 0.3:
                c["radius"] = None
            else:
                derive_radius(rng, c, None, state(key))
            if n_old is not None:
                c["n"] = n_old
        elif arg == "n":
            c["n"] = c["n"] + rng.choice([-1, 1])
        elif arg == "voxel":
            derive_voxel(rng, c, len(c["voxel"]), state(key))
        elif arg == "vdim":
            if o["extra"] == 0 and o["pdim"] > 1:
                derive_voxel(rng, c, rng.choice([q for q in range(1, o["pdim"] + 1) if q != len(c["voxel"])]), state(key))
        elif arg == "random":
            c["random"] = not c["random"]
            c["rng_mode"] = rng.choice(["lo", "hi", "script"]) if c["random"] else None
        elif arg == "num":
            c["num"] = rng.choice([q for q in range(0, N + 1) if q != c["num"]])
        elif arg == "draw":
            c["rng_mode"] = rng.choice([q for q in ["hi", "lo", "script"] if q != c["rng_mode"]])
        elif arg == "flags":
            c["largest"], c["sorted"] = rng.choice([q for q in [(False, True), (True, True), (False, False), (True, False)]
                                                    if q != (c["largest"], c["sorted"])])
        elif arg == "partner":
            partner(c, key)
        return c

    steps = []
    while len(steps) < nsteps:
        key = rng.choice(list(objs))
        st = rng.choice(["nbr", "voxel", "knnf", "knnf", "randf", "knn"])
        cur = fresh(st, key)
        steps.append(cur)
        args = list(HIST_ARGS[st])
        rng.shuffle(args)
        for arg in args[: rng.randint(2, len(args))]:
            if rng.random() < 0.3:          # another function on another object in between
                k2 = rng.choice(list(objs))
                steps.append(fresh(rng.choice(["nbr", "voxel", "knnf", "randf"]), k2))
            if rng.random() < 0.3:          # a call that fails, on the same object, in between
                spec_b = spec_of(objs[key])
                steps.append({"stream": "bad", "what": rng.choice(BAD_CALLS), "keep": key, "bump": objs[key]["bumps"],
                              "obj": dict(spec_b), "more": rng.choice([0, 0, 3]), "radius": rng.choice([None, 1.0]), **spec_b})
            cur = vary(cur, arg, key)
            steps.append(cur)
        # the caller edits the tensor in place, then repeats the very same call
        objs[key]["bumps"] += 2              # two different kinds of update
        cur = dict(cur, bump=objs[key]["bumps"])
        if cur.get("keep2") is not None:
            cur["bump2"] = objs[cur["keep2"]]["bumps"]
        steps.append(cur)
    return {"stream": "hist", "steps": steps, "N": 2}


BAD_CALLS = ["knnf_k", "knn_k", "randf_num", "voxel_zero", "voxel_long", "nbr_3d", "nbr_pdim"]   # documented checks / k range


def check_bad(ctx: Ctx, case, jobs: Jobs | None = None) -> bool:
    """ERROR PATHS ARE ATOMIC: an invalid call on a caller-held tensor (it should raise; some raise late, after work has been
    done) must leave the tensor bit-identical; the calls after it in the history are checked as usual"""
    P = pp()
    X = kept(case)
    N, D = X.shape
    before = X.clone()
    what = case["what"]
    try:
        if what == "knnf_k":
            P.knn_filter(X, k=N + case.get("more", 0), radius=case.get("radius"))
        elif what == "knn_k":
            P.knn(X, X, k=N + 1)
        elif what == "randf_num":
            P.random_filter(X, N + 1)
        elif what == "voxel_zero":
            P.voxel_filter(X, [1.0] * (case["pdim"] - 1) + [0.0])
        elif what == "voxel_long":
            P.voxel_filter(X, [1.0] * (D + 1))
        elif what == "nbr_3d":
            P.nbr_filter(X[None], 1, 1.0)
        elif what == "nbr_pdim":
            P.nbr_filter(X, 1, 1.0, pdim=D + 1)
        elif what == "knn_shape":
            P.knn(X, torch.cat([X, X], -1), k=1)
        elif what == "knnf_ord":
            P.knn_filter(X, k=0, ord="no-such-norm")
        ctx.count("hist.bad-call-did-not-raise")
    except Exception:
        ctx.count("hist.bad-call-raised")
    if X.shape != before.shape or not torch.equal(X, before):
        ctx.fail(case, f"atomic-{what}: a call that fails ({what}) left the caller's tensor modified")
        return False
    if jobs is not None:
        X64 = before.double()
        toks_ = cloud_tokens(X64)
        line = {"knnf_k": f"c18.api.knnf 2 none {D} {N} {N + case.get('more', 0)} {0 if case.get('radius') is None else 1} "
                          f"{to_wire(case.get('radius') or 0.0)} " + toks_,
                "nbr_pdim": f"c18.api.nbr 2 {D + 1} {D} {N} 1 1:0 0 " + toks_,
                "voxel_zero": f"c18.api.voxel 0 {D} {case['pdim']} {N} 0 " + " ".join(["1:0"] * (case["pdim"] - 1) + ["0:0"]) + " " + toks_,
                "voxel_long": f"c18.api.voxel 0 {D} {D + 1} {N} 0 " + " ".join(["1:0"] * (D + 1)) + " " + toks_,
                "randf_num": f"c18.randf {D} {N} {N + 1} " + " ".join(map(str, range(N))) + " " + toks_}.get(what)
        if line is not None:
            jobs.add(N, line, lambda st, toks: None if st == "err" else
                     ctx.disagree("bad", case, f"the entry-point model accepts the call {what} that the documented checks reject"))
    return True


def check_hist(ctx: Ctx, case, jobs: Jobs | None = None) -> bool:
    _KEPT.clear()
    ok = True
    for i, st in enumerate(case["steps"]):
        n0 = len(ctx.failures)
        ctx.count(f"hist.call.{st['stream']}")
        try:
            good = CHECKS[st["stream"]](ctx, st, jobs)
        except common.InfraError:
            raise
        except Exception as e:  # noqa: BLE001
            ctx.fail(st, f"{st['stream']}-malformed: the implementation's result could not be examined: {type(e).__name__}: {str(e)[:160]}")
            good = False
        for f in ctx.failures[n0:]:
            f["case"] = {"stream": "hist", "steps": case["steps"][: i + 1], "N": 2}
            f["what"] = "history-" + f["what"].replace(":", f" (call #{i} of a history on caller-held tensors, "
                                                              f"{st.get('bump', 0)} in-place updates before it):", 1)
        if not good:
            ok = False
            break
    _KEPT.clear()
    return ok


SHAPES3 = [[], [1], [2], [3], [2, 1], [1, 3], [2, 3]]


def gen_camera_case(rng, **over):
    bp = rng.choice(SHAPES3)
    # broadcast-compatible partners: drop leading dims or set to 1
    def partner(b):
        b = list(b)
        b = b[rng.randint(0, len(b)):]
        return [1 if rng.random() < 0.3 else v for v in b]
    bk, be = partner(bp), partner(bp)
    if rng.random() < 0.3:
        bp2 = partner(bp)
        if rng.random() < 0.5:
            bk = bp
        bp = bp2
    c = {"stream": "camera", "bp": bp, "bk": bk, "be": be, "ext": rng.random() < 0.55, "n": rng.choice([1, 2, 3, 6]),
         "dtype": rng.choice(["float32", "float64"]), "general_K": rng.random() < 0.25,
         "zmode": rng.choice(["ladder", "plain"]), "data_seed": rng.randrange(1 << 30)}
    c["span"] = rng.choice([0, 0, 0, 3] if c["dtype"] == "float32" else [0, 0, 0, 10, 40])
    c["layout"] = rng.choice([None] * 6 + ["views", "views", "expandK"])
    c.update({"style": rng.choice(STYLES), "gmode": rng.choice(GMODES), "own_check": rng.random() < 0.35,
              "default64": rng.random() < 0.2})
    c.update(over)
    if c.get("gmode") is not None and c.get("layout") == "expandK":
        c["layout"] = None
    if c.get("aliasK"):
        c.update(bp=[], bk=[], be=[], ext=False, n=3, general_K=True, layout=None)
    return c


HOMO_MAGS = {"float32": [1.0, 1.0, 1e-3, 1e3, 1e-30, 1e-15, 1e15, 1e30], "float64": [1.0, 1.0, 1e-3, 1e3, 1e-200, 1e-60, 1e60, 1e200]}


def gen_homo_case(rng, **over):
    dtp = over.get("dtype", rng.choice(["float32", "float64"]))
    c = {"stream": "homo", "shape": rng.choice([[1], [2], [3], [4], [7], [2, 3], [5, 2], [2, 1, 4], [3, 2, 2]]),
         "dtype": dtp, "mag": rng.choice(HOMO_MAGS.get(dtp, [1.0])), "layout": rng.choice([None, None, "cols"]),
         "gmode": rng.choice(GMODES), "own_check": rng.random() < 0.35, "default64": rng.random() < 0.2,
         "data_seed": rng.randrange(1 << 30)}
    c.update(over)
    return c


CHECKS = {"knn": check_knn, "nbr": check_nbr, "voxel": check_voxel, "knnf": check_knnf, "randf": check_randf,
          "camera": check_camera, "homo": check_homo, "hist": check_hist, "bad": check_bad, "large": check_large, "seq": check_seq, "edge": check_edge, "sandwich": check_sandwich}


def signature(c):
    st = c["stream"]
    if st == "large":
        return ("large", c["fn"], c["M"], c["dtype"], c.get("shape"), c.get("k"), c.get("random"))
    if st == "sandwich":
        return ("sandwich", c["fn"], c["dtype"], c["degenerate"])
    if st == "edge":
        return ("edge", c["what"], c["N"], c["D"], str(c["ord"]), c["dtype"], c.get("pdim"))
    if st == "seq":
        return ("seq", tuple((q["stream"], q.get("gmode"), bool(q.get("default64")), q.get("N")) for q in c["steps"]))
    if st == "hist":
        return ("hist", tuple((q["stream"], q["keep"], q.get("bump", 0), q.get("what")) for q in c["steps"]))
    if st in ("camera", "homo"):
        return (st, c["dtype"], tuple(c.get("bp", c.get("shape", []))), tuple(c.get("bk", [])), c.get("ext"), c.get("general_K"),
                c["data_seed"] % 97)
    return (st, c["kind"], nbucket(c["N"]), c["pdim"], c.get("extra"), str(c["ord"]), c["dtype"],
            min(c.get("k", c.get("n", c.get("num", 0))) or 0, 9), c.get("radius") is not None, c.get("random"), c.get("largest"),
            tuple(c.get("batch", [])), c.get("layout"), c.get("mag_exp"), bool(c.get("alias")), bool(c.get("item_kinds")))


def guarded(ctx: Ctx, c, jobs):
    """run one check; a result whose structure cannot even be examined (wrong rank, wrong type, ...) is a failure of
    the implementation on this input, not an infrastructure problem (the unchanged tree never takes this path)"""
    _BASES.clear()
    old_default = torch.get_default_dtype()
    _STATE["backward"] = c.get("gmode") in ("req", "graph", "param")
    try:
        if c.get("default64"):
            torch.set_default_dtype(torch.float64)      # process-wide setting a user may have made (class 25)
        try:
            with mode_ctx(c):
                ok = CHECKS[c["stream"]](ctx, c, jobs)
        finally:
            torch.set_default_dtype(old_default)
            _STATE["backward"] = False
        for base, snap in _BASES:
            if not torch.equal(torch.nan_to_num(base, nan=1.5), torch.nan_to_num(snap, nan=1.5)):
                ctx.fail(c, f"{c['stream']}-aliasing: memory outside / behind the view handed in (layout {c.get('layout')}) "
                            f"was modified by the call")
                ok = False
        _BASES.clear()
        return ok
    except common.InfraError:
        raise
    except Exception as e:  # noqa: BLE001
        import traceback
        tb = traceback.format_exc()
        ctx.fail(c, f"{c['stream']}-malformed: the implementation's result could not be examined: "
                    f"{type(e).__name__}: {str(e)[:160]} @ {tb.strip().splitlines()[-3].strip()[:120]}")
        return False


def run_case(ctx: Ctx, c, jobs):
    st = c["stream"]
    ctx.count(f"{st}")
    if st == "large":
        ctx.count(f"large.{c['fn']}")
    if st not in ("camera", "homo", "hist", "large", "seq", "edge", "sandwich"):
        ctx.count(f"{st}.kind.{c['kind']}")
        ctx.count(f"{st}.N.{['1', '2-6', '7-24', '25-70', '71-300'][nbucket(c['N'])]}")
        ctx.count(f"{st}.ord.{c['ord']}")
    nontrivial = c.get("N", 2) >= 2
    ctx.note_case(signature(c), nontrivial)
    ctx.sample({k: v for k, v in c.items()}, cap=14)
    ok = guarded(ctx, c, jobs)
    # history: a later call with the same shapes and parameters on other data (stale state kept between calls)
    if ok and st in ("nbr", "voxel", "knnf", "knn", "randf") and c["N"] <= 70 and ctx.rng.random() < 0.2:
        c2 = dict(c)
        c2["data_seed"] = c["data_seed"] + 1
        c2["perm_seed"] = None
        ctx.count(f"{st}.later-call-same-shape")
        ok = guarded(ctx, c2, None) and ok
    return ok


def run(ctx: Ctx):
    rng = ctx.rng
    torch.set_num_threads(2)
    jobs = Jobs()
    hiN = 300
    plan = [("knn", gen_knn_case, ctx.pick(40, 1400)), ("nbr", gen_nbr_case, ctx.pick(45, 1600)),
            ("voxel", gen_voxel_case, ctx.pick(45, 1600)), ("knnf", gen_knnf_case, ctx.pick(45, 1600)),
            ("randf", gen_randf_case, ctx.pick(20, 600))]
    big_budget = {"knn": ctx.pick(1, 20), "nbr": ctx.pick(1, 20), "voxel": ctx.pick(2, 30), "knnf": ctx.pick(1, 20), "randf": 1000}
    # hand-made corner cases first (docstring clouds with the outliers moved, 1-point clouds, single voxel, ...)
    for c in corner_cases():
        run_case(ctx, c, jobs)
    # deterministic corpus (independent of VERIF_SEED): every class of the hardening list, small clouds
    corpus = corpus_cases()
    if ctx.quick:
        # quick runs a fixed two-thirds of the small-case sweeps (every class keeps several representatives; the sequence /
        # history / edge / sandwich / large cases all run); thorough runs the whole corpus
        corpus = [c for i_, c in enumerate(corpus) if c["stream"] in ("hist", "seq", "edge", "sandwich", "large") or i_ % 3 != 2]
    for c in corpus:
        ctx.count("corpus")
        run_case(ctx, c, jobs if c.get("N", 0) <= 70 and c.get("N2", 0) <= 70 else None)
    for _ in range(ctx.pick(6, 160)):
        run_case(ctx, gen_hist_case(rng, rng.choice([5, 8, 11])), jobs)
    if not ctx.quick:
        ks = list(range(8, 17))
        sizes = sorted({(1 << k_) + d_ for k_ in ks for d_ in (-1, 0, 1)})
        for c in gen_large_cases(rng, rng.sample(sizes, 10)) + gen_large_quadratic(rng, [s_ for s_ in sizes if s_ <= 2049][-9:]):
            run_case(ctx, c, jobs)
        for c in gen_pointwise_large(rng, [(1 << 18) + 1, (1 << 18) + 37, (1 << 20) + 1]):
            run_case(ctx, c, jobs)
    for name, gen, n in plan:
        nbig = 0
        for _ in range(n):
            c = gen(rng, hiN)
            if c["N"] > 70 or c.get("N2", 0) > 70:
                nbig += 1
                if nbig > big_budget[name]:
                    # keep the case for the exact oracle, skip the (expensive) 192-bit model for it
                    run_case(ctx, c, None)
                    continue
            run_case(ctx, c, jobs)
    for _ in range(ctx.pick(40, 1500)):
        run_case(ctx, gen_camera_case(rng), jobs)
    for _ in range(ctx.pick(20, 600)):
        run_case(ctx, gen_homo_case(rng), jobs)
    jobs.flush(ctx)


def corpus_cases():
    """Fixed-seed corpus, run before the seeded cases so that detection of a whole class never depends on VERIF_SEED:
    per stream a sweep over ord x dtype x cloud kind crossed with the classes of the hardening list —
    extreme magnitudes, exact hits / ties / duplicates, big k and N2, every flag combination, every memory layout,
    one tensor in two roles, mixed-regime batches, RNG extremes, histories on caller-held tensors."""
    r = random.Random(20260925)
    out = []
    kinds = U.KINDS
    dts = ["float32", "float64"]
    it = 0
    # knn: flags x ord x dtype, N2 beyond 40, k large, alias, layouts, magnitudes, mixed batches
    for flags in [(False, True), (True, True), (False, False), (True, False)]:
        for o in ORDS:
            for dtp in dts:
                it += 1
                out.append(gen_knn_case(r, 60, kind=kinds[it % 6], ord=o, dtype=dtp, flags=flags, defaults=False,
                                        N=[3, 9, 17, 30][it % 4], N2=[5, 45, 23, 64][it % 4], alias=False,
                                        k=(lambda n, it=it: [1, n, n // 2, max(1, n - 1)][it % 4]),
                                        batch=[[], [2], [], [3]][it % 4], layout=[None, "cols", "rows", "T"][it % 4],
                                        mag_exp=MAGS[dtp][[0, 2, 8, 4][it % 4]], perm_seed=it))
    for dtp in dts:
        for o in ORDS:
            out.append(gen_knn_case(r, 40, kind="dupes", ord=o, dtype=dtp, alias=True, flags=(False, True), defaults=False,
                                    batch=[], N=12, mag_exp=0, layout=None))
            out.append(gen_knn_case(r, 40, kind="gauss", ord=o, dtype=dtp, alias=True, flags=(False, True), defaults=False,
                                    batch=[2], N=7, mag_exp=MAGS[dtp][0], layout=None, k=(lambda n: 3)))
    # nbr: radius modes incl. exact hits, 0, inf; n = 0 / negative / N; duplicates; magnitudes; layouts
    for mode in ["hit", "hit", "mid", "below", "above", "zero", "inf"]:
        for o in ORDS:
            for dtp in dts:
                it += 1
                kind = ["lattice", "line", "dupes", "blobs", "lattice", "uniform"][it % 6]
                over = dict(kind=kind, ord=o, dtype=dtp, N=[2, 6, 14, 33][it % 4], layout=[None, "rows", "cols", "T"][it % 4],
                            mag_exp=MAGS[dtp][[4, 0, 8, 3][it % 4]] if mode != "hit" else [0, -12, 12][it % 3], perm_seed=it)
                if mode == "inf":
                    over["radius"] = "inf"
                else:
                    over["radius_mode"] = mode
                if it % 5 == 0:
                    over["n"] = [0, -1, over["N"], over["N"] - 1][it % 4]
                out.append(gen_nbr_case(r, 60, **over))
    # voxel: size modes (power of two / multiples / arbitrary / one huge cell / tiny cells), both branches, RNG extremes
    for vm in [0.2, 0.6, 0.8, 0.95, 0.99]:
        for rnd_, mode in [(False, None), (True, "hi"), (True, "lo"), (True, "script")]:
            for dtp in dts:
                it += 1
                out.append(gen_voxel_case(r, 60, kind=kinds[it % 6], dtype=dtp, N=[1, 4, 11, 27, 48][it % 5], vox_mode=vm,
                                          random=rnd_, rng_mode=mode, layout=[None, "cols", "rows", "T"][it % 4],
                                          mag_exp=VOX_MAGS[dtp][[3, 0, 7, 1][it % 4]], perm_seed=it))
    # knn_filter: with / without radius, k small / >= 17 / N-1, ord, pdim, mixed batches, inf radius
    for wr in [True, True, False]:
        for o in ORDS:
            for dtp in dts:
                for kk in [(lambda n: 1), (lambda n: min(n - 1, 19)), (lambda n: n - 1), (lambda n: n // 2)]:
                    it += 1
                    over = dict(kind=kinds[it % 6], ord=o, dtype=dtp, N=[4, 24, 9, 40][it % 4], k=kk, with_radius=wr,
                                layout=[None, "T", "rows", "cols"][it % 4], mag_exp=MAGS[dtp][[4, 1, 7, 0, 8][it % 5]],
                                perm_seed=it, batch=[[2], [], [3], [1, 2]][it % 4])
                    if wr and it % 4 == 0:
                        over["radius_mode"] = "hit"
                        over["mag_exp"] = 0
                        over["kind"] = ["lattice", "line"][it % 2]
                    if wr and it % 7 == 0:
                        over["radius"] = "inf"
                    out.append(gen_knnf_case(r, 60, **over))
    # random_filter
    for dtp in dts:
        for mode in ["real", "hi", "lo", "script"]:
            for num in [(lambda n: n), (lambda n: n - 1), (lambda n: 0), (lambda n: n // 2)]:
                it += 1
                out.append(gen_randf_case(r, 40, dtype=dtp, N=[1, 5, 16, 37][it % 4], rng_mode=mode, num=num,
                                          batch=[[], [2], [2, 3], []][it % 4], layout=[None, "rows", None, "T"][it % 4],
                                          mag_exp=MAGS[dtp][[4, 0, 8][it % 3]]))
    # camera / homo: every span, layouts, one tensor as points and intrinsics, broadcast shapes
    for dtp in dts:
        for sp in ([0, 3] if dtp == "float32" else [0, 10, 40]):
            for lay_ in [None, "views", "expandK"]:
                for ext in [False, True]:
                    out.append(gen_camera_case(r, dtype=dtp, span=sp, layout=lay_, ext=ext))
        out.append(gen_camera_case(r, dtype=dtp, aliasK=True, span=0))
        out.append(gen_camera_case(r, dtype=dtp, aliasK=True, span=0))
        for mg in HOMO_MAGS[dtp][1:]:
            out.append(gen_homo_case(r, dtype=dtp, mag=mg, layout=[None, "cols"][len(out) % 2]))
    # histories
    for _ in range(36):
        out.append(gen_hist_case(r, r.choice([6, 9, 12])))
    # ---- pass 2 -------------------------------------------------------------------------------------------------
    # (10)/(12)/(13): every call style x every grad mode / input type, crossed with streams, batches, flags
    gms = [None, "req", "nograd", "inference", "graph", "param"]
    for si, style in enumerate(["kw", "min", "pos", "mix", "kwreq"]):
        for gi, gm in enumerate(gms):
            it += 1
            dtp = dts[(si + gi) % 2]
            q = dict(style=style, gmode=gm, dtype=dtp, mag_exp=0, layout=None)
            out.append(gen_knn_case(r, 30, N=[4, 9][it % 2], N2=[7, 12][it % 2], ord=ORDS[it % 3], alias=False, defaults=False,
                                    flags=[(False, True), (True, True), (False, False), (True, False)][it % 4],
                                    batch=[[], [2], [3]][it % 3], **q))
            out.append(gen_nbr_case(r, 30, N=[5, 11, 3][it % 3], ord=ORDS[(it + 1) % 3], kind=kinds[it % 6],
                                    radius_mode=["hit", "mid", "hit+", "hit-"][it % 4], **q))
            out.append(gen_knnf_case(r, 30, N=[6, 10, 4][it % 3], ord=ORDS[(it + 2) % 3], with_radius=bool(it % 2),
                                     batch=[[2], [], [3]][it % 3], kind=kinds[(it + 3) % 6], **q))
            out.append(gen_voxel_case(r, 30, N=[7, 12, 2][it % 3], random=bool((it // 2) % 2), rng_mode=["hi", "lo", "script"][it % 3],
                                      vox_form=["list", "tuple"][it % 2], kind=kinds[(it + 1) % 6], **q))
            out.append(gen_randf_case(r, 30, N=[5, 9][it % 2], batch=[[], [2]][it % 2], rng_mode=["hi", "script", "lo"][it % 3], **q))
            out.append(gen_camera_case(r, style=style, gmode=gm, dtype=dtp, span=0, layout=None, ext=bool(it % 2),
                                       general_K=bool((it // 3) % 2)))
            out.append(gen_homo_case(r, dtype=dtp, gmode=gm, layout=None))
    # python ints where the value is integral; integer-dtype clouds for the two selecting functions
    for dtp in dts:
        for kind in ["lattice", "line", "dupes"]:
            it += 1
            out.append(gen_nbr_case(r, 30, kind=kind, dtype=dtp, mag_exp=0, radius_mode="hit", N=9, style=STYLES[it % 6]))
            out.append(gen_knnf_case(r, 30, kind=kind, dtype=dtp, mag_exp=0, radius_mode="hit", with_radius=True, N=9, k=(lambda n: 2),
                                     style=STYLES[(it + 2) % 6]))
            out.append(gen_voxel_case(r, 30, kind=kind, dtype=dtp, mag_exp=0, vox_mode=0.2, N=11, random=bool(it % 2), rng_mode="hi"))
    for c_ in out[-18:]:
        c_["int_scalars"] = True
    for idt in ["int64", "int32"]:
        for kind in ["lattice", "blobs", "dupes", "uniform"]:
            it += 1
            out.append(gen_randf_case(r, 30, dtype=idt, kind=kind, N=[3, 8, 16, 5][it % 4], batch=[[], [2], [3], []][it % 4],
                                      rng_mode=["hi", "script", "real", "lo"][it % 4], layout=[None, "rows", "T", "cols"][it % 4]))
            out.append(gen_voxel_case(r, 30, dtype=idt, kind=kind, N=[4, 9, 17, 6][it % 4], random=True,
                                      rng_mode=["hi", "lo", "script", "hi"][it % 4], vox_mode=[0.2, 0.6, 0.2, "gap-"][it % 4]))
    # (16) specific sizes: N, D, k in {1,2,3}, D == 3 == N == batch; sizes next to powers of two; primes
    for N in (1, 2, 3):
        for D in (1, 2, 3):
            for var in range(3):
                it += 1
                pd, ex = [(D, 0), (max(1, D - 1), D - max(1, D - 1)), (1, D - 1)][var]
                bt = [[], [3], [3, 3], [1], [2]][it % 5]
                dtp = dts[it % 2]
                q = dict(N=N, pdim=pd, extra=ex, dtype=dtp, mag_exp=0, kind=kinds[it % 6], layout=None)
                out.append(gen_knn_case(r, 30, N2=[1, 2, 3][(it + var) % 3], batch=bt, alias=False, defaults=False, ord=ORDS[it % 3],
                                        flags=[(False, True), (True, True), (True, False)][it % 3],
                                        k=(lambda n, it=it: min(n, [1, 2, 3, 0][it % 4])), **{**q, "pdim": D, "extra": 0}))
                out.append(gen_nbr_case(r, 30, ord=ORDS[(it + 1) % 3], radius_mode=["hit", "mid", "zero", "above"][it % 4], **q))
                out.append(gen_knnf_case(r, 30, ord=ORDS[(it + 2) % 3], with_radius=(var == 1), batch=bt if var != 1 else [],
                                         k=(lambda n, it=it: min(max(n - 1, 0), [0, 1, 2][it % 3])), **q))
                out.append(gen_voxel_case(r, 30, random=(var == 2), rng_mode="hi", vox_mode=[0.2, "gap+", "gap-"][var], **q))
                out.append(gen_randf_case(r, 30, batch=bt, num=(lambda n, it=it: min(n, [1, 2, 3, 0][it % 4])), rng_mode=["hi", "script"][it % 2],
                                          **{k_: v_ for k_, v_ in q.items() if k_ != "extra"}))
    for nn_ in [7, 13, 31, 32, 33, 63, 64, 65, 127, 128, 129, 257]:
        it += 1
        out.append(gen_knn_case(r, 300, N=[3, 5][it % 2], N2=nn_, batch=[], alias=False, defaults=False, dtype=dts[it % 2], mag_exp=0,
                                kind=["gauss", "uniform"][it % 2], flags=[(False, True), (True, True)][it % 2],
                                k=(lambda n, it=it: [n, n - 1, 17, 1][it % 4]), layout=None))
        out.append(gen_knnf_case(r, 300, N=nn_, with_radius=bool(it % 2), batch=[], dtype=dts[it % 2], mag_exp=0,
                                 kind=["gauss", "blobs"][it % 2], k=(lambda n, it=it: [1, 16, 17, n - 1][it % 4]), layout=None))
    for n_ in (1, 2, 3):
        for shp in ([3], [3, 3], [2], [1]):
            for dtp in dts:
                it += 1
                out.append(gen_camera_case(r, dtype=dtp, n=n_, bp=shp, bk=[shp, shp[-1:], []][it % 3], be=[shp, [], shp[-1:]][it % 3],
                                           ext=bool(it % 2), span=0, layout=None, style=STYLES[it % 6]))
    # (18) radius / cell size relative to the spacing: just above / below an occurring distance, far below / far above
    for mode in ["hit+", "hit-", "farbelow", "farabove"]:
        for o in ORDS:
            for dtp in dts:
                it += 1
                out.append(gen_nbr_case(r, 40, kind=kinds[it % 6], ord=o, dtype=dtp, N=[6, 15, 28][it % 3], radius_mode=mode,
                                        mag_exp=[0, MAGS[dtp][0], MAGS[dtp][-1]][it % 3]))
                out.append(gen_knnf_case(r, 40, kind=kinds[(it + 2) % 6], ord=o, dtype=dtp, N=[7, 14, 25][it % 3], with_radius=True,
                                         radius_mode=mode, k=(lambda n, it=it: [1, 2, 5][it % 3]), mag_exp=0))
    for vm in ["gap+", "gap-", "gap"]:
        for dtp in dts:
            for rnd_ in (False, True):
                for kind in ["lattice", "gauss", "blobs"]:
                    it += 1
                    out.append(gen_voxel_case(r, 40, kind=kind, dtype=dtp, N=[5, 12, 26][it % 3], vox_mode=vm, random=rnd_,
                                              rng_mode=["hi", "lo"][it % 2], mag_exp=0))
    # ---- audit round: degenerate sizes at the entry points (voxel=[], pdim=0, width-0 points, the empty cloud (0, D))
    out += edge_cases()
    # ---- pass 4 -------------------------------------------------------------------------------------------------
    # (19) large sizes: one > 2^14 and one > 2^16 per entry point (O(N) functions), 2^10+1 / 2^11+1 for the O(N^2) ones
    lg_ = gen_large_cases(r, [16385, 65537])
    out += [c_ for c_ in lg_ if c_["M"] > 20000 or c_["fn"] in ("knn", "homo", "p2p") or (c_["fn"] == "voxel" and c_.get("cell") == 1 << 14)]
    out += gen_large_quadratic(r, [1025, 2049])
    # (23) grad modes / default dtypes in fixed orders on fresh keys
    out += gen_seq_cases(r)
    # (21) user Tensor subclass, (25) default dtype x cloud dtype, (27) numpy scalars / numpy size vectors, per stream
    for dtp in dts:
        for d64 in (False, True):
            for gm, nps in [("subclass", False), (None, True), (None, False), ("req", False)]:
                it += 1
                q = dict(dtype=dtp, default64=d64, gmode=gm, mag_exp=0, layout=None, shift=None)
                cs_ = [gen_knn_case(r, 30, N=6, N2=11, alias=False, defaults=False, batch=[[], [2]][it % 2], ord=ORDS[it % 3], **q),
                       gen_nbr_case(r, 30, N=9, ord=ORDS[(it + 1) % 3], kind=kinds[it % 6], radius_mode=["hit", "mid", "neg"][it % 3], **q),
                       gen_knnf_case(r, 30, N=10, ord=ORDS[(it + 2) % 3], with_radius=bool(it % 2), batch=[], kind=kinds[(it + 2) % 6], **q),
                       gen_voxel_case(r, 30, N=12, random=bool(it % 2), rng_mode="hi", vox_form=["np64", "np32", "list", "tuple"][it % 4],
                                      kind=kinds[(it + 1) % 6], **q),
                       gen_randf_case(r, 30, N=8, batch=[[], [2]][it % 2], rng_mode="script", **q),
                       gen_camera_case(r, dtype=dtp, default64=d64, gmode=gm, span=0, layout=None, ext=bool(it % 2),
                                       zmode=["tiny", "ladder", "plain"][it % 3]),
                       gen_homo_case(r, dtype=dtp, default64=d64, gmode=gm, layout=None)]
                for c_ in cs_:
                    c_["np_scalars"] = nps
                out += cs_
    # (27) one numpy buffer of voxel sizes refilled in place between consecutive calls
    for vf in ("np64", "np32"):
        for dtp in dts:
            out.append({"stream": "seq", "N": 2, "steps": [
                gen_voxel_case(r, 30, N=10 + j, pdim=3, extra=1, dtype=dtp, kind=kinds[j % 6], vox_form=vf, random=bool(j % 2), rng_mode="lo",
                               mag_exp=0, gmode=None, layout=None, shift=None, vox_mode=[0.2, 0.6, 0.8, "gap+"][j % 4]) for j in range(5)]})
    # (20) exact coincidences: k equal to an occurring count, equal / opposite focal lengths, cx == cy, depth exactly +-tiny
    for dtp in dts:
        for o in ORDS:
            it += 1
            c_ = gen_knnf_case(r, 30, kind=["lattice", "line", "dupes"][it % 3], ord=o, dtype=dtp, N=[7, 12, 20][it % 3], with_radius=True,
                               radius_mode="hit", mag_exp=0, shift=None, k=(lambda n: 1))
            X64_ = build_cloud(c_)
            pd_ = c_["pdim"] if c_["pdim_arg"] is None else c_["pdim_arg"]
            lo_, hi_, *_ = nbr_oracle(c_, X64_, c_["radius"], o, pd_)
            occ = sorted({int(v) for v in lo_.tolist() if 0 <= int(v) < c_["N"]})
            if occ:
                c_["k"] = occ[it % len(occ)]        # count == k exactly for some points, count == k - 1 / k + 1 for others
            out.append(c_)
        for ff in [(2.0, 2.0), (3.0, -3.0), (-1.5, -1.5)]:
            c_ = gen_camera_case(r, dtype=dtp, span=0, layout=None, ext=False, general_K=False, zmode="tiny", gmode=None)
            c_["focal"], c_["center_equal"] = list(ff), True
            out.append(c_)
            c_ = gen_camera_case(r, dtype=dtp, span=0, layout=None, ext=True, general_K=False, zmode="ladder", gmode=None)
            c_["focal"], c_["center_equal"] = list(ff), bool(len(out) % 2)
            out.append(c_)
    # (26) sign conventions: negative radius (n = 0, -1, 1), every voxel size negative, clouds entirely <= 0 / < 0 / all zero
    for dtp in dts:
        for nn_ in (0, -1, 1):
            it += 1
            out.append(gen_nbr_case(r, 30, kind=kinds[it % 6], dtype=dtp, N=8, radius_mode="neg", n=nn_, mag_exp=0, shift=None))
        for wr in (True, False):
            out.append(gen_knnf_case(r, 30, kind="blobs", dtype=dtp, N=9, with_radius=True, radius_mode="neg", k=(lambda n: 0 if wr else 2),
                                     mag_exp=0, shift=None))
        for sh in ("neg", "max0", "zero"):
            for kind in ["lattice", "blobs", "uniform"]:
                it += 1
                q = dict(dtype=dtp, kind=kind, shift=sh, mag_exp=0, N=[5, 10, 16][it % 3])
                out.append(gen_nbr_case(r, 30, **q))
                out.append(gen_knnf_case(r, 30, with_radius=bool(it % 2), batch=[], **q))
                out.append(gen_voxel_case(r, 30, random=bool(it % 2), rng_mode="hi", vox_mode=[0.2, 0.6, "gap-"][it % 3], **q))
                out.append(gen_knn_case(r, 30, N2=7, alias=False, defaults=False, batch=[], **q))
                cv = gen_voxel_case(r, 30, random=not bool(it % 2), rng_mode="lo", vox_mode=0.2, **{**q, "shift": None})
                cv["voxel"] = [-abs(v_) for v_ in cv["voxel"]]          # every size negative
                out.append(cv)
    # ---- pass 5 -------------------------------------------------------------------------------------------------
    # (35) organised clouds: every tie there is — 2-D grid with a feature channel, 3-D lattice, outliers anywhere,
    #      ord 1 / 2 / inf, radius given / omitted, both dtypes, k = 1..4: the row must be the mean over SOME admissible choice
    for dtp in dts:
        for o in ORDS:
            for (pd_, ex_, N_) in [(2, 1, 16), (3, 0, 27), (1, 2, 9)]:
                for kk_ in (1, 2, 4):
                    it += 1
                    q = dict(kind="grid", pdim=pd_, extra=ex_, N=N_, dtype=dtp, ord=o, mag_exp=0, shift=None, layout=None, gmode=None)
                    out.append(gen_knnf_case(r, 30, with_radius=bool(it % 2), radius_mode=["hit", "mid", "above"][it % 3], batch=[],
                                             k=(lambda n, kk_=kk_: kk_), **q))
                    if kk_ <= 2:
                        out.append(gen_knn_case(r, 30, N2=N_, alias=bool(it % 2), defaults=False, batch=[], flags=(bool(it % 3 == 0), True),
                                                k=(lambda n, kk_=kk_: kk_ + 1), **q))
                        out.append(gen_nbr_case(r, 30, radius_mode="hit", **q))
                        out.append(gen_voxel_case(r, 30, random=bool(it % 2), rng_mode="hi", vox_mode=[0.2, "gap"][it % 2], **q))
    # (36) near-coincident pairs: distances differing by 2^-12 .. 2^-36 relative — outside round-off, inside any loose tolerance
    for dtp in dts:
        for o in ORDS:
            for kk_ in (1, 2, 3):
                it += 1
                q = dict(kind="neartie", N=[8, 12, 20][it % 3], pdim=[1, 2, 3][it % 3], extra=0, dtype=dtp, ord=o, mag_exp=0, shift=None,
                         layout=None, gmode=None)
                out.append(gen_knn_case(r, 30, N2=q["N"], alias=True, defaults=False, batch=[], flags=(False, True),
                                        k=(lambda n, kk_=kk_: 2 * kk_), **q))
                out.append(gen_knnf_case(r, 30, with_radius=bool(it % 2), batch=[], k=(lambda n, kk_=kk_: 2 * kk_ - 1), **q))
                out.append(gen_nbr_case(r, 30, radius_mode=["hit+", "hit-", "mid"][it % 3], **q))
    # (30) every dtype the entry points accept: value AND dtype of the result
    for dtp in ["int16", "int8", "uint8", "bool", "float16", "bfloat16", "complex64", "int32", "int64"]:
        for i_ in range(4):
            it += 1
            out.append(gen_randf_case(r, 30, dtype=dtp, N=[3, 8, 16, 5][i_], batch=[[], [2], [3], []][i_], kind=kinds[it % 6],
                                      rng_mode=["hi", "script", "real", "lo"][i_], layout=[None, "rows", "T", "cols"][i_]))
            out.append(gen_homo_case(r, dtype=dtp, gmode=None, layout=None, mag=1.0, shape=[[3], [2, 3], [5, 2], [2, 1, 4]][i_]))
            if dtp not in ("bool", "complex64"):
                out.append(gen_voxel_case(r, 30, dtype=dtp, N=[4, 9, 17, 6][i_], random=True, rng_mode=["hi", "lo", "script", "hi"][i_],
                                          kind="lattice", vox_mode=0.2, mag_exp=0, shift=None))
            if dtp in ("float16", "bfloat16"):
                q = dict(dtype=dtp, kind=["lattice", "grid"][i_ % 2], mag_exp=0, shift=None, layout=None, gmode=None, pdim=[2, 3][i_ % 2], extra=0)
                out += [gen_nbr_case(r, 30, N=9, radius_mode="hit", **q), gen_knnf_case(r, 30, N=9, with_radius=bool(i_ % 2), batch=[], **q),
                        gen_knn_case(r, 30, N=5, N2=9, alias=False, defaults=False, batch=[], **q),
                        gen_voxel_case(r, 30, N=9, random=False, vox_mode=0.2, **q)]
    # (32) two identical calls around every other operation of the module (degenerate shapes)
    out += sandwich_cases()
    # (34) beyond the largest block: one size > 2^17 for the point-wise entry points
    out += [c_ for c_ in gen_pointwise_large(r, [(1 << 17) + 37]) if c_["fn"] != "randf"]
    for c_ in out:
        c_["own_check"] = True      # (15) every corpus case also checks that results own their memory
        for st_ in c_.get("steps", []):
            st_["own_check"] = True
    random.Random(7).shuffle(out)   # (17) streams / dtypes / objects interleaved in one fixed order
    return out


def corner_cases():
    out = []
    base = {"kind": "lattice", "pdim": 3, "extra": 0, "ord": 2, "perm_seed": 5}
    for dtype in ("float32", "float64"):
        for N in (1, 2, 3):
            for seed in (1, 2):
                out.append({**base, "stream": "knnf", "N": N, "dtype": dtype, "k": min(1, N - 1) if N > 1 else 0, "pdim_arg": None,
                            "radius": 1.0, "batch": [], "data_seed": seed})
                out.append({**base, "stream": "knnf", "N": N, "dtype": dtype, "k": N - 1, "pdim_arg": None,
                            "radius": None, "batch": [2], "data_seed": seed})
                out.append({**base, "stream": "voxel", "N": N, "dtype": dtype, "voxel": [64.0, 64.0, 64.0], "random": True,
                            "rng_mode": "hi", "data_seed": seed})
                out.append({**base, "stream": "voxel", "N": N, "dtype": dtype, "voxel": [64.0, 64.0], "random": False,
                            "rng_mode": None, "data_seed": seed})
                out.append({**base, "stream": "nbr", "N": N, "dtype": dtype, "n": 0, "radius": 0.0, "pdim_arg": None, "data_seed": seed})
                out.append({**base, "stream": "nbr", "N": N, "dtype": dtype, "n": 1, "radius": 1.0, "pdim_arg": 2, "data_seed": seed})
                out.append({**base, "stream": "randf", "N": N, "dtype": dtype, "extra": 1, "batch": [], "num": N, "rng_mode": "real",
                            "data_seed": seed})
                out.append({**base, "stream": "knn", "N": N, "N2": N, "dtype": dtype, "k": N, "largest": False, "sorted": True,
                            "defaults": False, "batch": [], "data_seed": seed})
    # blobs with few retained points: #retained <= k, nothing retained
    for seed in range(6):
        out.append({"kind": "blobs", "pdim": 2, "extra": 1, "ord": 2, "perm_seed": seed, "stream": "knnf", "N": 5 + seed,
                    "dtype": "float64", "k": 3, "pdim_arg": 2, "radius": 1e-3, "batch": [], "data_seed": 100 + seed})
        out.append({"kind": "line", "pdim": 1, "extra": 0, "ord": 1, "perm_seed": seed, "stream": "knnf", "N": 3 + seed,
                    "dtype": "float32", "k": 2, "pdim_arg": None, "radius": 1.0, "batch": [], "data_seed": 200 + seed})
    return out


# ============================================================================ search / replay

def search(ctx: Ctx):
    """failing-input search on the real code after a broken proof / correspondence: the exact brute-force oracles
    (no model involved) over many small clouds, every kind, every ord, both dtypes."""
    rng = random.Random(ctx.seed + 4242)
    gens = [gen_knn_case, gen_nbr_case, gen_voxel_case, gen_knnf_case, gen_randf_case, lambda r_, n_: gen_hist_case(r_)]
    for it in range(1500):
        g = gens[it % len(gens)]
        c = g(rng, 40)
        guarded(ctx, c, None)
        if ctx.failures:
            return
    for it in range(400):
        c = gen_camera_case(rng) if it % 3 else gen_homo_case(rng)
        guarded(ctx, c, None)
        if ctx.failures:
            return


def replay(ctx: Ctx, case) -> bool:
    c = dict(case["case"])
    n0 = len(ctx.failures)
    jobs = Jobs()
    guarded(ctx, c, jobs)
    try:
        jobs.flush(ctx, workers=1)
    except common.InfraError as e:
        print("  (model not available:", e, ")")
    for f in ctx.failures[n0:]:
        print("  fails:", f["what"])
    for dd in ctx.disagreements:
        print("  model/implementation disagreement:", dd["detail"])
    return len(ctx.failures) == n0 and not ctx.disagreements
