import Pose.Wire
import Pose.Model.Stop
import Pose.Model.StopX
/-! Driver ops for C20 (stopping controllers).

State code on the wire: `(steps * 2^60 + patience_count) * 2 + (1 if continual else 0)`.
Observation code: `nodec + 2*below + 4*rej`.  `kind` is `sop` (StopOnPlateau) or `rtb` (ReduceToBason). -/
namespace PP.Driver
open PP Wire Stop

namespace C20

def obsOfCode (n : Nat) : Obs := ⟨n % 2 == 1, (n / 2) % 2 == 1, (n / 4) % 2 == 1⟩
def codeBase : Nat := 2 ^ 60
def stCode (s : St) : Nat := (s.steps * codeBase + s.pc) * 2 + (if s.cont then 1 else 0)
def stOfCode (n : Nat) : St := ⟨n / 2 / codeBase, (n / 2) % codeBase, n % 2 == 1⟩
def bit (b : Bool) : Nat := if b then 1 else 0

def stepOf (kind : String) (c : Cfg) : Except String (St → Obs → St) :=
  match kind with
  | "sop" => .ok (sopStep c)
  | "rtb" => .ok (rtbStep c)
  | _ => .error "bad-kind"

/-- stream of observations from a list: beyond the list the loop must not look (reported as `short`) -/
def obsFn (os : List Obs) (i : Nat) : Obs := os.getD i default

/-- split a token list into step events (`S n x1 … xn`) and resets (`R`) -/
def parseEvents : Nat → List String → Except String (List (Ev BigF))
  | 0, _ => .error "fuel"
  | _, [] => .ok []
  | fuel+1, "R" :: rest => do
      let es ← parseEvents fuel rest
      return Ev.reset :: es
  | fuel+1, "S" :: n :: rest => do
      let B ← nat n
      let (xs, rest') ← take B rest
      let v ← nums xs
      let es ← parseEvents fuel rest'
      return Ev.step v :: es
  | _, t :: _ => .error s!"bad-event:{t}"

/-- numeric ReduceToBason trace; per event `code nodec below` (`code 2 2` for a reset) -/
def rtbNumTrace (c : Cfg) (d tol : BigF) : RtbSt BigF → List (Ev BigF) → Except String (List Nat)
  | _, [] => .ok []
  | s, e :: es => do
    match e, s.last with
    | .step loss, some l =>
      if l.length != loss.length then throw "shape: the flat model needs a constant batch size between resets"
    | _, _ => pure ()
    let s' := rtbEv c d tol s e
    let bits := match e with
      | .step loss => let o := rtbObs d tol s.last loss; [bit o.nodec, bit o.below]
      | .reset => [2, 2]
    return stCode s'.st :: bits ++ (← rtbNumTrace c d tol s' es)

/-- readings `(last loss rejectCount)`; the token `none` is a `step()` call while `optimizer.loss is None`
(the documented assert fires): output `code 3 3` with the unchanged state -/
def sopNumTraceC (c : Cfg) (d : BigF) : Nat → St → List String → Except String (List Nat)
  | 0, _, _ => .error "fuel"
  | _, _, [] => .ok []
  | f+1, s, "none" :: rest => do
      let s' := sopStepOrKeep c d s none
      return stCode s' :: 3 :: 3 :: (← sopNumTraceC c d f s' rest)
  | f+1, s, a :: b :: r :: rest => do
      let la ← num a
      let lo ← num b
      let rc ← int r
      let o : OptObs BigF := ⟨la, lo, if rc < 0 then none else some rc.toNat⟩
      let ob := sopObs d o
      let s' := sopStepOrKeep c d s (some o)
      return stCode s' :: bit ob.nodec :: bit ob.rej :: (← sopNumTraceC c d f s' rest)
  | _, _, _ => .error "arity"

def stepsGo (f : St → Obs → St) : List Nat → List Nat
  | s :: o :: r => stCode (f (stOfCode s) (obsOfCode o)) :: stepsGo f r
  | _ => []

def traceGo (kind : String) (f : St → Obs → St) (s : St) : List String → Except String (List Nat)
  | [] => .ok []
  | "R" :: r => do
      if kind != "rtb" then throw "no-reset"
      let s' := rtbReset s
      return stCode s' :: (← traceGo kind f s' r)
  | t :: r => do
      let s' := f s (obsOfCode (← nat t))
      return stCode s' :: (← traceGo kind f s' r)

/-! ### extended model (IEEE specials, shapes) -/

def xf (t : String) : Except String (XF BigF) :=
  match t with
  | "nan" => .ok XF.nan
  | "inf" => .ok XF.pinf
  | "-inf" => .ok XF.ninf
  | "-0" => .ok XF.nzero
  | _ => do return XF.num (← num t)

/-- `S rank d1 … dr n v1 … vn` step events and `R` resets -/
def parseEventsX : Nat → List String → Except String (List (EvX BigF))
  | 0, _ => .error "fuel"
  | _, [] => .ok []
  | fuel+1, "R" :: rest => do
      let es ← parseEventsX fuel rest
      return EvX.reset :: es
  | fuel+1, "S" :: r :: rest => do
      let rank ← nat r
      let (ds, rest1) ← take rank rest
      let shape ← nats ds
      match rest1 with
      | n :: rest2 =>
        let cnt ← nat n
        let (xs, rest3) ← take cnt rest2
        let v ← xs.mapM xf
        let es ← parseEventsX fuel rest3
        return EvX.step ⟨shape, v⟩ :: es
      | [] => .error "arity"
  | _, t :: _ => .error s!"bad-event:{t}"

/-- per event `code nodec below`; `2 2` for a reset; `9 9 9` and stop when the step raises -/
def rtbTraceCodesX (c : Cfg) (d tol : XF BigF) : RtbStX BigF → List (EvX BigF) → List Nat
  | _, [] => []
  | s, .reset :: es => let s' := rtbResetX s; stCode s'.st :: 2 :: 2 :: rtbTraceCodesX c d tol s' es
  | s, .step loss :: es =>
    match rtbObsX d tol s.last loss, rtbStepX c d tol s loss with
    | some o, some s' => stCode s'.st :: bit o.nodec :: bit o.below :: rtbTraceCodesX c d tol s' es
    | _, _ => [9, 9, 9]

def sopTraceCodesX (c : Cfg) (d : XF BigF) : St → List String → Except String (List Nat)
  | _, [] => .ok []
  | s, a :: b :: r :: rest => do
      let la ← xf a
      let lo ← xf b
      let rc ← int r
      let rcO := if rc < 0 then none else some rc.toNat
      let o := sopObsX d la lo rcO
      let s' := sopStepX c d s la lo rcO
      return stCode s' :: bit o.nodec :: bit o.rej :: (← sopTraceCodesX c d s' rest)
  | _, _ => .error "arity"

def optNum (t : String) : Except String (Option BigF) := if t == "-" then .ok none else do return some (← num t)
def optInt (t : String) : Except String (Option Int) := if t == "-" then .ok none else do return some (← int t)

end C20
open C20

def opsC20 : List (String × Handler) := [
  -- c20.steps kind maxSteps patience (stateCode obsCode)*   -> next state codes (single transitions)
  ("c20.steps", fun ts => do
      match ts with
      | kind :: ms :: pt :: rest =>
        let c : Cfg := ⟨← int ms, ← int pt⟩
        let f ← stepOf kind c
        let xs ← nats rest
        return fmtNats (stepsGo f xs)
      | _ => throw "arity"),
  -- c20.trie kind maxSteps patience L n first_1..first_n later_1..later_n
  --   -> state codes of all nodes of the trie of words of length <= L, DFS pre-order; the i-th letter has
  --      observation code first_i on the first step and later_i on later steps
  ("c20.trie", fun ts => do
      match ts with
      | kind :: ms :: pt :: l :: n :: rest =>
        let c : Cfg := ⟨← int ms, ← int pt⟩
        let f ← stepOf kind c
        let L ← nat l
        let n ← nat n
        let codes ← nats rest
        if codes.length != 2 * n then throw "arity"
        let first := (codes.take n).map obsOfCode
        let later := (codes.drop n).map obsOfCode
        let out := match L with
          | 0 => []
          | L'+1 => first.flatMap fun o => let s' := f St.init o; s' :: trie f later L' s'
        return fmtNats (out.map stCode)
      | _ => throw "arity"),
  -- c20.trace kind maxSteps patience stateCode (obsCode | R)*   (R: reset)  -> state code after each event
  ("c20.trace", fun ts => do
      match ts with
      | kind :: ms :: pt :: s0 :: rest =>
        let c : Cfg := ⟨← int ms, ← int pt⟩
        let f ← stepOf kind c
        let s0 := stOfCode (← nat s0)
        return fmtNats (← traceGo kind f s0 rest)
      | _ => throw "arity"),
  -- c20.loop <opt|icp|mpc> maxSteps patience k stateCode obsCode*
  --   opt: StopOnPlateau.optimize from the given state;   icp: ICP.forward;   mpc: MPC.forward after k MPC.__init__
  --   -> iterations calls finalStateCode     (err short: the loop wanted more observations than supplied)
  ("c20.loop", fun ts => do
      match ts with
      | kind :: ms :: pt :: kk :: s0 :: rest =>
        let c : Cfg := ⟨← int ms, ← int pt⟩
        let k ← nat kk
        let s0 := stOfCode (← nat s0)
        let os := (← nats rest).map obsOfCode
        let (it, calls, s) ← match kind with
          | "opt" => let r := optimize c s0 (obsFn os); pure (r.1, r.1, r.2)
          | "icp" => pure (icpForward c s0 (obsFn os))
          | "mpc" => pure (mpcForward (mpcInitN k c) s0 (obsFn os))
          | _ => throw "bad-kind"
        if it > os.length then throw "short"
        return fmtNats [it, calls, stCode s]
      | _ => throw "arity"),
  -- c20.rtb.num maxSteps patience d tol (S n x1..xn | R)*  -> per event: stateCode nodec below
  ("c20.rtb.num", fun ts => do
      match ts with
      | ms :: pt :: d :: tol :: rest =>
        let c : Cfg := ⟨← int ms, ← int pt⟩
        let d ← num d
        let tol ← num tol
        let evs ← parseEvents (rest.length + 1) rest
        return fmtNats (← rtbNumTrace c d tol RtbSt.init evs)
      | _ => throw "arity"),
  -- c20.rtbx maxSteps patience d tol (S rank d1..dr n v1..vn | R)*   values: m:e | nan | inf | -inf | -0
  ("c20.rtbx", fun ts => do
      match ts with
      | ms :: pt :: d :: tol :: rest =>
        let c : Cfg := ⟨← int ms, ← int pt⟩
        let evs ← parseEventsX (rest.length + 1) rest
        return fmtNats (rtbTraceCodesX c (← xf d) (← xf tol) RtbStX.init evs)
      | _ => throw "arity"),
  -- c20.sopx maxSteps patience d (last loss rejectCount|-1)*      values as above
  ("c20.sopx", fun ts => do
      match ts with
      | ms :: pt :: d :: rest =>
        let c : Cfg := ⟨← int ms, ← int pt⟩
        return fmtNats (← sopTraceCodesX c (← xf d) St.init rest)
      | _ => throw "arity"),
  -- c20.defaults rtb steps patience|- decreasing|- tol|-   /  icp|mpc (- | steps patience|- decreasing|- tol|-)
  --   -> maxSteps patience decreasing tol      (what the constructors install; MPC after its `max_steps -= 1`)
  ("c20.defaults", fun ts => do
      let mk (rest : List String) : Except String (Option (RtbArgs BigF)) :=
        match rest with
        | ["-"] => .ok none
        | [st, pt, d, tol] => do return some ⟨← int st, ← optInt pt, ← optNum d, ← optNum tol⟩
        | _ => .error "arity"
      match ts with
      | ["sop", st, pt, d] =>
        let r := sopOfArgs (← int st) (← optInt pt) (← optNum d)
        return s!"{r.1.maxSteps} {r.1.patience} {BigF.toWire r.2} 0:0"
      | kind :: rest =>
        let a ← mk rest
        let r ← match kind, a with
          | "rtb", some a => pure (rtbOfArgs a)
          | "icp", a => pure (icpStepper a)
          | "mpc", a => pure (mpcStepper a)
          | _, _ => throw "bad-kind"
        return s!"{r.1.maxSteps} {r.1.patience} {BigF.toWire r.2.1} {BigF.toWire r.2.2}"
      | _ => throw "arity"),
  -- c20.fwd maxSteps patience k d tol stateCode (n x1..xn)*
  --   ICP.forward (k = 0) / MPC.forward after k MPC.__init__ on the NUMERIC losses the loop body produced
  --   -> iterations calls finalStateCode      (err short: the model's loop wants more losses than supplied)
  ("c20.fwd", fun ts => do
      match ts with
      | ms :: pt :: kk :: d :: tol :: s0 :: rest =>
        let c : Cfg := mpcInitN (← nat kk) ⟨← int ms, ← int pt⟩
        let d ← num d
        let tol ← num tol
        let s0 := stOfCode (← nat s0)
        let rec batches : Nat → List String → Except String (List (List BigF))
          | 0, _ => .error "fuel"
          | _, [] => .ok []
          | f+1, n :: r => do
              let (xs, r') ← take (← nat n) r
              return (← nums xs) :: (← batches f r')
        let ls ← batches (rest.length + 1) rest
        let r := forwardNum c d tol ⟨s0, none⟩ (fun i => ls.getD i [])
        if r.1 > ls.length then throw "short"
        return fmtNats [r.1, r.2.1, stCode r.2.2.st]
      | _ => throw "arity"),
  -- c20.sched (N i | S i maxSteps patience obsCode | C dst src | L dst src)*
  --   schedulers in a heap with their continual() wrappers; after every op: continual() of objects 0..3 (2 = not created)
  ("c20.sched", fun ts => do
      let rec go : Nat → Heap → List Nat → List String → Except String (List Nat)
        | 0, _, _, _ => .error "fuel"
        | _, _, _, [] => .ok []
        | f+1, h, live, toks => do
          let (op, rest) ← match toks with
            | "N" :: i :: r => pure (HeapOp.new (← nat i), r)
            | "S" :: i :: ms :: pt :: o :: r => pure (HeapOp.step (← nat i) ⟨← int ms, ← int pt⟩ (obsOfCode (← nat o)), r)
            | "C" :: a :: b :: r => pure (HeapOp.copy (← nat a) (← nat b), r)
            | "L" :: a :: b :: r => pure (HeapOp.load (← nat a) (← nat b), r)
            | _ => throw "bad-op"
          let h' := h.apply op
          let live' := match op with | .new i => i :: live | .copy d _ => d :: live | _ => live
          let out := (List.range 4).map fun i => if live'.contains i then bit (h'.continual i) else 2
          return out ++ (← go f h' live' rest)
      return fmtNats (← go (ts.length + 1) ⟨fun _ => St.init, fun i => i⟩ [] ts)),
  -- c20.sop.num maxSteps patience d (last loss rejectCount|-1)*  -> per step: stateCode nodec rej
  ("c20.sop.num", fun ts => do
      match ts with
      | ms :: pt :: d :: rest =>
        let c : Cfg := ⟨← int ms, ← int pt⟩
        let d ← num d
        return fmtNats (← sopNumTraceC c d (rest.length + 1) St.init rest)
      | _ => throw "arity")
]

end PP.Driver
