import Proofs.Lemmas.Stop
import Proofs.Lemmas.StopX
/-!
Auxiliary statements for C20 that are *not* clause-carrying property theorems: definitional read-backs of the
model (the tie to the code is the named oracle / stream of `harness/c20.py`), list / fuel bookkeeping, historical
witnesses.  Kept out of `Proofs/Props/C20.lean` on the auditor's advice.
-/
namespace PP.Stop

/-! ### reset: definitional in the model — the clause rests on the harness' reset-state oracle
(`reset-state:` / `reset-behaviour:` groups: all four fields compared with a fresh object on the real code) -/

theorem rtb_reset_initial (s : St) (l : Option (List ℝ)) :
    rtbReset s = St.init ∧ rtbResetNum (⟨s, l⟩ : RtbSt ℝ) = RtbSt.init := ⟨rfl, rfl⟩

theorem rtbNum_reset_eq_fresh (c : Cfg) (d tol : ℝ) (s : RtbSt ℝ) (loss : Nat → List ℝ) (n : Nat) :
    rtbRunNum c d tol (rtbResetNum s) loss n = rtbRunNum c d tol RtbSt.init loss n := rfl

/-- Any history, then `reset`, then steps = the fresh run on those steps (`rfl` after `foldl_append`: the model's
reset returns the constructor state by definition).  NOTE on batch sizes: the flat model pairs `last` and `loss`
with `List.zip`; the statement is about the model and is faithful to the code only when consecutive losses between
two resets have the same number of elements (the shape-aware model: `rtbRunX_spec`). -/
theorem rtb_history_since_last_reset (c : Cfg) (d tol : ℝ) (s : RtbSt ℝ) (pre : List (Ev ℝ))
    (post : List (List ℝ)) :
    (pre ++ Ev.reset :: post.map Ev.step).foldl (rtbEv c d tol) s
      = (post.map Ev.step).foldl (rtbEv c d tol) RtbSt.init := by
  rw [List.foldl_append, List.foldl_cons]
  rfl

/-- HISTORICAL NOTE (defect D31, repaired): the original `reset` kept `patience_count`; for it the clause
was false — a stepper that stopped on patience and was reset stopped at once on a first non-decreasing
step while a fresh one did not. Kept as the record of why the clause needed the repair. -/
theorem rtb_reset_old_not_initial :
    ∃ (c : Cfg) (obs : Nat → Obs) (k n : Nat),
      (run (rtbStep c) St.init obs k).cont = false ∧
      rtbResetOld (run (rtbStep c) St.init obs k) ≠ St.init ∧
      (run (rtbStep c) (rtbResetOld (run (rtbStep c) St.init obs k)) obs n).cont = false ∧
      (run (rtbStep c) St.init obs n).cont = true :=
  ⟨⟨10, 2⟩, fun _ => ⟨true, false, false⟩, 2, 1, by decide⟩


/-! ### batched = conjunction of single elements (definitional for `List.all`; the tie is the `itemwise` oracle) -/

/-- the third conjunct needs `prev` and `loss` of the same length: `List.zip` truncates, torch broadcasts or raises -/
theorem rtb_batch_is_conjunction (d tol : ℝ) (prev loss : List ℝ) (_hlen : prev.length = loss.length) :
    (belowTol tol loss = true ↔ ∀ x ∈ loss, belowTol tol [x] = true) ∧
    (relNoDec d none loss = true ↔ ∀ x ∈ loss, relNoDec d none [x] = true) ∧
    (relNoDec d (some prev) loss = true ↔
      ∀ p ∈ List.zip prev loss, relNoDec d (some [p.1]) [p.2] = true) := by
  refine ⟨?_, ?_, ?_⟩
  · simp [belowTol]
  · simp [relNoDec]
  · simp [relNoDec]

/-- **Independence from what a controller does not read**: StopOnPlateau ignores `below`, ReduceToBason ignores
`rej` — two observation streams that differ only there give identical runs from any state. -/
theorem step_ignores_foreign_field (c : Cfg) (s : St) (obs obs' : Nat → Obs) (n : Nat) :
    ((∀ i, (obs i).nodec = (obs' i).nodec ∧ (obs i).rej = (obs' i).rej) →
      run (sopStep c) s obs n = run (sopStep c) s obs' n) ∧
    ((∀ i, (obs i).nodec = (obs' i).nodec ∧ (obs i).below = (obs' i).below) →
      run (rtbStep c) s obs n = run (rtbStep c) s obs' n) := by
  constructor
  · intro h
    induction n with
    | zero => rfl
    | succ n ih => simp only [run, ih, sopStep, (h n).1, (h n).2]
  · intro h
    induction n with
    | zero => rfl
    | succ n ih => simp only [run, ih, rtbStep, (h n).1, (h n).2]

/-- a loop entered with the flag false does nothing, whatever the fuel -/
theorem loop_stopped (stepf : St → Obs → St) (obs : Nat → Obs) (fuel i : Nat) (s : St) (hs : s.cont = false) :
    loop stepf obs fuel i s = (i, s) := by
  cases fuel with
  | zero => rfl
  | succ f => simp [loop, hs]

/-- Fuel-splitting lemma for `loop`: `a + b` units of fuel = `a` units, then `b` more from where that stopped.  The
model has no notion of a body that raises; the reading "the body raised in iteration `a` and `optimize` was called
again" is an interpretation — what ties it to the code is the harness' `atomic:` oracle (injected `SolverFailed`
inside `optimizer.step` / the LQR / kNN). -/
theorem loop_resume_after_interrupt (stepf : St → Obs → St) (obs : Nat → Obs) (a b i : Nat) (s : St) :
    loop stepf obs (a + b) i s
      = loop stepf obs b (loop stepf obs a i s).1 (loop stepf obs a i s).2 := by
  induction a generalizing i s with
  | zero => simp [loop]
  | succ a ih =>
    rw [Nat.succ_add]
    cases hc : s.cont with
    | true => simp only [loop, hc, if_true]; exact ih (i+1) (stepf s (obs i))
    | false =>
      simp only [loop, hc, Bool.false_eq_true, if_false]
      exact (loop_stopped stepf obs b i s hc).symm

/-- `List.foldl_append`.  Independence of copies is trivial in a model of values; defect D39 lived in the binding of
the `Continual` wrapper, which is modelled separately (`Heap`, theorem `continual_wrapper_reads_own_flag`). -/
theorem copy_follows_own_history (stepf : St → Obs → St) (s : St) (pre post : List Obs) :
    (pre ++ post).foldl stepf s = post.foldl stepf (pre.foldl stepf s) := List.foldl_append

/-! ### the element test in the property's own words, for arbitrary real losses -/

/-- "element `x` (new) failed to decrease relative to `l` (previous) by the fraction `d` of its new value", with the
IEEE conventions of the code spelled out: for `x > 0` the decrease `l - x` is below `d·x`; for `x < 0` the inequality
flips (division by a negative number); for `x = 0` the quotient is `±inf` by the sign of `l` (`0/0` is NaN: no). -/
def failsElem (d l x : ℝ) : Prop := (0 < x ∧ l - x < d * x) ∨ (x < 0 ∧ d * x < l - x) ∨ (x = 0 ∧ l < 0)

/-- step `j` of a history of batches failed to decrease: on the first step (`last = +inf`) only an all-negative batch
does; later every pair (previous, new) must satisfy `failsElem` -/
def failsAtR (d : ℝ) (loss : Nat → List ℝ) : Nat → Prop
  | 0 => ∀ x ∈ loss 0, x < 0
  | j+1 => ∀ p ∈ List.zip (loss j) (loss (j+1)), failsElem d p.1 p.2

theorem relNoDec1_some_iff (d l x : ℝ) : relNoDec1 d (some l) x = true ↔ failsElem d l x := by
  unfold failsElem
  rcases lt_trichotomy x 0 with hx | hx | hx
  · rw [relNoDec1_neg d l x hx]
    constructor
    · intro h; exact Or.inr (Or.inl ⟨hx, h⟩)
    · rintro (⟨h, _⟩ | ⟨_, h⟩ | ⟨h, _⟩)
      · linarith
      · exact h
      · linarith
  · subst hx
    rw [relNoDec1_zero]
    constructor
    · intro h; exact Or.inr (Or.inr ⟨rfl, h⟩)
    · rintro (⟨h, _⟩ | ⟨h, _⟩ | ⟨_, h⟩)
      · exact absurd h (lt_irrefl 0)
      · exact absurd h (lt_irrefl 0)
      · exact h
  · rw [relNoDec1_pos d l x hx]
    constructor
    · intro h; exact Or.inl ⟨hx, h⟩
    · rintro (⟨_, h⟩ | ⟨h, _⟩ | ⟨h, _⟩)
      · exact h
      · linarith
      · linarith

theorem numObs_nodec_iff (d tol : ℝ) (loss : Nat → List ℝ) (j : Nat) :
    (numObs d tol none loss j).nodec = true ↔ failsAtR d loss j := by
  cases j with
  | zero =>
    simp only [numObs, rtbObs, relNoDec, failsAtR, List.all_eq_true]
    constructor
    · intro h x hx; exact (relNoDec1_none d x).mp (h x hx)
    · intro h x hx; exact (relNoDec1_none d x).mpr (h x hx)
  | succ j =>
    simp only [numObs, rtbObs, relNoDec, failsAtR, List.all_eq_true]
    constructor
    · intro h p hp; exact (relNoDec1_some_iff d p.1 p.2).mp (h p hp)
    · intro h p hp; exact (relNoDec1_some_iff d p.1 p.2).mpr (h p hp)

/-! ### argument defaulting: read-back of the model's constants — tied to the code by the `defaults` stream -/

theorem defaults_constants (steps p : Int) (d tol : ℝ) :
    rtbOfArgs ⟨steps, some p, some d, some tol⟩ = (⟨steps, p⟩, d, tol) ∧
    rtbOfArgs (⟨steps, none, none, none⟩ : RtbArgs ℝ) = (⟨steps, 5⟩, 1 / 1000, 1 / 100000) ∧
    sopOfArgs steps (some p) (some d) = (⟨steps, p⟩, d) ∧
    sopOfArgs steps none (none : Option ℝ) = (⟨steps, 5⟩, 1 / 1000) ∧
    (icpStepper (none : Option (RtbArgs ℝ))).1 = ⟨200, 5⟩ ∧ (mpcStepper (none : Option (RtbArgs ℝ))).1 = ⟨9, 5⟩ := by
  refine ⟨rfl, by simp [rtbOfArgs], rfl, by simp [sopOfArgs], rfl, by simp [mpcStepper, rtbOfArgs, mpcInit]⟩

/-- HISTORICAL (D39): with the pre-fix `load_state_dict` / `copy.copy` (`Heap.applyOld`) a scheduler's `continual()`
reported another scheduler's flag. -/
theorem continual_wrapper_old_reads_foreign_flag :
    ∃ (ops : List HeapOp) (i : Nat), let h := ops.foldl Heap.applyOld ⟨fun _ => St.init, fun j => j⟩
      h.continual i ≠ h.iscontinual i :=
  ⟨[.new 0, .new 1, .load 1 0, .step 1 ⟨9, 9⟩ ⟨false, false, true⟩], 1, by decide⟩

/-! ### closed forms of the trailing run for the two extreme observation streams -/

theorem trail_all_nodec (obs : Nat → Obs) (h : ∀ i, (obs i).nodec = true) (n : Nat) : trail obs n = n := by
  induction n with
  | zero => rfl
  | succ n ih => simp [trail, h n, ih]

/-- decrease during the first `k` steps, no decrease from step `k` on: the trailing run after `n` steps is `n - k` -/
theorem trail_plateau_after (obs : Nat → Obs) (k : Nat) (h : ∀ i, (obs i).nodec = decide (k ≤ i)) (n : Nat) :
    trail obs n = n - k := by
  induction n with
  | zero => simp [trail]
  | succ n ih =>
    unfold trail
    by_cases hk : k ≤ n
    · simp [h n, hk, ih]; omega
    · simp [h n, hk]; omega

theorem trail_zero_of_last (obs : Nat → Obs) (i : Nat) (h : (obs i).nodec = false) : trail obs (i+1) = 0 := by
  simp [trail, h]

end PP.Stop
