"""Generators and float64 reference arithmetic for C17 (svdtf / svdstf / ICP / EPnP).

Everything here is deterministic given the case dict (each item carries its own `seed`); no torch RNG is used.
Clouds are built in plain Python floats (float64) and only then cast to the requested dtype, so the model is sent
exactly the values the implementation sees.
"""
from __future__ import annotations

import math
import random

import torch

CLOUD_KINDS = ["generic", "aniso", "planar", "collinear", "nearplanar", "nearcollinear", "duplicated", "two", "lattice", "cube", "octa", "grid", "triangle"]
SYMMETRIC = ("cube", "octa", "grid", "triangle")     # exactly representable, highly symmetric: equal singular values, equidistant points (exact ties)


# ----------------------------------------------------------------------------- small linear algebra (python floats)

def q_normalize(q):
    n = math.sqrt(sum(x * x for x in q)) or 1.0
    return [x / n for x in q]


def q_to_mat(q):
    """rotation matrix of a (unit) quaternion (x, y, z, w), rows"""
    x, y, z, w = q
    return [[1 - 2 * (y * y + z * z), 2 * (x * y - w * z), 2 * (x * z + w * y)],
            [2 * (x * y + w * z), 1 - 2 * (x * x + z * z), 2 * (y * z - w * x)],
            [2 * (x * z - w * y), 2 * (y * z + w * x), 1 - 2 * (x * x + y * y)]]


def mat_vec(R, p):
    return [R[0][0] * p[0] + R[0][1] * p[1] + R[0][2] * p[2],
            R[1][0] * p[0] + R[1][1] * p[1] + R[1][2] * p[2],
            R[2][0] * p[0] + R[2][1] * p[1] + R[2][2] * p[2]]


def rand_quat(r: random.Random, kind: str):
    """rotations over all of SO(3): uniform, small, exactly 180 deg about an axis / a random axis, near 180, identity"""
    if kind == "identity":
        return [0.0, 0.0, 0.0, 1.0]
    if kind == "quarter":
        return mat_to_q(QUARTER[r.randrange(len(QUARTER))])
    if kind == "uniform":
        return q_normalize([r.gauss(0, 1) for _ in range(4)])
    if kind == "r22_atol":
        # R22 = cos(angle) for a rotation about an axis in the xy-plane: within 1e-7 of mat2SO3's mask threshold atol = 1e-5,
        # on either side, or exactly at it
        ang = math.acos(1e-5 + r.choice([0.0, 1e-7, -1e-7, 1e-9, -1e-9, 2e-5, -2e-5]))
        ph = r.uniform(0, 2 * math.pi)
        s_, c_ = math.sin(ang / 2), math.cos(ang / 2)
        return [math.cos(ph) * s_, math.sin(ph) * s_, 0.0, c_]
    if kind == "diag_tie":
        # R00 == R11 (rotation about z, optionally followed by a half turn about x so that R22 < atol): the strict / non-strict
        # comparisons between the diagonal entries decide the branch
        ang = r.choice([0.3, 1.0, math.pi / 2, 2.5, math.pi - 1e-6])
        qz = [0.0, 0.0, math.sin(ang / 2), math.cos(ang / 2)]
        if r.random() < 0.5:
            return qz
        # qx(pi) * qz
        x1, y1, z1, w1 = 1.0, 0.0, 0.0, 0.0
        x2, y2, z2, w2 = qz
        return [w1 * x2 + x1 * w2 + y1 * z2 - z1 * y2, w1 * y2 - x1 * z2 + y1 * w2 + z1 * x2, w1 * z2 + x1 * y2 - y1 * x2 + z1 * w2,
                w1 * w2 - x1 * x2 - y1 * y2 - z1 * z2]
    d = q_normalize([r.gauss(0, 1) for _ in range(3)] + [0.0])[:3]
    if kind == "axis180":
        a = [0.0, 0.0, 0.0]
        a[r.randrange(3)] = 1.0
        return a + [0.0]
    if kind == "pi":
        return d + [0.0]
    ang = {"small": 10 ** r.uniform(-9, -2), "nearpi": math.pi - 10 ** r.uniform(-9, -3), "mid": r.uniform(0.1, 3.0)}[kind]
    s, c = math.sin(ang / 2), math.cos(ang / 2)
    q = [d[0] * s, d[1] * s, d[2] * s, c]
    if r.random() < 0.5:
        q = [-v for v in q]
    return q


QUAT_KINDS = ["uniform", "uniform", "uniform", "mid", "small", "pi", "axis180", "nearpi", "identity", "r22_atol", "diag_tie", "quarter"]


def gen_cloud(r: random.Random, N: int, kind: str, extent: float, rotate: bool, offset: float):
    """N points; `kind` fixes the rank structure; `rotate` applies a random frame (then planar/collinear clouds are
    degenerate only up to rounding); `offset` is the norm of the centroid shift"""
    thin = 10 ** r.uniform(-12, -2)
    sc = {"generic": (1, 1, 1), "aniso": (1, r.choice([0.5, 0.1]), r.choice([0.3, 0.03])), "planar": (1, r.choice([1, 0.3]), 0),
          "collinear": (1, 0, 0), "nearplanar": (1, 1, thin), "nearcollinear": (1, thin, thin * r.choice([1, 0.1])),
          "duplicated": (1, 1, 1), "two": (1, 1, 1), "lattice": (1, 1, 1), "cube": (1, 1, 1), "octa": (1, 1, 1), "grid": (1, 1, 0), "triangle": (1, 1, 0)}[kind]
    if kind in SYMMETRIC:
        verts = {"cube": [[float(a), float(b), float(c)] for a in (-1, 1) for b in (-1, 1) for c in (-1, 1)],
                 "octa": [[1.0, 0, 0], [-1.0, 0, 0], [0, 1.0, 0], [0, -1.0, 0], [0, 0, 1.0], [0, 0, -1.0]],
                 "grid": [[float(a), float(b), 0.0] for a in (-1, 0, 1) for b in (-1, 0, 1)],            # planar, axis-aligned, symmetric
                 "triangle": [[0.0, 0.0, 0.0], [1.0, 0.0, 0.0], [0.0, 1.0, 0.0]]}[kind]                 # the docstring example
        pts = [[v * extent for v in verts[i % len(verts)]] for i in range(N)]
        if offset:      # an exactly representable shift keeps every coincidence exact
            pts = [[p[0] + float(int(offset)), p[1], p[2] - float(int(offset))] for p in pts]
        return pts
    if kind == "lattice":
        pts = [[float(r.randint(-4, 4)) * extent for _ in range(3)] for _ in range(N)]
    elif kind == "duplicated":
        m = max(2, N // 3)
        base = [[r.gauss(0, 1) * extent for _ in range(3)] for _ in range(m)]
        pts = [list(base[i % m]) if i < m else list(r.choice(base)) for i in range(N)]
    elif kind == "two":
        base = [[r.gauss(0, 1) * extent for _ in range(3)] for _ in range(2)]
        pts = [list(base[i % 2]) if i < 2 else list(r.choice(base)) for i in range(N)]
    else:
        pts = [[r.gauss(0, 1) * extent * sc[j] for j in range(3)] for _ in range(N)]
    if rotate:
        F = q_to_mat(rand_quat(r, "uniform"))
        pts = [mat_vec(F, p) for p in pts]
    if offset:
        d = q_normalize([r.gauss(0, 1) for _ in range(3)] + [0.0])[:3]
        pts = [[p[j] + offset * d[j] for j in range(3)] for p in pts]
    return pts


def _cube_rotations():
    """the 24 rotations of the cube: signed permutation matrices with determinant +1 (quarter / half turns about the axes, half turns
    about the face diagonals (a, ±a, 0), 120° turns about the body diagonals = cyclic permutations): every entry is exactly 0 / ±1,
    diagonal entries tie, traces are exactly -1, 0, 1, 3"""
    import itertools
    out = []
    for perm in itertools.permutations(range(3)):
        for sg in itertools.product((1.0, -1.0), repeat=3):
            R = [[0.0] * 3 for _ in range(3)]
            for i_, j_ in enumerate(perm):
                R[i_][j_] = sg[i_]
            det = (R[0][0] * (R[1][1] * R[2][2] - R[1][2] * R[2][1]) - R[0][1] * (R[1][0] * R[2][2] - R[1][2] * R[2][0])
                   + R[0][2] * (R[1][0] * R[2][1] - R[1][1] * R[2][0]))
            if det > 0:
                out.append(R)
    return out


CUBE24 = _cube_rotations()
QUARTER = CUBE24        # (kept name: the rotation kind "quarter" now draws from all 24)


def mat_to_q(R):
    """quaternion (x, y, z, w) of a rotation matrix (largest-component branch), python floats"""
    t = R[0][0] + R[1][1] + R[2][2]
    if t > 0:
        w = math.sqrt(1 + t) / 2
        return [(R[2][1] - R[1][2]) / (4 * w), (R[0][2] - R[2][0]) / (4 * w), (R[1][0] - R[0][1]) / (4 * w), w]
    i = max(range(3), key=lambda k_: R[k_][k_])
    j, k = (i + 1) % 3, (i + 2) % 3
    x = math.sqrt(max(0.0, 1 + R[i][i] - R[j][j] - R[k][k])) / 2
    q = [0.0, 0.0, 0.0, (R[k][j] - R[j][k]) / (4 * x)]
    q[i], q[j], q[k] = x, (R[j][i] + R[i][j]) / (4 * x), (R[k][i] + R[i][k]) / (4 * x)
    return q


def make_item(spec: dict):
    """(source, target, truth) of one alignment problem from its spec (all python floats).
    spec: seed N cloud extent rotate offset qkind scale tmag noise nkind"""
    r = random.Random(spec["seed"])
    N = spec["N"]
    src = gen_cloud(r, N, spec["cloud"], spec["extent"], spec["rotate"], spec["offset"] * spec["extent"])
    if spec["qkind"] == "quarter":      # exact signed permutation: images of lattice / cube points are exact, all ties exact
        R = CUBE24[spec["rot_index"] % 24] if "rot_index" in spec else CUBE24[r.randrange(24)]
        q = mat_to_q(R)
    else:
        q = rand_quat(r, spec["qkind"])
        R = q_to_mat(q)
    s = spec["scale"]
    td = q_normalize([r.gauss(0, 1) for _ in range(3)] + [0.0])[:3]
    t = [spec["tmag"] * spec["extent"] * v for v in td]
    if spec["qkind"] == "quarter":
        t = [float(round(v)) for v in t]
    base = src
    if spec["nkind"] == "mirror":   # improper: reflect through a random plane first
        n = q_normalize([r.gauss(0, 1) for _ in range(3)] + [0.0])[:3]
        c = [sum(p[j] for p in src) / N for j in range(3)]
        base = []
        for p in src:
            d = sum((p[j] - c[j]) * n[j] for j in range(3))
            base.append([p[j] - 2 * d * n[j] for j in range(3)])
    tgt = []
    sig = spec["noise"] * spec["extent"] * s
    nd = q_normalize([r.gauss(0, 1) for _ in range(3)] + [0.0])[:3]
    for p in base:
        y = mat_vec(R, p)
        y = [s * y[j] + t[j] for j in range(3)]
        if sig:
            if spec["nkind"] == "normal":   # noise along one fixed direction only
                g = r.gauss(0, 1) * sig
                y = [y[j] + g * nd[j] for j in range(3)]
            else:
                y = [y[j] + r.gauss(0, 1) * sig for j in range(3)]
        tgt.append(y)
    return src, tgt, {"q": q, "t": t, "s": s}


def to_dtype(rows, dtype: str):
    """tensor in `dtype` and the float64 tensor of the values it holds"""
    t = torch.tensor(rows, dtype=torch.float64).to(getattr(torch, dtype))
    return t, t.to(torch.float64).clone()      # never an alias of `t`: the harness updates `t` in place (stale-read probes)


# ----------------------------------------------------------------------------- float64 reference (torch)

def quat_mat_t(q: torch.Tensor) -> torch.Tensor:
    x, y, z, w = q.unbind(-1)
    return torch.stack([torch.stack([1 - 2 * (y * y + z * z), 2 * (x * y - w * z), 2 * (x * z + w * y)], -1),
                        torch.stack([2 * (x * y + w * z), 1 - 2 * (x * x + z * z), 2 * (y * z - w * x)], -1),
                        torch.stack([2 * (x * z - w * y), 2 * (y * z + w * x), 1 - 2 * (x * x + y * y)], -1)], -2)


def apply_vec(X: torch.Tensor, pts: torch.Tensor) -> torch.Tensor:
    """SE3 (7) or Sim3 (8) storage vector applied to (N,3) points, float64, rotation from the normalised quaternion"""
    X = X.double()
    q = X[3:7] / X[3:7].norm()
    R = quat_mat_t(q)
    s = X[7] if X.numel() == 8 else 1.0
    return s * (pts.double() @ R.T) + X[:3]


def cost_vec(X: torch.Tensor, src: torch.Tensor, tgt: torch.Tensor) -> float:
    return float(((apply_vec(X, src) - tgt.double()) ** 2).sum())


def stats(src: torch.Tensor, tgt: torch.Tensor) -> dict:
    src, tgt = src.double(), tgt.double()
    N = src.shape[0]
    cs, ct = src.mean(0), tgt.mean(0)
    A = float(((src - cs) ** 2).sum())
    B = float(((tgt - ct) ** 2).sum())
    return {"N": N, "cs": cs, "ct": ct, "A": A, "B": B, "ss": math.sqrt(A / N), "st": math.sqrt(B / N),
            "Ds": float(src.abs().max()), "Dt": float(tgt.abs().max())}


def mscd(cur: torch.Tensor, tgt: torch.Tensor) -> float:
    """mean squared closest-point distance, brute force, float64"""
    d = ((cur.double().unsqueeze(-2) - tgt.double().unsqueeze(-3)) ** 2).sum(-1)
    return float(d.min(-1).values.mean())


def nn_margin(cur: torch.Tensor, tgt: torch.Tensor) -> float:
    """smallest gap between the best and the best *different* target point (squared distances), relative"""
    d = ((cur.double().unsqueeze(-2) - tgt.double().unsqueeze(-3)) ** 2).sum(-1)
    best, idx = d.min(-1)
    bp = tgt.double()[idx]                                   # (n,3)
    same = ((tgt.double().unsqueeze(0) - bp.unsqueeze(1)) ** 2).sum(-1) == 0
    d2 = d.masked_fill(same, float("inf"))
    gap = d2.min(-1).values - best
    return float(gap.min())
