import Proofs.Lemmas.Autograd
namespace PP.AD
open PP

theorem Shape_add {n m : Nat} (a b : DMat ℝ) (ha : Shape n m a) (hb : Shape n m b) : Shape n m (DMat.add a b) := by
  obtain ⟨ha1, ha2⟩ := ha; obtain ⟨hb1, hb2⟩ := hb
  refine ⟨by simp [DMat.add, ha1, hb1], ?_⟩
  intro r hr
  simp only [DMat.add, List.mem_iff_getElem, List.length_zipWith] at hr
  obtain ⟨i, hi, rfl⟩ := hr
  simp only [List.getElem_zipWith, DVec.add, List.length_zipWith]
  rw [ha2 _ (List.getElem_mem _), hb2 _ (List.getElem_mem _)]; simp

theorem Shape_sub {n m : Nat} (a b : DMat ℝ) (ha : Shape n m a) (hb : Shape n m b) : Shape n m (DMat.sub a b) := by
  obtain ⟨ha1, ha2⟩ := ha; obtain ⟨hb1, hb2⟩ := hb
  refine ⟨by simp [DMat.sub, ha1, hb1], ?_⟩
  intro r hr
  simp only [DMat.sub, List.mem_iff_getElem, List.length_zipWith] at hr
  obtain ⟨i, hi, rfl⟩ := hr
  simp only [List.getElem_zipWith, DVec.sub, List.length_zipWith]
  rw [ha2 _ (List.getElem_mem _), hb2 _ (List.getElem_mem _)]; simp

theorem Shape_smul {n m : Nat} (c : ℝ) (a : DMat ℝ) (ha : Shape n m a) : Shape n m (DMat.smul c a) := by
  obtain ⟨ha1, ha2⟩ := ha
  refine ⟨by simp [DMat.smul, ha1], ?_⟩
  intro r hr
  simp only [DMat.smul, List.mem_map] at hr
  obtain ⟨r', hr', rfl⟩ := hr
  simp [DVec.smul, ha2 r' hr']

theorem Shape_neg {n m : Nat} (a : DMat ℝ) (ha : Shape n m a) : Shape n m (DMat.neg a) := by
  obtain ⟨ha1, ha2⟩ := ha
  refine ⟨by simp [DMat.neg, ha1], ?_⟩
  intro r hr
  simp only [DMat.neg, List.mem_map] at hr
  obtain ⟨r', hr', rfl⟩ := hr
  simp [DVec.neg, ha2 r' hr']

theorem Shape_mul {n m l : Nat} (a b : DMat ℝ) (ha : Shape n (m+1) a) (hb : Shape (m+1) l b) : Shape n l (DMat.mul a b) := by
  obtain ⟨ha1, _⟩ := ha; obtain ⟨hb1, hb2⟩ := hb
  have hc : DMat.ncols b = l := by
    cases b with
    | nil => simp at hb1
    | cons r b => simpa [DMat.ncols] using hb2 r (by simp)
  refine ⟨by simp [DMat.mul, ha1], ?_⟩
  intro r hr
  simp only [DMat.mul, List.mem_map] at hr
  obtain ⟨r', _, rfl⟩ := hr
  simp [DMat.transpose, hc]

theorem Shape_one (n : Nat) : Shape n n (DMat.one n : DMat ℝ) := by
  refine ⟨by simp [DMat.one], ?_⟩
  intro r hr
  simp only [DMat.one, List.mem_map] at hr
  obtain ⟨i, _, rfl⟩ := hr
  simp [DVec.basis]

theorem Shape_sim3ad (x : sim3 ℝ) : Shape 7 7 (sim3ad x) := by
  simp [Shape, sim3ad, DVec.zero, Vec3.toList]

theorem Shape_sim3Jl (x : sim3 ℝ) : Shape 7 7 (sim3Jl x) := by
  have h := Shape_sim3ad x
  have h2 := Shape_mul _ _ h h
  have h4 := Shape_mul _ _ h2 h2
  unfold sim3Jl
  exact Shape_add _ _ (Shape_add _ _ (Shape_add _ _ (Shape_add _ _ (Shape_add _ _ (Shape_one 7) (Shape_smul _ _ h))
    (Shape_smul _ _ h2)) (Shape_smul _ _ (Shape_mul _ _ h h2))) (Shape_smul _ _ h4)) (Shape_smul _ _ (Shape_mul _ _ h h4))

theorem Shape_sim3JlInv (x : sim3 ℝ) : Shape 7 7 (sim3JlInv x) := by
  have h := Shape_sim3ad x
  have h2 := Shape_mul _ _ h h
  have h4 := Shape_mul _ _ h2 h2
  unfold sim3JlInv
  exact Shape_sub _ _ (Shape_add _ _ (Shape_sub _ _ (Shape_one 7) (Shape_smul _ _ h)) (Shape_smul _ _ h2)) (Shape_smul _ _ h4)

theorem Shape_JlMat (g : Grp) (eps : ℝ) (x : DVec ℝ) : Shape g.adim g.adim (JlMat g eps x) := by
  cases g
  · simp [Shape, JlMat, Grp.adim, Mat3.toRows, Vec3.toList]
  · simp [Shape, JlMat, Grp.adim, se3Jl, DMat.block, DMat.hcat, DMat.vcat, DMat.zero, DVec.zero, Mat3.toRows, Vec3.toList]
  · simp [Shape, JlMat, Grp.adim, rxso3Jl, DMat.block, DMat.hcat, DMat.vcat, DMat.zero, DVec.zero, Mat3.toRows, Vec3.toList]
  · exact Shape_sim3Jl _

theorem Shape_JlInvMat (g : Grp) (eps : ℝ) (x : DVec ℝ) : Shape g.adim g.adim (JlInvMat g eps x) := by
  cases g
  · simp [Shape, JlInvMat, Grp.adim, Mat3.toRows, Vec3.toList]
  · simp [Shape, JlInvMat, Grp.adim, se3JlInv, DMat.block, DMat.hcat, DMat.vcat, DMat.zero, DVec.zero, Mat3.toRows, Vec3.toList]
  · simp [Shape, JlInvMat, Grp.adim, rxso3JlInv, DMat.block, DMat.hcat, DMat.vcat, DMat.zero, DVec.zero, Mat3.toRows, Vec3.toList]
  · exact Shape_sim3JlInv _
end PP.AD
