import Pose.Scalar
/-!
# Small fixed-size algebra: `Vec3`, `Quat`, `Mat3`, and dense list matrices

Plain structures with named fields so that, at `α = ℝ`, identities reduce by `ext`/`simp` to
polynomial goals closed by `ring` / `linear_combination`.
Quaternion storage order is PyPose's: `(x, y, z, w)`, vector part first.
-/

namespace PP

structure Vec3 (α : Type) where
  x : α
  y : α
  z : α
deriving Repr, Inhabited

structure Quat (α : Type) where
  x : α
  y : α
  z : α
  w : α
deriving Repr, Inhabited

/-- rows `r0 r1 r2` -/
structure Mat3 (α : Type) where
  r0 : Vec3 α
  r1 : Vec3 α
  r2 : Vec3 α
deriving Repr, Inhabited

variable {α : Type} [Scalar α]

namespace Vec3
def zero : Vec3 α := ⟨k 0, k 0, k 0⟩
def add (a b : Vec3 α) : Vec3 α := ⟨a.x + b.x, a.y + b.y, a.z + b.z⟩
def sub (a b : Vec3 α) : Vec3 α := ⟨a.x - b.x, a.y - b.y, a.z - b.z⟩
def neg (a : Vec3 α) : Vec3 α := ⟨-a.x, -a.y, -a.z⟩
def smul (c : α) (a : Vec3 α) : Vec3 α := ⟨c * a.x, c * a.y, c * a.z⟩
def dot (a b : Vec3 α) : α := a.x * b.x + a.y * b.y + a.z * b.z
def cross (a b : Vec3 α) : Vec3 α :=
  ⟨a.y * b.z - a.z * b.y, a.z * b.x - a.x * b.z, a.x * b.y - a.y * b.x⟩
def normSq (a : Vec3 α) : α := a.x * a.x + a.y * a.y + a.z * a.z
def norm (a : Vec3 α) : α := Scalar.sqrt (normSq a)
def toList (a : Vec3 α) : List α := [a.x, a.y, a.z]
def e0 : Vec3 α := ⟨k 1, k 0, k 0⟩
def e1 : Vec3 α := ⟨k 0, k 1, k 0⟩
def e2 : Vec3 α := ⟨k 0, k 0, k 1⟩
end Vec3

namespace Quat
def vec (q : Quat α) : Vec3 α := ⟨q.x, q.y, q.z⟩
def mk' (v : Vec3 α) (w : α) : Quat α := ⟨v.x, v.y, v.z, w⟩
def one : Quat α := ⟨k 0, k 0, k 0, k 1⟩
def normSq (p : Quat α) : α := p.x * p.x + p.y * p.y + p.z * p.z + p.w * p.w
def conj (p : Quat α) : Quat α := ⟨-p.x, -p.y, -p.z, p.w⟩
def neg (p : Quat α) : Quat α := ⟨-p.x, -p.y, -p.z, -p.w⟩
/-- Hamilton product exactly as `SO3_Mul.forward`: `Zv = Xw·Yv + Xv·Yw + Xv×Yv`, `Zw = Xw·Yw − Xv·Yv`. -/
def mul (p r : Quat α) : Quat α :=
  { x := p.w * r.x + p.x * r.w + (p.y * r.z - p.z * r.y)
    y := p.w * r.y + p.y * r.w + (p.z * r.x - p.x * r.z)
    z := p.w * r.z + p.z * r.w + (p.x * r.y - p.y * r.x)
    w := p.w * r.w - (p.x * r.x + p.y * r.y + p.z * r.z) }
/-- rotate a point exactly as `SO3_Act.forward`: `uv = 2 (v×p)`, `out = p + w·uv + v×uv`. -/
def act (q : Quat α) (p : Vec3 α) : Vec3 α :=
  let c := Vec3.cross q.vec p
  let uv := Vec3.add c c
  Vec3.add (Vec3.add p (Vec3.smul q.w uv)) (Vec3.cross q.vec uv)
def toList (q : Quat α) : List α := [q.x, q.y, q.z, q.w]
end Quat

namespace Mat3
def ofRows (a b c : Vec3 α) : Mat3 α := ⟨a, b, c⟩
def c0 (m : Mat3 α) : Vec3 α := ⟨m.r0.x, m.r1.x, m.r2.x⟩
def c1 (m : Mat3 α) : Vec3 α := ⟨m.r0.y, m.r1.y, m.r2.y⟩
def c2 (m : Mat3 α) : Vec3 α := ⟨m.r0.z, m.r1.z, m.r2.z⟩
def ofCols (a b c : Vec3 α) : Mat3 α := ⟨⟨a.x, b.x, c.x⟩, ⟨a.y, b.y, c.y⟩, ⟨a.z, b.z, c.z⟩⟩
def one : Mat3 α := ⟨Vec3.e0, Vec3.e1, Vec3.e2⟩
def zero : Mat3 α := ⟨Vec3.zero, Vec3.zero, Vec3.zero⟩
def add (a b : Mat3 α) : Mat3 α := ⟨a.r0.add b.r0, a.r1.add b.r1, a.r2.add b.r2⟩
def sub (a b : Mat3 α) : Mat3 α := ⟨a.r0.sub b.r0, a.r1.sub b.r1, a.r2.sub b.r2⟩
def neg (a : Mat3 α) : Mat3 α := ⟨a.r0.neg, a.r1.neg, a.r2.neg⟩
def smul (c : α) (a : Mat3 α) : Mat3 α := ⟨a.r0.smul c, a.r1.smul c, a.r2.smul c⟩
def mulVec (m : Mat3 α) (v : Vec3 α) : Vec3 α := ⟨m.r0.dot v, m.r1.dot v, m.r2.dot v⟩
/-- row vector times matrix -/
def vecMul (v : Vec3 α) (m : Mat3 α) : Vec3 α := ⟨v.dot m.c0, v.dot m.c1, v.dot m.c2⟩
def transpose (m : Mat3 α) : Mat3 α := ⟨m.c0, m.c1, m.c2⟩
def mul (a b : Mat3 α) : Mat3 α :=
  ⟨⟨a.r0.dot b.c0, a.r0.dot b.c1, a.r0.dot b.c2⟩,
   ⟨a.r1.dot b.c0, a.r1.dot b.c1, a.r1.dot b.c2⟩,
   ⟨a.r2.dot b.c0, a.r2.dot b.c1, a.r2.dot b.c2⟩⟩
/-- `vec2skew` -/
def hat (v : Vec3 α) : Mat3 α :=
  ⟨⟨k 0, -v.z, v.y⟩, ⟨v.z, k 0, -v.x⟩, ⟨-v.y, v.x, k 0⟩⟩
def outer (a b : Vec3 α) : Mat3 α := ⟨b.smul a.x, b.smul a.y, b.smul a.z⟩
def det (m : Mat3 α) : α := m.r0.dot (Vec3.cross m.r1 m.r2)
def trace (m : Mat3 α) : α := m.r0.x + m.r1.y + m.r2.z
/-- adjugate (transpose of the cofactor matrix): `m · adj m = det m · 1` -/
def adjugate (m : Mat3 α) : Mat3 α :=
  ofCols (Vec3.cross m.r1 m.r2) (Vec3.cross m.r2 m.r0) (Vec3.cross m.r0 m.r1)
/-- inverse by the adjugate formula (stands in for `torch.inverse`; caller guards `det ≠ 0`). -/
def inv (m : Mat3 α) : Mat3 α := smul (k 1 / det m) (adjugate m)
def toRows (m : Mat3 α) : List (List α) := [m.r0.toList, m.r1.toList, m.r2.toList]
def toList (m : Mat3 α) : List α := m.r0.toList ++ m.r1.toList ++ m.r2.toList
end Mat3

/-! ## Dense list matrices (row-major) for the 4×4, 6×6, 7×7 objects and generic-dimension code -/

abbrev DVec (α : Type) := List α
abbrev DMat (α : Type) := List (List α)

namespace DVec
def zero (n : Nat) : DVec α := List.replicate n (k 0)
def add (a b : DVec α) : DVec α := List.zipWith (· + ·) a b
def sub (a b : DVec α) : DVec α := List.zipWith (· - ·) a b
def neg (a : DVec α) : DVec α := a.map (fun x => -x)
def smul (c : α) (a : DVec α) : DVec α := a.map (fun x => c * x)
def sum (a : DVec α) : α := a.foldl (· + ·) (k 0)
def dot (a b : DVec α) : α := sum (List.zipWith (· * ·) a b)
def normSq (a : DVec α) : α := dot a a
def basis (n i : Nat) : DVec α := (List.range n).map (fun j => if j == i then k 1 else k 0)
end DVec

namespace DMat
def zero (n m : Nat) : DMat α := List.replicate n (DVec.zero m)
def one (n : Nat) : DMat α := (List.range n).map (fun i => DVec.basis n i)
def add (a b : DMat α) : DMat α := List.zipWith DVec.add a b
def sub (a b : DMat α) : DMat α := List.zipWith DVec.sub a b
def neg (a : DMat α) : DMat α := a.map DVec.neg
def smul (c : α) (a : DMat α) : DMat α := a.map (DVec.smul c)
def ncols (a : DMat α) : Nat := match a with | [] => 0 | r :: _ => r.length
def col (a : DMat α) (j : Nat) : DVec α := a.map (fun r => r.getD j (k 0))
def transpose (a : DMat α) : DMat α := (List.range (ncols a)).map (col a)
def mulVec (a : DMat α) (v : DVec α) : DVec α := a.map (fun r => DVec.dot r v)
def vecMul (v : DVec α) (a : DMat α) : DVec α := (transpose a).map (fun c => DVec.dot v c)
def mul (a b : DMat α) : DMat α := let bt := transpose b; a.map (fun r => bt.map (fun c => DVec.dot r c))
/-- `[A B]` -/
def hcat (a b : DMat α) : DMat α := List.zipWith (· ++ ·) a b
/-- `[A; B]` -/
def vcat (a b : DMat α) : DMat α := a ++ b
def block (a b c d : DMat α) : DMat α := vcat (hcat a b) (hcat c d)
def ofMat3 (m : Mat3 α) : DMat α := m.toRows
def colVec (v : DVec α) : DMat α := v.map (fun x => [x])
def rowVec (v : DVec α) : DMat α := [v]
def flat (a : DMat α) : List α := List.flatten a
def diag (a : DMat α) : DVec α := (List.range a.length).map (fun i => (a.getD i []).getD i (k 0))
end DMat

end PP
