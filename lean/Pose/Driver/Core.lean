import Pose.Wire
import Pose.Model.Lie
/-! Core driver ops: arithmetic self-test of `BigF` (checked against mpmath by `check.py selftest`). -/
namespace PP.Driver
open PP Wire

def un (f : BigF → BigF) : Handler := numeric fun xs => match xs with
  | [x] => .ok [f x] | _ => .error "arity"
def bin (f : BigF → BigF → BigF) : Handler := numeric fun xs => match xs with
  | [x, y] => .ok [f x y] | _ => .error "arity"

def opsCore : List (String × Handler) := [
  ("bf.add", bin BigF.add), ("bf.sub", bin BigF.sub), ("bf.mul", bin BigF.mul), ("bf.div", bin BigF.div),
  ("bf.sqrt", un BigF.sqrt), ("bf.exp", un BigF.exp), ("bf.log", un BigF.log),
  ("bf.sin", un BigF.sin), ("bf.cos", un BigF.cos), ("bf.atan", un BigF.atan),
  ("bf.atan2", bin BigF.atan2), ("bf.pi", numeric fun _ => .ok [BigF.piC])
]
end PP.Driver
