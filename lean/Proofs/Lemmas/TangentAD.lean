import Proofs.Lemmas.Tangent
import Proofs.Lemmas.TangentAux
import Proofs.Lemmas.AutogradRetr
import Proofs.Lemmas.AutogradIdSE3
import Proofs.Lemmas.AutogradIdSim3
/-!
# C05 — glue to C04's autograd library (`PP.AD`) and identity-element helper lemmas

`AD_*` : the list encodings of `PP.AD` (C04) read back the structures of the Lie model.
`SO3Log_one … sim3JlInv_zero` : `Log` of the identity elements and the Jacobian blocks at zero.
-/
set_option linter.unusedSimpArgs false
namespace PP
open Vec3 Quat Mat3

theorem AD_toSE3_toList (X : SE3 ℝ) : AD.toSE3 X.toList = X := by
  obtain ⟨⟨t1, t2, t3⟩, ⟨q1, q2, q3, q4⟩⟩ := X
  simp [AD.toSE3, AD.v3, AD.qt, AD.nth, SE3.toList, Vec3.toList, Quat.toList]
theorem AD_tose3_toList (p : se3 ℝ) : AD.tose3 p.toList = p := by
  obtain ⟨⟨a1, a2, a3⟩, ⟨a4, a5, a6⟩⟩ := p
  simp [AD.tose3, AD.v3, AD.nth, se3.toList, Vec3.toList]
theorem AD_tose3_smul (t : ℝ) (p : se3 ℝ) : AD.tose3 (DVec.smul t p.toList) = ⟨p.tau.smul t, p.phi.smul t⟩ := by
  obtain ⟨⟨a1, a2, a3⟩, ⟨a4, a5, a6⟩⟩ := p
  simp [AD.tose3, AD.v3, AD.nth, se3.toList, Vec3.toList, DVec.smul, Vec3.smul]
theorem AD_qt_toList (X : Quat ℝ) : AD.qt X.toList = X := by
  obtain ⟨q1, q2, q3, q4⟩ := X; simp [AD.qt, AD.nth, Quat.toList]
theorem AD_v3_toList (p : Vec3 ℝ) : AD.v3 p.toList = p := by
  obtain ⟨a, b, c⟩ := p; simp [AD.v3, AD.nth, Vec3.toList]
theorem AD_v3_smul (t : ℝ) (p : Vec3 ℝ) : AD.v3 (DVec.smul t p.toList) = p.smul t := by
  obtain ⟨a, b, c⟩ := p; simp [AD.v3, AD.nth, Vec3.toList, DVec.smul, Vec3.smul]

theorem SO3Log_one (eps : ℝ) : SO3Log eps (Quat.one : Quat ℝ) = Vec3.zero := by
  unfold SO3Log; ext <;> lie_unfold <;> simp
theorem calcQ_zero_phi_tau (eps : ℝ) : calcQ eps ⟨Vec3.zero, Vec3.zero⟩ = Mat3.zero := by
  rw [calcQ_eq_with]; unfold calcQWith calcQM1 calcQM2 calcQM3
  ext <;> lie_unfold <;> simp
theorem Mat3.mulVec_zero' (M : Mat3 ℝ) : M.mulVec Vec3.zero = Vec3.zero := by
  ext <;> lie_unfold <;> simp
theorem Sim3Log_one (eps : ℝ) : Sim3Log eps (Sim3one : Sim3 ℝ) = ⟨Vec3.zero, Vec3.zero, 0⟩ := by
  unfold Sim3Log Sim3one RxSO3Log
  simp only [SO3Log_one, Mat3.mulVec_zero', k_real]
  simp [Scalar.log]
theorem sim3ad_zero : sim3ad (⟨Vec3.zero, Vec3.zero, 0⟩ : sim3 ℝ) = DMat.zero 7 7 := by
  unfold sim3ad
  lie_unfold
  simp [DMat.zero, DVec.zero, Vec3.toList, List.replicate]
theorem DMat.zero77_mul_self : (DMat.zero 7 7 : DMat ℝ).mul (DMat.zero 7 7) = DMat.zero 7 7 := by
  simp [DMat.zero, DVec.zero, DMat.mul, DMat.transpose, DMat.ncols, DMat.col, DVec.dot, DVec.sum, List.replicate, List.range, List.range.loop]
theorem sim3JlInv_zero : sim3JlInv (⟨Vec3.zero, Vec3.zero, 0⟩ : sim3 ℝ) = DMat.one 7 := by
  unfold sim3JlInv
  simp only [sim3ad_zero, DMat.zero77_mul_self]
  simp [DMat.zero, DVec.zero, DMat.one, DMat.add, DMat.sub, DMat.smul, DVec.smul, DVec.add, DVec.sub, DVec.basis, List.replicate, List.range, List.range.loop]

/-! ### list encodings of RxSO3 / Sim3 and the curve `t ↦ Exp(t·p)·X` in C04's encoding -/
section
open AD
theorem AD_toRx_toList (X : RxSO3 ℝ) : AD.toRx X.toList = X := by
  obtain ⟨⟨q1, q2, q3, q4⟩, s⟩ := X
  simp [AD.toRx, AD.qt, AD.nth, RxSO3.toList, Quat.toList]
theorem AD_torx_toList (p : rxso3 ℝ) : AD.torx p.toList = p := by
  obtain ⟨⟨a1, a2, a3⟩, s⟩ := p
  simp [AD.torx, AD.v3, AD.nth, rxso3.toList, Vec3.toList]
theorem AD_torx_smul (t : ℝ) (p : rxso3 ℝ) : AD.torx (DVec.smul t p.toList) = ⟨p.phi.smul t, p.sigma * t⟩ := by
  obtain ⟨⟨a1, a2, a3⟩, s⟩ := p
  simp [AD.torx, AD.v3, AD.nth, rxso3.toList, Vec3.toList, DVec.smul, Vec3.smul, mul_comm]
theorem AD_toSim_toList (X : Sim3 ℝ) : AD.toSim X.toList = X := by
  obtain ⟨⟨t1, t2, t3⟩, ⟨q1, q2, q3, q4⟩, s⟩ := X
  simp [AD.toSim, AD.v3, AD.qt, AD.nth, Sim3.toList, Vec3.toList, Quat.toList]
theorem AD_tosim_toList (p : sim3 ℝ) : AD.tosim p.toList = p := by
  obtain ⟨⟨a1, a2, a3⟩, ⟨a4, a5, a6⟩, s⟩ := p
  simp [AD.tosim, AD.v3, AD.nth, sim3.toList, Vec3.toList]
theorem AD_tosim_smul (t : ℝ) (p : sim3 ℝ) : AD.tosim (DVec.smul t p.toList) = ⟨p.tau.smul t, p.phi.smul t, p.sigma * t⟩ := by
  obtain ⟨⟨a1, a2, a3⟩, ⟨a4, a5, a6⟩, s⟩ := p
  simp [AD.tosim, AD.v3, AD.nth, sim3.toList, Vec3.toList, DVec.smul, Vec3.smul, mul_comm]
theorem RxSO3_retr_curve (eps : ℝ) (X : RxSO3 ℝ) (p : rxso3 ℝ) (hz : RxSO3Retr eps X ⟨Vec3.zero, 0⟩ = X) :
    (∀ t : ℝ, retrF .RxSO3 eps X.toList (DVec.smul t p.toList) = (RxSO3Retr eps X ⟨p.phi.smul t, p.sigma * t⟩).toList) ∧
    retrF .RxSO3 eps X.toList (DVec.smul 0 p.toList) = X.toList := by
  have key : ∀ t : ℝ, retrF .RxSO3 eps X.toList (DVec.smul t p.toList) = (RxSO3Retr eps X ⟨p.phi.smul t, p.sigma * t⟩).toList := by
    intro t
    simp only [retrF, mulF, expF, AD_torx_smul, AD_toRx_toList, RxSO3Retr]
  refine ⟨key, ?_⟩
  have e : (⟨p.phi.smul 0, p.sigma * 0⟩ : rxso3 ℝ) = ⟨Vec3.zero, 0⟩ := by
    congr 1 <;> first | (ext <;> lie_unfold <;> ring) | ring
  rw [key 0, e, hz]
theorem SE3_retr_curve (eps : ℝ) (X : SE3 ℝ) (p : se3 ℝ) (hz : SE3Retr eps X ⟨Vec3.zero, Vec3.zero⟩ = X) :
    (∀ t : ℝ, retrF .SE3 eps X.toList (DVec.smul t p.toList) = (SE3Retr eps X ⟨p.tau.smul t, p.phi.smul t⟩).toList) ∧
    retrF .SE3 eps X.toList (DVec.smul 0 p.toList) = X.toList := by
  have key : ∀ t : ℝ, retrF .SE3 eps X.toList (DVec.smul t p.toList) = (SE3Retr eps X ⟨p.tau.smul t, p.phi.smul t⟩).toList := by
    intro t
    simp only [retrF, mulF, expF, AD_tose3_smul, AD_toSE3_toList, SE3Retr]
  refine ⟨key, ?_⟩
  have e : (⟨p.tau.smul 0, p.phi.smul 0⟩ : se3 ℝ) = ⟨Vec3.zero, Vec3.zero⟩ := by
    congr 1 <;> (ext <;> lie_unfold <;> ring)
  rw [key 0, e, hz]
theorem SO3_retr_curve (eps : ℝ) (X : Quat ℝ) (p : Vec3 ℝ) (hz : SO3Retr eps X Vec3.zero = X) :
    (∀ t : ℝ, retrF .SO3 eps X.toList (DVec.smul t p.toList) = (SO3Retr eps X (p.smul t)).toList) ∧
    retrF .SO3 eps X.toList (DVec.smul 0 p.toList) = X.toList := by
  have key : ∀ t : ℝ, retrF .SO3 eps X.toList (DVec.smul t p.toList) = (SO3Retr eps X (p.smul t)).toList := by
    intro t
    simp only [retrF, mulF, expF, AD_v3_smul, AD_qt_toList, SO3Retr]
  refine ⟨key, ?_⟩
  have e : p.smul 0 = Vec3.zero := by ext <;> lie_unfold <;> ring
  rw [key 0, e, hz]
end
end PP
