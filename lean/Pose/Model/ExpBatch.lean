import Pose.Model.Lie
/-!
# Batch-level model of the masked assignments in `so3_Exp.forward`, `so3_Jl`, `rxso3_Ws` (C01)

The code computes boolean masks from the whole batch, evaluates the closed-form and the Taylor expressions on the
masked sub-batches ONLY and scatters them into one zero-initialised output (`out[idx] = f(theta[idx])`).  `maskTake` models the
boolean-mask selection, `indexPut` the masked assignment; the `*Batch` functions follow the code's batch-level data flow
(they are executed by the driver ops `c01.so3scatter` / `c01.wsscatter`).  `Proofs/Props/C01.lean` proves that they
are the item-wise maps of the item-level models — for every mixture of regimes inside one batch.
-/
namespace PP
variable {α : Type} [Scalar α]

/-- `xs[m]`: the sub-batch selected by a boolean mask (row order kept) -/
def maskTake {β : Type} : List Bool → List β → List β
  | true :: m, x :: xs => x :: maskTake m xs
  | false :: m, _ :: xs => maskTake m xs
  | _, _ => []

/-- `out[m] = vals` (`index_put_` with a boolean mask): the masked positions receive the entries of `vals` in order,
the others keep what `out` held -/
def indexPut {β : Type} : List β → List Bool → List β → List β
  | _ :: out, true :: m, v :: vals => v :: indexPut out m vals
  | o :: out, true :: m, [] => o :: indexPut out m []
  | o :: out, false :: m, vals => o :: indexPut out m vals
  | out, [], _ => out
  | [], _ :: _, _ => []

/-- `(imag_factor, real_factor)` of the closed-form branch of `so3_Exp.forward`, from `θ` -/
def so3ExpClosedFac (th : α) : α × α := (Scalar.sin (q 1 2 * th) / th, Scalar.cos (q 1 2 * th))
/-- `(imag_factor, real_factor)` of the Taylor branch -/
def so3ExpTaylorFac (th : α) : α × α :=
  let th2 := th * th
  let th4 := th2 * th2
  (q 1 2 - q 1 48 * th2 + q 1 3840 * th4, k 1 - q 1 8 * th2 + q 1 384 * th4)

/-- `so3_Exp.forward` on a batch, as the code runs it: `theta` for the whole batch, `idx = theta > eps`, the two factor
tensors start as zeros, the closed-form expression is evaluated ONLY on `theta[idx]` and written with `factor[idx] = …`, the
Taylor expression only on `theta[~idx]` and written with `factor[~idx] = …`, finally `cat([input * imag_factor, real_factor])` -/
def so3ExpBatch (eps : α) (xs : List (Vec3 α)) : List (Quat α) :=
  let th := xs.map Vec3.norm
  let idx := th.map fun t => Scalar.lt eps t
  let nidx := idx.map not
  let zeros : List (α × α) := th.map fun _ => (k 0, k 0)
  let f1 := indexPut zeros idx ((maskTake idx th).map so3ExpClosedFac)
  let f2 := indexPut f1 nidx ((maskTake nidx th).map so3ExpTaylorFac)
  List.zipWith (fun x f => Quat.mk' (x.smul f.1) f.2) xs f2

def wsC (p : α × α) : α := (Scalar.exp p.2 - k 1) / p.2
def wsAB2 (p : α × α) : α × α :=
  ((k 1 - Scalar.cos p.1) * (k 1 / (p.1 * p.1)), (p.1 - Scalar.sin p.1) / (p.1 * p.1 * p.1))
def wsAB3 (p : α × α) : α × α :=
  let scale := Scalar.exp p.2; let em1 := scale - k 1; let s2 := p.2 * p.2
  ((p.2 * scale - em1) / s2, (q 1 2 * s2 * scale + em1 - p.2 * scale) / (s2 * p.2))
/-- regime 4; the second argument is `C[condition4]`, read back from the already scattered `C` tensor as the code does -/
def wsAB4 (p : α × α) (Cv : α) : α × α :=
  let th := p.1; let sigma := p.2
  let scale := Scalar.exp sigma; let em1 := scale - k 1; let s2 := sigma * sigma; let t2 := th * th
  let a := scale * Scalar.sin th
  let sh := Scalar.sin (q 1 2 * th)
  let bm1 := em1 * Scalar.cos th - k 2 * (sh * sh)
  let c := t2 + s2
  ((a * sigma - bm1 * th) / (th * c), (Cv - (bm1 * sigma + a * th) / c) * (k 1 / t2))

/-- `rxso3_Ws` on a batch of `(θ, σ)`, as the code runs it: `A`, `B`, `C` start as zeros; the four condition masks are computed
from the whole batch; each regime's expression is evaluated only on its sub-batch and written by masked assignment, in the
code's order (`C[~sl]`, cond1, cond2, `C[sl]`, cond3, cond4 — cond4 reads `C[condition4]`) -/
def wsCoefBatch (eps : α) (ts : List (α × α)) : List (α × α × α) :=
  let sl := ts.map fun p => Scalar.lt eps (sabs p.2)
  let tl := ts.map fun p => Scalar.lt eps p.1
  let nsl := sl.map not
  let c1 := List.zipWith (fun a b => !a && !b) sl tl
  let c2 := List.zipWith (fun a b => !a && b) sl tl
  let c3 := List.zipWith (fun a b => a && !b) sl tl
  let c4 := List.zipWith (fun a b => a && b) sl tl
  let C0 : List α := ts.map fun _ => k 0
  let AB0 : List (α × α) := ts.map fun _ => (k 0, k 0)
  let C1 := indexPut C0 nsl ((maskTake nsl ts).map fun _ => k 1)
  let AB1 := indexPut AB0 c1 ((maskTake c1 ts).map fun _ => (q 1 2, q 1 6))
  let AB2 := indexPut AB1 c2 ((maskTake c2 ts).map wsAB2)
  let C2 := indexPut C1 sl ((maskTake sl ts).map wsC)
  let AB3 := indexPut AB2 c3 ((maskTake c3 ts).map wsAB3)
  let AB4 := indexPut AB3 c4 (List.zipWith wsAB4 (maskTake c4 ts) (maskTake c4 C2))
  List.zipWith (fun ab c => (ab.1, ab.2, c)) AB4 C2


/-! ## Objects, copies, failing calls (model of caller-held algebra LieTensors)

A store of named objects, each holding a batch.  `setitem` is an in-place item assignment, `deepcopy` gives the
destination its own data, `failing` is a call that raises (e.g. `Exp` of a tensor of the wrong width), `read` is
`Exp()` / `matrix()` in any grad mode.  Only the first two change the store. -/

inductive ObjOp (β : Type) where
  | setitem (n i : Nat) (y : β)
  | deepcopy (dst src : Nat)
  | failing (n : Nat)
  | read (n : Nat)

abbrev Store (β : Type) := Nat → List β

def ObjOp.step {β : Type} (s : Store β) : ObjOp β → Store β
  | .setitem n i y => fun m => if m = n then (s n).set i y else s m
  | .deepcopy dst src => fun m => if m = dst then s src else s m
  | .failing _ => s
  | .read _ => s

def ObjOp.changes {β : Type} : ObjOp β → Bool
  | .setitem .. => true
  | .deepcopy .. => true
  | _ => false

def runOps {β : Type} (s : Store β) (ops : List (ObjOp β)) : Store β := ops.foldl ObjOp.step s

/-- what `Exp` (item-level function `f`) returns for object `n` in store `s` -/
def readObj {β γ : Type} (f : β → γ) (s : Store β) (n : Nat) : List γ := (s n).map f

end PP
