import Pose.Wire
import Pose.Driver.Lie
import Pose.Model.Imu
/-!
# Driver ops for C16 (IMU preintegration)

`imu.hist <mode> <eps> <g> <reset> <propcov> <left> p0(3) R0(4) v0(3) <ncalls> call…`
  call  := `<F> <hasrot> <hasinit> [init] frame×F`
  init  := p(3) R(4) v(3) <hascov> [cov(81)] <rijkind: 0 key absent | 1 None | 2 tensor> [Rij(4)]
  frame := dt gyro(3) acc(3) [rot(4)] gcov(3) acov(3)
  mode 0: the model of the code (`Imu.call`, carried state threaded through the calls);
  mode 1: the documented specification (`compose ∘ preSeq`, `covSeq`), same state threading.
  reply : per call  F×(rot4 vel3 pos3)  then cov(81) when propcov = 1.
`imu.integrate eps g R0(4) F hasrot frame×F`  reply: per frame Dr(4) Dv(3) Dp(3) Dt(1) a(3) (the `integrate` dict)
`imu.codeleft`                 reply: 1/0 — the product order the model of the code uses in `propagate_cov`
`imu.shape d…`                 reply: the `_check`ed shape
`imu.rankok ra rd rg`          reply: 0/1 (the assert on the three ranks)
-/
namespace PP.Driver
open PP Wire Imu

abbrev P := StateT (List String) (Except String)

def pTok : P String := do
  match (← get) with
  | [] => throw "arity"
  | t :: ts => set ts; return t

def pNum : P B := do let t ← pTok; liftM (m := Except String) (Wire.num t)
def pNat : P Nat := do let t ← pTok; liftM (m := Except String) (Wire.nat t)
def pV3 : P (Vec3 B) := do return ⟨← pNum, ← pNum, ← pNum⟩
def pQ : P (Quat B) := do return ⟨← pNum, ← pNum, ← pNum, ← pNum⟩
def pRep (n : Nat) (p : P β) : P (List β) := (List.range n).mapM fun _ => p
def pM9 : P (M9 B) := do let xs ← pRep 81 pNum; return ⟨xs.toArray⟩

def pFrame (hasrot : Bool) : P (Frame B) := do
  let dt ← pNum; let gy ← pV3; let ac ← pV3
  let rot ← if hasrot then (do let r ← pQ; pure (some r)) else pure none
  let gc ← pV3; let acv ← pV3
  return ⟨dt, gy, ac, rot, gc, acv⟩

def pInit : P (Init B) := do
  let p ← pV3; let r ← pQ; let v ← pV3
  let hc ← pNat
  let cov ← if hc == 1 then (do let c ← pM9; pure (some c)) else pure none
  let rk ← pNat
  let rij ← match rk with
    | 0 => pure none
    | 1 => pure (some none)
    | _ => (do let r ← pQ; pure (some (some r)))
  return ⟨p, r, v, cov, rij⟩

structure CallIn where
  F : Nat
  init : Option (Init B)
  frames : Array (Frame B)

def pCall : P CallIn := do
  let F ← pNat; let hasrot ← pNat; let hasinit ← pNat
  let init ← if hasinit == 1 then (do let i ← pInit; pure (some i)) else pure none
  let frs ← pRep F (pFrame (hasrot == 1))
  return ⟨F, init, frs.toArray⟩

def zeroFrame : Frame B := ⟨BigF.zero, Vec3.zero, Vec3.zero, none, Vec3.zero, Vec3.zero⟩

/-- the specification run: documented recursions from the same carried state -/
def specCall (cfg : Cfg B) (st : State B) (init : Option (Init B)) (fr : Nat → Frame B) (F : Nat) : Result B :=
  let p0 := match init with | some i => i.pos | none => st.pos
  let R0 := match init with | some i => i.rot | none => st.rot
  let v0 := match init with | some i => i.vel | none => st.vel
  let C0 := match init with
    | some i => (match i.cov with | some c => c | none => st.cov)
    | none => st.cov
  let Rij0 := match init with
    | some i => (match i.Rij with | some r => r | none => st.Rij)
    | none => st.Rij
  -- sequential states, materialised one after the other
  let pres : Array (Pre B) := (List.range F).foldl
    (fun acc j => acc.push (preStep cfg.eps cfg.g R0 (acc.getD j Pre.init) (fr j))) #[Pre.init]
  let outs := tab F fun j => compose p0 R0 v0 (pres.getD (j+1) Pre.init)
  let cin : Nat → CovIn B := fun j =>
    let s' := pres.getD (j+1) Pre.init
    let rij := match Rij0 with | some r => r.mul s'.dR | none => s'.dR
    ⟨rij, dr cfg.eps (fr j), removeG cfg.g R0 s'.dR (fr j), (fr j).dt, (fr j).gcov, (fr j).acov⟩
  let _ := cin
  let cov := if cfg.propCov then
      some ((List.range F).foldl (fun C j =>
        let A := matA (cin j)
        ((A.mul C).mul A.transpose).add (noise cfg.eps (cin j))) C0)
    else none
  let last := outAt outs (F - 1)
  let lastPre := pres.getD F Pre.init
  let st' := if cfg.reset then st else
    { pos := last.pos, rot := last.rot, vel := last.vel
      cov := (match cov with | some c => c | none => st.cov)
      Rij := (if cfg.propCov then some (match Rij0 with | some r => r.mul lastPre.dR | none => lastPre.dR) else st.Rij) }
  ⟨outs, cov, st'⟩

def pHist : P (List B) := do
  let mode ← pNat
  let eps ← pNum; let g ← pNum
  let reset ← pNat; let propcov ← pNat; let left ← pNat
  let p0 ← pV3; let r0 ← pQ; let v0 ← pV3
  let n ← pNat
  let cfg : Cfg B := ⟨eps, ⟨BigF.zero, BigF.zero, g⟩, reset == 1, propcov == 1, left == 1⟩
  let mut st : State B := State.fresh p0 r0 v0
  let mut out : Array B := #[]
  for _ in [0:n] do
    let c ← pCall
    let fr : Nat → Frame B := fun j => c.frames.getD j zeroFrame
    let r := if mode == 0 then call cfg st c.init fr c.F else specCall cfg st c.init fr c.F
    for o in r.outs do
      out := out ++ o.toList.toArray
    match r.cov with
    | some cv => out := out ++ cv.a
    | none => pure ()
    st := r.st
  if !(← get).isEmpty then throw "trailing"
  return out.toList

/-- `imu.integrate eps g R0(4) F hasrot frame×F` → per frame `Dr(4) Dv(3) Dp(3) Dt(1) a(3)` of `integrate` -/
def pInteg : P (List B) := do
  let eps ← pNum; let g ← pNum
  let r0 ← pQ
  let F ← pNat; let hasrot ← pNat
  let frs ← pRep F (pFrame (hasrot == 1))
  let arr := frs.toArray
  let fr : Nat → Frame B := fun j => arr.getD j zeroFrame
  let I := integrate eps ⟨BigF.zero, BigF.zero, g⟩ r0 fr F
  let mut out : Array B := #[]
  for j in [0:F] do
    out := out ++ (qAt I.incR (j+1)).toList.toArray ++ (vAt I.incV (j+1)).toList.toArray
      ++ (vAt I.incP (j+1)).toList.toArray ++ #[sAt I.incT j] ++ (vAt I.a j).toList.toArray
  if !(← get).isEmpty then throw "trailing"
  return out.toList

/-! ### `imu.hist2`: the same history with RAW arguments — the resolution happens in the model (`forwardArgs`)

`imu.hist2 eps g reset propcov left p0(3) R0(4) v0(3) modG(3) modA(3) ncalls call…`
  call := `F hasrot initkind [dict] gckind [gc] ackind [ac] rawframe×F`
  dict := haspos [3] hasrot [4] hasvel [3] covkind(0 key absent | 1 None | 2 value[81]) rijkind(0 | 1 | 2 [4])
  gc   := kind 0 nothing | kind 1 one row (3) | kind 2 F rows (3F);  rawframe := dt gyro(3) acc(3) [rot(4)]
  reply: as `imu.hist`; a call whose `init_state` lacks a required key replies nothing for that call (state unchanged). -/

def pOpt (p : P β) : P (Option β) := do
  let k ← pNat
  if k == 1 then (do let x ← p; pure (some x)) else pure none

def pCovArg (F : Nat) : P (CovArg B) := do
  let k ← pNat
  match k with
  | 0 => pure .none
  | 1 => do let v ← pV3; pure (.row v)
  | _ => do
    let vs ← pRep F pV3
    let arr := vs.toArray
    pure (.rows fun j => arr.getD j Vec3.zero)

def pInitDict : P (InitDict B) := do
  let p ← pOpt pV3; let r ← pOpt pQ; let v ← pOpt pV3
  let ck ← pNat
  let cov ← match ck with
    | 0 => pure none
    | 1 => pure (some none)
    | _ => (do let c ← pM9; pure (some (some c)))
  let rk ← pNat
  let rij ← match rk with
    | 0 => pure none
    | 1 => pure (some none)
    | _ => (do let r ← pQ; pure (some (some r)))
  return ⟨p, r, v, cov, rij⟩

def pRawFrame (hasrot : Bool) : P (RawFrame B) := do
  let dt ← pNum; let gy ← pV3; let ac ← pV3
  let rot ← if hasrot then (do let r ← pQ; pure (some r)) else pure none
  return ⟨dt, gy, ac, rot⟩

def pHist2 : P (List B) := do
  let eps ← pNum; let g ← pNum
  let reset ← pNat; let propcov ← pNat; let left ← pNat
  let p0 ← pV3; let r0 ← pQ; let v0 ← pV3
  let modG ← pV3; let modA ← pV3
  let n ← pNat
  let cfg : Cfg B := ⟨eps, ⟨BigF.zero, BigF.zero, g⟩, reset == 1, propcov == 1, left == 1⟩
  let mut st : State B := State.fresh p0 r0 v0
  let mut out : Array B := #[]
  for _ in [0:n] do
    let F ← pNat; let hasrot ← pNat; let ik ← pNat
    let init ← if ik == 1 then (do let d ← pInitDict; pure (some d)) else pure none
    let gc ← pCovArg F
    let ac ← pCovArg F
    let frs ← pRep F (pRawFrame (hasrot == 1))
    let arr := frs.toArray
    let raw : Nat → RawFrame B := fun j => arr.getD j ⟨BigF.zero, Vec3.zero, Vec3.zero, none⟩
    let (res, st') := forwardArgs cfg modG modA st init gc ac raw F
    match res with
    | .ok r =>
      for o in r.outs do
        out := out ++ o.toList.toArray
      match r.cov with
      | some cv => out := out ++ cv.a
      | none => pure ()
    | .error _ => pure ()
    st := st'
  if !(← get).isEmpty then throw "trailing"
  return out.toList

def opsC16 : List (String × Handler) := [
  ("imu.hist2", fun ts => do
      let (ys, _) ← pHist2.run ts
      return fmt ys),
  ("imu.integrate", fun ts => do
      let (ys, _) ← pInteg.run ts
      return fmt ys),
  ("imu.hist", fun ts => do
      let (ys, _) ← pHist.run ts
      return fmt ys),
  ("imu.codeleft", fun _ => return (if codeLeft then "1" else "0")),
  ("imu.shape", fun ts => do
      let s ← nats ts
      return fmtNats (checkShape s)),
  ("imu.rankok", fun ts => do
      -- the three ranks (acc, dt, gyro); `rankOk` only looks at the ranks
      match ts with
      | [a, d, g] =>
        let a ← nat a; let d ← nat d; let g ← nat g
        return (if rankOk (List.replicate a 1) (List.replicate d 1) (List.replicate g 1) then "1" else "0")
      | _ => throw "arity")
]

end PP.Driver
