import Proofs.Lemmas.Tangent
import Proofs.Lemmas.TangentBatch
import Proofs.Lemmas.TangentBounds
import Proofs.Lemmas.TangentBern
import Mathlib.NumberTheory.Bernoulli
/-!
# C05 — definitional restatements and small facts used by (or kept beside) the property theorems

Moved out of `Props/C05.lean` after the audit: these are unfoldings of model definitions (`rfl`), error-path one-liners, facts that hold
for any matrix (not specific to the model), or statements whose subject is another property (C04).  They are not counted as C05
property theorems.
-/
set_option linter.unusedSimpArgs false
set_option linter.unusedVariables false
namespace PP
open Vec3 Quat Mat3

/-! ## unfoldings -/
/-- `Retr(X,a) = Exp(a)·X` (definition of the code: `a.Exp() * X`) -/
theorem SO3_Retr_eq (eps : ℝ) (X : Quat ℝ) (a : Vec3 ℝ) : SO3Retr eps X a = (so3Exp eps a).mul X := rfl
theorem SE3_Retr_eq (eps : ℝ) (X : SE3 ℝ) (a : se3 ℝ) : SE3Retr eps X a = SE3Mul (se3Exp eps a) X := rfl
theorem RxSO3_Retr_eq (eps : ℝ) (X : RxSO3 ℝ) (a : rxso3 ℝ) : RxSO3Retr eps X a = RxSO3Mul (rxso3Exp eps a) X := rfl
theorem Sim3_Retr_eq (eps : ℝ) (X : Sim3 ℝ) (a : sim3 ℝ) : Sim3Retr eps X a = Sim3Mul (sim3Exp eps a) X := rfl
theorem SO3_Jinvp_eq (eps : ℝ) (X : Quat ℝ) (p : Vec3 ℝ) :
    SO3Jinvp eps X p = (so3JlInv eps (SO3Log eps X)).mulVec p := rfl
theorem SE3_Jinvp_eq (eps : ℝ) (X : SE3 ℝ) (p : se3 ℝ) :
    SE3Jinvp eps X p = (se3JlInv eps (SE3Log eps X)).mulVec p.toList := rfl
theorem RxSO3_Jinvp_eq (eps : ℝ) (X : RxSO3 ℝ) (p : rxso3 ℝ) :
    RxSO3Jinvp eps X p = (rxso3JlInv eps (RxSO3Log eps X)).mulVec p.toList := rfl
theorem Sim3_Jinvp_eq (eps : ℝ) (X : Sim3 ℝ) (p : sim3 ℝ) :
    Sim3Jinvp eps X p = (sim3JlInv (Sim3Log eps X)).mulVec p.toList := rfl
theorem SO3_Jr_eq (eps : ℝ) (X : Quat ℝ) : SO3Jr eps X = so3Jr eps (SO3Log eps X) := rfl
/-- `sim3_Jl_inv` is by definition the polynomial `1 − ad/2 + ad²/12 − ad⁴/720` in `ad ξ` … -/
theorem sim3JlInv_poly (x : sim3 ℝ) :
    sim3JlInv x =
      DMat.sub (DMat.add (DMat.sub (DMat.one 7) (DMat.smul (1 / 2) (sim3ad x)))
        (DMat.smul (1 / 12) ((sim3ad x).mul (sim3ad x))))
        (DMat.smul (1 / 720) (((sim3ad x).mul (sim3ad x)).mul ((sim3ad x).mul (sim3ad x)))) := by
  unfold sim3JlInv; simp only [q_real, Nat.cast_one, Nat.cast_ofNat]
/-- the model's `calcQ` is `calcQWith` of the closed-form coefficients above the switch `θ = 0.05` and of the series below -/
theorem calcQ_eq_with (eps : ℝ) (x : se3 ℝ) :
    calcQ eps x = calcQWith (if (5 : ℝ) / 100 < x.phi.norm then calcQClosed x.phi.norm else calcQSeries x.phi.norm) x := by
  unfold calcQ calcQWith calcQM1 calcQM2 calcQM3 calcQClosed calcQSeries
  by_cases h : (5 : ℝ) / 100 < x.phi.norm
  · simp only [lt_real, q_real, k_real, Nat.cast_ofNat, Nat.cast_one, h, decide_true, if_true, sin_real, cos_real]
  · simp only [lt_real, q_real, k_real, Nat.cast_ofNat, Nat.cast_one, h, decide_false, if_false, Bool.false_eq_true]

/-! ## error paths and histories of `+` -/
/-- too few components: the code raises, the model returns `none` -/
theorem SO3_add_short (eps : ℝ) (X : Quat ℝ) (o : List ℝ) (h : o.length < 3) : SO3Add eps X o = none := by
  simp [SO3Add, h]
theorem Sim3_add_short (eps : ℝ) (X : Sim3 ℝ) (o : List ℝ) (h : o.length < 7) : Sim3Add eps X o = none := by
  simp [Sim3Add, h]
section
open Batch Batch.C05
/-- the error paths of the dispatch: too few components -/
theorem lieAdd_short {G : Type} (m d : Nat) (retr : List ℝ → G → G) (sp : AddSpelling) (alpha : ℝ) (x : T G) (o : T (List ℝ)) (w : Nat)
    (h : w < m) : lieAdd m d retr sp alpha x o w = .error .short := by
  unfold lieAdd; simp [h]
end

theorem SO3Add_append (eps : ℝ) (X : Quat ℝ) (a : Vec3 ℝ) (extra : List ℝ) :
    SO3Add eps X (a.toList ++ extra) = some (SO3Retr eps X a) := by
  cases a; simp [SO3Add, so3.ofList, vec3At, Vec3.toList]

/-- **`+` over any history**: updating one object by `X ← X + aᵢ` (`add_`, `+=`) for a list of tangent vectors of ANY length
gives `Exp(aₙ)·…·Exp(a₁)·X`: the state after the history is a function of the initial value and the updates only, so a read
(`Adj`, `Jinvp`, `Jr`, …) after the history is the read of that value — there is no other state in the model. -/
theorem SO3_add_history (eps : ℝ) (as : List (Vec3 ℝ)) (X : Quat ℝ) :
    as.foldl (fun Y a => SO3Retr eps Y a) X = (expProd eps as).mul X := by
  have := SO3_add_history_aux eps as Quat.one X
  rwa [Quat.one_mul'] at this

/-- the same with extra trailing components on every update (`X += grad`-style): they never matter -/
theorem SO3_add_history_extra (eps : ℝ) (as : List (Vec3 ℝ × List ℝ)) (X : Quat ℝ) :
    as.foldl (fun Y ae => (Y.bind fun Z => SO3Add eps Z (ae.1.toList ++ ae.2))) (some X)
      = some ((expProd eps (as.map Prod.fst)).mul X) := by
  rw [← SO3_add_history]
  induction as generalizing X with
  | nil => rfl
  | cons ae as ih =>
    simp only [List.foldl_cons, List.map_cons, Option.bind_some, SO3Add_append]
    exact ih _

/-- one `add_` call as the caller sees it: a call that fails (too few components — the model's `none`, the code raises) leaves
the object as it was
(NB: atomicity of the failing call is part of this DEFINITION; the theorem below only propagates it through histories) -/
noncomputable def SO3AddStep (eps : ℝ) (X : Quat ℝ) (o : List ℝ) : Quat ℝ := (SO3Add eps X o).getD X

/-- **failing calls are atomic over any history**: a history of `add_` calls in which some calls fail equals the history with
the failing calls removed (whatever their number and position). -/
theorem SO3_add_atomic_history (eps : ℝ) (os : List (List ℝ)) (X : Quat ℝ) :
    os.foldl (SO3AddStep eps) X = (os.filter (fun o => decide (3 ≤ o.length))).foldl (SO3AddStep eps) X := by
  induction os generalizing X with
  | nil => rfl
  | cons o os ih =>
    by_cases h : 3 ≤ o.length
    · simp only [List.foldl_cons, List.filter_cons, h, decide_true, if_true]
      exact ih _
    · have hs : o.length < 3 := by omega
      have : SO3AddStep eps X o = X := by
        unfold SO3AddStep; rw [SO3_add_short eps X o hs]; rfl
      simp only [List.foldl_cons, List.filter_cons, h, decide_false, this]
      exact ih X

/-! ## Sim3: coefficients, series facts true for any matrix, the forward truncation (C04's subject) -/
/-- … whose coefficients are `Bₙ/n!` for `n ≤ 5` (`B₁ = −1/2`): the documented Bernoulli truncation. -/
theorem sim3JlInv_bernoulli :
    ((bernoulli 0 : ℚ) / Nat.factorial 0 = 1) ∧ ((bernoulli 1 : ℚ) / Nat.factorial 1 = -(1 / 2)) ∧
    ((bernoulli 2 : ℚ) / Nat.factorial 2 = 1 / 12) ∧ ((bernoulli 3 : ℚ) / Nat.factorial 3 = 0) ∧
    ((bernoulli 4 : ℚ) / Nat.factorial 4 = -(1 / 720)) ∧ ((bernoulli 5 : ℚ) / Nat.factorial 5 = 0) := by
  have h3 : bernoulli 3 = 0 := bernoulli_eq_zero_of_odd (by decide) (by norm_num)
  have h5 : bernoulli 5 = 0 := bernoulli_eq_zero_of_odd (by decide) (by norm_num)
  have h4 : bernoulli 4 = -1 / 30 := by
    rw [bernoulli_eq_bernoulli'_of_ne_one (by norm_num), bernoulli'_four]
  refine ⟨?_, ?_, ?_, ?_, ?_, ?_⟩
  · simp [bernoulli_zero]
  · rw [bernoulli_one]; norm_num [Nat.factorial]
  · rw [bernoulli_two]; norm_num [Nat.factorial]
  · rw [h3]; simp
  · rw [h4]; norm_num [Nat.factorial]
  · rw [h5]; simp

section
open scoped Matrix.Norms.Operator
open PP.Bern
/-- the series `Σ adⁿ/(n+1)!` is the (exact) left Jacobian of the matrix exponential: `J_l(ad ξ)·ad ξ = exp(ad ξ) − 1` -/
theorem sim3_JlSeries_is_left_jacobian (x : sim3 ℝ) :
    JlSeries (sim3adM x) * sim3adM x = NormedSpace.exp (sim3adM x) - 1 := JlSeries_mul_self (sim3adM x)

/-- the same for the forward matrix: `sim3_Jl ξ` (six terms) is within `‖ad ξ‖⁶/4320` of the exact left Jacobian -/
theorem sim3Jl_truncation_bound (x : sim3 ℝ) (h : ‖sim3adM x‖ ≤ 1) :
    ‖JlSeries (sim3adM x) - DMat.toM 7 (sim3Jl x)‖ ≤ ‖sim3adM x‖ ^ 6 / 4320 := by
  rw [toM_sim3Jl]; exact jl6_sub_JlSeries (sim3adM x) h
end

/-- at the identity element `Jinvp` is the identity map -/
theorem SO3_Jinvp_one (eps : ℝ) (p : Vec3 ℝ) : SO3Jinvp eps (Quat.one : Quat ℝ) p = p := by
  have hl : SO3Log eps (Quat.one : Quat ℝ) = Vec3.zero := by
    unfold SO3Log; ext <;> lie_unfold <;> simp
  rw [SO3_Jinvp_eq, hl, so3JlInv_zero, Mat3.one_mulVec]


/-! ### pass 10: Taylor-branch helpers (SE3 AdjT defect, Jr defect size, SE3 block product with an arbitrary 3×3 product) -/
theorem vec_lemma_defect (u v t p D : Vec3 ℝ) (h : u.add v = t.add D) : p.add v = (t.add (p.add u.neg)).add D := by
  have : v = (t.add D).add u.neg := by rw [← h]; ext <;> lie_unfold <;> ring
  rw [this]; ext <;> lie_unfold <;> ring
/-- `Jl(y)(t×y) + Exp(y)·t = t + d₁·(y×t) + d₂·y×(y×t)` on the Taylor branch `‖y‖ ≤ eps` -/
theorem se3_defect_taylor (eps : ℝ) (y t : Vec3 ℝ) (h : ¬ eps < y.norm) :
    ((so3Jl eps y).mulVec (t.cross y)).add ((so3Exp eps y).act t)
      = t.add (((y.cross t).smul (y.normSq ^ 3 * (y.normSq - 128) / 737280)).add
          ((y.cross (y.cross t)).smul (y.normSq ^ 2 * (y.normSq ^ 2 - 160 * y.normSq + 10240) / 7372800))) := by
  obtain ⟨e1, e2⟩ := so3_coef_taylor eps y.norm h
  rw [so3Jl_eq_polyK, so3Exp_eq_coef, se3_residual, ← Vec3.norm_sq, e1, e2, Vec3.norm_sq]
  ext <;> lie_unfold <;> ring
theorem cross_normSq_le (x v : Vec3 ℝ) : (x.cross v).normSq ≤ x.normSq * v.normSq := by
  have h : (x.cross v).normSq = x.normSq * v.normSq - (x.dot v) ^ 2 := by lie_unfold; ring
  rw [h]; nlinarith [sq_nonneg (x.dot v)]
theorem cross_cross_normSq_le (x v : Vec3 ℝ) : (x.cross (x.cross v)).normSq ≤ x.normSq ^ 2 * v.normSq := by
  have h1 := cross_normSq_le x (x.cross v)
  have h2 := cross_normSq_le x v
  have hx : 0 ≤ x.normSq := Vec3.normSq_nonneg x
  nlinarith [mul_le_mul_of_nonneg_left h2 hx]
/-- `se3_Jl · se3_Jl_inv` for an arbitrary product `P = Jl·JlInv` of the 3×3 blocks (and any `Q`):
`(P u + (w − P w) ; P v)` with `w = Q·JlInv·v` -/
theorem se3Jl_se3JlInv_mulVec_general (eps : ℝ) (x : se3 ℝ) (u v : Vec3 ℝ) (P : Mat3 ℝ)
    (hJ : (so3Jl eps x.phi).mul (so3JlInv eps x.phi) = P) :
    (se3Jl eps x).mulVec ((se3JlInv eps x).mulVec (u.toList ++ v.toList))
      = ((P.mulVec u).add (((calcQ eps x).mulVec ((so3JlInv eps x.phi).mulVec v)).add
          (P.mulVec ((calcQ eps x).mulVec ((so3JlInv eps x.phi).mulVec v))).neg)).toList ++ (P.mulVec v).toList := by
  rw [se3JlInv_mulVec, se3Jl_mulVec]
  have e : ∀ w : Vec3 ℝ, (so3Jl eps x.phi).mulVec ((so3JlInv eps x.phi).mulVec w) = P.mulVec w := by
    intro w; rw [← Mat3.mul_mulVec, hJ]
  rw [Mat3.mulVec_add, e, e, Mat3.neg_mulVec, Mat3.mul_mulVec, Mat3.mul_mulVec, Mat3.mulVec_neg, e]
  congr 2
  ext <;> lie_unfold <;> ring
theorem so3Jl_mul_so3JlInv_taylor (eps : ℝ) (x : Vec3 ℝ) (h : ¬ eps < x.norm) :
    (so3Jl eps x).mul (so3JlInv eps x)
      = polyK 1 (-(x.normSq ^ 2) / 1440) (-(x.normSq) / 720 + x.normSq ^ 2 / 1440) x := by
  have hc : (so3Jl eps x).mul (so3JlInv eps x) = (so3JlInv eps x).mul (so3Jl eps x) := by
    rw [so3JlInv_eq_polyK, so3Jl_eq_polyK, polyK_mul, polyK_mul]; congr 1 <;> ring
  rw [hc, so3JlInv_mul_so3Jl_taylor eps x h]
theorem add_normSq_le (u v : Vec3 ℝ) : (u.add v).normSq ≤ 2 * u.normSq + 2 * v.normSq := by
  lie_unfold
  nlinarith [sq_nonneg (u.x - v.x), sq_nonneg (u.y - v.y), sq_nonneg (u.z - v.z)]
end PP
