import Pose.Wire
/-! Driver ops for C15. -/
namespace PP.Driver
open PP Wire

def opsC15 : List (String × Handler) := []

end PP.Driver
