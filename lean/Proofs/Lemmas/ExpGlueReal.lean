import Proofs.Lemmas.ExpGlue
import Proofs.Lemmas.Sim3Bounds
/-! Glue of `Exp` over ℝ (C01 pass 3): dtype eps, rows as algebra elements, `matrix()` of a kernel result read back
from the flat row-major list. -/
open Matrix NormedSpace
namespace PP
noncomputable section

theorem DType.eps_real (d : DType) : (d.eps : ℝ) = 1 / 2 ^ d.mant := by
  unfold DType.eps; simp [q_real]
theorem DType.eps_pos (d : DType) : 0 < (d.eps : ℝ) := by rw [DType.eps_real]; positivity
theorem DType.eps_le_one (d : DType) : (d.eps : ℝ) ≤ 1 := by
  rw [DType.eps_real, div_le_one (by positivity)]
  exact one_le_pow₀ (by norm_num)

def rowToSo3 (r : List ℝ) : Vec3 ℝ := l3 r 0
def rowToSe3 (r : List ℝ) : se3 ℝ := ⟨l3 r 0, l3 r 3⟩
def rowToRxso3 (r : List ℝ) : rxso3 ℝ := ⟨l3 r 0, r.getD 3 0⟩
def rowToSim3 (r : List ℝ) : sim3 ℝ := ⟨l3 r 0, l3 r 3, r.getD 6 0⟩

/-- read a flat row-major list as a matrix -/
def flat3 (l : List ℝ) : Matrix (Fin 3) (Fin 3) ℝ := Matrix.of fun i j => l.getD (3 * i.val + j.val) 0
def flat4 (l : List ℝ) : Matrix (Fin 4) (Fin 4) ℝ := Matrix.of fun i j => l.getD (4 * i.val + j.val) 0

theorem glue_so3_matrix (eps : ℝ) (r : List ℝ) :
    flat3 (itemMatrix .SO3 (itemExp eps .so3 r)) = (SO3matrix (so3Exp eps (rowToSo3 r))).toMatrix := by
  ext i j
  fin_cases i <;> fin_cases j <;>
    simp [flat3, itemMatrix, itemExp, rowToSo3, l4, Quat.toList, Mat3.toList, Vec3.toList, Mat3.toMatrix]

theorem glue_se3_matrix (eps : ℝ) (r : List ℝ) :
    flat4 (itemMatrix .SE3 (itemExp eps .se3 r)) = (SE3matrix (se3Exp eps (rowToSe3 r))).toMatrix4 := by
  have e : (⟨l3 ((se3Exp eps (rowToSe3 r)).toList) 0, l4 ((se3Exp eps (rowToSe3 r)).toList) 3⟩ : SE3 ℝ) = se3Exp eps (rowToSe3 r) := by
    simp [SE3.toList, Vec3.toList, Quat.toList, l3, l4]
  ext i j
  simp only [itemMatrix, itemExp, rowToSe3] at e ⊢
  rw [e]
  fin_cases i <;> fin_cases j <;> simp [flat4, DMat.flat, DMat.toMatrix4, SE3matrix, matrix4]

theorem glue_rxso3_matrix (eps : ℝ) (r : List ℝ) :
    flat4 (itemMatrix .RxSO3 (itemExp eps .rxso3 r)) = (RxSO3matrix (rxso3Exp eps (rowToRxso3 r))).toMatrix4 := by
  have e : (⟨l4 ((rxso3Exp eps (rowToRxso3 r)).toList) 0, ((rxso3Exp eps (rowToRxso3 r)).toList).getD 4 (k 0)⟩ : RxSO3 ℝ)
      = rxso3Exp eps (rowToRxso3 r) := by
    simp [RxSO3.toList, Quat.toList, l4]
  ext i j
  simp only [itemMatrix, itemExp, rowToRxso3, k_real, Nat.cast_zero] at e ⊢
  rw [e]
  fin_cases i <;> fin_cases j <;> simp [flat4, DMat.flat, DMat.toMatrix4, RxSO3matrix, matrix4]

theorem glue_sim3_matrix (eps : ℝ) (r : List ℝ) :
    flat4 (itemMatrix .Sim3 (itemExp eps .sim3 r)) = (Sim3matrix (sim3Exp eps (rowToSim3 r))).toMatrix4 := by
  have e : (⟨l3 ((sim3Exp eps (rowToSim3 r)).toList) 0, l4 ((sim3Exp eps (rowToSim3 r)).toList) 3,
      ((sim3Exp eps (rowToSim3 r)).toList).getD 7 (k 0)⟩ : Sim3 ℝ) = sim3Exp eps (rowToSim3 r) := by
    simp [Sim3.toList, Vec3.toList, Quat.toList, l3, l4]
  ext i j
  simp only [itemMatrix, itemExp, rowToSim3, k_real, Nat.cast_zero] at e ⊢
  rw [e]
  fin_cases i <;> fin_cases j <;> simp [flat4, DMat.flat, DMat.toMatrix4, Sim3matrix, matrix4]
end
end PP
