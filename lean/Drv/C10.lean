import Pose.Driver.Loop
import Pose.Driver.Core
import Pose.Driver.C10
def main : IO Unit := PP.Driver.mainLoop (PP.Driver.opsCore ++ PP.Driver.opsC10)
