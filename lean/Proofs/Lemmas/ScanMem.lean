import Pose.Model.ScanMem
import Proofs.Lemmas.Scan
/-! Helper lemmas for the memory-level part of C12 (core Lean only). -/
namespace PP.ScanMem
open PP.Scan
variable {α : Type} (op : α → α → α)

theorem mem_pairs (w : View) (f j : Nat) : (f, j) ∈ w.pairs ↔ f < w.F ∧ j < w.L := by
  unfold View.pairs
  simp only [List.mem_flatMap, List.mem_range, List.mem_map, Prod.mk.injEq]
  constructor
  · rintro ⟨f', hf', j', hj', rfl, rfl⟩; exact ⟨hf', hj'⟩
  · rintro ⟨hf, hj⟩; exact ⟨f, hf, j, hj, rfl, rfl⟩

theorem find_some (w : View) (a f j : Nat) (h : w.find a = some (f, j)) :
    f < w.F ∧ j < w.L ∧ w.addr f j = a := by
  unfold View.find at h
  have h1 := List.find?_some h
  have h2 := List.mem_of_find?_eq_some h
  rw [mem_pairs] at h2
  exact ⟨h2.1, h2.2, by simpa using h1⟩

theorem find_none (w : View) (a : Nat) (h : ∀ f j, f < w.F → j < w.L → w.addr f j ≠ a) :
    w.find a = none := by
  unfold View.find
  rw [List.find?_eq_none]
  rintro ⟨f, j⟩ hp
  rw [mem_pairs] at hp
  simpa using h f j hp.1 hp.2

theorem find_addr (w : View) (hw : w.NonOverlap) (f j : Nat) (hf : f < w.F) (hj : j < w.L) :
    w.find (w.addr f j) = some (f, j) := by
  cases h : w.find (w.addr f j) with
  | none =>
    unfold View.find at h
    rw [List.find?_eq_none] at h
    have := h (f, j) ((mem_pairs w f j).2 ⟨hf, hj⟩)
    simp at this
  | some p =>
    obtain ⟨f', j'⟩ := p
    obtain ⟨hf', hj', he⟩ := find_some w _ _ _ h
    obtain ⟨rfl, rfl⟩ := hw f' j' f j hf' hj' hf hj he
    rfl

theorem foldl_step_congr (L : Nat) (l : List Nat) :
    ∀ (v v' : Nat → α), (∀ j, j < L → v j = v' j) →
      ∀ j, j < L → l.foldl (fun w i => step op L i w) v j = l.foldl (fun w i => step op L i w) v' j := by
  induction l with
  | nil => intro v v' h j hj; exact h j hj
  | cons i l ih =>
    intro v v' h j hj
    simp only [List.foldl_cons]
    exact ih _ _ (step_congr op L i v v' h) j hj

/-- one round, seen through the view, is one round of the pure scan on every fibre -/
theorem stepMem_read (w : View) (hw : w.NonOverlap) (i : Nat) (m : Nat → α)
    (f j : Nat) (hf : f < w.F) (hj : j < w.L) :
    stepMem op w i m (w.addr f j) = step op w.L i (fun j' => m (w.addr f j')) j := by
  unfold stepMem step
  rw [find_addr w hw f j hf hj]
  by_cases h : i ≤ j
  · simp [h, hj]
  · simp [h]

theorem stepMem_frame (w : View) (i : Nat) (m : Nat → α) (a : Nat)
    (ha : ∀ f j, f < w.F → j < w.L → w.addr f j ≠ a) : stepMem op w i m a = m a := by
  unfold stepMem
  rw [find_none w a ha]

theorem foldl_stepMem_read (w : View) (hw : w.NonOverlap) (l : List Nat) :
    ∀ (m : Nat → α) (f j : Nat), f < w.F → j < w.L →
      l.foldl (fun m i => stepMem op w i m) m (w.addr f j)
        = l.foldl (fun v i => step op w.L i v) (fun j' => m (w.addr f j')) j := by
  induction l with
  | nil => intro m f j _ _; rfl
  | cons i l ih =>
    intro m f j hf hj
    simp only [List.foldl_cons]
    rw [ih _ f j hf hj]
    apply foldl_step_congr op w.L l _ _ _ j hj
    intro j' hj'
    exact stepMem_read op w hw i m f j' hf hj'

theorem foldl_stepMem_frame (w : View) (l : List Nat) (a : Nat)
    (ha : ∀ f j, f < w.F → j < w.L → w.addr f j ≠ a) :
    ∀ (m : Nat → α), l.foldl (fun m i => stepMem op w i m) m a = m a := by
  induction l with
  | nil => intro m; rfl
  | cons i l ih =>
    intro m
    simp only [List.foldl_cons]
    rw [ih, stepMem_frame op w i m a ha]

theorem clone_nonOverlap (w : View) (top : Nat) : (cloneView w top).NonOverlap := by
  intro f j f' j' _ hj _ hj' h
  simp only [cloneView] at h hj hj' ⊢
  have h' : j + w.L * f = j' + w.L * f' := by
    have e1 := Nat.mul_comm f w.L
    have e2 := Nat.mul_comm f' w.L
    omega
  have hL : 0 < w.L := by omega
  have hm := congrArg (· % w.L) h'
  have hd := congrArg (· / w.L) h'
  simp only [Nat.add_mul_mod_self_left, Nat.mod_eq_of_lt hj, Nat.mod_eq_of_lt hj',
    Nat.add_mul_div_left _ _ hL, Nat.div_eq_of_lt hj, Nat.div_eq_of_lt hj', Nat.zero_add] at hm hd
  exact ⟨hd, hm⟩

theorem copyTo_clone (w : View) (top : Nat) (m : Nat → α) (f j : Nat) (hf : f < w.F) (hj : j < w.L) :
    copyTo w top m ((cloneView w top).addr f j) = m (w.addr f j) := by
  unfold copyTo
  rw [find_addr _ (clone_nonOverlap w top) f j hf hj]

theorem copyTo_below (w : View) (top : Nat) (m : Nat → α) (a : Nat) (ha : a < top) :
    copyTo w top m a = m a := by
  unfold copyTo
  rw [find_none]
  intro f j _ _
  simp only [cloneView]
  omega

theorem invTable_fold_size (w : View) (n : Nat) (l : List (Nat × Nat)) :
    (List.foldr (fun p t => t.setIfInBounds (w.addr p.1 p.2) (some p)) (Array.replicate n none) l).size = n := by
  induction l with
  | nil => simp
  | cons q l ih => simp [ih]


end PP.ScanMem
