"""Shared pieces of the C13 check: the system family (torch / mpmath / wire), generators, the
50-digit reference filters (mpmath) and the tolerance model.

The family (same as lean/Pose/Driver/C13.lean):
    f_i(x,u,t) = (A0 x)_i + (B0 u)_i + c1_i + t*tf_i + af_i*sin((Wf x)_i + (Vf u)_i + phf_i)
    g_i(x,u,t) = (C0 x)_i + (D0 u)_i + c2_i + t*tg_i + ag_i*sin((Wg x)_i + (Vg u)_i + phg_i)
affine when af = ag = 0.
"""
from __future__ import annotations

import math
import random

import mpmath as mp
import numpy as np
import torch

from . import common

mp.mp.dps = 50

FAM_KEYS = ["A0", "B0", "c1", "tf", "af", "Wf", "Vf", "phf", "C0", "D0", "c2", "tg", "ag", "Wg", "Vg", "phg"]


def pp():
    import pypose
    return pypose


# ----------------------------------------------------------------------------- torch side

_FAM_CLASS = None


def fam_class():
    """the user's system: a subclass of pypose.module.NLS (what the filters document as `model`)"""
    global _FAM_CLASS
    if _FAM_CLASS is None:
        NLS = pp().module.NLS

        class FamNLS(NLS):
            def __init__(self, prm, dtype):
                super().__init__()
                for kx in FAM_KEYS:
                    self.register_buffer("vfh13_p_" + kx, torch.tensor(prm[kx], dtype=dtype))
                self.vfh13_nonlin_f = any(v != 0 for v in prm["af"])
                self.vfh13_nonlin_g = any(v != 0 for v in prm["ag"])

            vfh13_tmod = 0          # > 0: the system uses the time only through the exact integer / float remainder t % vfh13_tmod

            def vfh13_tt(self, t):
                base = self.systime if t is None else t
                return base % self.vfh13_tmod if self.vfh13_tmod else base

            def state_transition(self, state, input, t=None):
                if getattr(self, "vfh13_fail_next", "") == "f":       # a user callback that raises once (error-path atomicity),
                    self.vfh13_fail_skip = getattr(self, "vfh13_fail_skip", 0) - 1      # at its `vfh13_fail_skip`-th evaluation from now
                    if self.vfh13_fail_skip < 0:
                        self.vfh13_fail_next = ""
                        raise RuntimeError("user state_transition failed")
                z = state @ self.vfh13_p_A0.mT + input @ self.vfh13_p_B0.mT + self.vfh13_p_c1 + self.vfh13_tt(t) * self.vfh13_p_tf
                if self.vfh13_nonlin_f:
                    z = z + self.vfh13_p_af * torch.sin(state @ self.vfh13_p_Wf.mT + input @ self.vfh13_p_Vf.mT + self.vfh13_p_phf)
                return z

            def observation(self, state, input, t=None):
                if getattr(self, "vfh13_fail_next", "") == "g":
                    self.vfh13_fail_skip = getattr(self, "vfh13_fail_skip", 0) - 1
                    if self.vfh13_fail_skip < 0:
                        self.vfh13_fail_next = ""
                        raise RuntimeError("user observation failed")
                z = state @ self.vfh13_p_C0.mT + input @ self.vfh13_p_D0.mT + self.vfh13_p_c2 + self.vfh13_tt(t) * self.vfh13_p_tg
                if self.vfh13_nonlin_g:
                    z = z + self.vfh13_p_ag * torch.sin(state @ self.vfh13_p_Wg.mT + input @ self.vfh13_p_Vg.mT + self.vfh13_p_phg)
                return z

        class SubFam(FamNLS):
            """a user's subclass of a user's system: overrides `observation` (adds a constant offset `vfh13_delta`)"""
            vfh13_delta = None

            def observation(self, state, input, t=None):
                return super().observation(state, input, t) + self.vfh13_delta

        class AliasFam(FamNLS):
            """user callbacks that return their ARGUMENT, a VIEW of it or a stored buffer (direct / partial state measurement
            written as indexing, identity transition, input pass-through, constant transition from a buffer). The parameters
            of the family are set to the same affine maps, so model and references are unchanged — only the memory differs."""
            vfh13_f_mode = "affine"
            vfh13_g_mode = "affine"

            def state_transition(self, state, input, t=None):
                if self.vfh13_f_mode == "affine" or getattr(self, "vfh13_fail_next", ""):
                    return super().state_transition(state, input, t)
                if self.vfh13_f_mode == "state":
                    return state
                if self.vfh13_f_mode == "input":
                    return input if input.shape == state.shape else input.expand_as(state)
                return self.vfh13_p_c1.expand_as(state)            # "buffer"

            def observation(self, state, input, t=None):
                if self.vfh13_g_mode == "affine" or getattr(self, "vfh13_fail_next", ""):
                    return super().observation(state, input, t)
                if self.vfh13_g_mode == "state":
                    return state
                return state[..., :self.vfh13_p_c2.shape[0]]        # "state-view"

        class PropJacFam(FamNLS):
            """a user's subclass that overrides the PROPERTIES `A`, `C` of NLS with its analytic Jacobians (instead of autograd)"""

            def set_refpoint(self, state=None, input=None, t=None):
                # public API only: the user remembers the linearisation point it is given (None = most recent state / input)
                out = super().set_refpoint(state=state, input=input, t=t)
                self.vfh13_xref = torch.atleast_1d(self.state if state is None else state).detach().clone()
                self.vfh13_uref = torch.atleast_1d(self.input if input is None else input).detach().clone()
                return out

            def vfh13_jac(self, M0, a, W, V, ph):
                arg = self.vfh13_xref @ W.mT + self.vfh13_uref @ V.mT + ph
                return M0 + (a * torch.cos(arg)).unsqueeze(-1) * W

            @property
            def A(self):
                return self.vfh13_jac(self.vfh13_p_A0, self.vfh13_p_af, self.vfh13_p_Wf, self.vfh13_p_Vf, self.vfh13_p_phf)

            vfh13_dC = None      # the user's own choice: measurement matrix = analytic Jacobian + vfh13_dC (e.g. a deliberate approximation)

            @property
            def C(self):
                J = self.vfh13_jac(self.vfh13_p_C0, self.vfh13_p_ag, self.vfh13_p_Wg, self.vfh13_p_Vg, self.vfh13_p_phg)
                return J if self.vfh13_dC is None else J + self.vfh13_dC

        FamNLS.vfh13_PropJac = PropJacFam
        FamNLS.vfh13_Alias = AliasFam
        FamNLS.vfh13_Sub = SubFam
        _FAM_CLASS = FamNLS
    return _FAM_CLASS


# ----------------------------------------------------------------------------- generators

def round_dt(x, dtype):
    """python floats that are exactly representable in `dtype`"""
    return torch.tensor(x, dtype=torch.float64).to(dtype).double().tolist()


def gauss_mat(rng, r, c, s=1.0):
    return [[rng.gauss(0, 1) * s for _ in range(c)] for _ in range(r)]


def rand_orth(rng, n):
    M = np.array(gauss_mat(rng, n, n))
    Qm, Rm = np.linalg.qr(M)
    return Qm * np.sign(np.diag(Rm))


def spd(rng, n, scale, cond, diag=False):
    """SPD with eigenvalues log-uniform in [scale/sqrt(cond), scale*sqrt(cond)], non-diagonal unless asked"""
    lo, hi = math.log(scale) - 0.5 * math.log(cond), math.log(scale) + 0.5 * math.log(cond)
    lam = [math.exp(rng.uniform(lo, hi)) for _ in range(n)]
    if n >= 2 and cond > 1:
        lam[0], lam[1] = math.exp(lo), math.exp(hi)
    if diag:
        return np.diag(lam)
    U = rand_orth(rng, n)
    M = (U * np.array(lam)) @ U.T
    return (M + M.T) / 2


def sym_round(M, dtype):
    """round to dtype and make exactly symmetric"""
    T = torch.tensor(np.asarray(M), dtype=torch.float64).to(dtype)
    T = torch.tril(T) + torch.tril(T, -1).mT
    return T.double().tolist()


def vec_mag(rng, n, mags):
    m = rng.choice(mags)
    d = common.rand_dir(rng, n)
    return [m * v * math.sqrt(n) for v in d]


def gen_family(rng: random.Random, n, m, p, dtype, nonlinear: bool, timevar: bool, stable: bool):
    """parameters of one system of the family, exactly representable in dtype"""
    prm = {}
    kindA = rng.choice(["dense", "dense", "dense", "diag", "eye", "zero-row", "nilpotent", "rot"])
    sA = rng.choice([0.3, 0.7, 0.95, 1.0] if stable else [0.1, 0.5, 1.0, 1.5, 3.0])
    A = np.array(gauss_mat(rng, n, n)) / math.sqrt(n)
    if kindA == "diag":
        A = np.diag([rng.uniform(-1, 1) for _ in range(n)])
    elif kindA == "eye":
        A = np.eye(n)
    elif kindA == "zero-row":
        A[rng.randrange(n), :] = 0
    elif kindA == "nilpotent":
        A = np.triu(A, 1)
    elif kindA == "rot" and n >= 2:
        A = rand_orth(rng, n)
    A = A * sA
    prm["A0"] = A.tolist()
    prm["B0"] = gauss_mat(rng, n, m, rng.choice([0.0, 0.3, 1.0, 3.0]))
    prm["c1"] = vec_mag(rng, n, [0.0, 0.0, 0.1, 1.0, 30.0])
    kindC = rng.choice(["dense", "dense", "select", "rankdef", "scaled"])
    C = np.array(gauss_mat(rng, p, n))
    if kindC == "select":
        C = np.zeros((p, n))
        for i in range(p):
            C[i, rng.randrange(n)] = rng.choice([1.0, -1.0, 2.0])
    elif kindC == "rankdef" and p >= 2:
        C[p - 1, :] = C[0, :] * rng.choice([1.0, -2.0])
    elif kindC == "scaled":
        C = C * rng.choice([1e-2, 1e2])
    prm["C0"] = C.tolist()
    prm["D0"] = gauss_mat(rng, p, m, rng.choice([0.0, 0.5, 2.0]))
    prm["c2"] = vec_mag(rng, p, [0.0, 0.0, 0.1, 1.0, 30.0])
    if timevar:
        prm["tf"] = vec_mag(rng, n, [0.1, 1.0])
        prm["tg"] = vec_mag(rng, p, [0.1, 1.0])
    else:
        prm["tf"] = [0.0] * n
        prm["tg"] = [0.0] * p
    if nonlinear:
        prm["af"] = [rng.choice([0.0, 0.3, 1.0, 2.0]) * rng.choice([-1, 1]) for _ in range(n)]
        prm["ag"] = [rng.choice([0.0, 0.3, 1.0, 2.0]) * rng.choice([-1, 1]) for _ in range(p)]
        if all(v == 0 for v in prm["af"]):
            prm["af"][rng.randrange(n)] = 1.0
        if all(v == 0 for v in prm["ag"]):
            prm["ag"][rng.randrange(p)] = -0.5
        sw = rng.choice([0.3, 1.0, 2.0])
        prm["Wf"] = gauss_mat(rng, n, n, sw / math.sqrt(n))
        prm["Vf"] = gauss_mat(rng, n, m, 0.5)
        prm["phf"] = [rng.uniform(-3, 3) for _ in range(n)]
        prm["Wg"] = gauss_mat(rng, p, n, sw / math.sqrt(n))
        prm["Vg"] = gauss_mat(rng, p, m, 0.5)
        prm["phg"] = [rng.uniform(-3, 3) for _ in range(p)]
    else:
        prm["af"], prm["ag"] = [0.0] * n, [0.0] * p
        prm["Wf"], prm["Vf"], prm["phf"] = [[0.0] * n for _ in range(n)], [[0.0] * m for _ in range(n)], [0.0] * n
        prm["Wg"], prm["Vg"], prm["phg"] = [[0.0] * n for _ in range(p)], [[0.0] * m for _ in range(p)], [0.0] * p
    return {kx: round_dt(v, dtype) for kx, v in prm.items()}


# ----------------------------------------------------------------------------- wire

def flat(x):
    out = []
    for r in x:
        if isinstance(r, (list, tuple)):
            out.extend(flat(r))
        else:
            out.append(r)
    return out


def fam_tokens(prm) -> str:
    return " ".join(common.wire_list(flat(prm[kx])) for kx in FAM_KEYS if len(flat(prm[kx])) > 0)


def step_tokens(prm, t, u, y, Q, R, x, P) -> str:
    parts = [common.to_wire(t), fam_tokens(prm)]
    for v in (u, y, Q, R, x, P):
        fv = flat(v)
        if fv:
            parts.append(common.wire_list(fv))
    return " ".join(parts)


# ----------------------------------------------------------------------------- mpmath reference

def M(x):
    return mp.matrix(x)


def V(x):
    return mp.matrix([[mp.mpf(v)] for v in x])


def mabs(Mx):
    return Mx.apply(abs)


def mmax(Mx):
    return max([abs(v) for v in Mx] + [mp.mpf(0)])


class MpFam:
    def __init__(self, prm, t):
        self.q = {kx: (M(prm[kx]) if isinstance(prm[kx][0], list) else V(prm[kx])) if len(prm[kx]) else None
                  for kx in FAM_KEYS}
        self.prm = prm
        self.t = mp.mpf(t)
        self.nf = any(v != 0 for v in prm["af"])
        self.ng = any(v != 0 for v in prm["ag"])

    def _mv(self, key, v):
        Mx = self.q[key]
        if Mx is None or v.rows == 0 or Mx.cols == 0:
            return mp.zeros(len(self.prm[key]), 1)
        return Mx * v

    def _fun(self, A, B, c, tv, a, W, Vv, ph, nonlin, x, u):
        z = self._mv(A, x) + self._mv(B, u) + self.q[c] + self.t * self.q[tv]
        if nonlin:
            arg = self._mv(W, x) + self._mv(Vv, u) + self.q[ph]
            z = z + M([[self.q[a][i] * mp.sin(arg[i])] for i in range(z.rows)])
        return z

    def _argpre(self, W, Vv, ph, x, u):
        return mabs(self.q[W]) * mabs(x) + (mabs(self.q[Vv]) * mabs(u) if u.rows else 0 * mabs(self.q[ph])) + mabs(self.q[ph])

    def _pre(self, A, B, c, tv, a, W, Vv, ph, x, u):
        """pre-cancellation magnitude of the evaluation (for tolerances): |affine terms| + |a| (1 + |argument of sin|),
        the last because an eps-relative error of the argument moves the sine by up to |a| eps |argument|"""
        z = mabs(self.q[A]) * mabs(x) + (mabs(self.q[B]) * mabs(u) if u.rows else 0 * mabs(self.q[c])) \
            + mabs(self.q[c]) + abs(self.t) * mabs(self.q[tv])
        ap = self._argpre(W, Vv, ph, x, u)
        return z + M([[abs(self.q[a][i]) * (1 + ap[i])] for i in range(z.rows)])

    def _jpre(self, A, a, W, Vv, ph, x, u):
        """magnitude bound of the Jacobian including the sensitivity of cos to its argument"""
        ap = self._argpre(W, Vv, ph, x, u)
        J = mabs(self.q[A])
        for i in range(J.rows):
            for j in range(J.cols):
                J[i, j] += abs(self.q[a][i]) * (1 + ap[i]) * abs(self.q[W][i, j])
        return J

    def _jac(self, A, a, W, Vv, ph, nonlin, x, u):
        J = self.q[A].copy()
        if nonlin:
            arg = self._mv(W, x) + self._mv(Vv, u) + self.q[ph]
            for i in range(J.rows):
                cz = self.q[a][i] * mp.cos(arg[i])
                for j in range(J.cols):
                    J[i, j] += cz * self.q[W][i, j]
        return J

    def f(self, x, u):
        return self._fun("A0", "B0", "c1", "tf", "af", "Wf", "Vf", "phf", self.nf, x, u)

    def g(self, x, u):
        return self._fun("C0", "D0", "c2", "tg", "ag", "Wg", "Vg", "phg", self.ng, x, u)

    def fpre(self, x, u):
        return self._pre("A0", "B0", "c1", "tf", "af", "Wf", "Vf", "phf", x, u)

    def gpre(self, x, u):
        return self._pre("C0", "D0", "c2", "tg", "ag", "Wg", "Vg", "phg", x, u)

    def jfpre(self, x, u):
        return self._jpre("A0", "af", "Wf", "Vf", "phf", x, u)

    def jgpre(self, x, u):
        J = self._jpre("C0", "ag", "Wg", "Vg", "phg", x, u)
        return J if self.dC is None else J + mabs(M(self.dC))

    def jf(self, x, u):
        return self._jac("A0", "af", "Wf", "Vf", "phf", self.nf, x, u)

    dC = None

    def jg(self, x, u):
        J = self._jac("C0", "ag", "Wg", "Vg", "phg", self.ng, x, u)
        return J if self.dC is None else J + M(self.dC)


def cond2(Mx) -> float:
    a = np.array(Mx.tolist(), dtype=np.float64)
    try:
        return float(np.linalg.cond(a))
    except Exception:
        return float("inf")


def mp_kalman_predict(fam: MpFam, u, Q, R, x, P):
    """The reference recursion at 50 digits, part 1 (everything that does not depend on y): linearisation
    (A, C) at the prior mean, predicted state, gain."""
    u, x = V(u), V(x)
    Q, R, P = M(Q), M(R), M(P)
    A, C = fam.jf(x, u), fam.jg(x, u)
    xm = fam.f(x, u)
    Pm = A * P * A.T + Q
    S = C * Pm * C.T + R
    Si = mp.inverse(S)
    K = Pm * C.T * Si
    gx = fam.g(xm, u)
    Pp = Pm - K * C * Pm
    Aa, Ca = fam.jfpre(x, u), fam.jgpre(x, u)
    Pm_abs = Aa * mabs(P) * Aa.T + mabs(Q)
    # |P^-||C|^T (||S^-1||_max 1 1^T) >= |K|: the computed inverse carries rounding errors of size eps*kappa*||S^-1|| in EVERY
    # entry (also where the exact inverse is 0), so the bound is dense over the measurements but keeps the row (state) scaling
    K_pre = Pm_abs * Ca.T * (mp.ones(Si.rows, Si.cols) * mmax(Si))
    KC = K_pre * Ca
    scaleP = mmax(Pm_abs + KC * Pm_abs)
    xm_pre = fam.fpre(x, u)
    # first-order amplification of a perturbation of the prior covariance: P+ = M P M^T + ..., M = (I - K C) A
    I = mp.eye(Pm.rows)
    Mabs = (I + KC) * Aa
    scaleP_m = Pm_abs + KC * Pm_abs          # entry-wise pre-cancellation magnitude of the posterior covariance
    return {"P": Pp, "xm": xm, "Pm": Pm, "S": S, "K": K, "gx": gx, "kappa": cond2(S), "scaleP": float(scaleP),
            "scaleP_entries": [[float(scaleP_m[i, j]) for j in range(scaleP_m.cols)] for i in range(scaleP_m.rows)],
            "xm_pre": xm_pre, "g_pre": fam.gpre(xm_pre, u), "K_pre": K_pre,
            "gain2": float((Pm.rows * mmax(Mabs)) ** 2)}


def mp_kalman_update(pre, y):
    """part 2: innovation at the predicted state.  For an affine system the result is the exact Kalman
    predict-then-update posterior (conditional mean / covariance of x' given y under the joint Gaussian)."""
    y = V(y)
    e = y - pre["gx"]
    out = dict(pre)
    out["x"] = pre["xm"] + pre["K"] * e
    e_pre = mabs(y) + pre["g_pre"]
    sx = pre["xm_pre"] + pre["K_pre"] * e_pre
    out["scalex"] = float(mmax(sx))
    out["scalex_entries"] = [float(v) for v in sx]      # per component: a small component is not judged by a large one
    return out


def mp_ukf_documented(fam: MpFam, kk, u, y, Q, R, x, P):
    """The UKF exactly as the class documents it (Simon, sec. 14.3; sigma points from the columns of the lower Cholesky
    factor, second sigma set drawn from the predicted estimate), at 50 digits — the oracle for NON-LINEAR systems, where
    the Kalman posterior is not the reference. Raises ValueError / ZeroDivisionError when a factor does not exist."""
    n = len(x)
    u, y, x = V(u), V(y), V(x)
    Q, R, P = M(Q), M(R), M(P)
    kk = mp.mpf(kk)
    w0, wr = kk / (n + kk), 1 / (2 * (n + kk))

    def sigma(xc, Pc):
        Ms = (n + kk) * Pc
        L = mp.cholesky((Ms + Ms.T) / 2)
        return [xc] + [xc + L[:, i] for i in range(n)] + [xc - L[:, i] for i in range(n)]

    def wmean(vals):
        z = w0 * vals[0]
        for v in vals[1:]:
            z = z + wr * v
        return z

    def cov(a, b):
        z = w0 * a[0] * b[0].T
        for i in range(1, len(a)):
            z = z + wr * a[i] * b[i].T
        return z

    xs = [fam.f(pt, u) for pt in sigma(x, P)]
    xe = wmean(xs)
    ex = [xe - v for v in xs]
    Pm = Q + cov(ex, ex)
    pts2 = sigma(xe, Pm)
    ex2 = [xe - v for v in pts2]
    ys = [fam.g(pt, u) for pt in pts2]
    ye = wmean(ys)
    ey = [ye - v for v in ys]
    Py = R + cov(ey, ey)
    K = cov(ex2, ey) * mp.inverse(Py)
    return {"x": xe + K * (y - ye), "P": Pm - K * Py * K.T}


class NpFam:
    """the family in float64 numpy (used only for magnitudes that enter tolerances, and for the PF reference)"""

    def __init__(self, prm, t):
        self.q = {kx: np.array(prm[kx], dtype=np.float64) for kx in FAM_KEYS}
        self.t = float(t)

    def _fun(self, A, B, c, tv, a, W, Vv, ph, X, u):
        q = self.q
        bu = q[B] @ u if u.size else 0.0
        vu = q[Vv] @ u if u.size else 0.0
        z = X @ q[A].T + bu + q[c] + self.t * q[tv]
        if np.any(q[a] != 0):
            z = z + q[a] * np.sin(X @ q[W].T + vu + q[ph])
        return z

    def _pre(self, A, B, c, tv, a, W, Vv, ph, X, u):
        q = self.q
        bu = np.abs(q[B]) @ np.abs(u) if u.size else 0.0
        vu = np.abs(q[Vv]) @ np.abs(u) if u.size else 0.0
        ap = np.abs(X) @ np.abs(q[W]).T + vu + np.abs(q[ph])
        return np.abs(X) @ np.abs(q[A]).T + bu + np.abs(q[c]) + abs(self.t) * np.abs(q[tv]) + np.abs(q[a]) * (1 + ap)

    def f(self, X, u):
        return self._fun("A0", "B0", "c1", "tf", "af", "Wf", "Vf", "phf", X, u)

    def g(self, X, u):
        return self._fun("C0", "D0", "c2", "tg", "ag", "Wg", "Vg", "phg", X, u)

    def fpre(self, X, u):
        return self._pre("A0", "B0", "c1", "tf", "af", "Wf", "Vf", "phf", X, u)

    def gpre(self, X, u):
        return self._pre("C0", "D0", "c2", "tg", "ag", "Wg", "Vg", "phg", X, u)


def np_ukf(fam: NpFam, kk, u, y, Q, R, x, P):
    """Textbook UKF in float64 numpy — ONLY to obtain the magnitudes that enter the tolerance (pre-cancellation
    sizes of the sigma-point values, deviations, gain, conditioning).  Raises LinAlgError when a factor fails."""
    n, p = len(x), len(y)
    u, y, x = np.array(u, dtype=float), np.array(y, dtype=float), np.array(x, dtype=float)
    Q, R, P = np.array(Q, dtype=float), np.array(R, dtype=float), np.array(P, dtype=float)
    kk = float(kk)
    w0, wr = kk / (n + kk), 1 / (2 * (n + kk))
    w = np.array([w0] + [wr] * (2 * n))[:, None]
    wsum = abs(w0) + 2 * n * abs(wr)

    def sigma(xc, Pc):
        Ms = (n + kk) * Pc
        L = np.linalg.cholesky((Ms + Ms.T) / 2)
        return np.concatenate([xc[None, :], xc[None, :] + L.T, xc[None, :] - L.T], 0), L

    pts, L1 = sigma(x, P)
    xs = fam.f(pts, u)
    fpre = float(fam.fpre(pts, u).max())
    xe = (w * xs).sum(0)
    ex = xe - xs
    devf = float(np.abs(ex).max())
    Pm = Q + (w[:, :, None] * ex[:, :, None] * ex[:, None, :]).sum(0)
    pts2, L2 = sigma(xe, Pm)
    ex2 = xe - pts2
    ys = fam.g(pts2, u)
    gpre = float(fam.gpre(pts2, u).max())
    ye = (w * ys).sum(0)
    ey = ye - ys
    devg = float(np.abs(ey).max())
    Py = R + (w[:, :, None] * ey[:, :, None] * ey[:, None, :]).sum(0)
    Pxy = (w[:, :, None] * ex2[:, :, None] * ey[:, None, :]).sum(0)
    Pyi = np.linalg.inv(Py)
    K = Pxy @ Pyi
    # ---- coefficients of eps
    om = wsum * (1 + wsum)
    devx2 = float(np.abs(L2).max())
    x2pre = wsum * fpre + devx2
    Pmmax = float(np.abs(Pm).max()) + float(np.abs(Q).max())
    dPm = om * devf * fpre + Pmmax
    lip = (devg / devx2) if devx2 > 0 else 0.0
    dPy = om * devg * gpre + lip * lip * dPm + float(np.abs(Py).max()) + float(np.abs(R).max())
    dPxy = om * (devx2 * gpre + devg * x2pre) + lip * dPm + float(np.abs(Pxy).max())
    invPy = float(np.abs(Pyi).max()) * p
    Kmax = float(np.abs(K).max())
    dK = dPxy * invPy + Kmax * dPy * invPy * p
    # first order: P = Pm - Pxy Py^-1 Pxy^T  =>  dP = dPm - 2 dPxy K^T + K dPy K^T  (+ the inverse's own error
    # kappa * eps * |K||Pxy|^T);  x = xe + K (y - ye), dK = (dPxy - K dPy) Py^-1 (+ kappa * eps * |K|).
    # `scaleP`, `scalex` are the parts multiplied by kappa in the tolerance, `addP`, `addx` the parts that are not.
    kap = float(np.linalg.cond(Py))
    inn = float(np.abs(y).max()) + wsum * gpre
    KPxy = float((np.abs(K) @ np.abs(Pxy).T).max())
    addP = dPm + 2 * p * dPxy * Kmax + p * p * Kmax * Kmax * dPy
    addx = wsum * fpre + p * Kmax * inn + p * (dPxy + p * Kmax * dPy) * invPy * float(np.abs(y - ye).max())
    scaleP = KPxy
    scalex = p * Kmax * float(np.abs(y - ye).max())
    # fold into one pair so that tol = CTOL * eps * kappa * scale reproduces  kappa*scale + add
    scaleP = scaleP + addP / max(kap, 1.0)
    scalex = scalex + addx / max(kap, 1.0)
    return {"kappa": kap, "kappaPm": float(np.linalg.cond(Pm)), "scaleP": scaleP, "scalex": scalex,
            "w0": w0, "lamPm": float(np.linalg.eigvalsh((Pm + Pm.T) / 2).min()), "dPm": dPm}


def mp_to_list(v):
    return [float(a) for a in v]


def ratio(t: torch.Tensor, ref, tol) -> float:
    """max over entries of |t - ref| / tol, `tol` a number or a tensor of t's shape (entry-wise tolerance);
    inf when shapes differ or a value is not finite"""
    r = torch.tensor([float(a) for a in ref], dtype=torch.float64)
    tt = t.detach().double().flatten()
    if tt.numel() != r.numel():
        return float("inf")
    if tt.numel() == 0:
        return 0.0
    d = (tt - r).abs()
    if not bool(torch.isfinite(d).all()):
        return float("inf")
    tl = tol.double().flatten() if isinstance(tol, torch.Tensor) else torch.full_like(d, float(tol))
    return float((d / tl).max())


def maxdiff(t: torch.Tensor, ref) -> float:
    """max |t - ref| with ref an mp matrix / list of Fractions / floats (compared in float64 after exact
    subtraction is unnecessary: both sides are O(scale), the tolerance is >= 64 eps scale)"""
    if isinstance(ref, mp.matrix):
        r = torch.tensor([float(a) for a in ref], dtype=torch.float64)
    else:
        r = torch.tensor([float(a) for a in ref], dtype=torch.float64)
    if t.numel() != r.numel():
        return float("inf")
    d = (t.double().flatten() - r).abs()
    if d.numel() == 0:
        return 0.0
    if not bool(torch.isfinite(d).all()):
        return float("inf")
    return float(d.max())
