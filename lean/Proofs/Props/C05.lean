import Proofs.Lemmas.Tangent
import Proofs.Lemmas.TangentMat
import Proofs.Lemmas.TangentDeriv
import Proofs.Lemmas.TangentBatch
import Proofs.Lemmas.TangentBounds
import Proofs.Lemmas.TangentBern
import Proofs.Lemmas.TangentLog
import Proofs.Lemmas.TangentAux
import Proofs.Lemmas.TangentAD
import Mathlib.NumberTheory.Bernoulli
/-!
# C05 — Adj, AdjT, Retr, +, Jinvp, Jr satisfy their defining tangent-space identities

All statements are over the model of `operation.py` / `lietensor.py` (`Pose/Model/Lie.lean`, `Pose/Model/Tangent.lean`) at
`α = ℝ`, for every `eps ≥ 0` (the dtype's machine epsilon is a parameter), every valid group element and every tangent
vector.  `…_partial` theorems state what holds where the exact clause does not (small-angle Taylor branches).
Floating-point round-off is outside the theorems and is measured by the correspondence check.

## Reading guide: what the statements are about, and what is NOT proved here

* Quaternion-level `*_Adj_identity`/`*_AdjT_identity`, `*_Retr_*`, `*_add_*`, `*_Jinvp_*`, `so3Jr_*` are about the MODEL's coded
  `Exp`/`Log` (all branches as written).
* Matrix-level `*_hat_Adj(T)` / `*_exp_Adj(T)` are about `matrix(X)` of the model and MATHLIB's analytic `NormedSpace.exp` of the hat
  matrix `â`.  They hold for every tangent vector but say nothing about the model's coded `Exp` by themselves: on the closed-form
  branches `matrix(Exp a) = exp(â)` is C01's `*_blocks_all`; on the Taylor branches the coded `Exp` differs from `exp(â)` and NO theorem of
  this file (or a combination with C01 stated here) bounds `‖matrix(X)·matrix(Exp a) − matrix(Exp(Adj X a))·matrix(X)‖` there.
  What is stated about the coded `Exp` on Taylor branches: SO3/RxSO3 exact (every `a`); SE3 `0<θ≤eps` with a bounded residual
  (`SE3_Adj_identity_taylor_partial`, `SE3_AdjT_identity_taylor_partial` + `se3_taylor_defect_bounds`); Sim3 `0<θ≤eps` or `0<|σ|≤eps` only the
  algebraic unfolding `Sim3_Adj_residual_partial` (no bound: that theorem is an exact rewriting, not a size statement) and nothing for AdjT.
* `SE3_Jinvp_spec/_unique/_spec_valid` hold for ANY 3×3 matrix in the place of `calcQ` (the block inverse of a block-triangular matrix does
  not depend on what the off-diagonal block is).  The content of `calcQ` enters only `SE3_Jinvp_first_order` (via C04's `SE3Log_tangent`),
  which needs `θ > 0.05` (closed-form coefficients).  For `θ ≤ 0.05` (series coefficients) the correctness of the `Q` block rests on the
  mpmath oracle of the correspondence check; the only theorem-level fact there is `calcQ_coef1/2/3_agree` + `calcQWith_sub` (for `0 < θ ≤ 1` the
  series coefficients are within `θ⁶/300000` of the closed-form ones, ≤ 5.3e-14 below the switch) — and that the closed-form coefficients are the
  right ones on `0 < θ ≤ 0.05` is itself not a theorem (C04's derivative theorem is stated for `θ > 0.05` only).
* `Jinvp` on `‖Log X‖ ≤ eps`: `SO3_Jinvp_spec_taylor_partial` (exact defect polynomial), identity-element theorems `*_Jinvp_one`.  There is
  no uniqueness theorem for Sim3 (truncation; see `sim3JlInv_*`).
* No Log-side statement (`Log(Exp(τ)·X) = Log X + Jinvp(X,τ) + o(τ)`) beyond the derivative form `SO3/SE3/RxSO3_Jinvp_first_order` (rotation angle
  above `eps`; SE3 above 0.05) and, at rotation angle exactly 0, `SO3_Jinvp_first_order_one`, `SE3_Jinvp_first_order_translation`,
  `RxSO3_Jinvp_first_order_scale`, `Sim3_Jinvp_first_order_one`.  For `0 < angle ≤ eps` there is no derivative statement; for Sim3 away from
  the identity `Jinvp` is a truncation, so the exact clause is false and only the distance theorems hold.
* `Jr`: `so3Jr_eq_Jl_neg`, `so3Exp_matrix_mul_Jr`, `so3Jr_hasDerivAt` hold on `eps < ‖x‖` (and `so3Jr_zero`/`so3Jr_small_angle` say the code returns
  exactly `1` on `‖x‖ ≤ eps`).  On `0 < ‖x‖ ≤ eps` the defining clause `Jr = Jl(−x)` is FALSE for the code (it returns `1`); by how much is now a theorem:
  `so3Jr_taylor_defect_partial` (exact defect) + `so3Jr_taylor_coef_bounds` + `so3Jr_taylor_defect_size` (≤ `‖x‖/2 + ‖x‖²/6` relative).
* Batching/broadcasting of `Adj/AdjT/Jinvp/Jr` (including the empty-batch `dim = a.shape[-1]` branch of `Adj`) is not modelled here: it is
  C06's subject and is exercised by the correspondence check (shape pairs incl. empty); only `+`/`Retr` have a batched model (`lieAdd`).
-/
set_option linter.unusedSimpArgs false
set_option linter.unusedVariables false
set_option linter.unusedTactic false
set_option linter.unreachableTactic false
set_option linter.unnecessarySeqFocus false
namespace PP
open Vec3 Quat Mat3


/-! ## Adj : `X·Exp(a) = Exp(Adj X a)·X` -/

theorem SO3_Adj_identity (eps : ℝ) (X : Quat ℝ) (hX : SO3.Valid X) (a : Vec3 ℝ) :
    X.mul (so3Exp eps a) = (so3Exp eps (SO3AdjXa X a)).mul X := by
  unfold SO3AdjXa; rw [SO3Mat_mulVec X hX]; exact SO3_conj_exp eps X hX a

theorem SO3_AdjT_identity (eps : ℝ) (X : Quat ℝ) (hX : SO3.Valid X) (a : Vec3 ℝ) :
    (so3Exp eps a).mul X = X.mul (so3Exp eps (SO3AdjTXa X a)) := by
  unfold SO3AdjTXa
  have hc : X.conj.normSq = 1 := by rw [Quat.normSq_conj]; exact hX
  rw [SO3Mat_mulVec X.conj hc, SO3_conj_exp eps X hX, Quat.act_conj_act X hX]

theorem RxSO3_Adj_identity (eps : ℝ) (X : RxSO3 ℝ) (hX : RxSO3.Valid X) (a : rxso3 ℝ) :
    RxSO3Mul X (rxso3Exp eps a) = RxSO3Mul (rxso3Exp eps (rxso3.ofList (RxSO3AdjXa X a))) X := by
  rw [RxSO3AdjXa_eq, rxso3.ofList_toList]
  unfold RxSO3AdjV RxSO3Mul rxso3Exp
  ext1
  · simp only []; rw [SO3Mat_mulVec X.q hX.1]; exact SO3_conj_exp eps X.q hX.1 a.phi
  · simp only []; ring

theorem RxSO3_AdjT_identity (eps : ℝ) (X : RxSO3 ℝ) (hX : RxSO3.Valid X) (a : rxso3 ℝ) :
    RxSO3Mul (rxso3Exp eps a) X = RxSO3Mul X (rxso3Exp eps (rxso3.ofList (RxSO3AdjTXa X a))) := by
  rw [show RxSO3AdjTXa X a = RxSO3AdjXa (RxSO3Inv X) a from rfl, RxSO3AdjXa_eq, rxso3.ofList_toList]
  have hc : X.q.conj.normSq = 1 := by rw [Quat.normSq_conj]; exact hX.1
  unfold RxSO3AdjV RxSO3Mul rxso3Exp RxSO3Inv
  ext1
  · simp only []; rw [SO3Mat_mulVec X.q.conj hc, SO3_conj_exp eps X.q hX.1, Quat.act_conj_act X.q hX.1]
  · simp only []; ring

theorem SE3_Adj_identity (eps : ℝ) (h0 : 0 ≤ eps) (X : SE3 ℝ) (hX : SE3.Valid X) (a : se3 ℝ)
    (ha : eps < a.phi.norm ∨ a.phi = Vec3.zero) :
    SE3Mul X (se3Exp eps a) = SE3Mul (se3Exp eps (se3.ofList (SE3AdjXa X a))) X := by
  rw [SE3AdjXa_eq, se3.ofList_toList]
  have hy : eps < (X.q.act a.phi).norm ∨ X.q.act a.phi = Vec3.zero := by
    rcases ha with h | h
    · left; rwa [Quat.act_norm X.q hX]
    · right; rw [h, Quat.act_zero]
  unfold SE3AdjV SE3Mul se3Exp
  ext1
  · simp only []
    rw [SO3Mat_mulVec X.q hX, SO3Mat_mulVec X.q hX, Mat3.mulVec_add, so3Jl_act eps X.q hX, vadd_assoc,
      se3_defect_zero eps h0 _ _ hy, vadd_comm]
  · simp only []; rw [SO3Mat_mulVec X.q hX]; exact SO3_conj_exp eps X.q hX a.phi


theorem SE3_AdjT_identity (eps : ℝ) (h0 : 0 ≤ eps) (X : SE3 ℝ) (hX : SE3.Valid X) (a : se3 ℝ)
    (ha : eps < a.phi.norm ∨ a.phi = Vec3.zero) :
    SE3Mul (se3Exp eps a) X = SE3Mul X (se3Exp eps (se3.ofList (SE3AdjTXa X a))) := by
  rw [show SE3AdjTXa X a = SE3AdjXa (SE3Inv X) a from rfl, SE3AdjXa_eq, se3.ofList_toList]
  have hq : X.q.normSq = 1 := hX
  have hc : X.q.conj.normSq = 1 := by rw [Quat.normSq_conj]; exact hq
  unfold SE3AdjV SE3Mul se3Exp SE3Inv
  ext1
  · simp only []
    rw [SO3Mat_mulVec X.q.conj hc, SO3Mat_mulVec X.q.conj hc, ← so3Jl_act eps X.q hq, Quat.act_conj_act X.q hq,
      Quat.act_add, Quat.act_conj_act X.q hq, ← Quat.act_cross X.q hq, Quat.act_neg, Quat.act_conj_act X.q hq,
      Quat.act_conj_act X.q hq, Mat3.mulVec_add, neg_cross, Mat3.mulVec_neg]
    exact vec_lemma _ _ _ _ (se3_defect_zero eps h0 a.phi X.t ha)
  · simp only []
    rw [SO3Mat_mulVec X.q.conj hc, SO3_conj_exp eps X.q hq, Quat.act_conj_act X.q hq]

theorem Sim3_Adj_identity (eps : ℝ) (h0 : 0 ≤ eps) (X : Sim3 ℝ) (hX : Sim3.Valid X) (a : sim3 ℝ)
    (ha : eps < a.phi.norm ∨ a.phi = Vec3.zero) (hs : eps < |a.sigma| ∨ a.sigma = 0) :
    Sim3Mul X (sim3Exp eps a) = Sim3Mul (sim3Exp eps (sim3.ofList (Sim3AdjXa X a))) X := by
  rw [Sim3AdjXa_eq, sim3.ofList_toList]
  have hq : X.q.normSq = 1 := hX.1
  have hy : eps < (X.q.act a.phi).norm ∨ X.q.act a.phi = Vec3.zero := by
    rcases ha with h | h
    · left; rwa [Quat.act_norm X.q hq]
    · right; rw [h, Quat.act_zero]
  unfold Sim3AdjV Sim3Mul sim3Exp rxso3Exp
  ext1
  · simp only [exp_real]
    rw [SO3Mat_mulVec X.q hq, SO3Mat_mulVec X.q hq, vadd_assoc, Mat3.mulVec_add, Mat3.mulVec_smul,
      rxso3Ws_act eps X.q hq, vadd_assoc, sim3_defect_zero eps h0 _ _ _ hy hs, vadd_comm]
  · simp only []; rw [SO3Mat_mulVec X.q hq]; exact SO3_conj_exp eps X.q hq a.phi
  · simp only [exp_real]; ring

theorem Sim3_AdjT_identity (eps : ℝ) (h0 : 0 ≤ eps) (X : Sim3 ℝ) (hX : Sim3.Valid X) (a : sim3 ℝ)
    (ha : eps < a.phi.norm ∨ a.phi = Vec3.zero) (hs : eps < |a.sigma| ∨ a.sigma = 0) :
    Sim3Mul (sim3Exp eps a) X = Sim3Mul X (sim3Exp eps (sim3.ofList (Sim3AdjTXa X a))) := by
  rw [show Sim3AdjTXa X a = Sim3AdjXa (Sim3Inv X) a from rfl, Sim3AdjXa_eq, sim3.ofList_toList]
  have hq : X.q.normSq = 1 := hX.1
  have hc : X.q.conj.normSq = 1 := by rw [Quat.normSq_conj]; exact hq
  have hs0 : X.s ≠ 0 := ne_of_gt hX.2
  unfold Sim3AdjV Sim3Mul sim3Exp rxso3Exp Sim3Inv
  ext1
  · simp only [exp_real, k_real, Nat.cast_one]
    rw [SO3Mat_mulVec X.q.conj hc, SO3Mat_mulVec X.q.conj hc, ← rxso3Ws_act eps X.q hq, Quat.act_conj_act X.q hq,
      Quat.act_add, Quat.act_add, Quat.act_smul, Quat.act_conj_act X.q hq, ← Quat.act_cross X.q hq, Quat.act_neg,
      Quat.act_smul, Quat.act_smul, Quat.act_neg, Quat.act_smul, Quat.act_conj_act X.q hq, Quat.act_conj_act X.q hq]
    have e : (((a.tau.smul (1 / X.s)).add (((X.t.smul (1 / X.s)).neg).cross a.phi)).add
        (((X.t.smul (1 / X.s)).neg).smul (-a.sigma)))
        = (a.tau.add ((X.t.cross a.phi).add (X.t.smul (-a.sigma))).neg).smul (1 / X.s) := by
      ext <;> lie_unfold <;> ring
    rw [e, Mat3.mulVec_smul]
    have e2 : ∀ v : Vec3 ℝ, (v.smul (1 / X.s)).smul X.s = v := by
      intro v; ext <;> lie_unfold <;> field_simp
    rw [e2, Mat3.mulVec_add, Mat3.mulVec_neg]
    exact vec_lemma _ _ _ _ (sim3_defect_zero eps h0 a.phi X.t a.sigma ha hs)
  · simp only []
    rw [SO3Mat_mulVec X.q.conj hc, SO3_conj_exp eps X.q hq, Quat.act_conj_act X.q hq]
  · simp only [exp_real]; ring

/-! ## the small-angle branches: explicit defects -/

/-- SE3, small-angle Taylor branch (`θ ≤ eps`): the rotation blocks of `Exp(Adj X a)·X` and `X·Exp(a)` agree exactly and
the translation blocks differ by the explicit vector `d₁·(y×t) + d₂·y×(y×t)`, `y = R(X)φ`, `n = θ²`,
`d₁ = n³(n−128)/737280`, `d₂ = n²(n²−160n+10240)/7372800` (so `≤ θ⁶‖t‖/5760 + θ⁶‖t‖/720` in norm). -/
theorem SE3_Adj_identity_taylor_partial (eps : ℝ) (X : SE3 ℝ) (hX : SE3.Valid X) (a : se3 ℝ) (h : ¬ eps < a.phi.norm) :
    (SE3Mul (se3Exp eps (se3.ofList (SE3AdjXa X a))) X).q = (SE3Mul X (se3Exp eps a)).q ∧
    (SE3Mul (se3Exp eps (se3.ofList (SE3AdjXa X a))) X).t
      = ((SE3Mul X (se3Exp eps a)).t.add
          (((X.q.act a.phi).cross X.t).smul (a.phi.normSq ^ 3 * (a.phi.normSq - 128) / 737280))).add
          (((X.q.act a.phi).cross ((X.q.act a.phi).cross X.t)).smul
            (a.phi.normSq ^ 2 * (a.phi.normSq ^ 2 - 160 * a.phi.normSq + 10240) / 7372800)) := by
  rw [SE3AdjXa_eq, se3.ofList_toList]
  have hq : X.q.normSq = 1 := hX
  have hn : (X.q.act a.phi).norm = a.phi.norm := Quat.act_norm X.q hq a.phi
  have h' : ¬ eps < (X.q.act a.phi).norm := by rw [hn]; exact h
  obtain ⟨e1, e2⟩ := so3_coef_taylor eps (X.q.act a.phi).norm h'
  unfold SE3AdjV SE3Mul se3Exp
  constructor
  · simp only []; rw [SO3Mat_mulVec X.q hq]; exact (SO3_conj_exp eps X.q hq a.phi).symm
  · simp only []
    rw [SO3Mat_mulVec X.q hq, SO3Mat_mulVec X.q hq, Mat3.mulVec_add, so3Jl_act eps X.q hq, vadd_assoc]
    rw [so3Jl_eq_polyK eps (X.q.act a.phi), so3Exp_eq_coef eps (X.q.act a.phi), se3_residual, ← Vec3.norm_sq, e1, e2,
      Vec3.norm_sq, Quat.act_normSq X.q hq]
    ext <;> lie_unfold <;> ring

/-- size of the two defect coefficients for `n = θ² ≤ 1` -/
theorem se3_taylor_defect_bounds (n : ℝ) (h0 : 0 ≤ n) (h1 : n ≤ 1) :
    |n ^ 3 * (n - 128) / 737280| ≤ n ^ 3 / 5760 ∧
    |n ^ 2 * (n ^ 2 - 160 * n + 10240) / 7372800| ≤ n ^ 2 / 720 := by
  have n2 : 0 ≤ n ^ 2 := by positivity
  have n3 : 0 ≤ n ^ 3 := by positivity
  constructor
  · rw [abs_le]; constructor <;> nlinarith [mul_nonneg n3 h0, mul_nonneg n3 (sub_nonneg.mpr h1)]
  · rw [abs_le]; constructor <;> nlinarith [mul_nonneg n2 h0, mul_nonneg n2 (sub_nonneg.mpr h1), mul_nonneg n2 n2]

/-- SE3 `AdjT`, small-angle Taylor branch (`θ ≤ eps`): the rotation blocks of `X·Exp(AdjT X a)` and `Exp(a)·X` agree exactly and the translation
blocks differ by `d₁·(φ×t) + d₂·φ×(φ×t)` with the SAME `d₁, d₂` as for `Adj` (bounded by `se3_taylor_defect_bounds`):
`(Exp(a)·X).t = (X·Exp(AdjT X a)).t + d₁·(φ×t) + d₂·φ×(φ×t)`. -/
theorem SE3_AdjT_identity_taylor_partial (eps : ℝ) (X : SE3 ℝ) (hX : SE3.Valid X) (a : se3 ℝ) (h : ¬ eps < a.phi.norm) :
    (SE3Mul X (se3Exp eps (se3.ofList (SE3AdjTXa X a)))).q = (SE3Mul (se3Exp eps a) X).q ∧
    (SE3Mul (se3Exp eps a) X).t
      = (SE3Mul X (se3Exp eps (se3.ofList (SE3AdjTXa X a)))).t.add
          (((a.phi.cross X.t).smul (a.phi.normSq ^ 3 * (a.phi.normSq - 128) / 737280)).add
            ((a.phi.cross (a.phi.cross X.t)).smul (a.phi.normSq ^ 2 * (a.phi.normSq ^ 2 - 160 * a.phi.normSq + 10240) / 7372800))) := by
  rw [show SE3AdjTXa X a = SE3AdjXa (SE3Inv X) a from rfl, SE3AdjXa_eq, se3.ofList_toList]
  have hq : X.q.normSq = 1 := hX
  have hc : X.q.conj.normSq = 1 := by rw [Quat.normSq_conj]; exact hq
  unfold SE3AdjV SE3Mul se3Exp SE3Inv
  constructor
  · simp only []
    rw [SO3Mat_mulVec X.q.conj hc, SO3_conj_exp eps X.q hq, Quat.act_conj_act X.q hq]
  · simp only []
    rw [SO3Mat_mulVec X.q.conj hc, SO3Mat_mulVec X.q.conj hc, ← so3Jl_act eps X.q hq, Quat.act_conj_act X.q hq,
      Quat.act_add, Quat.act_conj_act X.q hq, ← Quat.act_cross X.q hq, Quat.act_neg, Quat.act_conj_act X.q hq,
      Quat.act_conj_act X.q hq, Mat3.mulVec_add, neg_cross, Mat3.mulVec_neg]
    exact vec_lemma_defect _ _ _ _ _ (se3_defect_taylor eps a.phi X.t h)
/-- non-vacuity of the Taylor-branch hypotheses at machine eps: `φ = (2⁻⁶⁰,0,0) ≠ 0` has `‖φ‖ = 2⁻⁶⁰ ≤ 2⁻⁵²` -/
example : ¬ (2 : ℝ)⁻¹ ^ 52 < (⟨(2 : ℝ)⁻¹ ^ 60, 0, 0⟩ : Vec3 ℝ).norm ∧ (⟨(2 : ℝ)⁻¹ ^ 60, 0, 0⟩ : Vec3 ℝ) ≠ Vec3.zero := by
  have hn : (⟨(2 : ℝ)⁻¹ ^ 60, 0, 0⟩ : Vec3 ℝ).norm = (2 : ℝ)⁻¹ ^ 60 := by
    unfold Vec3.norm
    rw [show (⟨(2 : ℝ)⁻¹ ^ 60, 0, 0⟩ : Vec3 ℝ).normSq = ((2 : ℝ)⁻¹ ^ 60) ^ 2 by lie_unfold; ring]
    rw [sqrt_real, Real.sqrt_sq (by positivity)]
  refine ⟨?_, ?_⟩
  · rw [hn, not_lt]
    exact pow_le_pow_of_le_one (by norm_num) (by norm_num) (by norm_num)
  · intro h
    have := congrArg Vec3.x h
    simp [Vec3.zero] at this

/-- size of the two translation defect vectors of `SE3_Adj_identity_taylor_partial` / `SE3_AdjT_identity_taylor_partial` for `n = ‖y‖² ≤ 1`
(`y = R(X)φ` resp. `φ`, so `n = θ²`): `‖d₁·(y×t)‖² ≤ (n³/5760)²·n‖t‖²` and `‖d₂·y×(y×t)‖² ≤ (n²/720)²·n²‖t‖²`, i.e. the translation blocks of the two sides of the
adjoint identity differ by at most `θ⁷‖t‖/5760 + θ⁶‖t‖/720` on the Taylor branch. -/
theorem se3_taylor_defect_size (y t : Vec3 ℝ) (h1 : y.normSq ≤ 1) :
    ((y.cross t).smul (y.normSq ^ 3 * (y.normSq - 128) / 737280)).normSq ≤ (y.normSq ^ 3 / 5760) ^ 2 * (y.normSq * t.normSq) ∧
    ((y.cross (y.cross t)).smul (y.normSq ^ 2 * (y.normSq ^ 2 - 160 * y.normSq + 10240) / 7372800)).normSq
      ≤ (y.normSq ^ 2 / 720) ^ 2 * (y.normSq ^ 2 * t.normSq) := by
  have h0 : 0 ≤ y.normSq := Vec3.normSq_nonneg y
  obtain ⟨b1, b2⟩ := se3_taylor_defect_bounds y.normSq h0 h1
  have a1 := cross_normSq_le y t
  have a2 := cross_cross_normSq_le y t
  have p1 : 0 ≤ (y.cross t).normSq := Vec3.normSq_nonneg _
  have p2 : 0 ≤ (y.cross (y.cross t)).normSq := Vec3.normSq_nonneg _
  have c1 : (y.normSq ^ 3 * (y.normSq - 128) / 737280) * (y.normSq ^ 3 * (y.normSq - 128) / 737280) ≤ (y.normSq ^ 3 / 5760) ^ 2 := by
    have := mul_self_le_mul_self (abs_nonneg _) b1
    rw [abs_mul_abs_self] at this
    calc _ ≤ _ := this
      _ = _ := by ring
  have c2 : (y.normSq ^ 2 * (y.normSq ^ 2 - 160 * y.normSq + 10240) / 7372800) * (y.normSq ^ 2 * (y.normSq ^ 2 - 160 * y.normSq + 10240) / 7372800)
      ≤ (y.normSq ^ 2 / 720) ^ 2 := by
    have := mul_self_le_mul_self (abs_nonneg _) b2
    rw [abs_mul_abs_self] at this
    calc _ ≤ _ := this
      _ = _ := by ring
  rw [Vec3.normSq_smul, Vec3.normSq_smul]
  constructor
  · exact mul_le_mul c1 a1 p1 (sq_nonneg _)
  · exact mul_le_mul c2 a2 p2 (sq_nonneg _)

/-- **SE3 adjoint identities on the Taylor branch, closed-form bound**: for valid `X`, `θ = ‖φ‖ ≤ eps`, `n = θ² ≤ 1` the translation blocks of
`Exp(Adj X a)·X` and `X·Exp(a)` (resp. `Exp(a)·X` and `X·Exp(AdjT X a)`) differ by a vector `D` with
`‖D‖² ≤ 2(n³/5760)²·n‖t‖² + 2(n²/720)²·n²‖t‖²` (rotation blocks equal) — i.e. `‖D‖ ≤ √2·(θ⁷/5760 + θ⁶/720)‖t‖`, below `1e-90·‖t‖` at machine eps. -/
theorem SE3_Adj_taylor_distance (eps : ℝ) (X : SE3 ℝ) (hX : SE3.Valid X) (a : se3 ℝ) (h : ¬ eps < a.phi.norm) (h1 : a.phi.normSq ≤ 1) :
    ∃ D : Vec3 ℝ, (SE3Mul (se3Exp eps (se3.ofList (SE3AdjXa X a))) X).t = (SE3Mul X (se3Exp eps a)).t.add D ∧
      D.normSq ≤ 2 * ((a.phi.normSq ^ 3 / 5760) ^ 2 * (a.phi.normSq * X.t.normSq))
        + 2 * ((a.phi.normSq ^ 2 / 720) ^ 2 * (a.phi.normSq ^ 2 * X.t.normSq)) := by
  obtain ⟨_, ht⟩ := SE3_Adj_identity_taylor_partial eps X hX a h
  have hq : X.q.normSq = 1 := hX
  have hy : (X.q.act a.phi).normSq = a.phi.normSq := Quat.act_normSq X.q hq a.phi
  have h1' : (X.q.act a.phi).normSq ≤ 1 := by rw [hy]; exact h1
  obtain ⟨s1, s2⟩ := se3_taylor_defect_size (X.q.act a.phi) X.t h1'
  rw [hy] at s1 s2
  refine ⟨(((X.q.act a.phi).cross X.t).smul (a.phi.normSq ^ 3 * (a.phi.normSq - 128) / 737280)).add
      (((X.q.act a.phi).cross ((X.q.act a.phi).cross X.t)).smul (a.phi.normSq ^ 2 * (a.phi.normSq ^ 2 - 160 * a.phi.normSq + 10240) / 7372800)), ?_, ?_⟩
  · rw [ht]; ext <;> lie_unfold <;> ring
  · exact le_trans (add_normSq_le _ _) (by linarith)
/-- … the same bound for `AdjT` -/
theorem SE3_AdjT_taylor_distance (eps : ℝ) (X : SE3 ℝ) (hX : SE3.Valid X) (a : se3 ℝ) (h : ¬ eps < a.phi.norm) (h1 : a.phi.normSq ≤ 1) :
    ∃ D : Vec3 ℝ, (SE3Mul (se3Exp eps a) X).t = (SE3Mul X (se3Exp eps (se3.ofList (SE3AdjTXa X a)))).t.add D ∧
      D.normSq ≤ 2 * ((a.phi.normSq ^ 3 / 5760) ^ 2 * (a.phi.normSq * X.t.normSq))
        + 2 * ((a.phi.normSq ^ 2 / 720) ^ 2 * (a.phi.normSq ^ 2 * X.t.normSq)) := by
  obtain ⟨_, ht⟩ := SE3_AdjT_identity_taylor_partial eps X hX a h
  obtain ⟨s1, s2⟩ := se3_taylor_defect_size a.phi X.t h1
  exact ⟨_, ht, le_trans (add_normSq_le _ _) (by linarith)⟩
/-- non-vacuity: `φ = (2⁻⁶⁰,0,0)` satisfies both hypotheses at machine eps (`‖φ‖ ≤ 2⁻⁵²` by the example above, `‖φ‖² ≤ 1` here) -/
example : (⟨(2 : ℝ)⁻¹ ^ 60, 0, 0⟩ : Vec3 ℝ).normSq ≤ 1 := by
  have : (⟨(2 : ℝ)⁻¹ ^ 60, 0, 0⟩ : Vec3 ℝ).normSq = ((2 : ℝ)⁻¹ ^ 60) ^ 2 := by lie_unfold; ring
  rw [this]
  have h : (2 : ℝ)⁻¹ ^ 60 ≤ 1 := pow_le_one₀ (by norm_num) (by norm_num)
  nlinarith [pow_nonneg (by norm_num : (0 : ℝ) ≤ 2⁻¹) 60]

/-- Sim3, every regime: rotation and scale blocks agree exactly; the translation blocks differ by
`g₀·t + g₁·(y×t) + g₂·y×(y×t)` with the `g`s built from the model's own coefficients `(A,B,C)` of `rxso3_Ws` and `(s,w)` of
`so3_Exp` (all three vanish in the closed-form regimes: `Sim3_Adj_identity`). -/
theorem Sim3_Adj_residual_partial (eps : ℝ) (X : Sim3 ℝ) (hX : Sim3.Valid X) (a : sim3 ℝ) :
    let y := X.q.act a.phi
    let c := rxso3WsCoef eps a.phi.norm a.sigma
    let e := so3ExpCoef eps a.phi.norm
    let R := Sim3Mul (sim3Exp eps (sim3.ofList (Sim3AdjXa X a))) X
    let L := Sim3Mul X (sim3Exp eps a)
    R.q = L.q ∧ R.s = L.s ∧
    R.t = ((L.t.add (X.t.smul (Real.exp a.sigma - a.sigma * c.2.2 - 1))).add
            ((y.cross X.t).smul (2 * Real.exp a.sigma * e.2 * e.1 - c.2.2 + c.2.1 * a.phi.normSq - a.sigma * c.1))).add
            ((y.cross (y.cross X.t)).smul (2 * Real.exp a.sigma * e.1 * e.1 - c.1 - a.sigma * c.2.1)) := by
  intro y c e R L
  have hq : X.q.normSq = 1 := hX.1
  have hn : (X.q.act a.phi).norm = a.phi.norm := Quat.act_norm X.q hq a.phi
  simp only [R, L, y, c, e]
  rw [Sim3AdjXa_eq, sim3.ofList_toList]
  unfold Sim3AdjV Sim3Mul sim3Exp rxso3Exp
  refine ⟨?_, ?_, ?_⟩
  · simp only []; rw [SO3Mat_mulVec X.q hq]; exact (SO3_conj_exp eps X.q hq a.phi).symm
  · simp only [exp_real]; ring
  · simp only [exp_real]
    rw [SO3Mat_mulVec X.q hq, SO3Mat_mulVec X.q hq, vadd_assoc, Mat3.mulVec_add, Mat3.mulVec_smul,
      rxso3Ws_act eps X.q hq, vadd_assoc]
    rw [rxso3Ws_eq_polyK eps (X.q.act a.phi), so3Exp_eq_coef eps (X.q.act a.phi), sim3_residual, hn,
      Quat.act_normSq X.q hq]
    ext <;> lie_unfold <;> ring

/-! ## Retr, `+` -/

/-- `X + other = Retr(X, other[:3])`: components of `other` beyond the manifold dimension are ignored (any `extra`). -/
theorem SO3_add_eq_Retr (eps : ℝ) (X : Quat ℝ) (a : Vec3 ℝ) (extra : List ℝ) :
    SO3Add eps X (a.toList ++ extra) = some (SO3Retr eps X a) := by
  cases a; simp [SO3Add, so3.ofList, vec3At, Vec3.toList]
theorem SE3_add_eq_Retr (eps : ℝ) (X : SE3 ℝ) (a : se3 ℝ) (extra : List ℝ) :
    SE3Add eps X (a.toList ++ extra) = some (SE3Retr eps X a) := by
  obtain ⟨⟨a1, a2, a3⟩, ⟨a4, a5, a6⟩⟩ := a
  simp [SE3Add, se3.ofList, se3.toList, vec3At, Vec3.toList]
theorem RxSO3_add_eq_Retr (eps : ℝ) (X : RxSO3 ℝ) (a : rxso3 ℝ) (extra : List ℝ) :
    RxSO3Add eps X (a.toList ++ extra) = some (RxSO3Retr eps X a) := by
  obtain ⟨⟨a1, a2, a3⟩, a4⟩ := a
  simp [RxSO3Add, rxso3.ofList, rxso3.toList, vec3At, Vec3.toList]
theorem Sim3_add_eq_Retr (eps : ℝ) (X : Sim3 ℝ) (a : sim3 ℝ) (extra : List ℝ) :
    Sim3Add eps X (a.toList ++ extra) = some (Sim3Retr eps X a) := by
  obtain ⟨⟨a1, a2, a3⟩, ⟨a4, a5, a6⟩, a7⟩ := a
  simp [Sim3Add, sim3.ofList, sim3.toList, vec3At, Vec3.toList]

/-- `add(other, alpha)` : `alpha*other` is formed first -/
theorem SO3_add_alpha (eps α : ℝ) (X : Quat ℝ) (a : Vec3 ℝ) (extra : List ℝ) :
    SO3Add eps X (scaleList α (a.toList ++ extra)) = some ((so3Exp eps (a.smul α)).mul X) := by
  rw [scaleList_append, scaleList_vec, SO3_add_eq_Retr]; rfl

/-- adding to an algebra element is plain vector addition of the first `m` components (extra ones ignored) -/
theorem so3_add_eq (x y : Vec3 ℝ) (extra : List ℝ) : algAdd x.toList (y.toList ++ extra) = some (x.add y).toList := by
  rw [alg_add_eq x.toList y.toList extra rfl]; rfl
theorem se3_add_eq (x y : se3 ℝ) (extra : List ℝ) :
    algAdd x.toList (y.toList ++ extra) = some ((⟨x.tau.add y.tau, x.phi.add y.phi⟩ : se3 ℝ).toList) := by
  rw [alg_add_eq x.toList y.toList extra rfl]; rfl
theorem rxso3_add_eq (x y : rxso3 ℝ) (extra : List ℝ) :
    algAdd x.toList (y.toList ++ extra) = some ((⟨x.phi.add y.phi, x.sigma + y.sigma⟩ : rxso3 ℝ).toList) := by
  rw [alg_add_eq x.toList y.toList extra rfl]; rfl
theorem sim3_add_eq (x y : sim3 ℝ) (extra : List ℝ) :
    algAdd x.toList (y.toList ++ extra)
      = some ((⟨x.tau.add y.tau, x.phi.add y.phi, x.sigma + y.sigma⟩ : sim3 ℝ).toList) := by
  rw [alg_add_eq x.toList y.toList extra rfl]; rfl

/-- the zero tangent vector is neutral: `X + 0 = Retr(X,0) = X` -/
theorem so3Exp_zero (eps : ℝ) (h0 : 0 ≤ eps) : so3Exp eps (Vec3.zero : Vec3 ℝ) = Quat.one := by
  rw [so3Exp_eq_coef, Vec3.norm_zero]
  unfold so3ExpCoef
  rw [if_neg (not_lt.mpr h0)]
  ext <;> lie_unfold <;> ring
theorem SO3_Retr_zero (eps : ℝ) (h0 : 0 ≤ eps) (X : Quat ℝ) : SO3Retr eps X Vec3.zero = X := by
  unfold SO3Retr; rw [so3Exp_zero eps h0, Quat.one_mul']
theorem SE3_Retr_zero (eps : ℝ) (h0 : 0 ≤ eps) (X : SE3 ℝ) : SE3Retr eps X ⟨Vec3.zero, Vec3.zero⟩ = X := by
  unfold SE3Retr se3Exp; simp only []
  rw [so3Exp_zero eps h0, so3Jl_zero, Mat3.one_mulVec]
  exact SE3_one_mul X
theorem RxSO3_Retr_zero (eps : ℝ) (h0 : 0 ≤ eps) (X : RxSO3 ℝ) : RxSO3Retr eps X ⟨Vec3.zero, 0⟩ = X := by
  unfold RxSO3Retr rxso3Exp; simp only [exp_real, Real.exp_zero]
  rw [so3Exp_zero eps h0]
  unfold RxSO3Mul; ext <;> lie_unfold <;> ring
theorem Sim3_Retr_zero (eps : ℝ) (h0 : 0 ≤ eps) (X : Sim3 ℝ) : Sim3Retr eps X ⟨Vec3.zero, Vec3.zero, 0⟩ = X := by
  unfold Sim3Retr sim3Exp rxso3Exp; simp only [exp_real, Real.exp_zero]
  rw [so3Exp_zero eps h0, rxso3Ws_eq_polyK, polyK_zero]
  have : (Mat3.smul (rxso3WsCoef eps (Vec3.zero : Vec3 ℝ).norm 0).2.2 Mat3.one).mulVec (Vec3.zero : Vec3 ℝ) = Vec3.zero := by
    ext <;> lie_unfold <;> ring
  rw [this]
  unfold Sim3Mul; ext <;> lie_unfold <;> ring

/-! ## histories of in-place updates (statelessness) -/


/-! ## one dispatch for every spelling of `+` (batched, broadcasting) -/
section
open Batch Batch.C05
/-- **every spelling of `+` is the same item-wise map**: for broadcastable lshapes (for the in-place spellings: broadcasting to `X`'s own
lshape), enough components, the call succeeds, the result has the broadcast lshape and last extent `d`, and item `i` is
`retr (operand at proj i) (X at proj i)` — the spelling does not appear on the right-hand side. -/
theorem lieAdd_spec {G : Type} (m d : Nat) (hd : 0 < d) (retr : List ℝ → G → G) (sp : AddSpelling) (alpha : ℝ)
    (x : T G) (o : T (List ℝ)) (w : Nat) (out : Shape) (hw : m ≤ w) (hR : sp.isRetr = true → w = m)
    (hb : broadcastShapes x.shape o.shape = some out) (hi : sp.inplace = true → out = x.shape) :
    ∃ r, lieAdd m d retr sp alpha x o w = .ok r ∧ r.shape = out ∧ r.last = d ∧
      ∀ i, inb out i → r.get i = retr (addOperand sp alpha (o.get (proj o.shape i))) (x.get (proj x.shape i)) := by
  have hw' : ¬ w < m := by omega
  by_cases hr : sp.isRetr = true
  · have hwm : w = m := hR hr
    have hb' : broadcastShapes (⟨o.shape, fun k => o.data k⟩ : T (List ℝ)).shape x.shape = some out := by
      rw [broadcastShapes_comm]; exact hb
    obtain ⟨r, h1, h2, h3, h4⟩ := broadcast_itemwise retr d d hd (⟨o.shape, fun k => o.data k⟩ : T (List ℝ)) x out hb'
    refine ⟨r, ?_, h2, by rw [h3]; split <;> rfl, ?_⟩
    · unfold lieAdd
      subst hwm
      simp [hr, h1]
    · intro i hi'
      rw [h4 i hi']
      simp only [addOperand, hr, if_true]
      try rfl
  · have hr' : sp.isRetr = false := by simpa using hr
    obtain ⟨r, h1, h2, h3, h4⟩ := add_itemwise retr d hd x (⟨o.shape, fun k => scaleList alpha (o.data k)⟩ : T (List ℝ)) out hb
    refine ⟨r, ?_, h2, h3, ?_⟩
    · unfold lieAdd
      simp only [hw', if_false, hr', Bool.false_and, Bool.false_eq_true, h1]
      by_cases hip : sp.inplace = true
      · have : r.shape = x.shape := by rw [h2, hi hip]
        simp [hip, this, h1]
      · have : sp.inplace = false := by simpa using hip
        simp [this, h1]
    · intro i hi'
      rw [h4 i hi']
      simp only [addOperand, hr', Bool.false_eq_true, if_false]
      rfl

/-- … lshapes that do not broadcast (every spelling) -/
theorem lieAdd_not_broadcastable {G : Type} (m d : Nat) (retr : List ℝ → G → G) (sp : AddSpelling) (alpha : ℝ) (x : T G) (o : T (List ℝ))
    (w : Nat) (hw : m ≤ w) (hR : sp.isRetr = true → w = m) (hb : broadcastShapes x.shape o.shape = none) :
    lieAdd m d retr sp alpha x o w = .error .broadcast := by
  have hw' : ¬ w < m := by omega
  unfold lieAdd
  by_cases hr : sp.isRetr = true
  · have hb' : broadcastShapes o.shape x.shape = none := by rw [broadcastShapes_comm]; exact hb
    simp [hw', hr, hR hr, binop, broadcastInputs, hb']
  · have hr' : sp.isRetr = false := by simpa using hr
    have hn : addOp retr d x (⟨o.shape, fun k => scaleList alpha (o.data k)⟩ : T (List ℝ)) = none := add_raises retr d x _ hb
    simp [hw', hr', hn]
/-- … an in-place spelling whose operand would enlarge `X` (D14 is about the OUT-of-place spellings: they succeed, `lieAdd_spec`) -/
theorem lieAdd_inplace_enlarging {G : Type} (m d : Nat) (hd : 0 < d) (retr : List ℝ → G → G) (sp : AddSpelling) (alpha : ℝ) (x : T G)
    (o : T (List ℝ)) (w : Nat) (out : Shape) (hw : m ≤ w) (hip : sp.inplace = true)
    (hb : broadcastShapes x.shape o.shape = some out) (hne : out ≠ x.shape) :
    lieAdd m d retr sp alpha x o w = .error .inplaceShape := by
  have hw' : ¬ w < m := by omega
  have hr' : sp.isRetr = false := by cases sp <;> simp_all [AddSpelling.inplace, AddSpelling.isRetr]
  obtain ⟨r, h1, h2, h3, h4⟩ := add_itemwise retr d hd x (⟨o.shape, fun k => scaleList alpha (o.data k)⟩ : T (List ℝ)) out hb
  unfold lieAdd
  simp only [hw', if_false, hr', Bool.false_and, Bool.false_eq_true, h1, hip, Bool.true_and]
  have : r.shape ≠ x.shape := by rw [h2]; exact hne
  simp [this]

/-- **`+`, `add`, `pp.add`, `add_`, `pp.add_`, `Retr`, `pp.Retr` all denote `Exp(alpha·a)·X`** on SO3, item by item under torch
broadcasting, whatever extra components each row of `other` carries (`alpha = 1` for the Retr spellings). -/
theorem SO3_all_spellings (eps alpha : ℝ) (sp : AddSpelling) (x : T (Quat ℝ)) (s : Shape) (a : Nat → Vec3 ℝ) (ex : Nat → List ℝ) (w : Nat)
    (out : Shape) (hw : 3 ≤ w) (hR : sp.isRetr = true → w = 3) (hb : broadcastShapes x.shape s = some out)
    (hi : sp.inplace = true → out = x.shape) :
    ∃ r, lieAdd 3 4 (SO3retrItem eps) sp alpha x ⟨s, fun k => (a k).toList ++ ex k⟩ w = .ok r ∧ r.shape = out ∧ r.last = 4 ∧
      ∀ i, inb out i →
        r.get i = (so3Exp eps ((a (ravel s (proj s i))).smul (if sp.isRetr then 1 else alpha))).mul (x.get (proj x.shape i)) := by
  obtain ⟨r, h1, h2, h3, h4⟩ := lieAdd_spec 3 4 (by norm_num) (SO3retrItem eps) sp alpha x ⟨s, fun k => (a k).toList ++ ex k⟩ w out hw hR hb hi
  refine ⟨r, h1, h2, h3, fun i hi' => ?_⟩
  rw [h4 i hi']
  exact SO3retrItem_eq eps alpha sp _ _ _
theorem Sim3_all_spellings (eps alpha : ℝ) (sp : AddSpelling) (x : T (Sim3 ℝ)) (s : Shape) (a : Nat → sim3 ℝ) (ex : Nat → List ℝ) (w : Nat)
    (out : Shape) (hw : 7 ≤ w) (hR : sp.isRetr = true → w = 7) (hb : broadcastShapes x.shape s = some out)
    (hi : sp.inplace = true → out = x.shape) :
    ∃ r, lieAdd 7 8 (Sim3retrItem eps) sp alpha x ⟨s, fun k => (a k).toList ++ ex k⟩ w = .ok r ∧ r.shape = out ∧ r.last = 8 ∧
      ∀ i, inb out i →
        r.get i = Sim3Mul (sim3Exp eps ⟨(a (ravel s (proj s i))).tau.smul (if sp.isRetr then 1 else alpha),
            (a (ravel s (proj s i))).phi.smul (if sp.isRetr then 1 else alpha),
            (if sp.isRetr then 1 else alpha) * (a (ravel s (proj s i))).sigma⟩) (x.get (proj x.shape i)) := by
  obtain ⟨r, h1, h2, h3, h4⟩ := lieAdd_spec 7 8 (by norm_num) (Sim3retrItem eps) sp alpha x ⟨s, fun k => (a k).toList ++ ex k⟩ w out hw hR hb hi
  refine ⟨r, h1, h2, h3, fun i hi' => ?_⟩
  rw [h4 i hi']
  exact Sim3retrItem_eq eps alpha sp _ _ _

/-- non-vacuity: lshapes `(2,1)` and `(3,)` broadcast to `(2,3)` — the out-of-place spellings succeed although `other` enlarges `X` (D14) -/
example : broadcastShapes [2, 1] [3] = some [2, 3] := by decide
example : AddSpelling.plus.inplace = false ∧ AddSpelling.addInplace.inplace = true ∧ AddSpelling.ppRetr.isRetr = true := by decide
end

/-! ## Jinvp -/

/-- `Jinvp(X,p)` solves `Jl(Log X)·y = p` … -/
theorem SO3_Jinvp_spec (eps : ℝ) (h0 : 0 ≤ eps) (X : Quat ℝ) (p : Vec3 ℝ) (h : eps < (SO3Log eps X).norm)
    (hs : Real.sin (1 / 2 * (SO3Log eps X).norm) ≠ 0) :
    (so3Jl eps (SO3Log eps X)).mulVec (SO3Jinvp eps X p) = p := by
  rw [SO3_Jinvp_eq, ← Mat3.mul_mulVec, so3Jl_mul_so3JlInv eps h0 _ h hs, Mat3.one_mulVec]
/-- … and is the only solution -/
theorem SO3_Jinvp_unique (eps : ℝ) (h0 : 0 ≤ eps) (X : Quat ℝ) (p y : Vec3 ℝ) (h : eps < (SO3Log eps X).norm)
    (hs : Real.sin (1 / 2 * (SO3Log eps X).norm) ≠ 0) (hy : (so3Jl eps (SO3Log eps X)).mulVec y = p) :
    y = SO3Jinvp eps X p := by
  rw [SO3_Jinvp_eq, ← hy, ← Mat3.mul_mulVec, so3JlInv_mul_so3Jl eps h0 _ h hs, Mat3.one_mulVec]

theorem SE3_Jinvp_spec (eps : ℝ) (h0 : 0 ≤ eps) (X : SE3 ℝ) (p : se3 ℝ) (h : eps < (SE3Log eps X).phi.norm)
    (hs : Real.sin (1 / 2 * (SE3Log eps X).phi.norm) ≠ 0) :
    (se3Jl eps (SE3Log eps X)).mulVec (SE3Jinvp eps X p) = p.toList := by
  rw [SE3_Jinvp_eq]
  exact se3Jl_se3JlInv_mulVec eps _ p.tau p.phi (so3Jl_mul_so3JlInv eps h0 _ h hs)
theorem SE3_Jinvp_unique (eps : ℝ) (h0 : 0 ≤ eps) (X : SE3 ℝ) (p y : se3 ℝ) (h : eps < (SE3Log eps X).phi.norm)
    (hs : Real.sin (1 / 2 * (SE3Log eps X).phi.norm) ≠ 0)
    (hy : (se3Jl eps (SE3Log eps X)).mulVec y.toList = p.toList) : y.toList = SE3Jinvp eps X p := by
  rw [SE3_Jinvp_eq, ← hy]
  exact (se3JlInv_se3Jl_mulVec eps _ y.tau y.phi (so3JlInv_mul_so3Jl eps h0 _ h hs)).symm

theorem RxSO3_Jinvp_spec (eps : ℝ) (h0 : 0 ≤ eps) (X : RxSO3 ℝ) (p : rxso3 ℝ) (h : eps < (RxSO3Log eps X).phi.norm)
    (hs : Real.sin (1 / 2 * (RxSO3Log eps X).phi.norm) ≠ 0) :
    (rxso3Jl eps (RxSO3Log eps X)).mulVec (RxSO3Jinvp eps X p) = p.toList := by
  rw [RxSO3_Jinvp_eq]
  unfold rxso3Jl rxso3JlInv rxso3.toList
  rw [block31_mulVec, block31_mulVec, ← Mat3.mul_mulVec, so3Jl_mul_so3JlInv eps h0 _ h hs, Mat3.one_mulVec]

/-- … and is the only solution (RxSO3) -/
theorem RxSO3_Jinvp_unique (eps : ℝ) (h0 : 0 ≤ eps) (X : RxSO3 ℝ) (p y : rxso3 ℝ) (h : eps < (RxSO3Log eps X).phi.norm)
    (hs : Real.sin (1 / 2 * (RxSO3Log eps X).phi.norm) ≠ 0)
    (hy : (rxso3Jl eps (RxSO3Log eps X)).mulVec y.toList = p.toList) : y.toList = RxSO3Jinvp eps X p := by
  rw [RxSO3_Jinvp_eq, ← hy]
  unfold rxso3Jl rxso3JlInv rxso3.toList
  rw [block31_mulVec, block31_mulVec, ← Mat3.mul_mulVec, so3JlInv_mul_so3Jl eps h0 _ h hs, Mat3.one_mulVec]

/-- `Jinvp` solves `Jl(Log X)·y = p` and is the only solution — for EVERY valid `X` whose rotation angle exceeds `eps` (the guard of the
code's closed-form branch): the side condition `sin(θ/2) ≠ 0` of `SO3_Jinvp_spec` holds automatically because `θ = ‖Log X‖ ≤ π`. -/
theorem SO3_Jinvp_spec_valid (eps : ℝ) (h0 : 0 ≤ eps) (he : eps ≤ 1 / 2) (X : Quat ℝ) (hX : SO3.Valid X) (p : Vec3 ℝ)
    (h : eps < (SO3Log eps X).norm) :
    (so3Jl eps (SO3Log eps X)).mulVec (SO3Jinvp eps X p) = p ∧
      ∀ y, (so3Jl eps (SO3Log eps X)).mulVec y = p → y = SO3Jinvp eps X p :=
  ⟨SO3_Jinvp_spec eps h0 X p h (SO3Log_sin_half_ne_zero eps X hX h0 he h),
   fun y hy => SO3_Jinvp_unique eps h0 X p y h (SO3Log_sin_half_ne_zero eps X hX h0 he h) hy⟩
theorem SE3_Jinvp_spec_valid (eps : ℝ) (h0 : 0 ≤ eps) (he : eps ≤ 1 / 2) (X : SE3 ℝ) (hX : SE3.Valid X) (p : se3 ℝ)
    (h : eps < (SE3Log eps X).phi.norm) :
    (se3Jl eps (SE3Log eps X)).mulVec (SE3Jinvp eps X p) = p.toList ∧
      ∀ y : se3 ℝ, (se3Jl eps (SE3Log eps X)).mulVec y.toList = p.toList → y.toList = SE3Jinvp eps X p :=
  ⟨SE3_Jinvp_spec eps h0 X p h (SO3Log_sin_half_ne_zero eps X.q hX h0 he h),
   fun y hy => SE3_Jinvp_unique eps h0 X p y h (SO3Log_sin_half_ne_zero eps X.q hX h0 he h) hy⟩
theorem RxSO3_Jinvp_spec_valid (eps : ℝ) (h0 : 0 ≤ eps) (he : eps ≤ 1 / 2) (X : RxSO3 ℝ) (hX : RxSO3.Valid X) (p : rxso3 ℝ)
    (h : eps < (RxSO3Log eps X).phi.norm) :
    (rxso3Jl eps (RxSO3Log eps X)).mulVec (RxSO3Jinvp eps X p) = p.toList :=
  RxSO3_Jinvp_spec eps h0 X p h (SO3Log_sin_half_ne_zero eps X.q hX.1 h0 he h)

theorem RxSO3_Jinvp_unique_valid (eps : ℝ) (h0 : 0 ≤ eps) (he : eps ≤ 1 / 2) (X : RxSO3 ℝ) (hX : RxSO3.Valid X) (p y : rxso3 ℝ)
    (h : eps < (RxSO3Log eps X).phi.norm)
    (hy : (rxso3Jl eps (RxSO3Log eps X)).mulVec y.toList = p.toList) : y.toList = RxSO3Jinvp eps X p :=
  RxSO3_Jinvp_unique eps h0 X p y h (SO3Log_sin_half_ne_zero eps X.q hX.1 h0 he h) hy


/-- the scale component passes through `Jinvp` unchanged for RxSO3 -/
theorem RxSO3_Jinvp_sigma (eps : ℝ) (X : RxSO3 ℝ) (p : rxso3 ℝ) :
    (RxSO3Jinvp eps X p).getD 3 0 = p.sigma := by
  rw [RxSO3_Jinvp_eq]; unfold rxso3JlInv rxso3.toList; rw [block31_mulVec]; simp [Vec3.toList]

/-- the hypotheses of `SO3_Jinvp_spec`/`SO3_Jinvp_unique`/`SO3_Jinvp_first_order` hold at the float64 MACHINE epsilon `eps = 2⁻⁵²`
(the value the code uses) for `X = (0.6,0,0,0.8)` (rotation by `2·atan(3/4)` about `x`). -/
example : let eps : ℝ := (2 : ℝ)⁻¹ ^ 52
    0 < eps ∧ eps ≤ 1 / 2 ∧ SO3.Valid (⟨0.6, 0, 0, 0.8⟩ : Quat ℝ) ∧
    eps < (⟨0.6, 0, 0, 0.8⟩ : Quat ℝ).vec.norm ∧ eps < |(⟨0.6, 0, 0, 0.8⟩ : Quat ℝ).w| ∧
    eps < (SO3Log eps (⟨0.6, 0, 0, 0.8⟩ : Quat ℝ)).norm ∧
    Real.sin (1 / 2 * (SO3Log eps (⟨0.6, 0, 0, 0.8⟩ : Quat ℝ)).norm) ≠ 0 := by
  intro eps
  have hat : 0 < Real.arctan (3 / 4) := Real.arctan_pos.mpr (by norm_num)
  have hlt : Real.arctan (3 / 4) < Real.pi / 2 := Real.arctan_lt_pi_div_two _
  have e0 : 0 < eps := by positivity
  have e1 : eps ≤ 1 / 2 := by
    have : (2 : ℝ)⁻¹ ^ 52 ≤ (2 : ℝ)⁻¹ ^ 1 := pow_le_pow_of_le_one (by norm_num) (by norm_num) (by norm_num)
    simpa [eps] using (by linarith : (2 : ℝ)⁻¹ ^ 52 ≤ 1 / 2)
  have hv : (⟨0.6, 0, 0, 0.8⟩ : Quat ℝ).vec.norm = 3 / 5 := by
    unfold Vec3.norm
    rw [show (⟨0.6, 0, 0, 0.8⟩ : Quat ℝ).vec.normSq = (3 / 5) ^ 2 by lie_unfold; norm_num]
    rw [sqrt_real, Real.sqrt_sq (by norm_num)]
  have c1 : eps < 3 / 5 := by linarith
  have c2 : eps < |(0.8 : ℝ)| := by rw [abs_of_pos (by norm_num)]; linarith
  have hlog : SO3Log eps (⟨0.6, 0, 0, 0.8⟩ : Quat ℝ) = ⟨2 * Real.arctan (3 / 4), 0, 0⟩ := by
    unfold SO3Log so3LogFactor
    rw [hv]
    simp only [lt_real, sabs_real, c1, c2, decide_true, if_true, atan_real, k_real, Nat.cast_ofNat]
    ext <;> lie_unfold <;> norm_num
  have hn : (SO3Log eps (⟨0.6, 0, 0, 0.8⟩ : Quat ℝ)).norm = 2 * Real.arctan (3 / 4) := by
    rw [hlog]; unfold Vec3.norm
    rw [show (⟨2 * Real.arctan (3 / 4), 0, 0⟩ : Vec3 ℝ).normSq = (2 * Real.arctan (3 / 4)) ^ 2 by lie_unfold; ring]
    rw [sqrt_real, Real.sqrt_sq (by linarith)]
  have hq : (1 : ℝ) / 4 < Real.arctan (3 / 4) := by
    have ht : Real.tan (1 / 4) < 3 / 4 := by
      have hc : 0 < Real.cos (1 / 4) :=
        Real.cos_pos_of_mem_Ioo ⟨by linarith [Real.pi_pos], by linarith [Real.pi_gt_three]⟩
      rw [Real.tan_eq_sin_div_cos, div_lt_iff₀ hc]
      have hs : Real.sin (1 / 4) < 1 / 4 := Real.sin_lt (by norm_num)
      have hc2 : 1 - (1 / 4 : ℝ) ^ 2 / 2 ≤ Real.cos (1 / 4) := Real.one_sub_sq_div_two_le_cos
      nlinarith
    have := Real.arctan_strictMono ht
    rwa [Real.arctan_tan (by linarith [Real.pi_pos]) (by linarith [Real.pi_gt_three])] at this
  refine ⟨e0, e1, by unfold SO3.Valid; lie_unfold; norm_num, by rw [hv]; exact c1, c2, by rw [hn]; linarith, ?_⟩
  rw [hn]
  apply ne_of_gt
  apply Real.sin_pos_of_pos_of_lt_pi <;> nlinarith [Real.pi_pos]

/-! ## `calcQ`: the two coefficient branches agree at the switch -/

/-- `calcQ` is affine in its coefficients: the two branches differ by the coefficient differences times the fixed matrices -/
theorem calcQWith_sub (c c' : ℝ × ℝ × ℝ) (x : se3 ℝ) :
    Mat3.sub (calcQWith c x) (calcQWith c' x)
      = Mat3.add (Mat3.add (Mat3.smul (c.1 - c'.1) (calcQM1 x)) (Mat3.smul (c.2.1 - c'.2.1) (calcQM2 x)))
          (Mat3.smul (c.2.2 - c'.2.2) (calcQM3 x)) := by
  unfold calcQWith
  generalize calcQM1 x = M1; generalize calcQM2 x = M2; generalize calcQM3 x = M3
  ext <;> lie_unfold <;> ring
/-- **agreement of the two branches of `calcQ`** : for every `0 < θ ≤ 1` (in particular at the switch `θ = 0.05`, where it gives
`≤ 5.3e-14`, `5.3e-15`, `3.2e-15`) the closed-form coefficients differ from the series coefficients by at most
`θ⁶/300000`, `θ⁶/3000000`, `θ⁶/5000000`. -/
theorem calcQ_coef1_agree (th : ℝ) (h0 : 0 < th) (h1 : th ≤ 1) :
    |(calcQClosed th).1 - (calcQSeries th).1| ≤ th ^ 6 / 300000 := by
  have hr := sin_rem th h0 h1
  set r := Real.sin th - (th - th ^ 3 / 6 + th ^ 5 / 120 - th ^ 7 / 5040 + th ^ 9 / 362880) with hrd
  have hne : th ≠ 0 := ne_of_gt h0
  have e : (calcQClosed th).1 - (calcQSeries th).1 = -(th ^ 6 / 362880) - r / th ^ 3 := by
    simp only [calcQClosed, calcQSeries, hrd]; field_simp; ring
  rw [e]
  have hb : |r / th ^ 3| ≤ th ^ 8 * (12 / 439084800) := by
    rw [abs_div, abs_of_pos (pow_pos h0 3), div_le_iff₀ (pow_pos h0 3)]
    calc |r| ≤ th ^ 11 * (12 / 439084800) := hr
      _ = th ^ 8 * (12 / 439084800) * th ^ 3 := by ring
  have h8 : th ^ 8 ≤ th ^ 6 := pow_le_of_le_one' th h0 h1 2
  have h6 : 0 ≤ th ^ 6 := by positivity
  have habs : |-(th ^ 6 / 362880) - r / th ^ 3| ≤ th ^ 6 / 362880 + |r / th ^ 3| := by
    calc |-(th ^ 6 / 362880) - r / th ^ 3| ≤ |-(th ^ 6 / 362880)| + |r / th ^ 3| := abs_sub _ _
      _ = th ^ 6 / 362880 + |r / th ^ 3| := by rw [abs_neg, abs_of_nonneg (by positivity)]
  linarith

theorem calcQ_coef2_agree (th : ℝ) (h0 : 0 < th) (h1 : th ≤ 1) :
    |(calcQClosed th).2.1 - (calcQSeries th).2.1| ≤ th ^ 6 / 3000000 := by
  have hr := cos_rem th h0 h1
  set r := Real.cos th - (1 - th ^ 2 / 2 + th ^ 4 / 24 - th ^ 6 / 720 + th ^ 8 / 40320) with hrd
  have hne : th ≠ 0 := ne_of_gt h0
  have e : (calcQClosed th).2.1 - (calcQSeries th).2.1 = r / th ^ 4 := by
    simp only [calcQClosed, calcQSeries, hrd]; field_simp; ring
  rw [e, abs_div, abs_of_pos (pow_pos h0 4), div_le_iff₀ (pow_pos h0 4)]
  calc |r| ≤ th ^ 10 * (11 / 36288000) := hr
    _ = th ^ 6 * (11 / 36288000) * th ^ 4 := by ring
    _ ≤ th ^ 6 / 3000000 * th ^ 4 := by
        have : 0 ≤ th ^ 6 * th ^ 4 := by positivity
        nlinarith

theorem calcQ_coef3_agree (th : ℝ) (h0 : 0 < th) (h1 : th ≤ 1) :
    |(calcQClosed th).2.2 - (calcQSeries th).2.2| ≤ th ^ 6 / 5000000 := by
  have hs := sin_rem th h0 h1
  have hc := cos_rem th h0 h1
  set rs := Real.sin th - (th - th ^ 3 / 6 + th ^ 5 / 120 - th ^ 7 / 5040 + th ^ 9 / 362880) with hsd
  set rc := Real.cos th - (1 - th ^ 2 / 2 + th ^ 4 / 24 - th ^ 6 / 720 + th ^ 8 / 40320) with hcd
  have hne : th ≠ 0 := ne_of_gt h0
  have e : (calcQClosed th).2.2 - (calcQSeries th).2.2 = (-3 * rs + th * rc) / (2 * th ^ 5) := by
    simp only [calcQClosed, calcQSeries, hsd, hcd]; field_simp; ring
  rw [e, abs_div, abs_of_pos (by positivity : (0:ℝ) < 2 * th ^ 5), div_le_iff₀ (by positivity)]
  have h1' : |-3 * rs + th * rc| ≤ 3 * |rs| + th * |rc| := by
    calc |-3 * rs + th * rc| ≤ |-3 * rs| + |th * rc| := abs_add_le _ _
      _ = 3 * |rs| + th * |rc| := by rw [abs_mul, abs_mul, abs_of_pos h0]; norm_num
  have h11 : th ^ 11 ≤ th ^ 11 := le_refl _
  have hp : 0 ≤ th ^ 11 := by positivity
  calc |-3 * rs + th * rc| ≤ 3 * |rs| + th * |rc| := h1'
    _ ≤ 3 * (th ^ 11 * (12 / 439084800)) + th * (th ^ 10 * (11 / 36288000)) := by
        have := mul_le_mul_of_nonneg_left hc (le_of_lt h0)
        linarith
    _ = th ^ 11 * (3 * (12 / 439084800) + 11 / 36288000) := by ring
    _ ≤ th ^ 6 / 5000000 * (2 * th ^ 5) := by
        have : th ^ 6 / 5000000 * (2 * th ^ 5) = th ^ 11 * (2 / 5000000) := by ring
        rw [this]; nlinarith

/-! ## Sim3 `Jinvp`: remainder of the truncated Bernoulli series (and of the truncated `sim3_Jl`) -/

section
open scoped Matrix.Norms.Operator
open PP.Bern

/-- a checkable bound of the row-sum norm of `ad ξ`: `‖ad ξ‖ ≤ |σ| + ‖φ‖₁ + ‖τ‖₁` -/
theorem norm_sim3adM_le (x : sim3 ℝ) :
    ‖sim3adM x‖ ≤ |x.sigma| + (|x.phi.x| + |x.phi.y| + |x.phi.z|) + (|x.tau.x| + |x.tau.y| + |x.tau.z|) := norm_sim3ad_le x

/-- **Sim3 `Jinvp`: the documented truncation as a theorem.**  With the row-sum operator norm, for every `ξ` with `‖ad ξ‖ ≤ 1` the
matrix the code multiplies by (`sim3_Jl_inv ξ = 1 − ad/2 + ad²/12 − ad⁴/720`) is a left inverse of the exact left Jacobian
`J_l(ξ) = Σ adⁿ/(n+1)!` up to `‖ad ξ‖⁶/7500` … -/
theorem sim3JlInv_truncation_bound (x : sim3 ℝ) (h : ‖sim3adM x‖ ≤ 1) :
    ‖DMat.toM 7 (sim3JlInv x) * JlSeries (sim3adM x) - 1‖ ≤ ‖sim3adM x‖ ^ 6 / 7500 := by
  rw [toM_sim3JlInv]; exact bernTrunc_mul_JlSeries (sim3adM x) h

/-- … and `J_l(ξ)` is invertible with `‖sim3_Jl_inv ξ − J_l(ξ)⁻¹‖ ≤ ‖ad ξ‖⁶/4700`: the distance of `Jinvp` from the exact
"inverse left Jacobian at Log X applied to p" is at most `‖ad ξ‖⁶/4700 · ‖p‖∞`. -/
theorem sim3JlInv_inverse_distance (x : sim3 ℝ) (h : ‖sim3adM x‖ ≤ 1) :
    ∃ J : Matrix (Fin 7) (Fin 7) ℝ, J * JlSeries (sim3adM x) = 1 ∧ JlSeries (sim3adM x) * J = 1 ∧
      ‖DMat.toM 7 (sim3JlInv x) - J‖ ≤ ‖sim3adM x‖ ^ 6 / 4700 := by
  rw [toM_sim3JlInv]; exact bernTrunc_sub_inverse (sim3adM x) h

/-- non-vacuity: `ξ = (τ; φ; σ) = (0.1, 0, 0.2; 0.1, −0.1, 0; 0.3)` has `‖ad ξ‖ ≤ 0.8 ≤ 1` -/
example : ‖sim3adM ⟨⟨0.1, 0, 0.2⟩, ⟨0.1, -0.1, 0⟩, 0.3⟩‖ ≤ 1 := by
  refine le_trans (norm_sim3adM_le _) ?_
  norm_num [abs_of_pos, abs_of_neg]
end

/-! ## Jr -/

/-- `Jr(x) = Jl(−x)` on the closed-form branch -/
theorem so3Jr_eq_Jl_neg (eps : ℝ) (x : Vec3 ℝ) (h : eps < x.norm) : so3Jr eps x = so3Jl eps x.neg := by
  rw [so3Jr_closed eps x h, so3Jl_eq_polyK, Vec3.norm_neg, polyK_neg]
/-- the identity at `x = 0` — and on the whole small-angle branch `θ ≤ eps` -/
theorem so3Jr_zero (eps : ℝ) (h0 : 0 ≤ eps) : so3Jr eps (Vec3.zero : Vec3 ℝ) = Mat3.one := by
  apply so3Jr_small; rw [Vec3.norm_zero]; exact not_lt.mpr h0
theorem so3Jr_small_angle (eps : ℝ) (x : Vec3 ℝ) (h : x.norm ≤ eps) : so3Jr eps x = Mat3.one :=
  so3Jr_small eps x (not_lt.mpr h)
/-- **`Jr` on `0 < ‖x‖ ≤ eps`: what the code returns (`1`) against the defining value `Jl(−x)`** — exact defect: for every `v`
`Jl(−x)·v = Jr_code(x)·v − (1/2 − n/24)·(x×v) + (1/6 − n/120)·x×(x×v)`, `n = ‖x‖²`; with `cross_normSq_le` and `so3Jr_taylor_coef_bounds` the two
defect vectors have norms `≤ ‖x‖‖v‖/2` and `≤ ‖x‖²‖v‖/6`: the clause `Jr = Jl(−x)` fails on this branch by at most `eps/2 + eps²/6` (relative). -/
theorem so3Jr_taylor_defect_partial (eps : ℝ) (x v : Vec3 ℝ) (h : x.norm ≤ eps) :
    (so3Jl eps x.neg).mulVec v
      = ((so3Jr eps x).mulVec v).add (((x.cross v).smul (-(1 / 2 - x.normSq / 24))).add
          ((x.cross (x.cross v)).smul (1 / 6 - x.normSq / 120))) := by
  have hn : ¬ eps < x.norm := not_lt.mpr h
  rw [so3Jr_small eps x hn, so3Jl_eq_polyK, Vec3.norm_neg]
  unfold so3JlCoef
  simp only [lt_real, hn, decide_false, if_false, q_real, k_real, Nat.cast_one, Nat.cast_ofNat, Bool.false_eq_true, ← Vec3.norm_sq]
  unfold polyK; ext <;> lie_unfold <;> ring
theorem so3Jr_taylor_coef_bounds (n : ℝ) (h0 : 0 ≤ n) (h1 : n ≤ 1) :
    |-(1 / 2 - n / 24)| ≤ 1 / 2 ∧ |1 / 6 - n / 120| ≤ 1 / 6 := by
  constructor <;> (rw [abs_le]; constructor <;> linarith)
/-- size of the two defect vectors of `so3Jr_taylor_defect_partial` for `‖x‖ ≤ 1`: `‖·‖² ≤ ‖x‖²‖v‖²/4` and `≤ ‖x‖⁴‖v‖²/36` -/
theorem so3Jr_taylor_defect_size (x v : Vec3 ℝ) (h1 : x.normSq ≤ 1) :
    ((x.cross v).smul (-(1 / 2 - x.normSq / 24))).normSq ≤ x.normSq * v.normSq / 4 ∧
    ((x.cross (x.cross v)).smul (1 / 6 - x.normSq / 120)).normSq ≤ x.normSq ^ 2 * v.normSq / 36 := by
  have h0 : 0 ≤ x.normSq := Vec3.normSq_nonneg x
  have hv : 0 ≤ v.normSq := Vec3.normSq_nonneg v
  have a1 := cross_normSq_le x v
  have a2 := cross_cross_normSq_le x v
  have b1 : 0 ≤ (x.cross v).normSq := Vec3.normSq_nonneg _
  have b2 : 0 ≤ (x.cross (x.cross v)).normSq := Vec3.normSq_nonneg _
  have c1 : (-(1 / 2 - x.normSq / 24)) * (-(1 / 2 - x.normSq / 24)) ≤ 1 / 4 := by nlinarith
  have c2 : (1 / 6 - x.normSq / 120) * (1 / 6 - x.normSq / 120) ≤ 1 / 36 := by nlinarith
  rw [Vec3.normSq_smul, Vec3.normSq_smul]
  constructor
  · calc (-(1 / 2 - x.normSq / 24)) * (-(1 / 2 - x.normSq / 24)) * (x.cross v).normSq ≤ 1 / 4 * (x.cross v).normSq :=
          mul_le_mul_of_nonneg_right c1 b1
      _ ≤ x.normSq * v.normSq / 4 := by linarith
  · calc (1 / 6 - x.normSq / 120) * (1 / 6 - x.normSq / 120) * (x.cross (x.cross v)).normSq ≤ 1 / 36 * (x.cross (x.cross v)).normSq :=
          mul_le_mul_of_nonneg_right c2 b2
      _ ≤ x.normSq ^ 2 * v.normSq / 36 := by linarith
/-- `R(Exp x)·Jr(x) = Jl(x)` on the closed-form branch -/
theorem so3Exp_matrix_mul_Jr (eps : ℝ) (h0 : 0 ≤ eps) (x : Vec3 ℝ) (h : eps < x.norm) :
    (SO3matrix (so3Exp eps x)).mul (so3Jr eps x) = so3Jl eps x := by
  obtain ⟨e1, e2⟩ := so3_coef_closed eps x.norm h0 h
  have hpos : 0 < x.norm := lt_of_le_of_lt h0 h
  have hne : x.norm ≠ 0 := ne_of_gt hpos
  rw [SO3matrix_so3Exp, so3Jr_closed eps x h, so3Jl_eq_polyK, polyK_mul, ← Vec3.norm_sq]
  have a1 : 2 * (so3ExpCoef eps x.norm).2 * (so3ExpCoef eps x.norm).1 = 1 - (so3JlCoef eps x.norm).2 * (x.norm * x.norm) := by
    linarith
  have a2 : 2 * (so3ExpCoef eps x.norm).1 * (so3ExpCoef eps x.norm).1 = (so3JlCoef eps x.norm).1 := by linarith
  rw [a1, a2]
  have hsc := Real.sin_sq_add_cos_sq x.norm
  have key : (so3JlCoef eps x.norm).1 * (so3JlCoef eps x.norm).1 * (x.norm * x.norm)
      + (so3JlCoef eps x.norm).2 * (so3JlCoef eps x.norm).2 * (x.norm * x.norm) * (x.norm * x.norm)
      = 2 * (so3JlCoef eps x.norm).1 + 2 * (so3JlCoef eps x.norm).2 * (x.norm * x.norm) - 1 := by
    unfold so3JlCoef
    simp only [lt_real, h, decide_true, if_true, sin_real, cos_real, k_real, Nat.cast_one]
    field_simp
    linear_combination (1 : ℝ) * hsc
  congr 1
  · ring
  · linear_combination (1 : ℝ) * key
  · ring


/-! ## Jr as the derivative of Exp (stretch goal of the design, proved) -/

/-- **Jr is the right Jacobian of `Exp`** (closed-form branch): `d/dt [Exp(x)⁻¹·Exp(x + t d)]_{t=0} = (½·Jr(x) d, 0)`, i.e.
`Exp(x + t d) = Exp(x)·Exp(t·Jr(x) d + o(t))` (to first order `Exp(δ) = (δ/2, 1)`). -/
theorem so3Jr_hasDerivAt (eps : ℝ) (h0 : 0 ≤ eps) (x d : Vec3 ℝ) (h : eps < x.norm) :
    HasDerivAt (fun t : ℝ => ((so3Exp eps x).conj.mul (so3Exp eps (x.add (d.smul t)))).x)
      (1 / 2 * ((so3Jr eps x).mulVec d).x) 0 ∧
    HasDerivAt (fun t : ℝ => ((so3Exp eps x).conj.mul (so3Exp eps (x.add (d.smul t)))).y)
      (1 / 2 * ((so3Jr eps x).mulVec d).y) 0 ∧
    HasDerivAt (fun t : ℝ => ((so3Exp eps x).conj.mul (so3Exp eps (x.add (d.smul t)))).z)
      (1 / 2 * ((so3Jr eps x).mulVec d).z) 0 ∧
    HasDerivAt (fun t : ℝ => ((so3Exp eps x).conj.mul (so3Exp eps (x.add (d.smul t)))).w) 0 0 := by
  have hpos : 0 < x.norm := lt_of_le_of_lt h0 h
  have hne : x.norm ≠ 0 := ne_of_gt hpos
  have hev := line_eventually eps x d hpos h
  have hn : x.norm * x.norm = x.x * x.x + x.y * x.y + x.z * x.z := Vec3.norm_sq x
  have hsc := Real.sin_sq_add_cos_sq (1 / 2 * x.norm)
  refine ⟨?_, ?_, ?_, ?_⟩
  · have H := comp_hasDerivAt x d hpos (-(x.x * (Real.sin (1 / 2 * x.norm) / x.norm))) (Real.cos (1 / 2 * x.norm))
      (x.z * (Real.sin (1 / 2 * x.norm) / x.norm)) (-(x.y * (Real.sin (1 / 2 * x.norm) / x.norm)))
    refine (H.congr_of_eventuallyEq ?_).congr_deriv ?_
    · filter_upwards [hev] with t ht
      rw [so3Exp_closed eps x h, so3Exp_closed eps _ ht]
      lie_unfold; ring
    · rw [so3Jr_closed eps x h, polyK_mulVec]
      unfold so3JlCoef
      simp only [lt_real, h, decide_true, if_true, sin_real, cos_real, k_real, Nat.cast_one]
      rw [sin_eq_half x.norm, cos_eq_half x.norm]
      lie_unfold
      clear H hev
      generalize Real.sin (1 / 2 * x.norm) = S at *
      generalize Real.cos (1 / 2 * x.norm) = C at *
      generalize x.norm = th at *
      field_simp
      linear_combination (th ^ 2 * x.x * (x.x * d.x + x.y * d.y + x.z * d.z)) * hsc + (d.x * th * (2 * C * S - th)) * hn
  · have H := comp_hasDerivAt x d hpos (-(x.y * (Real.sin (1 / 2 * x.norm) / x.norm))) (-(x.z * (Real.sin (1 / 2 * x.norm) / x.norm)))
      (Real.cos (1 / 2 * x.norm)) (x.x * (Real.sin (1 / 2 * x.norm) / x.norm))
    refine (H.congr_of_eventuallyEq ?_).congr_deriv ?_
    · filter_upwards [hev] with t ht
      rw [so3Exp_closed eps x h, so3Exp_closed eps _ ht]
      lie_unfold; ring
    · rw [so3Jr_closed eps x h, polyK_mulVec]
      unfold so3JlCoef
      simp only [lt_real, h, decide_true, if_true, sin_real, cos_real, k_real, Nat.cast_one]
      rw [sin_eq_half x.norm, cos_eq_half x.norm]
      lie_unfold
      clear H hev
      generalize Real.sin (1 / 2 * x.norm) = S at *
      generalize Real.cos (1 / 2 * x.norm) = C at *
      generalize x.norm = th at *
      field_simp
      linear_combination (th ^ 2 * x.y * (x.x * d.x + x.y * d.y + x.z * d.z)) * hsc + (d.y * th * (2 * C * S - th)) * hn
  · have H := comp_hasDerivAt x d hpos (-(x.z * (Real.sin (1 / 2 * x.norm) / x.norm))) (x.y * (Real.sin (1 / 2 * x.norm) / x.norm))
      (-(x.x * (Real.sin (1 / 2 * x.norm) / x.norm))) (Real.cos (1 / 2 * x.norm))
    refine (H.congr_of_eventuallyEq ?_).congr_deriv ?_
    · filter_upwards [hev] with t ht
      rw [so3Exp_closed eps x h, so3Exp_closed eps _ ht]
      lie_unfold; ring
    · rw [so3Jr_closed eps x h, polyK_mulVec]
      unfold so3JlCoef
      simp only [lt_real, h, decide_true, if_true, sin_real, cos_real, k_real, Nat.cast_one]
      rw [sin_eq_half x.norm, cos_eq_half x.norm]
      lie_unfold
      clear H hev
      generalize Real.sin (1 / 2 * x.norm) = S at *
      generalize Real.cos (1 / 2 * x.norm) = C at *
      generalize x.norm = th at *
      field_simp
      linear_combination (th ^ 2 * x.z * (x.x * d.x + x.y * d.y + x.z * d.z)) * hsc + (d.z * th * (2 * C * S - th)) * hn
  · have H := comp_hasDerivAt x d hpos (Real.cos (1 / 2 * x.norm)) (x.x * (Real.sin (1 / 2 * x.norm) / x.norm))
      (x.y * (Real.sin (1 / 2 * x.norm) / x.norm)) (x.z * (Real.sin (1 / 2 * x.norm) / x.norm))
    refine (H.congr_of_eventuallyEq ?_).congr_deriv ?_
    · filter_upwards [hev] with t ht
      rw [so3Exp_closed eps x h, so3Exp_closed eps _ ht]
      lie_unfold; ring
    · lie_unfold
      clear H hev
      generalize Real.sin (1 / 2 * x.norm) = S at *
      generalize Real.cos (1 / 2 * x.norm) = C at *
      generalize x.norm = th at *
      field_simp
      linear_combination (-S * (x.x * d.x + x.y * d.y + x.z * d.z) * (C * th - 2 * S)) * hn

/-- at `x = 0` (where `Jr = 1`): `d/dt Exp(t d)|₀ = (d/2, 0)` — through the small-angle Taylor branch (`eps > 0`) -/
theorem so3Exp_hasDerivAt_zero (eps : ℝ) (hpos : 0 < eps) (d : Vec3 ℝ) :
    HasDerivAt (fun t : ℝ => (so3Exp eps (d.smul t)).x) (1 / 2 * d.x) 0 ∧
    HasDerivAt (fun t : ℝ => (so3Exp eps (d.smul t)).y) (1 / 2 * d.y) 0 ∧
    HasDerivAt (fun t : ℝ => (so3Exp eps (d.smul t)).z) (1 / 2 * d.z) 0 ∧
    HasDerivAt (fun t : ℝ => (so3Exp eps (d.smul t)).w) 0 0 := by
  have hev : ∀ᶠ t in nhds (0 : ℝ), ¬ eps < (d.smul t).norm := by
    have hc := (smul_norm_continuous d).continuousAt (x := 0)
    have h0 : (fun t : ℝ => (d.smul t).norm) 0 < eps := by
      have : (d.smul (0 : ℝ)).norm = 0 := by
        unfold Vec3.norm; simp only [sqrt_real]
        rw [show (d.smul (0 : ℝ)).normSq = 0 by lie_unfold; ring]; simp
      simpa [this] using hpos
    filter_upwards [hc.eventually (gt_mem_nhds h0)] with t ht
    exact not_lt.mpr (le_of_lt ht)
  have hid := hasDerivAt_id (0 : ℝ)
  -- polynomial model of the Taylor branch: n = ‖d‖²
  have key : ∀ c : ℝ, HasDerivAt (fun t : ℝ => (t * c) * (1 / 2 - 1 / 48 * (t * t * d.normSq)
      + 1 / 3840 * ((t * t * d.normSq) * (t * t * d.normSq)))) (1 / 2 * c) 0 := by
    intro c
    have hN : HasDerivAt (fun t : ℝ => t * t * d.normSq) 0 0 := by
      have := (hid.mul hid).mul_const d.normSq
      refine HasDerivAt.congr_deriv this ?_
      simp
    have h1 := ((hasDerivAt_const (0 : ℝ) (1 / 2 : ℝ)).sub (hN.const_mul (1 / 48 : ℝ))).add
      ((hN.mul hN).const_mul (1 / 3840 : ℝ))
    have := (hid.mul_const c).mul h1
    refine HasDerivAt.congr_deriv this ?_
    simp
    ring
  have keyw : HasDerivAt (fun t : ℝ => 1 - 1 / 8 * (t * t * d.normSq)
      + 1 / 384 * ((t * t * d.normSq) * (t * t * d.normSq))) 0 0 := by
    have hN : HasDerivAt (fun t : ℝ => t * t * d.normSq) 0 0 := by
      have := (hid.mul hid).mul_const d.normSq
      refine HasDerivAt.congr_deriv this ?_
      simp
    have h1 := ((hasDerivAt_const (0 : ℝ) (1 : ℝ)).sub (hN.const_mul (1 / 8 : ℝ))).add
      ((hN.mul hN).const_mul (1 / 384 : ℝ))
    refine HasDerivAt.congr_deriv h1 ?_
    simp
  have hform : ∀ t : ℝ, ¬ eps < (d.smul t).norm →
      so3Exp eps (d.smul t) = Quat.mk' ((d.smul t).smul (1 / 2 - 1 / 48 * (t * t * d.normSq)
        + 1 / 3840 * ((t * t * d.normSq) * (t * t * d.normSq))))
        (1 - 1 / 8 * (t * t * d.normSq) + 1 / 384 * ((t * t * d.normSq) * (t * t * d.normSq))) := by
    intro t ht
    rw [so3Exp_eq_coef]; unfold so3ExpCoef; rw [if_neg ht]
    have e : (d.smul t).norm * (d.smul t).norm = t * t * d.normSq := by
      rw [Vec3.norm_sq]; lie_unfold; ring
    simp only [e]
  refine ⟨?_, ?_, ?_, ?_⟩
  · refine (key d.x).congr_of_eventuallyEq ?_
    filter_upwards [hev] with t ht
    rw [hform t ht]; lie_unfold; try ring
  · refine (key d.y).congr_of_eventuallyEq ?_
    filter_upwards [hev] with t ht
    rw [hform t ht]; lie_unfold; try ring
  · refine (key d.z).congr_of_eventuallyEq ?_
    filter_upwards [hev] with t ht
    rw [hform t ht]; lie_unfold; try ring
  · refine keyw.congr_of_eventuallyEq ?_
    filter_upwards [hev] with t ht
    rw [hform t ht]; lie_unfold; try ring

/-- `Exp(−y) = Exp(y)⁻¹` (conjugate), both branches -/
theorem so3Exp_neg (eps : ℝ) (y : Vec3 ℝ) : so3Exp eps y.neg = (so3Exp eps y).conj := by
  rw [so3Exp_eq_coef, so3Exp_eq_coef, Vec3.norm_neg]
  ext <;> lie_unfold <;> ring

/-- **Jl is the left Jacobian of `Exp`** (closed-form branch): `d/dt [Exp(x + t d)·Exp(x)⁻¹]_{t=0} = (½·Jl(x) d, 0)`;
so `Jinvp(X,·) = Jl(Log X)⁻¹` maps a left perturbation of `X = Exp x` back to the change of `x` (first order). -/
theorem so3Jl_hasDerivAt (eps : ℝ) (h0 : 0 ≤ eps) (x d : Vec3 ℝ) (h : eps < x.norm) :
    HasDerivAt (fun t : ℝ => ((so3Exp eps (x.add (d.smul t))).mul (so3Exp eps x).conj).x)
      (1 / 2 * ((so3Jl eps x).mulVec d).x) 0 ∧
    HasDerivAt (fun t : ℝ => ((so3Exp eps (x.add (d.smul t))).mul (so3Exp eps x).conj).y)
      (1 / 2 * ((so3Jl eps x).mulVec d).y) 0 ∧
    HasDerivAt (fun t : ℝ => ((so3Exp eps (x.add (d.smul t))).mul (so3Exp eps x).conj).z)
      (1 / 2 * ((so3Jl eps x).mulVec d).z) 0 ∧
    HasDerivAt (fun t : ℝ => ((so3Exp eps (x.add (d.smul t))).mul (so3Exp eps x).conj).w) 0 0 := by
  have hn : eps < x.neg.norm := by rw [Vec3.norm_neg]; exact h
  obtain ⟨hx, hy, hz, hw⟩ := so3Jr_hasDerivAt eps h0 x.neg d.neg hn
  have key : ∀ t : ℝ, (so3Exp eps (x.add (d.smul t))).mul (so3Exp eps x).conj
      = ((so3Exp eps x.neg).conj.mul (so3Exp eps (x.neg.add (d.neg.smul t)))).conj := by
    intro t
    have e : x.neg.add (d.neg.smul t) = (x.add (d.smul t)).neg := by ext <;> lie_unfold <;> ring
    rw [e, so3Exp_neg, so3Exp_neg, Quat.conj_mul_rev, Quat.conj_conj, Quat.conj_conj]
  have hJ : so3Jr eps x.neg = so3Jl eps x := by
    rw [so3Jr_eq_Jl_neg eps x.neg hn]; congr 1; ext <;> lie_unfold <;> ring
  have hv : ∀ m : Mat3 ℝ, m.mulVec d.neg = (m.mulVec d).neg := fun m => Mat3.mulVec_neg m d
  rw [hJ, hv] at hx hy hz
  refine ⟨?_, ?_, ?_, ?_⟩
  · have := hx.neg
    simp only [key]
    refine HasDerivAt.congr_deriv (f' := -(1 / 2 * ((so3Jl eps x).mulVec d).neg.x)) ?_ ?_
    · exact this
    · lie_unfold; ring
  · have := hy.neg
    simp only [key]
    refine HasDerivAt.congr_deriv (f' := -(1 / 2 * ((so3Jl eps x).mulVec d).neg.y)) ?_ ?_
    · exact this
    · lie_unfold; ring
  · have := hz.neg
    simp only [key]
    refine HasDerivAt.congr_deriv (f' := -(1 / 2 * ((so3Jl eps x).mulVec d).neg.z)) ?_ ?_
    · exact this
    · lie_unfold; ring
  · simp only [key]
    exact hw

/-! ## matrix level: `matrix(X)·exp(â) = exp((Adj X a)^)·matrix(X)` -/
theorem SO3_hat_Adj (X : Quat ℝ) (hX : SO3.Valid X) (a : Vec3 ℝ) :
    (SO3matrix X).toMatrix * so3hat a = so3hat (SO3AdjXa X a) * (SO3matrix X).toMatrix := by
  unfold so3hat SO3AdjXa
  rw [SO3Mat_mulVec X hX, ← Mat3.toMatrix_mul, ← Mat3.toMatrix_mul, hat_act_mul X hX]

open scoped Matrix.Norms.Operator in
/-- `matrix(X)·exp(â) = exp((Adj X a)^)·matrix(X)` with Mathlib's matrix exponential: for EVERY `a` (no branch) -/
theorem SO3_exp_Adj (X : Quat ℝ) (hX : SO3.Valid X) (a : Vec3 ℝ) :
    (SO3matrix X).toMatrix * NormedSpace.exp (so3hat a)
      = NormedSpace.exp (so3hat (SO3AdjXa X a)) * (SO3matrix X).toMatrix :=
  (SemiconjBy.exp_right (show SemiconjBy (SO3matrix X).toMatrix (so3hat a) (so3hat (SO3AdjXa X a)) from
    SO3_hat_Adj X hX a)).eq


theorem SE3_hat_Adj (X : SE3 ℝ) (hX : SE3.Valid X) (a : se3 ℝ) :
    (SE3matrix X).toMatrix4 * se3hat a = se3hat (se3.ofList (SE3AdjXa X a)) * (SE3matrix X).toMatrix4 :=
  SE3_hat_Adj_aux X hX a
theorem RxSO3_hat_Adj (X : RxSO3 ℝ) (hX : RxSO3.Valid X) (a : rxso3 ℝ) :
    (RxSO3matrix X).toMatrix4 * rxso3hat a = rxso3hat (rxso3.ofList (RxSO3AdjXa X a)) * (RxSO3matrix X).toMatrix4 :=
  RxSO3_hat_Adj_aux X hX a
theorem Sim3_hat_Adj (X : Sim3 ℝ) (hX : Sim3.Valid X) (a : sim3 ℝ) :
    (Sim3matrix X).toMatrix4 * sim3hat a = sim3hat (sim3.ofList (Sim3AdjXa X a)) * (Sim3matrix X).toMatrix4 :=
  Sim3_hat_Adj_aux X hX a

section
open scoped Matrix.Norms.Operator
/-- `matrix(X)·exp(â) = exp((Adj X a)^)·matrix(X)` with Mathlib's matrix exponential: for EVERY tangent vector (no small-angle
branch, no regime) — together with C01 (`matrix(Exp a) = exp â`) this is the adjoint identity at matrix level. -/
theorem SE3_exp_Adj (X : SE3 ℝ) (hX : SE3.Valid X) (a : se3 ℝ) :
    (SE3matrix X).toMatrix4 * NormedSpace.exp (se3hat a)
      = NormedSpace.exp (se3hat (se3.ofList (SE3AdjXa X a))) * (SE3matrix X).toMatrix4 :=
  (SemiconjBy.exp_right (show SemiconjBy _ _ _ from SE3_hat_Adj X hX a)).eq
theorem RxSO3_exp_Adj (X : RxSO3 ℝ) (hX : RxSO3.Valid X) (a : rxso3 ℝ) :
    (RxSO3matrix X).toMatrix4 * NormedSpace.exp (rxso3hat a)
      = NormedSpace.exp (rxso3hat (rxso3.ofList (RxSO3AdjXa X a))) * (RxSO3matrix X).toMatrix4 :=
  (SemiconjBy.exp_right (show SemiconjBy _ _ _ from RxSO3_hat_Adj X hX a)).eq
theorem Sim3_exp_Adj (X : Sim3 ℝ) (hX : Sim3.Valid X) (a : sim3 ℝ) :
    (Sim3matrix X).toMatrix4 * NormedSpace.exp (sim3hat a)
      = NormedSpace.exp (sim3hat (sim3.ofList (Sim3AdjXa X a))) * (Sim3matrix X).toMatrix4 :=
  (SemiconjBy.exp_right (show SemiconjBy _ _ _ from Sim3_hat_Adj X hX a)).eq
end


/-! ## AdjT at matrix level

`AdjT X a = Adj X⁻¹ a` in the code, so the matrix-level statements are those of `Adj` at `Inv X`: `matrix(X⁻¹)·â = (AdjT X a)^·matrix(X⁻¹)`
and the same through Mathlib's `NormedSpace.exp` of the hat matrices.  NB (as for `*_hat_Adj`/`*_exp_Adj`): `exp` here is the analytic
matrix exponential of `â`, NOT the model's coded `Exp` (whose Taylor branches differ from it; C01 bounds that difference). -/
theorem SO3_hat_AdjT (X : Quat ℝ) (hX : SO3.Valid X) (a : Vec3 ℝ) :
    (SO3matrix X.conj).toMatrix * so3hat a = so3hat (SO3AdjTXa X a) * (SO3matrix X.conj).toMatrix :=
  SO3_hat_Adj X.conj (SO3_valid_inv X hX) a
theorem SE3_hat_AdjT (X : SE3 ℝ) (hX : SE3.Valid X) (a : se3 ℝ) :
    (SE3matrix (SE3Inv X)).toMatrix4 * se3hat a = se3hat (se3.ofList (SE3AdjTXa X a)) * (SE3matrix (SE3Inv X)).toMatrix4 :=
  SE3_hat_Adj (SE3Inv X) (SE3_valid_inv X hX) a
theorem RxSO3_hat_AdjT (X : RxSO3 ℝ) (hX : RxSO3.Valid X) (a : rxso3 ℝ) :
    (RxSO3matrix (RxSO3Inv X)).toMatrix4 * rxso3hat a = rxso3hat (rxso3.ofList (RxSO3AdjTXa X a)) * (RxSO3matrix (RxSO3Inv X)).toMatrix4 :=
  RxSO3_hat_Adj (RxSO3Inv X) (RxSO3_valid_inv X hX) a
theorem Sim3_hat_AdjT (X : Sim3 ℝ) (hX : Sim3.Valid X) (a : sim3 ℝ) :
    (Sim3matrix (Sim3Inv X)).toMatrix4 * sim3hat a = sim3hat (sim3.ofList (Sim3AdjTXa X a)) * (Sim3matrix (Sim3Inv X)).toMatrix4 :=
  Sim3_hat_Adj (Sim3Inv X) (Sim3_valid_inv X hX) a
section
open scoped Matrix.Norms.Operator
theorem SO3_exp_AdjT (X : Quat ℝ) (hX : SO3.Valid X) (a : Vec3 ℝ) :
    (SO3matrix X.conj).toMatrix * NormedSpace.exp (so3hat a) = NormedSpace.exp (so3hat (SO3AdjTXa X a)) * (SO3matrix X.conj).toMatrix :=
  SO3_exp_Adj X.conj (SO3_valid_inv X hX) a
theorem SE3_exp_AdjT (X : SE3 ℝ) (hX : SE3.Valid X) (a : se3 ℝ) :
    (SE3matrix (SE3Inv X)).toMatrix4 * NormedSpace.exp (se3hat a)
      = NormedSpace.exp (se3hat (se3.ofList (SE3AdjTXa X a))) * (SE3matrix (SE3Inv X)).toMatrix4 :=
  SE3_exp_Adj (SE3Inv X) (SE3_valid_inv X hX) a
theorem RxSO3_exp_AdjT (X : RxSO3 ℝ) (hX : RxSO3.Valid X) (a : rxso3 ℝ) :
    (RxSO3matrix (RxSO3Inv X)).toMatrix4 * NormedSpace.exp (rxso3hat a)
      = NormedSpace.exp (rxso3hat (rxso3.ofList (RxSO3AdjTXa X a))) * (RxSO3matrix (RxSO3Inv X)).toMatrix4 :=
  RxSO3_exp_Adj (RxSO3Inv X) (RxSO3_valid_inv X hX) a
theorem Sim3_exp_AdjT (X : Sim3 ℝ) (hX : Sim3.Valid X) (a : sim3 ℝ) :
    (Sim3matrix (Sim3Inv X)).toMatrix4 * NormedSpace.exp (sim3hat a)
      = NormedSpace.exp (sim3hat (sim3.ofList (Sim3AdjTXa X a))) * (Sim3matrix (Sim3Inv X)).toMatrix4 :=
  Sim3_exp_Adj (Sim3Inv X) (Sim3_valid_inv X hX) a
end

/-! ## Jinvp: the small-angle branch, the identity element, and its meaning as a first-order change of `Log` -/

/-- `‖Log X‖ ≤ eps` (the code uses `coef2 = 1/12`, `Jl` its Taylor coefficients): `Jl(Log X)·Jinvp(X,p)` is not `p` but
`(1 − (n²/1440)K + (−n/720 + n²/1440)K²)·p`, `n = ‖Log X‖² ≤ eps²`, `K = (Log X)^` — exact. -/
theorem SO3_Jinvp_spec_taylor_partial (eps : ℝ) (X : Quat ℝ) (p : Vec3 ℝ) (h : ¬ eps < (SO3Log eps X).norm) :
    (so3Jl eps (SO3Log eps X)).mulVec (SO3Jinvp eps X p)
      = (polyK 1 (-((SO3Log eps X).normSq ^ 2) / 1440) (-((SO3Log eps X).normSq) / 720 + (SO3Log eps X).normSq ^ 2 / 1440)
          (SO3Log eps X)).mulVec p := by
  have hc : (so3Jl eps (SO3Log eps X)).mul (so3JlInv eps (SO3Log eps X)) = (so3JlInv eps (SO3Log eps X)).mul (so3Jl eps (SO3Log eps X)) := by
    rw [so3JlInv_eq_polyK, so3Jl_eq_polyK, polyK_mul, polyK_mul]; congr 1 <;> ring
  rw [SO3_Jinvp_eq, ← Mat3.mul_mulVec, hc, so3JlInv_mul_so3Jl_taylor eps _ h]
/-- **SE3 `Jinvp` on the Taylor branch (`‖(Log X).φ‖ ≤ eps`)**: `se3_Jl(Log X)·Jinvp(X,p)` is not `p` but
`(P·p_τ + (w − P·w) ; P·p_φ)`, `P = 1 − (n²/1440)K + (−n/720 + n²/1440)K²`, `n = ‖φ‖²`, `K = φ^`, `w = Q·JlInv·p_φ` — exact (for `n = 0`, `P = 1`
and the right-hand side is `p`). -/
theorem SE3_Jinvp_spec_taylor_partial (eps : ℝ) (X : SE3 ℝ) (p : se3 ℝ) (h : ¬ eps < (SE3Log eps X).phi.norm) :
    (se3Jl eps (SE3Log eps X)).mulVec (SE3Jinvp eps X p)
      = (((polyK 1 (-((SE3Log eps X).phi.normSq ^ 2) / 1440) (-((SE3Log eps X).phi.normSq) / 720 + (SE3Log eps X).phi.normSq ^ 2 / 1440)
            (SE3Log eps X).phi).mulVec p.tau).add
          (((calcQ eps (SE3Log eps X)).mulVec ((so3JlInv eps (SE3Log eps X).phi).mulVec p.phi)).add
            ((polyK 1 (-((SE3Log eps X).phi.normSq ^ 2) / 1440) (-((SE3Log eps X).phi.normSq) / 720 + (SE3Log eps X).phi.normSq ^ 2 / 1440)
              (SE3Log eps X).phi).mulVec ((calcQ eps (SE3Log eps X)).mulVec ((so3JlInv eps (SE3Log eps X).phi).mulVec p.phi))).neg)).toList
        ++ ((polyK 1 (-((SE3Log eps X).phi.normSq ^ 2) / 1440) (-((SE3Log eps X).phi.normSq) / 720 + (SE3Log eps X).phi.normSq ^ 2 / 1440)
            (SE3Log eps X).phi).mulVec p.phi).toList := by
  rw [SE3_Jinvp_eq]
  exact se3Jl_se3JlInv_mulVec_general eps _ p.tau p.phi _ (so3Jl_mul_so3JlInv_taylor eps _ h)
/-- non-vacuity: the identity element is on the Taylor branch for every `eps ≥ 0` (there `n = 0`, `P = 1`, and the right-hand side is `p`) -/
example (eps : ℝ) (h0 : 0 ≤ eps) : ¬ eps < (SE3Log eps (SE3one : SE3 ℝ)).phi.norm := by
  have : (SE3Log eps (SE3one : SE3 ℝ)).phi = Vec3.zero := by
    unfold SE3Log SE3one; simp only []; exact SO3Log_one eps
  rw [this, Vec3.norm_zero]; exact not_lt.mpr h0
/-- RxSO3 `Jinvp` on the Taylor branch: the rotation block carries the same defect polynomial as SO3, the scale component is exact -/
theorem RxSO3_Jinvp_spec_taylor_partial (eps : ℝ) (X : RxSO3 ℝ) (p : rxso3 ℝ) (h : ¬ eps < (RxSO3Log eps X).phi.norm) :
    (rxso3Jl eps (RxSO3Log eps X)).mulVec (RxSO3Jinvp eps X p)
      = ((polyK 1 (-((RxSO3Log eps X).phi.normSq ^ 2) / 1440) (-((RxSO3Log eps X).phi.normSq) / 720 + (RxSO3Log eps X).phi.normSq ^ 2 / 1440)
          (RxSO3Log eps X).phi).mulVec p.phi).toList ++ [p.sigma] := by
  rw [RxSO3_Jinvp_eq]
  unfold rxso3Jl rxso3JlInv rxso3.toList
  rw [block31_mulVec, block31_mulVec, ← Mat3.mul_mulVec, so3Jl_mul_so3JlInv_taylor eps _ h]
/-- size of the defect coefficients of `SO3/SE3/RxSO3_Jinvp_spec_taylor_partial` for `n = ‖Log X‖² ≤ 1`: `P = 1 + b·K + c·K²` with
`|b| ≤ n²/1440`, `|c| ≤ n/720` (so `‖P·p − p‖ ≤ (θ⁵/1440 + θ⁴/720)‖p‖` with `cross_normSq_le`) -/
theorem so3Jinvp_taylor_coef_bounds (n : ℝ) (h0 : 0 ≤ n) (h1 : n ≤ 1) :
    |-(n ^ 2) / 1440| ≤ n ^ 2 / 1440 ∧ |-n / 720 + n ^ 2 / 1440| ≤ n / 720 := by
  have n2 : 0 ≤ n ^ 2 := by positivity
  constructor
  · rw [abs_le]; constructor <;> linarith
  · rw [abs_le]; constructor <;> nlinarith
/-- at the identity element `Jinvp` is the identity map — SE3 -/
theorem SE3_Jinvp_one (eps : ℝ) (p : se3 ℝ) : SE3Jinvp eps SE3one p = p.toList := by
  have hl : SE3Log eps (SE3one : SE3 ℝ) = ⟨Vec3.zero, Vec3.zero⟩ := by
    unfold SE3Log SE3one; simp only []
    rw [SO3Log_one, so3JlInv_zero, Mat3.one_mulVec]
  rw [SE3_Jinvp_eq, hl]
  show (se3JlInv eps ⟨Vec3.zero, Vec3.zero⟩).mulVec (p.tau.toList ++ p.phi.toList) = p.tau.toList ++ p.phi.toList
  rw [se3JlInv_mulVec]
  simp only [so3JlInv_zero, calcQ_zero_phi_tau, Mat3.one_mulVec]
  congr 1
  congr 1
  ext <;> lie_unfold <;> ring
/-- … RxSO3 -/
theorem RxSO3_Jinvp_one (eps : ℝ) (p : rxso3 ℝ) : RxSO3Jinvp eps RxSO3one p = p.toList := by
  have hl : (RxSO3Log eps (RxSO3one : RxSO3 ℝ)).phi = Vec3.zero := by
    unfold RxSO3Log RxSO3one; simp only []; exact SO3Log_one eps
  rw [RxSO3_Jinvp_eq]
  unfold rxso3JlInv rxso3.toList
  rw [block31_mulVec, hl, so3JlInv_zero, Mat3.one_mulVec]
/-- … Sim3 -/
theorem Sim3_Jinvp_one (eps : ℝ) (p : sim3 ℝ) : Sim3Jinvp eps Sim3one p = p.toList := by
  rw [Sim3_Jinvp_eq, Sim3Log_one, sim3JlInv_zero]
  obtain ⟨⟨a,b,c⟩,⟨d,e,f⟩,g⟩ := p
  simp [sim3.toList, Vec3.toList, DMat.one, DMat.mulVec, DVec.basis, DVec.dot, DVec.sum, List.range, List.range.loop]

section
open AD
/-- **SE3 `Jinvp` is the first-order change of `Log(Exp(τ)@X)` in direction `p`** (closed-form regime of `SO3_Log`, rotation angle of
`Log X` above `eps` and above `calcQ`'s switch 0.05): along the left perturbation `t ↦ Exp(t·p)·X` every component of
`Log` has derivative `Jinvp(X,p)` at `t = 0`.  (The derivative of the coded `Log` is C04's `SE3Log_tangent`; this theorem is where the
`calcQ` block of `se3_Jl_inv` carries weight — `SE3_Jinvp_spec` holds for ANY matrix in its place.) -/
theorem SE3_Jinvp_first_order (eps : ℝ) (heps : 0 < eps) (X : SE3 ℝ) (hX : SE3.Valid X) (p : se3 ℝ)
    (hv : eps < X.q.vec.norm) (hw : eps < |X.q.w|) (hφ : eps < (SE3Log eps X).phi.norm)
    (hq : (5 : ℝ) / 100 < (SE3Log eps X).phi.norm) (hs : Real.sin (1 / 2 * (SE3Log eps X).phi.norm) ≠ 0) (i : Nat) (hi : i < 6) :
    HasDerivAt (fun t : ℝ => (SE3Log eps (SE3Retr eps X ⟨p.tau.smul t, p.phi.smul t⟩)).toList.getD i 0)
      ((SE3Jinvp eps X p).getD i 0) 0 := by
  have hτ : p.toList.length = Grp.SE3.adim := by simp [se3.toList, Vec3.toList, Grp.adim]
  have hR := retr_tangent .SE3 eps heps X.toList p.toList hτ
  have key : ∀ t : ℝ, retrF .SE3 eps X.toList (DVec.smul t p.toList) = (SE3Retr eps X ⟨p.tau.smul t, p.phi.smul t⟩).toList := by
    intro t
    simp only [retrF, mulF, expF, AD_tose3_smul, AD_toSE3_toList, SE3Retr]
  have h0 : SE3Retr eps X ⟨p.tau.smul 0, p.phi.smul 0⟩ = X := by
    have e : (⟨p.tau.smul 0, p.phi.smul 0⟩ : se3 ℝ) = ⟨Vec3.zero, Vec3.zero⟩ := by
      congr 1 <;> (ext <;> lie_unfold <;> ring)
    rw [e]; exact SE3_Retr_zero eps (le_of_lt heps) X
  have hc0 : retrF .SE3 eps X.toList (DVec.smul 0 p.toList) = X.toList := by rw [key 0, h0]
  have hlog : ∀ Y : SE3 ℝ, logF .SE3 eps Y.toList = (SE3Log eps Y).toList := by
    intro Y; simp only [logF, AD_toSE3_toList]
  have hphi : ∀ Y : SE3 ℝ, AD.v3 (SE3Log eps Y).toList 3 = (SE3Log eps Y).phi := by
    intro Y; simp [AD.v3, AD.nth, se3.toList, Vec3.toList]
  have hqt : AD.qt X.toList 3 = X.q := by
    obtain ⟨⟨t1, t2, t3⟩, ⟨q1, q2, q3, q4⟩⟩ := X
    simp [AD.qt, AD.nth, SE3.toList, Vec3.toList, Quat.toList]
  obtain ⟨⟨a0, a1, a2⟩, ⟨a3, a4, a5⟩⟩ := p
  have hp : (⟨⟨a0, a1, a2⟩, ⟨a3, a4, a5⟩⟩ : se3 ℝ).toList = [a0, a1, a2, a3, a4, a5] := rfl
  rw [hp] at hR key hc0
  have hL := SE3Log_tangent eps (le_of_lt heps) (fun t => retrF .SE3 eps X.toList (DVec.smul t [a0, a1, a2, a3, a4, a5])) a0 a1 a2 a3 a4 a5
    hR (by rw [hc0, hqt]; exact hX) (by rw [hc0, hqt]; exact hv) (by rw [hc0, hqt]; exact hw)
    (by rw [hc0, hlog, hphi]; exact hφ) (by rw [hc0, hlog, hphi]; exact hq)
    (by rw [hc0, hlog, hphi]; exact hs)
  have := hL i hi
  simp only [hc0, hlog, key] at this
  simpa [AD.nth, SE3Jinvp, JlInvMat, AD_tose3_toList, hp] using this
/-- **SO3 `Jinvp` is the first-order change of `Log(Exp(τ)@X)` in direction `p`** (regime 1 of `SO3_Log`, angle above `eps`) -/
theorem SO3_Jinvp_first_order (eps : ℝ) (heps : 0 < eps) (X : Quat ℝ) (hX : SO3.Valid X) (p : Vec3 ℝ)
    (hv : eps < X.vec.norm) (hw : eps < |X.w|) (hφ : eps < (SO3Log eps X).norm) (i : Nat) (hi : i < 3) :
    HasDerivAt (fun t : ℝ => (SO3Log eps (SO3Retr eps X (p.smul t))).toList.getD i 0) ((SO3Jinvp eps X p).toList.getD i 0) 0 := by
  have hτ : p.toList.length = Grp.SO3.adim := by simp [Vec3.toList, Grp.adim]
  have hR := retr_tangent .SO3 eps heps X.toList p.toList hτ
  have key : ∀ t : ℝ, retrF .SO3 eps X.toList (DVec.smul t p.toList) = (SO3Retr eps X (p.smul t)).toList := by
    intro t
    simp only [retrF, mulF, expF, AD_v3_smul, AD_qt_toList, SO3Retr]
  have h0 : SO3Retr eps X (p.smul 0) = X := by
    have e : p.smul 0 = Vec3.zero := by ext <;> lie_unfold <;> ring
    rw [e]; exact SO3_Retr_zero eps (le_of_lt heps) X
  have hc0 : retrF .SO3 eps X.toList (DVec.smul 0 p.toList) = X.toList := by rw [key 0, h0]
  have hlog : ∀ Y : Quat ℝ, logF .SO3 eps Y.toList = (SO3Log eps Y).toList := by
    intro Y; simp only [logF, AD_qt_toList]
  obtain ⟨a0, a1, a2⟩ := p
  have hp : (⟨a0, a1, a2⟩ : Vec3 ℝ).toList = [a0, a1, a2] := rfl
  rw [hp] at hR key hc0
  have hL := SO3Log_tangent eps (le_of_lt heps) (fun t => retrF .SO3 eps X.toList (DVec.smul t [a0, a1, a2])) a0 a1 a2
    hR (by rw [hc0, AD_qt_toList]; exact hX) (by rw [hc0, AD_qt_toList]; exact hv) (by rw [hc0, AD_qt_toList]; exact hw)
    (by rw [hc0, hlog, AD_v3_toList]; exact hφ)
  have := hL i hi
  simp only [hc0, hlog, key] at this
  have hv3 : ∀ v : Vec3 ℝ, AD.v3 [v.x, v.y, v.z] = v := by intro v; simp [AD.v3, AD.nth]
  simpa [AD.nth, SO3Jinvp, JlInvMat, AD_v3_toList, AD.toRows_mulVec, Vec3.toList, hv3] using this
end

section
open AD
/-- **RxSO3 `Jinvp` is the first-order change of `Log(Exp(τ)@X)` in direction `p`** (regime 1 of `SO3_Log`, rotation angle above `eps`) -/
theorem RxSO3_Jinvp_first_order (eps : ℝ) (heps : 0 < eps) (X : RxSO3 ℝ) (hX : RxSO3.Valid X) (p : rxso3 ℝ)
    (hv : eps < X.q.vec.norm) (hw : eps < |X.q.w|) (hφ : eps < (RxSO3Log eps X).phi.norm) (i : Nat) (hi : i < 4) :
    HasDerivAt (fun t : ℝ => (RxSO3Log eps (RxSO3Retr eps X ⟨p.phi.smul t, p.sigma * t⟩)).toList.getD i 0)
      ((RxSO3Jinvp eps X p).getD i 0) 0 := by
  have hτ : p.toList.length = Grp.RxSO3.adim := by
    obtain ⟨⟨a1, a2, a3⟩, s⟩ := p; simp [rxso3.toList, Vec3.toList, Grp.adim]
  have hR := retr_tangent .RxSO3 eps heps X.toList p.toList hτ
  obtain ⟨key, hc0⟩ := RxSO3_retr_curve eps X p (RxSO3_Retr_zero eps (le_of_lt heps) X)
  have hlog : ∀ Y : RxSO3 ℝ, logF .RxSO3 eps Y.toList = (RxSO3Log eps Y).toList := by
    intro Y; simp only [logF, AD_toRx_toList]
  obtain ⟨⟨a0, a1, a2⟩, a3⟩ := p
  have hp : (⟨⟨a0, a1, a2⟩, a3⟩ : rxso3 ℝ).toList = [a0, a1, a2, a3] := rfl
  rw [hp] at hR key hc0
  obtain ⟨⟨q1, q2, q3, q4⟩, s⟩ := X
  have hXl : (⟨⟨q1, q2, q3, q4⟩, s⟩ : RxSO3 ℝ).toList = [q1, q2, q3, q4, s] := rfl
  have hL := RxSO3Log_tangent eps (le_of_lt heps) (fun t => retrF .RxSO3 eps (⟨⟨q1, q2, q3, q4⟩, s⟩ : RxSO3 ℝ).toList (DVec.smul t [a0, a1, a2, a3])) a0 a1 a2 a3
    hR (by rw [hc0, hXl]; simpa [AD.qt, AD.nth] using hX.1) (by rw [hc0, hXl]; simpa [AD.nth] using hX.2)
    (by rw [hc0, hXl]; simpa [AD.qt, AD.nth] using hv) (by rw [hc0, hXl]; simpa [AD.qt, AD.nth] using hw)
    (by rw [hc0, hXl]; simpa [AD.qt, AD.nth, AD.v3, logF, RxSO3Log, Vec3.toList] using hφ)
  have := hL i hi
  simp only [hc0, hlog, key] at this
  simpa [AD.nth, RxSO3Jinvp, JlInvMat, AD_torx_toList, hp] using this
/-- **rotation angle 0 (the Taylor branch of `so3_Jl_inv`, regime 3 of `SO3_Log`)**: at `X = ±1` `Jinvp` is still the first-order change of
`Log(Exp(τ)@X)` — SO3 -/
theorem SO3_Jinvp_first_order_one (eps : ℝ) (heps : 0 < eps) (X : Quat ℝ) (hv : X.vec = ⟨0, 0, 0⟩) (hw : X.w * X.w = 1)
    (p : Vec3 ℝ) (i : Nat) (hi : i < 3) :
    HasDerivAt (fun t : ℝ => (SO3Log eps (SO3Retr eps X (p.smul t))).toList.getD i 0) ((SO3Jinvp eps X p).toList.getD i 0) 0 := by
  have hτ : p.toList.length = Grp.SO3.adim := by simp [Vec3.toList, Grp.adim]
  have hR := retr_tangent .SO3 eps heps X.toList p.toList hτ
  obtain ⟨key, hc0⟩ := SO3_retr_curve eps X p (SO3_Retr_zero eps (le_of_lt heps) X)
  have hlog : ∀ Y : Quat ℝ, logF .SO3 eps Y.toList = (SO3Log eps Y).toList := by
    intro Y; simp only [logF, AD_qt_toList]
  obtain ⟨a0, a1, a2⟩ := p
  have hp : (⟨a0, a1, a2⟩ : Vec3 ℝ).toList = [a0, a1, a2] := rfl
  rw [hp] at hR key hc0
  have hL := SO3Log_tangent_identity eps heps (fun t => retrF .SO3 eps X.toList (DVec.smul t [a0, a1, a2])) a0 a1 a2
    hR (by rw [hc0, AD_qt_toList]; exact hv) (by rw [hc0]; obtain ⟨q1, q2, q3, q4⟩ := X; simpa [AD.nth, Quat.toList] using hw)
  have := hL i hi
  simp only [hc0, hlog, key] at this
  have hv3 : ∀ v : Vec3 ℝ, AD.v3 [v.x, v.y, v.z] = v := by intro v; simp [AD.v3, AD.nth]
  simpa [AD.nth, SO3Jinvp, JlInvMat, AD_v3_toList, AD.toRows_mulVec, Vec3.toList, hv3] using this
/-- … SE3: every pure translation `X = (t, ±1)` -/
theorem SE3_Jinvp_first_order_translation (eps : ℝ) (heps : 0 < eps) (X : SE3 ℝ) (hv : X.q.vec = ⟨0, 0, 0⟩) (hw : X.q.w * X.q.w = 1)
    (p : se3 ℝ) (i : Nat) (hi : i < 6) :
    HasDerivAt (fun t : ℝ => (SE3Log eps (SE3Retr eps X ⟨p.tau.smul t, p.phi.smul t⟩)).toList.getD i 0)
      ((SE3Jinvp eps X p).getD i 0) 0 := by
  have hτ : p.toList.length = Grp.SE3.adim := by simp [se3.toList, Vec3.toList, Grp.adim]
  have hR := retr_tangent .SE3 eps heps X.toList p.toList hτ
  obtain ⟨key, hc0⟩ := SE3_retr_curve eps X p (SE3_Retr_zero eps (le_of_lt heps) X)
  have hlog : ∀ Y : SE3 ℝ, logF .SE3 eps Y.toList = (SE3Log eps Y).toList := by
    intro Y; simp only [logF, AD_toSE3_toList]
  obtain ⟨⟨a0, a1, a2⟩, ⟨a3, a4, a5⟩⟩ := p
  have hp : (⟨⟨a0, a1, a2⟩, ⟨a3, a4, a5⟩⟩ : se3 ℝ).toList = [a0, a1, a2, a3, a4, a5] := rfl
  rw [hp] at hR key hc0
  obtain ⟨⟨t1, t2, t3⟩, ⟨q1, q2, q3, q4⟩⟩ := X
  have hXl : (⟨⟨t1, t2, t3⟩, ⟨q1, q2, q3, q4⟩⟩ : SE3 ℝ).toList = [t1, t2, t3, q1, q2, q3, q4] := rfl
  have hL := SE3Log_tangent_identity eps heps (fun t => retrF .SE3 eps (⟨⟨t1, t2, t3⟩, ⟨q1, q2, q3, q4⟩⟩ : SE3 ℝ).toList (DVec.smul t [a0, a1, a2, a3, a4, a5]))
    a0 a1 a2 a3 a4 a5 hR (by rw [hc0, hXl]; simpa [AD.qt, AD.nth, Quat.vec] using hv) (by rw [hc0, hXl]; simpa [AD.nth] using hw)
  have := hL i hi
  simp only [hc0, hlog, key] at this
  simpa [AD.nth, SE3Jinvp, JlInvMat, AD_tose3_toList, hp] using this
/-- … RxSO3: every pure scaling `X = (±1, s)`, `s > 0` -/
theorem RxSO3_Jinvp_first_order_scale (eps : ℝ) (heps : 0 < eps) (X : RxSO3 ℝ) (hv : X.q.vec = ⟨0, 0, 0⟩) (hw : X.q.w * X.q.w = 1)
    (hs : 0 < X.s) (p : rxso3 ℝ) (i : Nat) (hi : i < 4) :
    HasDerivAt (fun t : ℝ => (RxSO3Log eps (RxSO3Retr eps X ⟨p.phi.smul t, p.sigma * t⟩)).toList.getD i 0)
      ((RxSO3Jinvp eps X p).getD i 0) 0 := by
  have hτ : p.toList.length = Grp.RxSO3.adim := by
    obtain ⟨⟨a1, a2, a3⟩, s⟩ := p; simp [rxso3.toList, Vec3.toList, Grp.adim]
  have hR := retr_tangent .RxSO3 eps heps X.toList p.toList hτ
  obtain ⟨key, hc0⟩ := RxSO3_retr_curve eps X p (RxSO3_Retr_zero eps (le_of_lt heps) X)
  have hlog : ∀ Y : RxSO3 ℝ, logF .RxSO3 eps Y.toList = (RxSO3Log eps Y).toList := by
    intro Y; simp only [logF, AD_toRx_toList]
  obtain ⟨⟨a0, a1, a2⟩, a3⟩ := p
  have hp : (⟨⟨a0, a1, a2⟩, a3⟩ : rxso3 ℝ).toList = [a0, a1, a2, a3] := rfl
  rw [hp] at hR key hc0
  obtain ⟨⟨q1, q2, q3, q4⟩, s⟩ := X
  have hXl : (⟨⟨q1, q2, q3, q4⟩, s⟩ : RxSO3 ℝ).toList = [q1, q2, q3, q4, s] := rfl
  have hL := RxSO3Log_tangent_identity eps heps (fun t => retrF .RxSO3 eps (⟨⟨q1, q2, q3, q4⟩, s⟩ : RxSO3 ℝ).toList (DVec.smul t [a0, a1, a2, a3]))
    a0 a1 a2 a3 hR (by rw [hc0, hXl]; simpa [AD.nth] using hs) (by rw [hc0, hXl]; simpa [AD.qt, AD.nth, Quat.vec] using hv)
    (by rw [hc0, hXl]; simpa [AD.nth] using hw)
  have := hL i hi
  simp only [hc0, hlog, key] at this
  simpa [AD.nth, RxSO3Jinvp, JlInvMat, AD_torx_toList, hp] using this
/-- **Sim3 `Jinvp` at the identity element is the first-order change of `Log(Exp(τ))`** — the only first-order statement for Sim3 (away
from the identity `sim3_Jl_inv` is a truncation and the exact clause is false): along `t ↦ Exp(t·p)·1` every component of the coded
`Sim3_Log` has derivative `Jinvp(1, p)_i = p_i` at `t = 0`. -/
theorem Sim3_Jinvp_first_order_one (eps : ℝ) (heps : 0 < eps) (p : sim3 ℝ) (i : Nat) (hi : i < 7) :
    HasDerivAt (fun t : ℝ => (Sim3Log eps (Sim3Retr eps Sim3one ⟨p.tau.smul t, p.phi.smul t, p.sigma * t⟩)).toList.getD i 0)
      ((Sim3Jinvp eps Sim3one p).getD i 0) 0 := by
  have hτ : p.toList.length = Grp.Sim3.adim := by
    obtain ⟨⟨a1, a2, a3⟩, ⟨a4, a5, a6⟩, s⟩ := p; simp [sim3.toList, Vec3.toList, Grp.adim]
  have hR := retr_tangent .Sim3 eps heps (Sim3one : Sim3 ℝ).toList p.toList hτ
  have key : ∀ t : ℝ, retrF .Sim3 eps (Sim3one : Sim3 ℝ).toList (DVec.smul t p.toList)
      = (Sim3Retr eps Sim3one ⟨p.tau.smul t, p.phi.smul t, p.sigma * t⟩).toList := by
    intro t
    simp only [retrF, mulF, expF, AD_tosim_smul, AD_toSim_toList, Sim3Retr]
  have h0 : Sim3Retr eps Sim3one ⟨p.tau.smul 0, p.phi.smul 0, p.sigma * 0⟩ = (Sim3one : Sim3 ℝ) := by
    have e : (⟨p.tau.smul 0, p.phi.smul 0, p.sigma * 0⟩ : sim3 ℝ) = ⟨Vec3.zero, Vec3.zero, 0⟩ := by
      congr 1 <;> first | (ext <;> lie_unfold <;> ring) | ring
    rw [e]; exact Sim3_Retr_zero eps (le_of_lt heps) Sim3one
  have hc0 : retrF .Sim3 eps (Sim3one : Sim3 ℝ).toList (DVec.smul 0 p.toList) = (Sim3one : Sim3 ℝ).toList := by rw [key 0, h0]
  have hlog : ∀ Y : Sim3 ℝ, logF .Sim3 eps Y.toList = (Sim3Log eps Y).toList := by
    intro Y; simp only [logF, AD_toSim_toList]
  obtain ⟨⟨a0, a1, a2⟩, ⟨a3, a4, a5⟩, a6⟩ := p
  have hp : (⟨⟨a0, a1, a2⟩, ⟨a3, a4, a5⟩, a6⟩ : sim3 ℝ).toList = [a0, a1, a2, a3, a4, a5, a6] := rfl
  rw [hp] at hR key hc0
  have hone : (Sim3one : Sim3 ℝ).toList = [0, 0, 0, 0, 0, 0, 1, 1] := by
    simp [Sim3one, Sim3.toList, Vec3.toList, Quat.toList, Vec3.zero, Quat.one]
  have hL := Sim3Log_tangent_identity eps heps (fun t => retrF .Sim3 eps (Sim3one : Sim3 ℝ).toList (DVec.smul t [a0, a1, a2, a3, a4, a5, a6]))
    a0 a1 a2 a3 a4 a5 a6 hR (by rw [hc0, hone]; simp [AD.v3, AD.nth]) (by rw [hc0, hone]; simp [AD.qt, AD.nth, Quat.vec])
    (by rw [hc0, hone]; simp [AD.nth]) (by rw [hc0, hone]; simp [AD.nth])
  have := hL i hi
  simp only [hc0, hlog, key] at this
  simpa [AD.nth, Sim3Jinvp, JlInvMat, AD_tosim_toList, hp] using this
/-- … whose value is `p_i` (`Sim3_Jinvp_one`) -/
theorem Sim3_Log_Exp_first_order (eps : ℝ) (heps : 0 < eps) (p : sim3 ℝ) (i : Nat) (hi : i < 7) :
    HasDerivAt (fun t : ℝ => (Sim3Log eps (Sim3Retr eps Sim3one ⟨p.tau.smul t, p.phi.smul t, p.sigma * t⟩)).toList.getD i 0)
      (p.toList.getD i 0) 0 := by
  have := Sim3_Jinvp_first_order_one eps heps p i hi
  rwa [Sim3_Jinvp_one] at this
end

/-- non-vacuity: the zero-rotation hypotheses hold at the identity elements (and at `−1`, at every translation, at every positive scale);
`RxSO3_Jinvp_first_order`'s hypotheses hold at machine eps for `X = ((0.6,0,0,0.8), 2)` by the `SO3` example above, since
`(RxSO3Log eps X).phi = SO3Log eps X.q` by definition. -/
example : (Quat.one : Quat ℝ).vec = ⟨0, 0, 0⟩ ∧ (Quat.one : Quat ℝ).w * (Quat.one : Quat ℝ).w = 1 := by
  constructor <;> simp [Quat.one, Quat.vec]
example : ((⟨⟨3, -2, 5⟩, ⟨0, 0, 0, -1⟩⟩ : SE3 ℝ).q.vec = ⟨0, 0, 0⟩) ∧ (⟨⟨3, -2, 5⟩, ⟨0, 0, 0, -1⟩⟩ : SE3 ℝ).q.w * (⟨⟨3, -2, 5⟩, ⟨0, 0, 0, -1⟩⟩ : SE3 ℝ).q.w = 1 := by
  constructor <;> simp [Quat.vec]
example (eps : ℝ) : RxSO3.Valid (⟨⟨0.6, 0, 0, 0.8⟩, 2⟩ : RxSO3 ℝ) ∧
    (RxSO3Log eps (⟨⟨0.6, 0, 0, 0.8⟩, 2⟩ : RxSO3 ℝ)).phi = SO3Log eps (⟨0.6, 0, 0, 0.8⟩ : Quat ℝ) := by
  refine ⟨⟨?_, by norm_num⟩, rfl⟩
  lie_unfold; norm_num

/-! ## non-vacuity of the hypotheses -/
example : SO3.Valid (⟨0.6, 0, 0, 0.8⟩ : Quat ℝ) := by unfold SO3.Valid; lie_unfold; norm_num
example : Sim3.Valid (⟨⟨1, 2, 3⟩, ⟨0, 0.6, 0, 0.8⟩, 2⟩ : Sim3 ℝ) := by
  refine ⟨?_, by norm_num⟩; lie_unfold; norm_num
/-- closed-form branch: `eps < ‖φ‖` at `φ = (0.3,0,0.4)` (norm 1/2), `eps = 2⁻⁵²`; `eps < |σ|` at `σ = 0.7`;
`sin(θ/2) ≠ 0` at `θ = 1/2`. -/
example : (2 : ℝ)⁻¹ ^ 52 < (⟨0.3, 0, 0.4⟩ : Vec3 ℝ).norm := by
  have h : (⟨0.3, 0, 0.4⟩ : Vec3 ℝ).norm = 1 / 2 := by
    unfold Vec3.norm
    rw [show (⟨0.3, 0, 0.4⟩ : Vec3 ℝ).normSq = (1 / 2) ^ 2 by lie_unfold; norm_num]
    rw [sqrt_real, Real.sqrt_sq (by norm_num)]
  rw [h]
  have : (2 : ℝ)⁻¹ ^ 52 ≤ (2 : ℝ)⁻¹ ^ 1 := pow_le_pow_of_le_one (by norm_num) (by norm_num) (by norm_num)
  linarith
example : (2 : ℝ)⁻¹ ^ 52 < |(0.7 : ℝ)| := by
  rw [abs_of_pos (by norm_num)]
  have : (2 : ℝ)⁻¹ ^ 52 ≤ (2 : ℝ)⁻¹ ^ 1 := pow_le_pow_of_le_one (by norm_num) (by norm_num) (by norm_num)
  linarith
example : Real.sin (1 / 2 * (1 / 2 : ℝ)) ≠ 0 :=
  ne_of_gt (Real.sin_pos_of_pos_of_lt_pi (by norm_num) (by linarith [Real.two_le_pi]))

end PP
