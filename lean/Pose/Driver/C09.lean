import Pose.Wire
import Pose.Model.Kernel
import Pose.Model.Corrector
/-! Driver ops for C09 (robust kernels, correctors, kernel/corrector plumbing). -/
namespace PP.Driver
open PP Wire Kernel Corrector

def kindOf (s : String) : Except String Kind :=
  match s with
  | "huber" => .ok .huber
  | "pseudohuber" => .ok .pseudoHuber
  | "cauchy" => .ok .cauchy
  | "softlone" => .ok .softLOne
  | "arctan" => .ok .arctan
  | "tolerant" => .ok .tolerant
  | "scale" => .ok .scale
  | "poly" => .ok .poly
  | _ => .error s!"bad-kind:{s}"

/-- `<kind> <p1> <p2> <p3>` followed by the rest -/
def specOf (ts : List String) : Except String (Spec BigF × List String) :=
  match ts with
  | kd :: a :: b :: c :: rest => do
    let kd ← kindOf kd
    let a ← num a; let b ← num b; let c ← num c
    return (⟨kd, a, b, c⟩, rest)
  | _ => .error "arity"

def getA (a : Array BigF) (i : Nat) : BigF := a.getD i BigF.zero

/-- `N d p R… J…` -/
def batchOf (ts : List String) : Except String (Nat × Nat × Nat × Array BigF × Array BigF) :=
  match ts with
  | n :: d :: p :: rest => do
    let n ← nat n; let d ← nat d; let p ← nat p
    let xs ← nums rest
    if xs.length ≠ n * d + n * d * p then throw "arity" else
    return (n, d, p, (xs.take (n * d)).toArray, (xs.drop (n * d)).toArray)
  | _ => .error "arity"

def flatOut (n d p : Nat) (out : Nat → Out BigF) : List BigF :=
  ((List.range n).flatMap fun i => (List.range d).map fun a => (out i).R a) ++
  ((List.range n).flatMap fun i => (List.range d).flatMap fun a => (List.range p).map fun l => (out i).J a l)

/-- flat outputs `(R' : N·d, J' : (N·d) × p)` in wire order -/
def flatPair (n d p : Nat) (out : (Nat → BigF) × (Nat → Nat → BigF)) : List BigF :=
  ((List.range (n * d)).map out.1) ++ ((List.range (n * d)).flatMap fun r => (List.range p).map fun l => out.2 r l)

def b01 (b : Bool) : BigF := if b then BigF.one else BigF.zero

/-- selection tokens: kernels are natural numbers, `N` is `None` -/
def optNat (s : String) : Except String (Option Nat) :=
  if s == "N" then .ok none else (nat s).map some

/-- `none` | `one <id>` | `many <n> <id|N>…`, returns the argument and the remaining tokens -/
def argOf (ts : List String) : Except String (Arg Nat × List String) :=
  match ts with
  | "none" :: rest => .ok (.none, rest)
  | "one" :: c :: rest => do let c ← nat c; return (.one c, rest)
  | "many" :: n :: rest => do
    let n ← nat n
    let (hd, tl) ← take n rest
    let cs ← hd.mapM optNat
    return (.many cs, tl)
  | _ => .error "arity"

def fmtK : KSel Nat → String
  | .trivial => "T"
  | .ker c => s!"K{c}"

def fmtC : CSel Nat Nat → String
  | .trivial => "T"
  | .auto c => "A" ++ fmtK c
  | .user c => s!"U{c}"

/-- `n` kernel specs, then the rest -/
def parseSpecs : Nat → List String → Except String (Array (Spec BigF) × List String)
  | 0, ts => .ok (#[], ts)
  | n+1, ts => do
    let (s, r) ← specOf ts
    let (ss, r') ← parseSpecs n r
    return (#[s] ++ ss, r')

/-- `nres` residual tensors `N d R… J…` (Jacobian with `p` columns), then the rest -/
def parseRes : Nat → Nat → List String → Except String (Array (Nat × Nat × Array BigF × Array BigF) × List String)
  | 0, _, ts => .ok (#[], ts)
  | k+1, p, nn :: dd :: r => do
    let n ← nat nn; let d ← nat dd
    let (hd, tl) ← take (n * d + n * d * p) r
    let xs ← nums hd
    let (rs, r') ← parseRes k p tl
    return (#[(n, d, (xs.take (n * d)).toArray, (xs.drop (n * d)).toArray)] ++ rs, r')
  | _, _, _ => .error "arity"

def opsC09 : List (String × Handler) := [
  -- c09.kernel <kind> p1 p2 p3 x…          kernel(input) on a flattened tensor; err negative = AssertionError
  ("c09.kernel", fun ts => do
      let (s, rest) ← specOf ts
      let xs ← nums rest
      match onTensor s xs with
      | none => throw "negative"
      | some ys => return fmt ys),
  -- c09.d12 <kind> p1 p2 p3 x…             rho'(x) rho''(x) pairs
  ("c09.d12", fun ts => do
      let (s, rest) ← specOf ts
      let xs ← nums rest
      return fmt (xs.flatMap fun x => [s.d1 x, s.d2 x])),
  -- c09.fast <kind> p1 p2 p3 N d p R… J…   FastTriggs: R' (N·d) then J' (N·d·p)
  ("c09.fast", fun ts => do
      let (s, rest) ← specOf ts
      let (n, d, p, R, J) ← batchOf rest
      -- the model's own flat layout (`fastFlat`): flat residual (N·d) and Jacobian rows (N·d) × p
      let out := fastFlat s.d1 d (fun r => getA R r) (fun r l => getA J (r * p + l))
      return fmt (flatPair n d p out)),
  -- c09.triggs <kind> p1 p2 p3 N d p R… J… Triggs: R', J', then the mask (N values 0/1)
  ("c09.triggs", fun ts => do
      let (s, rest) ← specOf ts
      let (n, d, p, R, J) ← batchOf rest
      let Ri := fun (i : Nat) => fun a => getA R (i * d + a)
      let out := triggsFlat s.d1 s.d2 d (fun r => getA R r) (fun r l => getA J (r * p + l))
      let ms := (List.range n).map fun i => let x := normSq d (Ri i); b01 (mask x (s.d2 x))
      return fmt (flatPair n d p out ++ ms)),
  -- c09.lossone <kind> p1 p2 p3 N d R…     kernel(r.square().sum(-1)).sum()
  ("c09.lossone", fun ts => do
      let (s, rest) ← specOf ts
      match rest with
      | n :: d :: rest => do
        let n ← nat n; let d ← nat d
        let xs ← nums rest
        if xs.length ≠ n * d then throw "arity" else
        let R := xs.toArray
        return fmt [lossOne s.val n d (fun i a => getA R (i * d + a))]
      | _ => throw "arity"),
  -- c09.construct <kind> p1 p2 p3 x…      constructor assertions, then the call: err ctor | err negative | values
  ("c09.construct", fun ts => do
      let (s, rest) ← specOf ts
      let xs ← nums rest
      if !s.ctorOk then throw "ctor" else
      match s.construct xs with
      | none => throw "negative"
      | some ys => return fmt ys),
  -- c09.step <nres> <kernel-arg> <corrector-arg> <nk> (<kind> p1 p2 p3)*nk <p> then per residual: N d R… J…
  --   reply: lossTotal, the p components of the stacked J'ᵀR', the p·p entries of J'ᵀJ' (model: lossTotal, stepJtR, stepJtJ); err index = IndexError
  ("c09.step", fun ts => do
      match ts with
      | n :: rest => do
        let nres ← nat n
        let (ka, rest) ← argOf rest
        let (ca, rest) ← argOf rest
        match rest with
        | nk :: rest => do
          let nk ← nat nk
          let (specs, rest) ← parseSpecs nk rest
          match rest with
          | pp :: rest => do
            let p ← nat pp
            let (res, rest) ← parseRes nres p rest
            if !rest.isEmpty then throw "arity" else
            let ident : Spec BigF := ⟨.poly, BigF.one, BigF.zero, BigF.zero⟩
            let specOfK : KSel Nat → Spec BigF := fun c => match c with
              | .trivial => ident
              | .ker i => specs.getD i ident
            let sem : CSel Nat Nat → CorrSem BigF := fun c => match c with
              | .trivial => none
              | .auto kc => some (false, (specOfK kc).d1, (specOfK kc).d2)
              | .user cid => let sp := specs.getD (cid / 2) ident; some (cid % 2 == 1, sp.d1, sp.d2)
            let ks := robustKernels ka
            let cs : List (CSel Nat Nat) := correctors ka ca
            if (List.range nres).any (fun j => (stepCorrector cs j).isNone) then throw "index" else
            let resL := fun j => let e := res.getD j (0, 0, #[], #[]); (e.1, e.2.1, fun i a => getA e.2.2.1 (i * e.2.1 + a))
            let resS := fun j => let e := res.getD j (0, 0, #[], #[])
              (e.1, e.2.1, (fun i a => getA e.2.2.1 (i * e.2.1 + a)), fun i a l => getA e.2.2.2 ((i * e.2.1 + a) * p + l))
            let loss := lossTotal (fun c => (specOfK c).val) ks nres resL
            let g := (List.range p).map fun l => stepJtR sem cs nres resS l
            -- pass 10: then the p·p entries of the stacked J'ᵀJ' (model: stepJtJ), row-major
            let h := (List.range p).flatMap fun l => (List.range p).map fun m => stepJtJ sem cs nres resS l m
            return fmt (loss :: g ++ h)
          | _ => throw "arity"
        | _ => throw "arity"
      | _ => throw "arity"),
  -- c09.select <nres> <kernel-arg> <corrector-arg>
  --   reply: nres loss-kernel tokens (T | K<id> | -) then nres step-corrector tokens (T | AT | AK<id> | U<id> | -)
  ("c09.select", fun ts => do
      match ts with
      | n :: rest => do
        let nres ← nat n
        let (ka, rest) ← argOf rest
        let (ca, rest) ← argOf rest
        if !rest.isEmpty then throw "arity" else
        let ks := robustKernels ka
        let cs : List (CSel Nat Nat) := correctors ka ca
        let lk := (List.range nres).map fun i => match lossKernel ks nres i with | some c => fmtK c | none => "-"
        let sc := (List.range nres).map fun i => match stepCorrector cs i with | some c => fmtC c | none => "-"
        -- last token: E1 = empty kernel list (`loss` / `step` raise IndexError), E0 otherwise
        return " ".intercalate (lk ++ sc ++ [if emptyKernelList ks then "E1" else "E0"])
      | _ => throw "arity")
]

end PP.Driver
