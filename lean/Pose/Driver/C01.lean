import Pose.Wire
import Pose.Driver.Lie
/-! Driver ops for C01. -/
namespace PP.Driver
open PP Wire

def opsC01 : List (String × Handler) := []

end PP.Driver
