import Pose.Model.Lie
/-!
# Model of `pypose/function/spline.py`: `chspline`, `bspline`

Item-level models (one coordinate of one point sequence for `chspline`, one pose sequence for
`bspline`); batch axes and the `dim` coordinates of a point are handled by the code through
broadcasting only, the correspondence check feeds batched tensors and compares item-wise.

A length-`N` sequence is an index function `Nat → _` (only indices `< N` matter), as in `Model/Scan.lean`.

`torch.arange(0, 1, interval)` has `kk` entries `j·interval`; over the rationals `kk` is the number of
multiples of the interval in `[0,1)`, `count num den` for `interval = num/den`.  The float code computes
`kk = ceil(fl(1/interval))` in double precision (compared with `count` by the check — a mismatch is a
rounding finding).  `kk` is therefore a *parameter* of `chspline` / `bspline` below.

`torch.searchsorted(x[1:], v)` (external kernel) is used through its contract on the sorted sequence
`1, 2, …, N-1`: the number of entries strictly smaller than `v`.
-/
namespace PP.Spline
variable {α : Type} [Scalar α]

/-! ## length of `arange(0, 1, num/den)` over ℚ -/

/-- `#{ j : j·num < den }` = `⌈den/num⌉` : the number of multiples of `num/den` in `[0,1)` -/
def count (num den : Nat) : Nat := (den + num - 1) / num

/-! ## length of `arange(0, 1, interval)` as the float code computes it

`torch.arange(0, 1, step)` has `ceil((1 - 0) / step)` entries where the division is an IEEE binary64 division
(round to nearest, ties to even) of the doubles `1.0` and `step = num/den` (`den` a power of two).  `rn53` is that
division on exact rationals: the quotient `den/num` is scaled by `2^s` into `[2^52, 2^53)`, rounded to an integer
`m` (ties to even) and the result is `m / 2^s`.  Valid for `den/num < 2^53` (intervals above `2^-53`). -/

/-- least shift `s ≥ s₀` (fuel-bounded) with `⌊den·2^s / num⌋ ≥ 2^52` -/
def shiftTo53 (num den : Nat) : Nat → Nat → Nat
  | 0, s => s
  | fuel + 1, s => if 2 ^ 52 ≤ den * 2 ^ s / num then s else shiftTo53 num den fuel (s + 1)

/-- round-to-nearest-even at shift `s`: the integer `m` with `m / 2^s ≈ den/num` -/
def roundAt (num den s : Nat) : Nat :=
  let D := den * 2 ^ s
  let m0 := D / num
  let r := D % num
  if num < 2 * r || (2 * r == num && m0 % 2 == 1) then m0 + 1 else m0

/-- `(m, s)` with `fl64(den/num) = m / 2^s` -/
def rn53 (num den : Nat) : Nat × Nat :=
  let s := shiftTo53 num den 1100 0
  (roundAt num den s, s)

/-- `ceil(m / 2^s)` -/
def ceilShift (m s : Nat) : Nat := (m + 2 ^ s - 1) / 2 ^ s

/-- `len(torch.arange(0, 1, num/den))` = `ceil(fl64(1.0 / (num/den)))` -/
def floatLen (num den : Nat) : Nat := ceilShift (rn53 num den).1 (rn53 num den).2

/-! ## `chspline` (one coordinate) -/

/-- rows of `A @ [1, t, t², t³]ᵀ` -/
def h00 (t : α) : α := k 1 * k 1 + k 0 * t + -(k 3) * (t * t) + k 2 * (t * t * t)
def h10 (t : α) : α := k 0 * k 1 + k 1 * t + -(k 2) * (t * t) + k 1 * (t * t * t)
def h01 (t : α) : α := k 0 * k 1 + k 0 * t + k 3 * (t * t) + -(k 2) * (t * t * t)
def h11 (t : α) : α := k 0 * k 1 + k 0 * t + -(k 1) * (t * t) + k 1 * (t * t * t)

/-- knot spacing `x[i+1] - x[i]` of `x = arange N` -/
def dxAt (i : Nat) : α := k (i + 1) - k i

/-- first differences divided by the knot spacing: `m = (p[1:] - p[:-1]) / (x[1:] - x[:-1])` -/
def diff1 (p : Nat → α) (i : Nat) : α := (p (i + 1) - p i) / dxAt (α := α) i

/-- tangents after the `cat`: one-sided at both ends, mean of the two neighbouring differences inside -/
def slope (N : Nat) (p : Nat → α) (i : Nat) : α :=
  if i = 0 then diff1 p 0
  else if i + 1 = N then diff1 p (N - 2)
  else (diff1 p i + diff1 p (i - 1)) / k 2

/-- `searchsorted([1,…,N-1], v)` : number of knots `m ∈ {1,…,N-1}` with `m < v` -/
def searchIdx (N : Nat) (v : α) : Nat :=
  ((List.range (N - 1)).filter (fun m => Scalar.lt (k (m + 1)) v)).length

/-- value of the spline at time `v` -/
def evalAt (N : Nat) (p : Nat → α) (v : α) : α :=
  let idx := searchIdx N v
  let dx := dxAt (α := α) idx
  let t := (v - k idx) / dx
  h00 t * p idx + h10 t * slope N p idx * dx + h01 t * p (idx + 1) + h11 t * slope N p (idx + 1) * dx

/-- the `n`-th entry of the time line `(arange(N)[:,None] + arange(0,1,interval)).view(-1)` -/
def timeAt (kk : Nat) (interval : α) (n : Nat) : α := k (n / kk) + k (n % kk) * interval

/-- number of output samples: the `N·kk` grid values minus the last `kk-1` (`[:-(kk-1)]`; for `kk = 1`
the Python slice `[:-0]` is empty — excluded by `assert interval < 1`, which forces `kk ≥ 2`) -/
def outLen (N kk : Nat) : Nat := if kk = 1 then 0 else N * kk - (kk - 1)

/-- `chspline(points, interval)` for one coordinate -/
def chspline (N kk : Nat) (interval : α) (p : Nat → α) : List α :=
  (List.range (outLen N kk)).map fun n => evalAt N p (timeAt kk interval n)

/-! ## `bspline` -/

/-- rows of `B @ [1, u, u², u³]ᵀ`, `B = [[5,3,-3,1],[1,3,3,-2],[0,0,0,1]] / 6` -/
def bw1 (u : α) : α := q 5 6 * k 1 + q 3 6 * u + (-(k 3) / k 6) * (u * u) + q 1 6 * (u * u * u)
def bw2 (u : α) : α := q 1 6 * k 1 + q 3 6 * u + q 3 6 * (u * u) + (-(k 2) / k 6) * (u * u * u)
def bw3 (u : α) : α := q 0 6 * k 1 + q 0 6 * u + q 0 6 * (u * u) + q 1 6 * (u * u * u)

/-- `B.sum(dim=1)` : the weights used for the final pose -/
def bwEnd1 : α := q 5 6 + q 3 6 + (-(k 3) / k 6) + q 1 6
def bwEnd2 : α := q 1 6 + q 3 6 + q 3 6 + (-(k 2) / k 6)
def bwEnd3 : α := q 0 6 + q 0 6 + q 0 6 + q 1 6

/-- `se3 * w` (element-wise product with a broadcast scalar) -/
def scale (x : se3 α) (w : α) : se3 α := ⟨x.tau.smul w, x.phi.smul w⟩

/-- `(X.Inv() * Y).Log()` -/
def delta (eps : α) (X Y : SE3 α) : se3 α := SE3Log eps (SE3Mul (SE3Inv X) Y)

/-- `P₀ · Exp(w₁δ₁) · Exp(w₂δ₂) · Exp(w₃δ₃)` with `δⱼ = Log(Pⱼ₋₁⁻¹ Pⱼ)`; the product of the three
exponentials is formed first (left to right), then multiplied on the left by `P₀` -/
def segPose (eps : α) (P0 P1 P2 P3 : SE3 α) (w1 w2 w3 : α) : SE3 α :=
  let A1 := se3Exp eps (scale (delta eps P0 P1) w1)
  let A2 := se3Exp eps (scale (delta eps P1 P2) w2)
  let A3 := se3Exp eps (scale (delta eps P2 P3) w3)
  SE3Mul P0 (SE3Mul (SE3Mul A1 A2) A3)

/-- pose of segment `i` at parameter `u` -/
def bsplineAt (eps : α) (P : Nat → SE3 α) (i : Nat) (u : α) : SE3 α :=
  segPose eps (P i) (P (i + 1)) (P (i + 2)) (P (i + 3)) (bw1 u) (bw2 u) (bw3 u)

/-- the extra final pose `pend` (last segment, weights `B.sum(dim=1)`) -/
def bsplineEnd (eps : α) (N : Nat) (P : Nat → SE3 α) : SE3 α :=
  segPose eps (P (N - 4)) (P (N - 3)) (P (N - 2)) (P (N - 1)) bwEnd1 bwEnd2 bwEnd3

/-- `extrapolate=True`: two copies of the first pose in front, two copies of the last pose behind -/
def pad (N : Nat) (P : Nat → SE3 α) (m : Nat) : SE3 α :=
  if m < 2 then P 0 else if N + 2 ≤ m then P (N - 1) else P (m - 2)

/-- `bspline(data, interval, extrapolate=False)` : `(N-3)·kk + 1` poses (`N ≥ 4`) -/
def bsplineCore (eps : α) (N kk : Nat) (interval : α) (P : Nat → SE3 α) : List (SE3 α) :=
  ((List.range ((N - 3) * kk)).map fun n => bsplineAt eps P (n / kk) (k (n % kk) * interval))
    ++ [bsplineEnd eps N P]

/-- `bspline(data, interval, extrapolate)`; `none` models the `assert data.shape[-2] >= 4` -/
def bspline (eps : α) (N kk : Nat) (interval : α) (extrapolate : Bool) (P : Nat → SE3 α) :
    Option (List (SE3 α)) :=
  if extrapolate then some (bsplineCore eps (N + 4) kk interval (pad N P))
  else if N < 4 then none
  else some (bsplineCore eps N kk interval P)

/-! ## the public entry points with the grid size the code computes itself -/

/-- `chspline(points, interval)` for `interval = num/den`: the number of grid values per unit step is `floatLen num den`
(`len(torch.arange(0, 1, interval))`) -/
def chsplineAuto (N num den : Nat) (interval : α) (p : Nat → α) : List α :=
  chspline N (floatLen num den) interval p

/-- `bspline(data, interval, extrapolate)` for `interval = num/den` -/
def bsplineAuto (eps : α) (N num den : Nat) (interval : α) (extrapolate : Bool) (P : Nat → SE3 α) : Option (List (SE3 α)) :=
  bspline eps N (floatLen num den) interval extrapolate P

end PP.Spline
