import Proofs.Lemmas.Convert
import Proofs.Lemmas.ConvertGeneral
import Pose.Model.ConvertCall
/-!
# C11 — supporting facts that are not clauses of the property

Moved out of `Proofs/Props/C11.lean` after the independent audit: restated definitions of the calling glue, the mask regions
written out with the code's comparison operators, monotonicity / perturbation facts about the tolerance tests (`E'` below is an
arbitrary matrix — nothing here links it to a floating-point evaluation; the size of the float error is measured by the harness),
list-level reformulations that hold by construction of the model (`List.all ↔ ∀`; that the CODE takes no batch-level shortcut is
decided by the mixed-regime streams, not by these), canonQ facts, and the norm-amplification identity (an observation about
iterated conversions, outside the property).
-/
namespace PP
open Vec3 Quat Mat3
set_option linter.unusedTactic false
set_option linter.unreachableTactic false
set_option linter.unusedSimpArgs false

/-- `mat2SO3` on the matrix of a unit quaternion (the property theorem `mat2SO3_matrix` restates this) -/
theorem mat2SO3_on_rot (detK : Mat3 ℝ → ℝ) (hdet : ∀ M, detK M = M.det) (check : Bool) (rtol atol : ℝ)
    (hr : 0 ≤ rtol) (ha0 : 0 ≤ atol) (ha1 : atol < 1) (p : Quat ℝ) (h : p.normSq = 1) :
    mat2SO3 detK check rtol atol (SO3matrix p) = .ok (canonQ atol p) := by
  unfold mat2SO3
  rw [orthOk_rot p h _ _ hr ha0, hdet, detOk_rot p h _ _ hr ha0, mat2SO3Raw_rot p h atol (by rw [abs_of_nonneg ha0]; exact ha1)]
  simp

/-- a batch is accepted iff every item passes both tests (`List.all ↔ ∀`) -/
theorem mat2SO3Batch_ok_iff_all (detK : Mat3 ℝ → ℝ) (rtol atol : ℝ) (Rs : List (Mat3 ℝ)) :
    mat2SO3Batch detK true rtol atol Rs = .ok (Rs.map (mat2SO3Raw atol)) ↔
      ∀ R ∈ Rs, orthOk rtol atol R = true ∧ detOk rtol atol (detK R) = true := by
  constructor
  · intro hok R hR
    by_contra hc
    have hbad : orthOk rtol atol R = false ∨ detOk rtol atol (detK R) = false := by
      by_cases h1 : orthOk rtol atol R = true
      · right; simpa [h1] using hc
      · left; simpa using h1
    obtain ⟨e, he⟩ := mat2SO3Batch_error_of_bad detK rtol atol Rs ⟨R, hR, hbad⟩
    rw [he] at hok; exact absurd hok (by simp)
  · exact mat2SO3Batch_ok_of_all detK true rtol atol Rs

/-- `SO3` from any layout: only the top-left 3×3 block of the input is read -/
theorem fromMatrix_SO3_block (lay : Layout) (p : Quat ℝ) : (MatIn.ofDMat lay (SO3matrix p).toRows).R = SO3matrix p :=
  MatIn.ofDMat_SO3 lay p


/-- "same matrix": the element returned for `X.matrix()` has the matrix of `X` again (4×4 input) -/
theorem mat2Sim3_same_matrix (atol : ℝ) (X : Sim3 ℝ) :
    Sim3matrix ⟨X.t, canonQ atol X.q, X.s⟩ = Sim3matrix X := by
  simp only [Sim3matrix, matrix4, Sim3Act4, canonQ_act]

theorem mat2SE3_same_matrix (atol : ℝ) (X : SE3 ℝ) : SE3matrix ⟨X.t, canonQ atol X.q⟩ = SE3matrix X := by
  simp only [SE3matrix, matrix4, SE3Act4, canonQ_act]

theorem mat2RxSO3_same_matrix (atol : ℝ) (X : RxSO3 ℝ) : RxSO3matrix ⟨canonQ atol X.q, X.s⟩ = RxSO3matrix X := by
  simp only [RxSO3matrix, matrix4, RxSO3Act4, canonQ_act]


/-- the empty batch converts to the empty batch (this is what the D26 repair restored: before it the rank test
fired on an empty batch, and the comparison raised for batch shapes like `(2,3)`) -/
theorem mat2Sim3Batch_empty (detK : Mat3 ℝ → ℝ) (check : Bool) (rtol atol : ℝ) :
    mat2Sim3Batch detK check rtol atol [] = .ok [] ∧ mat2RxSO3Batch detK check rtol atol [] = .ok [] := by
  simp [mat2Sim3Batch, mat2RxSO3Batch, scaledRotBatch, rankTestFails, mat2SO3Batch]


/-- `from_matrix` dispatches to the four converters (result in storage order) -/
theorem fromMatrix_dispatch (detK : Mat3 ℝ → ℝ) (check : Bool) (rtol atol : ℝ) (ms : List (MatIn ℝ)) :
    fromMatrixBatch .SO3 detK check rtol atol ms = (mat2SO3Batch detK check rtol atol (ms.map (·.R))).map (·.map Quat.toList) ∧
    fromMatrixBatch .SE3 detK check rtol atol ms = (mat2SE3Batch detK check rtol atol ms).map (·.map SE3.toList) ∧
    fromMatrixBatch .Sim3 detK check rtol atol ms = (mat2Sim3Batch detK check rtol atol ms).map (·.map Sim3.toList) ∧
    fromMatrixBatch .RxSO3 detK check rtol atol ms = (mat2RxSO3Batch detK check rtol atol ms).map (·.map RxSO3.toList) :=
  ⟨rfl, rfl, rfl, rfl⟩


/-- rejection: a matrix that fails either test raises (`ValueError`), with the orthogonality message first -/
theorem check_rejects (detK : Mat3 ℝ → ℝ) (rtol atol : ℝ) (R : Mat3 ℝ)
    (hbad : orthOk rtol atol R = false ∨ detOk rtol atol (detK R) = false) :
    mat2SO3 detK true rtol atol R = .error .notOrthogonal ∨ mat2SO3 detK true rtol atol R = .error .detNotOne := by
  unfold mat2SO3
  by_cases h1 : orthOk rtol atol R = true
  · rcases hbad with hb | hb
    · rw [hb] at h1; exact absurd h1 (by simp)
    · right; simp [h1, hb]
  · left; simp [h1]


/-- **batched = item-wise** (`mat2SO3`): the batch call returns iff every item converted alone returns, and then the
batch result is the list of the item results -/
theorem mat2SO3Batch_itemwise (detK : Mat3 ℝ → ℝ) (check : Bool) (rtol atol : ℝ) (Rs : List (Mat3 ℝ)) :
    mat2SO3Batch detK check rtol atol Rs = .ok (Rs.map (mat2SO3Raw atol)) ↔
      ∀ R ∈ Rs, mat2SO3 detK check rtol atol R = .ok (mat2SO3Raw atol R) := by
  cases check with
  | false => simp [mat2SO3Batch, mat2SO3]
  | true =>
    rw [mat2SO3Batch_ok_iff_all]
    constructor
    · intro h R hR; exact (mat2SO3_ok_iff detK rtol atol R _).mpr ⟨(h R hR).1, (h R hR).2, rfl⟩
    · intro h R hR
      have := (mat2SO3_ok_iff detK rtol atol R _).mp (h R hR)
      exact ⟨this.1, this.2.1⟩


/-- … and the batch call raises iff some item raises when converted alone (no batch-level `any`/`all` shortcut) -/
theorem mat2SO3Batch_raises_iff (detK : Mat3 ℝ → ℝ) (rtol atol : ℝ) (Rs : List (Mat3 ℝ)) :
    (∃ e, mat2SO3Batch detK true rtol atol Rs = .error e) ↔
      ∃ R ∈ Rs, ∃ e, mat2SO3 detK true rtol atol R = .error e := by
  constructor
  · rintro ⟨e, he⟩
    by_contra hc
    have hall : ∀ R ∈ Rs, mat2SO3 detK true rtol atol R = .ok (mat2SO3Raw atol R) := by
      intro R hR
      by_contra hne
      apply hc
      refine ⟨R, hR, ?_⟩
      rcases hm : mat2SO3 detK true rtol atol R with e' | q
      · exact ⟨e', rfl⟩
      · exfalso; apply hne; rw [hm]
        have := (mat2SO3_ok_iff detK rtol atol R q).mp hm
        rw [this.2.2]
    rw [(mat2SO3Batch_itemwise detK true rtol atol Rs).mpr hall] at he
    exact absurd he (by simp)
  · rintro ⟨R, hR, e, he⟩
    apply mat2SO3Batch_error_of_bad detK rtol atol Rs
    refine ⟨R, hR, ?_⟩
    by_contra hc
    have h1 : orthOk rtol atol R = true := by
      by_contra h; exact hc (Or.inl (by simpa using h))
    have h2 : detOk rtol atol (detK R) = true := by
      by_contra h; exact hc (Or.inr (by simpa using h))
    have := (mat2SO3_ok_iff detK rtol atol R _).mpr ⟨h1, h2, rfl⟩
    rw [this] at he; exact absurd he (by simp)


/-- on valid input the result does not depend on `check` nor on `rtol` (nor on the way they were passed): any two
admissible settings give the same element -/
theorem mat2SO3_matrix_indep (detK : Mat3 ℝ → ℝ) (hdet : ∀ M, detK M = M.det) (check check' : Bool)
    (rtol rtol' atol : ℝ) (hr : 0 ≤ rtol) (hr' : 0 ≤ rtol') (ha0 : 0 ≤ atol) (ha1 : atol < 1) (p : Quat ℝ)
    (h : p.normSq = 1) :
    mat2SO3 detK check rtol atol (SO3matrix p) = mat2SO3 detK check' rtol' atol (SO3matrix p) := by
  rw [mat2SO3_on_rot detK hdet check rtol atol hr ha0 ha1 p h, mat2SO3_on_rot detK hdet check' rtol' atol hr' ha0 ha1 p h]


/-- … and changing `atol` (which also moves the mask threshold) changes at most the sign of the quaternion -/
theorem mat2SO3_matrix_indep_atol (detK : Mat3 ℝ → ℝ) (hdet : ∀ M, detK M = M.det) (check check' : Bool)
    (rtol rtol' atol atol' : ℝ) (hr : 0 ≤ rtol) (hr' : 0 ≤ rtol') (ha0 : 0 ≤ atol) (ha1 : atol < 1)
    (ha0' : 0 ≤ atol') (ha1' : atol' < 1) (p : Quat ℝ) (h : p.normSq = 1) :
    ∃ q q', mat2SO3 detK check rtol atol (SO3matrix p) = .ok q ∧ mat2SO3 detK check' rtol' atol' (SO3matrix p) = .ok q' ∧
      (q = q' ∨ q = q'.neg) := by
  refine ⟨canonQ atol p, canonQ atol' p, mat2SO3_on_rot detK hdet check rtol atol hr ha0 ha1 p h,
    mat2SO3_on_rot detK hdet check' rtol' atol' hr' ha0' ha1' p h, ?_⟩
  rcases canonQ_cases atol p with a | a <;> rcases canonQ_cases atol' p with b | b <;> rw [a, b]
  · left; rfl
  · right; exact (Quat.neg_neg' p).symm
  · right; rfl
  · left; rfl


/-- the two tolerances are **not** interchangeable: the sheared matrix `1 + 3·10⁻⁴·e₀e₁ᵀ` is rejected with
`(rtol, atol) = (10⁻², 10⁻⁵)` and accepted with the two swapped — an implementation (or a caller) that passes them in
the wrong order is observably different -/
theorem check_tolerances_not_symmetric :
    orthOk (1 / 100) (1 / 100000) (⟨⟨1, 3 / 10000, 0⟩, ⟨0, 1, 0⟩, ⟨0, 0, 1⟩⟩ : Mat3 ℝ) = false ∧
    orthOk (1 / 100000) (1 / 100) (⟨⟨1, 3 / 10000, 0⟩, ⟨0, 1, 0⟩, ⟨0, 0, 1⟩⟩ : Mat3 ℝ) = true ∧
    detOk (1 / 100000) (1 / 100) (⟨⟨1, 3 / 10000, 0⟩, ⟨0, 1, 0⟩, ⟨0, 0, 1⟩⟩ : Mat3 ℝ).det = true := by
  refine ⟨?_, ?_, ?_⟩
  · apply Bool.eq_false_iff.mpr; intro hok
    have h := ((orthOk_iff _ _ _).mp hok).2.1
    revert h; lie_unfold; norm_num [abs_of_pos]
  · rw [orthOk_iff]; lie_unfold; norm_num [abs_of_pos, abs_of_nonneg]
  · rw [detOk_iff]; lie_unfold; norm_num



theorem mat2SO3Region_zero_iff (atol : ℝ) (T : Mat3 ℝ) :
    mat2SO3Region atol T = 0 ↔ T.r2.z < atol ∧ T.r1.y < T.r0.x := by
  simp only [mat2SO3Region, lt_real]
  by_cases c2 : T.r2.z < atol <;> by_cases c01 : T.r1.y < T.r0.x <;> by_cases c3 : T.r0.x < -T.r1.y <;>
    simp [c2, c01, c3]

theorem mat2SO3Region_one_iff (atol : ℝ) (T : Mat3 ℝ) :
    mat2SO3Region atol T = 1 ↔ T.r2.z < atol ∧ T.r0.x ≤ T.r1.y := by
  simp only [mat2SO3Region, lt_real]
  by_cases c2 : T.r2.z < atol <;> by_cases c01 : T.r1.y < T.r0.x <;> by_cases c3 : T.r0.x < -T.r1.y <;>
    simp [c2, c01, c3, not_lt.mp, le_of_lt] <;> first | exact not_lt.mp c01 | exact c01 | skip

theorem mat2SO3Region_two_iff (atol : ℝ) (T : Mat3 ℝ) :
    mat2SO3Region atol T = 2 ↔ atol ≤ T.r2.z ∧ T.r0.x < -T.r1.y := by
  simp only [mat2SO3Region, lt_real]
  by_cases c2 : T.r2.z < atol <;> by_cases c01 : T.r1.y < T.r0.x <;> by_cases c3 : T.r0.x < -T.r1.y <;>
    simp [c2, c01, c3] <;> first | exact not_lt.mp c2 | exact c2 | skip

theorem mat2SO3Region_three_iff (atol : ℝ) (T : Mat3 ℝ) :
    mat2SO3Region atol T = 3 ↔ atol ≤ T.r2.z ∧ -T.r1.y ≤ T.r0.x := by
  simp only [mat2SO3Region, lt_real]
  by_cases c2 : T.r2.z < atol <;> by_cases c01 : T.r1.y < T.r0.x <;> by_cases c3 : T.r0.x < -T.r1.y <;>
    simp [c2, c01, c3] <;> first | exact ⟨not_lt.mp c2, not_lt.mp c3⟩ | exact fun _ => c3 | exact c2 | skip

/-- for `−1 < atol ≤ 1` the component the selected candidate divides by is non-zero on every rotation matrix -/
theorem region_dom_ne_zero (p : Quat ℝ) (h : p.normSq = 1) (atol : ℝ) (h1 : -1 < atol) (h2 : atol ≤ 1) :
    domComp (mat2SO3Region atol (SO3matrix p).transpose) p ≠ 0 := by
  have h' : p.x * p.x + p.y * p.y + p.z * p.z + p.w * p.w = 1 := h
  obtain ⟨e0, e1, e2⟩ := rot_diag p
  simp only [mat2SO3Region, lt_real, e0, e1, e2]
  by_cases c2 : 1 - 2 * (p.x * p.x + p.y * p.y) < atol
  · by_cases c01 : 1 - 2 * (p.x * p.x + p.z * p.z) < 1 - 2 * (p.y * p.y + p.z * p.z)
    · simp only [c2, c01, decide_true, ↓reduceIte, domComp]
      intro h0; have hq : p.x * p.x = 0 := by rw [h0]; ring
      nlinarith [mul_self_nonneg p.y]
    · simp only [c2, c01, decide_true, decide_false, ↓reduceIte, Bool.false_eq_true, domComp]
      intro h0; have hq : p.y * p.y = 0 := by rw [h0]; ring
      nlinarith [mul_self_nonneg p.x]
  · by_cases c0n1 : 1 - 2 * (p.y * p.y + p.z * p.z) < -(1 - 2 * (p.x * p.x + p.z * p.z))
    · simp only [c2, c0n1, decide_true, decide_false, ↓reduceIte, Bool.false_eq_true, domComp]
      intro h0; have hq : p.z * p.z = 0 := by rw [h0]; ring
      nlinarith [mul_self_nonneg p.w]
    · simp only [c2, c0n1, decide_false, ↓reduceIte, Bool.false_eq_true, domComp]
      intro h0; have hq : p.w * p.w = 0 := by rw [h0]; ring
      nlinarith [mul_self_nonneg p.z]


/-- the threshold itself belongs to the upper side: `R22 = atol` exactly selects candidate 2 or 3 (`<` is strict) -/
theorem mat2SO3Region_at_threshold (atol : ℝ) (T : Mat3 ℝ) (h : T.r2.z = atol) : 2 ≤ mat2SO3Region atol T := by
  by_cases c : T.r0.x < -T.r1.y
  · rw [(mat2SO3Region_two_iff atol T).mpr ⟨le_of_eq h.symm, c⟩]
  · rw [(mat2SO3Region_three_iff atol T).mpr ⟨le_of_eq h.symm, not_lt.mp c⟩]; norm_num



theorem closeTo_mono (rtol rtol' atol atol' a b : ℝ) (hr : rtol ≤ rtol') (ha : atol ≤ atol')
    (h : closeTo rtol atol a b = true) : closeTo rtol' atol' a b = true := by
  rw [closeTo_iff] at *
  have := mul_le_mul_of_nonneg_right hr (abs_nonneg b); linarith


theorem closeTo_of_near (rtol atol δ a a' b : ℝ) (hδ : |a' - a| ≤ δ)
    (h : closeTo rtol (atol - δ) a b = true) : closeTo rtol atol a' b = true := by
  rw [closeTo_iff] at *
  calc |a' - b| = |(a' - a) + (a - b)| := by ring_nf
    _ ≤ |a' - a| + |a - b| := abs_add_le _ _
    _ ≤ atol + rtol * |b| := by linarith


theorem closeTo_false_of_near (rtol atol δ a a' b : ℝ) (hδ : |a' - a| ≤ δ)
    (h : closeTo rtol (atol + δ) a b = false) : closeTo rtol atol a' b = false := by
  apply Bool.eq_false_iff.mpr; intro hc
  have : closeTo rtol (atol + δ) a b = true := by
    apply closeTo_of_near rtol (atol + δ) δ a' a b (by rw [abs_sub_comm]; exact hδ)
    simpa using hc
  rw [h] at this; exact absurd this (by simp)


/-- entrywise distance of two matrices at most `δ` -/
def Vec3.Near (δ : ℝ) (a b : Vec3 ℝ) : Prop := |a.x - b.x| ≤ δ ∧ |a.y - b.y| ≤ δ ∧ |a.z - b.z| ≤ δ

def Mat3.Near (δ : ℝ) (A B : Mat3 ℝ) : Prop := Vec3.Near δ A.r0 B.r0 ∧ Vec3.Near δ A.r1 B.r1 ∧ Vec3.Near δ A.r2 B.r2


/-- **guard band, accept side**: a computed `E'` within `δ` of the exact `E = R Rᵀ` passes `allclose(·, 1, rtol, atol)`
whenever `E` passes with `atol − δ` -/
theorem guard_band_accept (rtol atol δ : ℝ) (E E' B : Mat3 ℝ) (hn : Mat3.Near δ E' E)
    (h : Mat3.allclose rtol (atol - δ) E B = true) : Mat3.allclose rtol atol E' B = true := by
  obtain ⟨⟨a1, a2, a3⟩, ⟨b1, b2, b3⟩, ⟨c1, c2, c3⟩⟩ := hn
  simp only [Mat3.allclose, Vec3.allclose, Bool.and_eq_true] at h ⊢
  obtain ⟨⟨⟨⟨h1, h2⟩, h3⟩, ⟨⟨h4, h5⟩, h6⟩⟩, ⟨⟨h7, h8⟩, h9⟩⟩ := h
  exact ⟨⟨⟨⟨closeTo_of_near _ _ δ _ _ _ a1 h1, closeTo_of_near _ _ δ _ _ _ a2 h2⟩, closeTo_of_near _ _ δ _ _ _ a3 h3⟩,
    ⟨⟨closeTo_of_near _ _ δ _ _ _ b1 h4, closeTo_of_near _ _ δ _ _ _ b2 h5⟩, closeTo_of_near _ _ δ _ _ _ b3 h6⟩⟩,
    ⟨⟨closeTo_of_near _ _ δ _ _ _ c1 h7, closeTo_of_near _ _ δ _ _ _ c2 h8⟩, closeTo_of_near _ _ δ _ _ _ c3 h9⟩⟩


/-- **guard band, reject side**: if the exact `E` fails even with `atol + δ`, every `E'` within `δ` of it fails with `atol` -/
theorem guard_band_reject (rtol atol δ : ℝ) (E E' B : Mat3 ℝ) (hn : Mat3.Near δ E' E)
    (h : Mat3.allclose rtol (atol + δ) E B = false) : Mat3.allclose rtol atol E' B = false := by
  apply Bool.eq_false_iff.mpr; intro hc
  have hn' : Mat3.Near δ E E' := by
    obtain ⟨⟨a1, a2, a3⟩, ⟨b1, b2, b3⟩, ⟨c1, c2, c3⟩⟩ := hn
    refine ⟨⟨?_, ?_, ?_⟩, ⟨?_, ?_, ?_⟩, ⟨?_, ?_, ?_⟩⟩ <;> rw [abs_sub_comm] <;> assumption
  have := guard_band_accept rtol (atol + δ) δ E' E B hn' (by simpa using hc)
  rw [h] at this; exact absurd this (by simp)


/-- the tests are monotone in both tolerances (so the verdicts at `tol·(1−b)`, `tol`, `tol·(1+b)` are nested) -/
theorem orthOk_mono (rtol rtol' atol atol' : ℝ) (R : Mat3 ℝ) (hr : rtol ≤ rtol') (ha : atol ≤ atol')
    (h : orthOk rtol atol R = true) : orthOk rtol' atol' R = true := by
  unfold orthOk at *
  simp only [Mat3.allclose, Vec3.allclose, Bool.and_eq_true] at h ⊢
  obtain ⟨⟨⟨⟨h1, h2⟩, h3⟩, ⟨⟨h4, h5⟩, h6⟩⟩, ⟨⟨h7, h8⟩, h9⟩⟩ := h
  exact ⟨⟨⟨⟨closeTo_mono _ _ _ _ _ _ hr ha h1, closeTo_mono _ _ _ _ _ _ hr ha h2⟩, closeTo_mono _ _ _ _ _ _ hr ha h3⟩,
    ⟨⟨closeTo_mono _ _ _ _ _ _ hr ha h4, closeTo_mono _ _ _ _ _ _ hr ha h5⟩, closeTo_mono _ _ _ _ _ _ hr ha h6⟩⟩,
    ⟨⟨closeTo_mono _ _ _ _ _ _ hr ha h7, closeTo_mono _ _ _ _ _ _ hr ha h8⟩, closeTo_mono _ _ _ _ _ _ hr ha h9⟩⟩


theorem detOk_mono (rtol rtol' atol atol' d : ℝ) (hr : rtol ≤ rtol') (ha : atol ≤ atol')
    (h : detOk rtol atol d = true) : detOk rtol' atol' d = true := closeTo_mono _ _ _ _ _ _ hr ha h



/-- which shapes are accepted: at least two dimensions and a trailing `3×3`, `3×4` or `4×4` -/
theorem layoutOf_some_iff (rank rows cols : Nat) (l : Layout) :
    layoutOf rank rows cols = some l ↔
      2 ≤ rank ∧ ((rows = 3 ∧ cols = 3 ∧ l = .m33) ∨ (rows = 3 ∧ cols = 4 ∧ l = .m34) ∨ (rows = 4 ∧ cols = 4 ∧ l = .m44)) := by
  unfold layoutOf
  by_cases hr : rank < 2
  · simp [hr]
  · have h2 : 2 ≤ rank := by omega
    by_cases h33 : rows = 3 ∧ cols = 3
    · obtain ⟨a, b⟩ := h33; subst a; subst b; simp [hr, h2]; exact eq_comm
    · by_cases h34 : rows = 3 ∧ cols = 4
      · obtain ⟨a, b⟩ := h34; subst a; subst b; simp [hr, h2]; exact eq_comm
      · by_cases h44 : rows = 4 ∧ cols = 4
        · obtain ⟨a, b⟩ := h44; subst a; subst b; simp [hr, h2]; exact eq_comm
        · have e33 : (rows == 3 && cols == 3) = false := by
            cases h : (rows == 3 && cols == 3) with
            | false => rfl
            | true => simp at h; exact absurd h h33
          have e34 : (rows == 3 && cols == 4) = false := by
            cases h : (rows == 3 && cols == 4) with
            | false => rfl
            | true => simp at h; exact absurd h h34
          have e44 : (rows == 4 && cols == 4) = false := by
            cases h : (rows == 4 && cols == 4) with
            | false => rfl
            | true => simp at h; exact absurd h h44
          simp only [hr, e33, e34, e44, if_false, Bool.false_eq_true]
          constructor
          · intro h; exact absurd h (by simp)
          · rintro ⟨_, h | h | h⟩
            · exact absurd ⟨h.1, h.2.1⟩ h33
            · exact absurd ⟨h.1, h.2.1⟩ h34
            · exact absurd ⟨h.1, h.2.1⟩ h44


/-- a call raises the shape error **iff** the shape is not one of the accepted ones — whatever else is wrong with the
call (the shape tests come first) -/
theorem convCall_badShape_iff (detK : Mat3 ℝ → ℝ) (e : Entry) (rank rows cols : Nat) (a : CallArgs ℝ)
    (Ms : List (DMat ℝ)) :
    convCall detK e rank rows cols a Ms = .error .badShape ↔ layoutOf rank rows cols = none := by
  unfold convCall
  cases hl : layoutOf rank rows cols with
  | none => simp
  | some lay =>
    simp only []
    constructor
    · intro h
      cases e with
      | fromMatrix lt =>
        cases lt with
        | none => simp at h
        | some ty =>
          simp only [] at h
          cases hb : fromMatrixBatch ty detK a.effCheck a.effRtol a.effAtol (Ms.map (MatIn.ofDMat lay)) <;> simp [hb] at h
      | direct ty =>
        simp only [] at h
        cases hb : fromMatrixBatch ty detK a.effCheck a.effRtol a.effAtol (Ms.map (MatIn.ofDMat lay)) <;> simp [hb] at h
    · intro h; exact absurd h (by simp)


/-- `from_matrix(mat, X_type, …)` **is** `mat2X(mat, …)` — the dispatch table passes every argument through unchanged -/
theorem convCall_fromMatrix_eq_direct (detK : Mat3 ℝ → ℝ) (ty : GTy) (rank rows cols : Nat) (a : CallArgs ℝ)
    (Ms : List (DMat ℝ)) :
    convCall detK (.fromMatrix (some ty)) rank rows cols a Ms = convCall detK (.direct ty) rank rows cols a Ms := by
  unfold convCall; cases layoutOf rank rows cols <;> rfl


/-- an `ltype` that is not one of the four group types is refused (after the shape tests) -/
theorem convCall_badLtype (detK : Mat3 ℝ → ℝ) (rank rows cols : Nat) (a : CallArgs ℝ) (Ms : List (DMat ℝ)) (l : Layout)
    (h : layoutOf rank rows cols = some l) :
    convCall detK (.fromMatrix none) rank rows cols a Ms = .error .badLtype := by
  unfold convCall; rw [h]


/-- **defaulting**: leaving an argument out is the same as passing its default (`check=True`, `rtol=atol=1e-5`),
independently for each of the three arguments -/
theorem convCall_defaults (detK : Mat3 ℝ → ℝ) (e : Entry) (rank rows cols : Nat) (a : CallArgs ℝ) (Ms : List (DMat ℝ)) :
    convCall detK e rank rows cols a Ms =
      convCall detK e rank rows cols ⟨some a.effCheck, some a.effRtol, some a.effAtol⟩ Ms := by
  unfold convCall CallArgs.effCheck CallArgs.effRtol CallArgs.effAtol
  simp only [Option.getD_some]


theorem callArgs_none_eff : (⟨none, none, none⟩ : CallArgs ℝ).effCheck = true ∧
    (⟨none, none, none⟩ : CallArgs ℝ).effRtol = 1 / 100000 ∧ (⟨none, none, none⟩ : CallArgs ℝ).effAtol = 1 / 100000 := by
  simp [CallArgs.effCheck, CallArgs.effRtol, CallArgs.effAtol, defCheck, defRtol, defAtol]


/-- the wrapped core: on an accepted shape a call of `mat2X` / `from_matrix(·, X_type)` is `fromMatrixBatch` on the
blocks of the input with the effective arguments -/
theorem convCall_eq_core (detK : Mat3 ℝ → ℝ) (ty : GTy) (rank rows cols : Nat) (l : Layout) (a : CallArgs ℝ)
    (Ms : List (DMat ℝ)) (h : layoutOf rank rows cols = some l) (r : List (List ℝ)) :
    convCall detK (.direct ty) rank rows cols a Ms = .ok r ↔
      fromMatrixBatch ty detK a.effCheck a.effRtol a.effAtol (Ms.map (MatIn.ofDMat l)) = .ok r := by
  unfold convCall; rw [h]; simp only []
  cases hb : fromMatrixBatch ty detK a.effCheck a.effRtol a.effAtol (Ms.map (MatIn.ofDMat l)) <;> simp


/-- `euler()` with the default `eps = 2·10⁻⁴`: the glue only fills in the default … -/
theorem SO3eulerCall_default (p : Quat ℝ) : SO3eulerCall none p = SO3euler (1 / 5000) p := by
  simp [SO3eulerCall, defEulerEps]

theorem SO3eulerCall_some (eps : ℝ) (p : Quat ℝ) : SO3eulerCall (some eps) p = SO3euler eps p := rfl


/-- candidate 3 on the matrix the code builds from an arbitrary (not necessarily unit) quaternion -/
theorem cand3_rot_general (p : Quat ℝ) :
    cand3 (SO3matrix p).transpose = ⟨4 - 4 * (p.x * p.x + p.y * p.y + p.z * p.z), 4 - 4 * (p.x * p.x + p.y * p.y + p.z * p.z),
      4 * p.w * p.x, 4 * p.w * p.y, 4 * p.w * p.z⟩ := by
  unfold cand3 SO3matrix; ext <;> lie_unfold <;> ring


/-- **the round trip is not a contraction**: if `‖p‖² = 1 + e` (a rounding-level norm defect `e`) and the `w` candidate is
selected, `mat2SO3(matrix(p))` has `‖·‖² − 1 = e·(1 − w² + e)/(w² − e)` — the defect is multiplied by `(1 − w²)/w²`, up to 3
at `w² = 1/4`; iterating the round trip drifts away from the unit sphere geometrically (observed on the real code) -/
theorem roundtrip_norm_amplification (p : Quat ℝ) (atol e : ℝ) (he : p.normSq = 1 + e)
    (hreg : mat2SO3Region atol (SO3matrix p).transpose = 3) (hpos : 0 < p.w * p.w - e) :
    (mat2SO3Raw atol (SO3matrix p)).normSq - 1 = e * (1 - p.w * p.w + e) / (p.w * p.w - e) := by
  have he' : p.x * p.x + p.y * p.y + p.z * p.z + p.w * p.w = 1 + e := he
  have ht : 4 - 4 * (p.x * p.x + p.y * p.y + p.z * p.z) = 4 * (p.w * p.w - e) := by linarith
  have htpos : 0 < 4 - 4 * (p.x * p.x + p.y * p.y + p.z * p.z) := by rw [ht]; linarith
  unfold mat2SO3Raw
  simp only [hreg, candOf, cand3_rot_general]
  obtain ⟨eq, hi⟩ := Cand.toQuat_scaled_inv
    (⟨4 - 4 * (p.x * p.x + p.y * p.y + p.z * p.z), 4 - 4 * (p.x * p.x + p.y * p.y + p.z * p.z),
      4 * p.w * p.x, 4 * p.w * p.y, 4 * p.w * p.z⟩ : Cand ℝ) htpos
  rw [eq]
  simp only [] at hi ⊢
  set i := 1 / (2 * Real.sqrt (4 - 4 * (p.x * p.x + p.y * p.y + p.z * p.z))) with hidef
  have hne : p.w * p.w - e ≠ 0 := ne_of_gt hpos
  rw [eq_div_iff hne]
  simp only [Quat.normSq]
  -- 4 t i² = 1 with t = 4 (w² − e)
  have hi' : 16 * (p.w * p.w - e) * i * i = 1 := by rw [ht] at hi; linarith
  have hxyz : p.x * p.x + p.y * p.y + p.z * p.z = 1 + e - p.w * p.w := by linarith
  have key : (4 * p.w * p.x * i) * (4 * p.w * p.x * i) + (4 * p.w * p.y * i) * (4 * p.w * p.y * i)
      + (4 * p.w * p.z * i) * (4 * p.w * p.z * i)
      + ((4 - 4 * (p.x * p.x + p.y * p.y + p.z * p.z)) * i) * ((4 - 4 * (p.x * p.x + p.y * p.y + p.z * p.z)) * i)
      = 16 * i * i * (p.w * p.w * (1 + e - p.w * p.w) + (p.w * p.w - e) * (p.w * p.w - e)) := by
    rw [ht]; linear_combination (16 * i * i * (p.w * p.w)) * hxyz
  rw [key]
  linear_combination ((p.w * p.w * (1 + e - p.w * p.w) + (p.w * p.w - e) * (p.w * p.w - e))) * hi'


/-- instance: at `w² = 1/4` a defect `e = 1/100` is more than tripled -/
example : 3 * (1 / 100 : ℝ) < (1 / 100) * (1 - 1 / 4 + 1 / 100) / (1 / 4 - 1 / 100) := by norm_num


/-- exact coincidence with the tolerance: an off-diagonal entry of `R Rᵀ` **equal** to `atol` passes (`allclose` is `≤`) … -/
theorem check_tie_accepts (a : ℝ) (h0 : 0 ≤ a) (h1 : a ≤ 1) :
    orthOk 0 a (⟨⟨1, a, 0⟩, ⟨0, 1, 0⟩, ⟨0, 0, 1⟩⟩ : Mat3 ℝ) = true := by
  rw [orthOk_iff]; lie_unfold
  have : a * a ≤ a := by nlinarith
  have h2 : 0 ≤ a * a := mul_self_nonneg a
  simp only [mul_one, mul_zero, add_zero, zero_add, one_mul, zero_mul, sub_self, abs_zero]
  refine ⟨⟨?_, by simpa using h0, by simpa using h0⟩, ?_, by simpa using h0, ?_, by simpa using h0, by simpa using h0, by simpa using h0⟩
  · rw [show (1 : ℝ) + a * a - 1 = a * a by ring, abs_of_nonneg h2]; linarith
  · rw [abs_of_nonneg h0]
  · rw [abs_of_nonneg h0]


/-- … and anything above it is refused -/
theorem check_tie_rejects_above (a b : ℝ) (h0 : 0 ≤ a) (hb : a < b) :
    orthOk 0 a (⟨⟨1, b, 0⟩, ⟨0, 1, 0⟩, ⟨0, 0, 1⟩⟩ : Mat3 ℝ) = false := by
  apply Bool.eq_false_iff.mpr; intro hok
  have h := ((orthOk_iff _ _ _).mp hok).2.1
  revert h; lie_unfold
  simp only [mul_one, mul_zero, add_zero, zero_add, one_mul, zero_mul]
  intro h; rw [abs_of_pos (by linarith)] at h; linarith


/-- on a unit quaternion `t2 = sin(pitch)` lies in `[-1, 1]`, and the rest of the third row of `R(X)` has length `cos(pitch)`:
`R21² + R22² = 1 − t2²` -/
theorem euler_t2_bounds (p : Quat ℝ) (h : p.normSq = 1) :
    |2 * (p.w * p.y - p.z * p.x)| ≤ 1 ∧
    ((SO3matrix p).r2.y) ^ 2 + ((SO3matrix p).r2.z) ^ 2 = 1 - (2 * (p.w * p.y - p.z * p.x)) ^ 2 ∧
    (SO3matrix p).r2.x = -(2 * (p.w * p.y - p.z * p.x)) := by
  have h' : p.x * p.x + p.y * p.y + p.z * p.z + p.w * p.w = 1 := h
  have e : ((SO3matrix p).r2.y) ^ 2 + ((SO3matrix p).r2.z) ^ 2 = 1 - (2 * (p.w * p.y - p.z * p.x)) ^ 2 := by
    unfold SO3matrix; lie_unfold
    linear_combination (4 * (p.x * p.x + p.y * p.y)) * h'
  refine ⟨?_, e, ?_⟩
  · have hn : 0 ≤ 1 - (2 * (p.w * p.y - p.z * p.x)) ^ 2 := by rw [← e]; positivity
    rw [abs_le]; constructor <;> nlinarith
  · unfold SO3matrix; lie_unfold; ring

/-- `guard_band_accept` has non-trivial instances: `Near` with `δ = 10⁻⁷` -/
example : Mat3.Near (1 / 10000000) (⟨⟨1 + 1 / 20000000, 0, 0⟩, ⟨0, 1, 0⟩, ⟨0, 0, 1⟩⟩ : Mat3 ℝ) Mat3.one := by
  refine ⟨⟨?_, ?_, ?_⟩, ⟨?_, ?_, ?_⟩, ⟨?_, ?_, ?_⟩⟩ <;> lie_unfold <;> norm_num [abs_of_pos]


/-! ## layouts: the converters read only the blocks of their layout; slices of `matrix()` -/
set_option linter.unusedVariables false

/-- unit quaternion (and positive scale): what the property calls "an element" -/
def C11.ValidSE3 (X : SE3 ℝ) : Prop := X.q.normSq = 1
def C11.ValidSim3 (X : Sim3 ℝ) : Prop := X.q.normSq = 1 ∧ 0 < X.s
def C11.ValidRxSO3 (X : RxSO3 ℝ) : Prop := X.q.normSq = 1 ∧ 0 < X.s

/-- batches of matrices of unit quaternions (the property theorem `mat2SO3Batch_matrix` restates this) -/
theorem mat2SO3Batch_on_rots (detK : Mat3 ℝ → ℝ) (hdet : ∀ M, detK M = M.det) (check : Bool) (rtol atol : ℝ)
    (hr : 0 ≤ rtol) (ha0 : 0 ≤ atol) (ha1 : atol < 1) (ps : List (Quat ℝ)) (h : ∀ p ∈ ps, p.normSq = 1) :
    mat2SO3Batch detK check rtol atol (ps.map SO3matrix) = .ok (ps.map (canonQ atol)) := by
  rw [mat2SO3Batch_ok_of_all, List.map_map]
  · congr 1; apply List.map_congr_left; intro p hp
    exact mat2SO3Raw_rot p (h p hp) atol (by rw [abs_of_nonneg ha0]; exact ha1)
  · intro R hR
    obtain ⟨p, hp, rfl⟩ := List.mem_map.mp hR
    exact ⟨orthOk_rot p (h p hp) _ _ hr ha0, by rw [hdet]; exact detOk_rot p (h p hp) _ _ hr ha0⟩


/-- the top-left `r × c` part of a dense matrix (what `mat[..., :r, :c]` / a `(*, r, c)` input holds) -/
def sliceD (r c : Nat) (M : DMat ℝ) : DMat ℝ := (M.take r).map (·.take c)

/-! ### the converters read only the blocks of their layout -/

theorem mat2SE3Batch_blocks (detK : Mat3 ℝ → ℝ) (hdet : ∀ M, detK M = M.det) (check : Bool) (rtol atol : ℝ)
    (hr : 0 ≤ rtol) (ha0 : 0 ≤ atol) (ha1 : atol < 1) (ms : List (MatIn ℝ)) (Xs : List (SE3 ℝ)) (tsel : SE3 ℝ → Vec3 ℝ)
    (hR : ms.map (·.R) = Xs.map fun X => SO3matrix X.q) (ht : ms.map (·.tOf) = Xs.map tsel)
    (h : ∀ X ∈ Xs, C11.ValidSE3 X) :
    mat2SE3Batch detK check rtol atol ms = .ok (Xs.map fun X => ⟨tsel X, canonQ atol X.q⟩) := by
  unfold mat2SE3Batch
  have hq : (Xs.map fun X => SO3matrix X.q) = (Xs.map (·.q)).map SO3matrix := by rw [List.map_map]; rfl
  rw [hR, hq, mat2SO3Batch_on_rots detK hdet check rtol atol hr ha0 ha1 (Xs.map (·.q))
    (by intro p hp; obtain ⟨X, hX, rfl⟩ := List.mem_map.mp hp; exact h X hX)]
  simp only []
  rw [← List.zipWith_map_left (l₁ := ms) (f := fun (m : MatIn ℝ) => m.tOf) (g := fun t (q : Quat ℝ) => (⟨t, q⟩ : SE3 ℝ)), ht]
  simp only [List.map_map, List.zipWith_map, List.zipWith_self, Function.comp]

theorem mat2Sim3Batch_blocks (detK : Mat3 ℝ → ℝ) (hdet : ∀ M, detK M = M.det) (check : Bool) (rtol atol : ℝ)
    (hr : 0 ≤ rtol) (ha0 : 0 ≤ atol) (ha1 : atol < 1) (ms : List (MatIn ℝ)) (Xs : List (Sim3 ℝ)) (tsel : Sim3 ℝ → Vec3 ℝ)
    (hR : ms.map (·.R) = Xs.map fun X => Mat3.smul X.s (SO3matrix X.q)) (ht : ms.map (·.tOf) = Xs.map tsel)
    (h : ∀ X ∈ Xs, C11.ValidSim3 X) (hbig : Xs ≠ [] → ∃ X ∈ Xs, atol < X.s) :
    mat2Sim3Batch detK check rtol atol ms = .ok (Xs.map fun X => ⟨tsel X, canonQ atol X.q, X.s⟩) := by
  unfold mat2Sim3Batch
  have hq : (Xs.map fun X => Mat3.smul X.s (SO3matrix X.q))
      = (Xs.map fun X => (X.q, X.s)).map fun p => Mat3.smul p.2 (SO3matrix p.1) := by rw [List.map_map]; rfl
  rw [hR, hq, scaledRotBatch_valid detK hdet check rtol atol hr ha0 ha1 (Xs.map fun X => (X.q, X.s))
    (by intro p hp; obtain ⟨X, hX, rfl⟩ := List.mem_map.mp hp; exact h X hX)
    (by intro hne; obtain ⟨X, hX, hb⟩ := hbig (by intro h0; rw [h0] at hne; exact hne rfl)
        exact ⟨(X.q, X.s), List.mem_map.mpr ⟨X, hX, rfl⟩, hb⟩)]
  simp only []
  rw [← List.zipWith_map_left (l₁ := ms) (f := fun (m : MatIn ℝ) => m.tOf)
    (g := fun t (p : Quat ℝ × ℝ) => (⟨t, p.1, p.2⟩ : Sim3 ℝ)), ht]
  simp only [List.map_map, List.zipWith_map, List.zipWith_self, Function.comp]

theorem mat2RxSO3Batch_blocks (detK : Mat3 ℝ → ℝ) (hdet : ∀ M, detK M = M.det) (check : Bool) (rtol atol : ℝ)
    (hr : 0 ≤ rtol) (ha0 : 0 ≤ atol) (ha1 : atol < 1) (ms : List (MatIn ℝ)) (Xs : List (RxSO3 ℝ))
    (hR : ms.map (·.R) = Xs.map fun X => Mat3.smul X.s (SO3matrix X.q))
    (h : ∀ X ∈ Xs, C11.ValidRxSO3 X) (hbig : Xs ≠ [] → ∃ X ∈ Xs, atol < X.s) :
    mat2RxSO3Batch detK check rtol atol ms = .ok (Xs.map fun X => ⟨canonQ atol X.q, X.s⟩) := by
  unfold mat2RxSO3Batch
  have hq : (Xs.map fun X => Mat3.smul X.s (SO3matrix X.q))
      = (Xs.map fun X => (X.q, X.s)).map fun p => Mat3.smul p.2 (SO3matrix p.1) := by rw [List.map_map]; rfl
  rw [hR, hq, scaledRotBatch_valid detK hdet check rtol atol hr ha0 ha1 (Xs.map fun X => (X.q, X.s))
    (by intro p hp; obtain ⟨X, hX, rfl⟩ := List.mem_map.mp hp; exact h X hX)
    (by intro hne; obtain ⟨X, hX, hb⟩ := hbig (by intro h0; rw [h0] at hne; exact hne rfl)
        exact ⟨(X.q, X.s), List.mem_map.mpr ⟨X, hX, rfl⟩, hb⟩)]
  simp only [List.map_map, Function.comp]
  rfl

/-! ### blocks of a sliced `matrix()` -/

theorem slice_Sim3 (lay : Layout) (r c : Nat) (hl : (r = 3 ∧ c = 3 ∧ lay = .m33) ∨ (r = 3 ∧ c = 4 ∧ lay = .m34) ∨ (r = 4 ∧ c = 4 ∧ lay = .m44))
    (X : Sim3 ℝ) :
    (MatIn.ofDMat lay (sliceD r c (Sim3matrix X))).R = Mat3.smul X.s (SO3matrix X.q) ∧
    (MatIn.ofDMat lay (sliceD r c (Sim3matrix X))).tOf = (if lay = .m33 then Vec3.zero else X.t) := by
  rcases hl with ⟨rfl, rfl, rfl⟩ | ⟨rfl, rfl, rfl⟩ | ⟨rfl, rfl, rfl⟩
  all_goals
    refine ⟨?_, ?_⟩
    · simp only [MatIn.ofDMat, sliceD, Sim3matrix, matrix4, Sim3Act4, SO3matrix, List.take, List.map, List.getD_cons_zero,
        List.getD_cons_succ]
      ext <;> lie_unfold <;> ring
    · simp only [MatIn.ofDMat, MatIn.tOf, sliceD, Sim3matrix, matrix4, Sim3Act4, SO3matrix, List.take, List.map, List.getD_cons_zero,
        List.getD_cons_succ, List.getD_nil, reduceCtorEq, if_false, if_true]
      try (ext <;> lie_unfold <;> ring)
theorem slice_SE3 (lay : Layout) (r c : Nat) (hl : (r = 3 ∧ c = 3 ∧ lay = .m33) ∨ (r = 3 ∧ c = 4 ∧ lay = .m34) ∨ (r = 4 ∧ c = 4 ∧ lay = .m44))
    (X : SE3 ℝ) :
    (MatIn.ofDMat lay (sliceD r c (SE3matrix X))).R = SO3matrix X.q ∧
    (MatIn.ofDMat lay (sliceD r c (SE3matrix X))).tOf = (if lay = .m33 then Vec3.zero else X.t) := by
  rcases hl with ⟨rfl, rfl, rfl⟩ | ⟨rfl, rfl, rfl⟩ | ⟨rfl, rfl, rfl⟩
  all_goals
    refine ⟨?_, ?_⟩
    · simp only [MatIn.ofDMat, sliceD, SE3matrix, matrix4, SE3Act4, SO3matrix, List.take, List.map, List.getD_cons_zero,
        List.getD_cons_succ]
      ext <;> lie_unfold <;> ring
    · simp only [MatIn.ofDMat, MatIn.tOf, sliceD, SE3matrix, matrix4, SE3Act4, SO3matrix, List.take, List.map, List.getD_cons_zero,
        List.getD_cons_succ, List.getD_nil, reduceCtorEq, if_false, if_true]
      try (ext <;> lie_unfold <;> ring)

theorem slice_RxSO3 (lay : Layout) (r c : Nat) (hl : (r = 3 ∧ c = 3 ∧ lay = .m33) ∨ (r = 3 ∧ c = 4 ∧ lay = .m34) ∨ (r = 4 ∧ c = 4 ∧ lay = .m44))
    (X : RxSO3 ℝ) :
    (MatIn.ofDMat lay (sliceD r c (RxSO3matrix X))).R = Mat3.smul X.s (SO3matrix X.q) := by
  rcases hl with ⟨rfl, rfl, rfl⟩ | ⟨rfl, rfl, rfl⟩ | ⟨rfl, rfl, rfl⟩
  all_goals
    simp only [MatIn.ofDMat, sliceD, RxSO3matrix, matrix4, RxSO3Act4, SO3matrix, List.take, List.map, List.getD_cons_zero,
      List.getD_cons_succ]
    ext <;> lie_unfold <;> ring

theorem layoutOf_of (rank r c : Nat) (lay : Layout) (hrank : 2 ≤ rank)
    (hl : (r = 3 ∧ c = 3 ∧ lay = .m33) ∨ (r = 3 ∧ c = 4 ∧ lay = .m34) ∨ (r = 4 ∧ c = 4 ∧ lay = .m44)) :
    layoutOf rank r c = some lay := (layoutOf_some_iff rank r c lay).mpr ⟨hrank, hl⟩

theorem effArgs_admissible (a : CallArgs ℝ) (hr : ∀ r, a.rtol = some r → 0 ≤ r) (ha : ∀ t, a.atol = some t → 0 ≤ t ∧ t < 1) :
    0 ≤ a.effRtol ∧ 0 ≤ a.effAtol ∧ a.effAtol < 1 := by
  refine ⟨?_, ?_⟩
  · unfold CallArgs.effRtol; cases hh : a.rtol with
    | none => simp [defRtol]
    | some r => simpa using hr r hh
  · unfold CallArgs.effAtol; cases hh : a.atol with
    | none => simp [defAtol]; norm_num
    | some t => simpa using ha t hh


/-- the default `check` is `True`: a caller who leaves it out gets the validation -/
theorem effCheck_default (rt at_ : Option ℝ) : (⟨none, rt, at_⟩ : CallArgs ℝ).effCheck = true := rfl


/-! ## perturbation of products, dot products and determinants (pass 7) -/

theorem mul_near (u v u0 v0 δ : ℝ) (hδ : 0 ≤ δ) (hu : |u - u0| ≤ δ) (hv : |v - v0| ≤ δ) (hu0 : |u0| ≤ 1) (hv0 : |v0| ≤ 1) :
    |u * v - u0 * v0| ≤ 2 * δ + δ ^ 2 := by
  have e : u * v - u0 * v0 = (u - u0) * (v - v0) + u0 * (v - v0) + (u - u0) * v0 := by ring
  rw [e]
  calc |(u - u0) * (v - v0) + u0 * (v - v0) + (u - u0) * v0|
      ≤ |(u - u0) * (v - v0)| + |u0 * (v - v0)| + |(u - u0) * v0| := abs_add_three _ _ _
    _ = |u - u0| * |v - v0| + |u0| * |v - v0| + |u - u0| * |v0| := by rw [abs_mul, abs_mul, abs_mul]
    _ ≤ δ * δ + 1 * δ + δ * 1 := by
        have h1 := mul_le_mul hu hv (abs_nonneg _) hδ
        have h2 := mul_le_mul hu0 hv (abs_nonneg _) (by norm_num : (0:ℝ) ≤ 1)
        have h3 := mul_le_mul hu hv0 (abs_nonneg _) hδ
        linarith
    _ = 2 * δ + δ ^ 2 := by ring

theorem mul3_near (u v w u0 v0 w0 δ : ℝ) (hδ : 0 ≤ δ) (hu : |u - u0| ≤ δ) (hv : |v - v0| ≤ δ) (hw : |w - w0| ≤ δ)
    (hu0 : |u0| ≤ 1) (hv0 : |v0| ≤ 1) (hw0 : |w0| ≤ 1) :
    |u * v * w - u0 * v0 * w0| ≤ 3 * δ + 3 * δ ^ 2 + δ ^ 3 := by
  have huv := mul_near u v u0 v0 δ hδ hu hv hu0 hv0
  have huv0 : |u0 * v0| ≤ 1 := by rw [abs_mul]; exact mul_le_one₀ hu0 (abs_nonneg _) hv0
  have e : u * v * w - u0 * v0 * w0 = (u * v - u0 * v0) * (w - w0) + (u0 * v0) * (w - w0) + (u * v - u0 * v0) * w0 := by ring
  rw [e]
  have hB : 0 ≤ 2 * δ + δ ^ 2 := by positivity
  calc |(u * v - u0 * v0) * (w - w0) + u0 * v0 * (w - w0) + (u * v - u0 * v0) * w0|
      ≤ |(u * v - u0 * v0) * (w - w0)| + |u0 * v0 * (w - w0)| + |(u * v - u0 * v0) * w0| := abs_add_three _ _ _
    _ = |u * v - u0 * v0| * |w - w0| + |u0 * v0| * |w - w0| + |u * v - u0 * v0| * |w0| := by
        rw [abs_mul (u * v - u0 * v0) (w - w0), abs_mul (u0 * v0) (w - w0), abs_mul (u * v - u0 * v0) w0]
    _ ≤ (2 * δ + δ ^ 2) * δ + 1 * δ + (2 * δ + δ ^ 2) * 1 := by
        have h1 := mul_le_mul huv hw (abs_nonneg _) hB
        have h2 := mul_le_mul huv0 hw (abs_nonneg _) (by norm_num : (0:ℝ) ≤ 1)
        have h3 := mul_le_mul huv hw0 (abs_nonneg _) hB
        linarith
    _ = 3 * δ + 3 * δ ^ 2 + δ ^ 3 := by ring

/-- entries of a matrix with orthonormal rows are bounded by 1 -/
theorem row_entries_le_one (r : Vec3 ℝ) (h : r.x * r.x + r.y * r.y + r.z * r.z = 1) : |r.x| ≤ 1 ∧ |r.y| ≤ 1 ∧ |r.z| ≤ 1 := by
  refine ⟨?_, ?_, ?_⟩ <;> (rw [abs_le]; constructor <;> nlinarith [mul_self_nonneg r.x, mul_self_nonneg r.y, mul_self_nonneg r.z])

theorem dot_near (a b a0 b0 : Vec3 ℝ) (δ : ℝ) (hδ : 0 ≤ δ) (ha : Vec3.Near δ a a0) (hb : Vec3.Near δ b b0)
    (ha0 : |a0.x| ≤ 1 ∧ |a0.y| ≤ 1 ∧ |a0.z| ≤ 1) (hb0 : |b0.x| ≤ 1 ∧ |b0.y| ≤ 1 ∧ |b0.z| ≤ 1) :
    |a.dot b - a0.dot b0| ≤ 6 * δ + 3 * δ ^ 2 := by
  obtain ⟨a1, a2, a3⟩ := ha
  obtain ⟨b1, b2, b3⟩ := hb
  have hx := mul_near a.x b.x a0.x b0.x δ hδ a1 b1 ha0.1 hb0.1
  have hy := mul_near a.y b.y a0.y b0.y δ hδ a2 b2 ha0.2.1 hb0.2.1
  have hz := mul_near a.z b.z a0.z b0.z δ hδ a3 b3 ha0.2.2 hb0.2.2
  simp only [Vec3.dot]
  rw [abs_le] at hx hy hz ⊢
  constructor <;> linarith [hx.1, hx.2, hy.1, hy.2, hz.1, hz.2]

/-! ### pass 10: helpers for the in-band Euler bound (first column, 2×2 block) -/
/-- first column of `R(X)` for a unit quaternion: `R00² + R10² = 1 − t2²` -/
theorem euler_first_column (p : Quat ℝ) (h : p.normSq = 1) :
    ((SO3matrix p).r0.x) ^ 2 + ((SO3matrix p).r1.x) ^ 2 = 1 - (2 * (p.w * p.y - p.z * p.x)) ^ 2 := by
  have h' : p.x * p.x + p.y * p.y + p.z * p.z + p.w * p.w = 1 := h
  unfold SO3matrix; lie_unfold
  linear_combination (4 * (p.y * p.y + p.z * p.z)) * h'

theorem abs_le_of_sq_add_sq (a b d : ℝ) (hd : 0 ≤ d) (h : a ^ 2 + b ^ 2 = d ^ 2) : |a| ≤ d ∧ |b| ≤ d := by
  constructor <;> (rw [abs_le]; constructor <;> nlinarith [sq_nonneg a, sq_nonneg b])

theorem abs_mul_sub_le (c d a : ℝ) (hc : |c| ≤ 1) (hd : 0 ≤ d) (ha : |a| ≤ d) : |c * d - a| ≤ 2 * d := by
  have h1 : |c * d| ≤ d := by rw [abs_mul, abs_of_nonneg hd]; exact mul_le_of_le_one_left hd hc
  calc |c * d - a| ≤ |c * d| + |a| := abs_sub _ _
    _ ≤ 2 * d := by linarith

/-- **inside the gimbal band: the first column and the third row of the reconstructed matrix** (five of the nine entries) are within
`2·cos(pitch) = 2·√(1 − t2²) ≤ 2·√(2·eps)` of those of `R(X)`, for every unit `X`, every `0 ≤ eps`; the (2,0) entry is exact -/

theorem band_bm (p q E : ℝ) (hp : |p| ≤ 1) (hq : |q| ≤ E) : |p * q| ≤ E := by
  rw [abs_mul]
  calc |p| * |q| ≤ 1 * E := mul_le_mul hp hq (abs_nonneg _) (by norm_num)
    _ = E := one_mul _

theorem band_cs2 (p q r s E : ℝ) (h1 : p * p + q * q ≤ 1) (h2 : r * r + s * s = E * E) (hE : 0 ≤ E) : |p * r + q * s| ≤ E := by
  have k1 : (p * r + q * s) * (p * r + q * s) + (p * s - q * r) * (p * s - q * r) = (p * p + q * q) * (E * E) := by
    rw [← h2]; ring
  have k2 : (p * p + q * q) * (E * E) ≤ 1 * (E * E) := mul_le_mul_of_nonneg_right h1 (mul_self_nonneg E)
  have k3 : (p * r + q * s) * (p * r + q * s) ≤ E * E := by nlinarith [mul_self_nonneg (p * s - q * r)]
  exact abs_le.mpr ⟨by nlinarith, by nlinarith⟩

theorem band_quarter (r X e : ℝ) (hr : 1 / 4 ≤ r) (h : |r * X| ≤ 12 * e) : |X| ≤ 48 * e := by
  rw [abs_mul, abs_of_pos (by linarith : (0 : ℝ) < r)] at h
  nlinarith [abs_nonneg X]

/-- the 2×2 block, sign `+` -/
theorem band_block_core (x y z w e C S : ℝ) (hn : x * x + y * y + z * z + w * w = 1)
    (he0 : 0 ≤ e) (he1 : e ≤ 1 / 5) (he : e * e = 1 - 2 * (w * y - z * x))
    (hC : C * (w * w + x * x) = w * w - x * x) (hS : S * (w * w + x * x) = 2 * w * x) :
    |S - 2 * (x * y - w * z)| ≤ 48 * e ∧ |C * (2 * (w * y - z * x)) - 2 * (x * z + w * y)| ≤ 48 * e ∧
    |C - (1 - 2 * (x * x + z * z))| ≤ 48 * e ∧ |-S * (2 * (w * y - z * x)) - 2 * (y * z - w * x)| ≤ 48 * e := by
  obtain ⟨u, hu⟩ : ∃ u, y = w - u := ⟨w - y, by ring⟩
  obtain ⟨v, hv⟩ : ∃ v, z = v - x := ⟨x + z, by ring⟩
  subst hu hv
  have huv : u * u + v * v = e * e := by linear_combination hn - he
  have hG : 2 * (w * w + x * x) - 1 - 2 * (w * u + x * v) + e * e = 0 := by linear_combination he
  have hρ1 : w * w + x * x ≤ 1 := by linarith only [mul_self_nonneg (w - u), mul_self_nonneg (v - x), hn]
  have hρ0 : 0 ≤ w * w + x * x := add_nonneg (mul_self_nonneg _) (mul_self_nonneg _)
  have ha : |w * u + x * v| ≤ e := band_cs2 w x u v e hρ1 huv he0
  have hb : |x * u + w * v| ≤ e := band_cs2 x w u v e (by linarith) huv he0
  have hc : |x * v - w * u| ≤ e := by
    have := band_cs2 x (-w) v u e (by linarith) (by linarith) he0
    rwa [show x * v + -w * u = x * v - w * u by ring] at this
  have hu' : |u| ≤ e := by
    have := band_cs2 1 0 u v e (by norm_num) huv he0
    rwa [show (1 : ℝ) * u + 0 * v = u by ring] at this
  have hv' : |v| ≤ e := by
    have := band_cs2 0 1 u v e (by norm_num) huv he0
    rwa [show (0 : ℝ) * u + 1 * v = v by ring] at this
  have hee : e * e ≤ e / 5 := by linarith only [mul_nonneg he0 (sub_nonneg.mpr he1)]
  have hρq : 1 / 4 ≤ w * w + x * x := by
    obtain ⟨l, _⟩ := abs_le.mp ha
    linarith only [hG, l, hee, he1]
  have h2wx : |2 * w * x| ≤ 1 := by
    rw [abs_le]; constructor <;> linarith only [mul_self_nonneg (w - x), mul_self_nonneg (w + x), hρ1]
  have hwx2 : |w * w - x * x| ≤ 1 := by
    rw [abs_le]; constructor <;> linarith only [mul_self_nonneg w, mul_self_nonneg x, hρ1]
  have hρa : |w * w + x * x| ≤ 1 := by rw [abs_of_nonneg hρ0]; exact hρ1
  have hxx : |x * x| ≤ 1 := by
    rw [abs_of_nonneg (mul_self_nonneg x)]; linarith only [mul_self_nonneg w, hρ1]
  have hx1 : |x| ≤ 1 := by
    rw [abs_le]; constructor <;> nlinarith [mul_self_nonneg w, mul_self_nonneg (x - 1), mul_self_nonneg (x + 1)]
  have hee' : |e * e| ≤ e / 5 := by rw [abs_of_nonneg (mul_self_nonneg e)]; exact hee
  have hxv : |x * v| ≤ e := band_bm _ _ _ hx1 hv'
  have hvv : |v * v| ≤ e / 5 := by
    rw [abs_of_nonneg (mul_self_nonneg v)]; linarith only [mul_self_nonneg u, huv, hee]
  have huv' : |u * v| ≤ e / 5 := by
    rw [abs_le]; constructor <;> linarith only [mul_self_nonneg (u - v), mul_self_nonneg (u + v), huv, hee, he0]
  obtain ⟨a1, a2⟩ := abs_le.mp (band_bm _ _ _ h2wx ha)
  obtain ⟨b1, b2⟩ := abs_le.mp (band_bm _ _ _ h2wx hee')
  obtain ⟨c1, c2⟩ := abs_le.mp (band_bm _ _ _ hρa hb)
  obtain ⟨d1, d2⟩ := abs_le.mp (band_bm _ _ _ hwx2 ha)
  obtain ⟨f1, f2⟩ := abs_le.mp (band_bm _ _ _ hρa hc)
  obtain ⟨g1, g2⟩ := abs_le.mp (band_bm _ _ _ hxx ha)
  obtain ⟨i1, i2⟩ := abs_le.mp (band_bm _ _ _ hxx hee')
  obtain ⟨j1, j2⟩ := abs_le.mp (band_bm _ _ _ hρa hxv)
  obtain ⟨k1, k2⟩ := abs_le.mp (band_bm _ _ _ hρa hvv)
  obtain ⟨l1, l2⟩ := abs_le.mp (band_bm _ _ _ hρa huv')
  refine ⟨band_quarter _ _ _ hρq ?_, band_quarter _ _ _ hρq ?_, band_quarter _ _ _ hρq ?_, band_quarter _ _ _ hρq ?_⟩
  · have e1 : (w * w + x * x) * (S - 2 * (x * (w - u) - w * (v - x))) =
        -(2 * w * x * (w * u + x * v) * 2 - 2 * w * x * (e * e) - 2 * ((w * w + x * x) * (x * u + w * v))) := by
      linear_combination hS - 2 * w * x * hG
    rw [e1, abs_le]; constructor <;> linarith only [a1, a2, b1, b2, c1, c2, he0]
  · have e1 : (w * w + x * x) * (C * (2 * (w * (w - u) - (v - x) * x)) - 2 * (x * (v - x) + w * (w - u))) =
        -(2 * ((w * w - x * x) * (w * u + x * v)) + 2 * ((w * w + x * x) * (x * v - w * u))) := by
      linear_combination (2 * (w * (w - u) - (v - x) * x)) * hC
    rw [e1, abs_le]; constructor <;> linarith only [d1, d2, f1, f2, he0]
  · have e1 : (w * w + x * x) * (C - (1 - 2 * (x * x + (v - x) * (v - x)))) =
        -(-(4 * (x * x * (w * u + x * v))) + 2 * (x * x * (e * e)) + 4 * ((w * w + x * x) * (x * v)) - 2 * ((w * w + x * x) * (v * v))) := by
      linear_combination hC + 2 * x * x * hG
    rw [e1, abs_le]; constructor <;> linarith only [g1, g2, i1, i2, j1, j2, k1, k2, he0]
  · have e1 : (w * w + x * x) * (-S * (2 * (w * (w - u) - (v - x) * x)) - 2 * ((w - u) * (v - x) - w * x)) =
        -(-(2 * (2 * w * x * (w * u + x * v))) + 2 * ((w * w + x * x) * (x * u + w * v)) - 2 * ((w * w + x * x) * (u * v))) := by
      linear_combination (-(2 * (w * (w - u) - (v - x) * x))) * hS
    rw [e1, abs_le]; constructor <;> linarith only [a1, a2, c1, c2, l1, l2, he0]
theorem cos_sin_two_arg (w x : ℝ) :
    Real.cos (2 * Complex.arg ⟨w, x⟩) * (w * w + x * x) = w * w - x * x ∧
    Real.sin (2 * Complex.arg ⟨w, x⟩) * (w * w + x * x) = 2 * w * x := by
  by_cases hz : (⟨w, x⟩ : ℂ) = 0
  · have hw : w = 0 := by have := congrArg Complex.re hz; simpa using this
    have hx : x = 0 := by have := congrArg Complex.im hz; simpa using this
    subst hw hx; simp
  · have hN0 : 0 < ‖(⟨w, x⟩ : ℂ)‖ := norm_pos_iff.mpr hz
    have hN : ‖(⟨w, x⟩ : ℂ)‖ * ‖(⟨w, x⟩ : ℂ)‖ = w * w + x * x := by
      rw [← pow_two, Complex.sq_norm, Complex.normSq_mk]
    have hc : Real.cos (Complex.arg ⟨w, x⟩) = w / ‖(⟨w, x⟩ : ℂ)‖ := Complex.cos_arg hz
    have hs : Real.sin (Complex.arg ⟨w, x⟩) = x / ‖(⟨w, x⟩ : ℂ)‖ := Complex.sin_arg _
    rw [Real.cos_two_mul, Real.sin_two_mul, hc, hs, ← hN]
    generalize ‖(⟨w, x⟩ : ℂ)‖ = N at *
    have hNne : N ≠ 0 := ne_of_gt hN0
    constructor
    · have : (2 * (w / N) ^ 2 - 1) * (N * N) = 2 * (w * w) - N * N := by field_simp
      rw [this]; linarith
    · field_simp

/-! ### pass 11: entries of rotation matrices are in [-1, 1]; `Near` is reflexive and monotone -/
/-- every entry of the matrix of a unit quaternion is in `[-1, 1]` -/
theorem SO3matrix_entries_le_one (p : Quat ℝ) (h : p.normSq = 1) :
    (|(SO3matrix p).r0.x| ≤ 1 ∧ |(SO3matrix p).r0.y| ≤ 1 ∧ |(SO3matrix p).r0.z| ≤ 1) ∧
    (|(SO3matrix p).r1.x| ≤ 1 ∧ |(SO3matrix p).r1.y| ≤ 1 ∧ |(SO3matrix p).r1.z| ≤ 1) ∧
    (|(SO3matrix p).r2.x| ≤ 1 ∧ |(SO3matrix p).r2.y| ≤ 1 ∧ |(SO3matrix p).r2.z| ≤ 1) := by
  have h' : p.x * p.x + p.y * p.y + p.z * p.z + p.w * p.w = 1 := h
  refine ⟨row_entries_le_one _ ?_, row_entries_le_one _ ?_, row_entries_le_one _ ?_⟩
  · unfold SO3matrix; lie_unfold
    linear_combination (4 * (p.y * p.y + p.z * p.z)) * h'
  · unfold SO3matrix; lie_unfold
    linear_combination (4 * (p.x * p.x + p.z * p.z)) * h'
  · unfold SO3matrix; lie_unfold
    linear_combination (4 * (p.x * p.x + p.y * p.y)) * h'

theorem abs_sub_le_two (a b : ℝ) (ha : |a| ≤ 1) (hb : |b| ≤ 1) : |a - b| ≤ 2 := by
  rw [abs_le] at *; constructor <;> linarith [ha.1, ha.2, hb.1, hb.2]

theorem SO3matrix_near_two (p q : Quat ℝ) (hp : p.normSq = 1) (hq : q.normSq = 1) :
    Mat3.Near 2 (SO3matrix p) (SO3matrix q) := by
  obtain ⟨⟨a1, a2, a3⟩, ⟨a4, a5, a6⟩, ⟨a7, a8, a9⟩⟩ := SO3matrix_entries_le_one p hp
  obtain ⟨⟨b1, b2, b3⟩, ⟨b4, b5, b6⟩, ⟨b7, b8, b9⟩⟩ := SO3matrix_entries_le_one q hq
  exact ⟨⟨abs_sub_le_two _ _ a1 b1, abs_sub_le_two _ _ a2 b2, abs_sub_le_two _ _ a3 b3⟩,
    ⟨abs_sub_le_two _ _ a4 b4, abs_sub_le_two _ _ a5 b5, abs_sub_le_two _ _ a6 b6⟩,
    ⟨abs_sub_le_two _ _ a7 b7, abs_sub_le_two _ _ a8 b8, abs_sub_le_two _ _ a9 b9⟩⟩

theorem Mat3.Near.mono {δ δ' : ℝ} {A B : Mat3 ℝ} (hle : δ ≤ δ') (h : Mat3.Near δ A B) : Mat3.Near δ' A B := by
  obtain ⟨⟨a1, a2, a3⟩, ⟨a4, a5, a6⟩, ⟨a7, a8, a9⟩⟩ := h
  exact ⟨⟨a1.trans hle, a2.trans hle, a3.trans hle⟩, ⟨a4.trans hle, a5.trans hle, a6.trans hle⟩,
    ⟨a7.trans hle, a8.trans hle, a9.trans hle⟩⟩

theorem Mat3.Near.refl' {δ : ℝ} (hδ : 0 ≤ δ) (A : Mat3 ℝ) : Mat3.Near δ A A := by
  refine ⟨⟨?_, ?_, ?_⟩, ⟨?_, ?_, ?_⟩, ⟨?_, ?_, ?_⟩⟩ <;> simpa using hδ

end PP
