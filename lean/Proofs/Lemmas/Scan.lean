import Pose.Model.Scan
/-! Helper lemmas for C12 (core Lean only). -/
namespace PP.Scan
variable {α : Type} (op : α → α → α)

section assoc
variable (hassoc : ∀ a b c : α, op (op a b) c = op a (op b c))
include hassoc

theorem seg_append (v : Nat → α) (a n m : Nat) :
    op (seg op v a n) (seg op v (a+n+1) m) = seg op v a (n+m+1) := by
  induction m with
  | zero => simp [seg]
  | succ m ih =>
    simp only [seg]
    rw [← hassoc, ih]
    have : a + n + 1 + m + 1 = a + (n + m + 1) + 1 := by omega
    rw [this]
    rfl
end assoc

theorem seg_congr (v v' : Nat → α) (a n : Nat) (h : ∀ k, k ≤ n → v (a+k) = v' (a+k)) :
    seg op v a n = seg op v' a n := by
  induction n with
  | zero => simpa [seg] using h 0 (Nat.le_refl 0)
  | succ n ih =>
    simp only [seg]
    rw [ih (fun k hk => h k (by omega)), show a + n + 1 = a + (n + 1) by omega, h (n+1) (Nat.le_refl _)]

/-- window of length `min p (j+1)` ending at `j` -/
def W (v : Nat → α) (p j : Nat) : α := seg op v (j + 1 - min p (j+1)) (min p (j+1) - 1)

theorem step_W (hassoc : ∀ a b c : α, op (op a b) c = op a (op b c))
    (L : Nat) (v : Nat → α) (p : Nat) (hp : 1 ≤ p) (j : Nat) (hj : j < L) :
    step op L p (W op v p) j = W op v (2*p) j := by
  unfold step
  by_cases h : p ≤ j
  · simp only [h, hj, and_self, if_true]
    unfold W
    have e1 : min p (j+1) = p := by omega
    have hl := seg_append op hassoc v (j - p + 1 - min p (j - p + 1)) (min p (j - p + 1) - 1) (p - 1)
    have s1 : j - p + 1 - min p (j - p + 1) + (min p (j - p + 1) - 1) + 1 = j + 1 - p := by omega
    rw [s1] at hl
    rw [e1, hl]
    congr 1 <;> omega
  · have h' : ¬ (p ≤ j ∧ j < L) := fun hh => h hh.1
    simp only [h', if_false]
    unfold W
    congr 1 <;> omega

theorem step_congr (L p : Nat) (w w' : Nat → α) (h : ∀ j, j < L → w j = w' j) :
    ∀ j, j < L → step op L p w j = step op L p w' j := by
  intro j hj
  unfold step
  by_cases hp : p ≤ j ∧ j < L
  · simp only [hp, and_self, if_true]
    rw [h j hj, h (j - p) (by omega)]
  · simp only [hp, if_false]; exact h j hj

theorem W_full (v : Nat → α) (L p j : Nat) (hL : L ≤ p) (hj : j < L) : W op v p j = seg op v 0 j := by
  unfold W
  have : min p (j+1) = j+1 := by omega
  rw [this]; congr 1 <;> omega

theorem fold_strides (hassoc : ∀ a b c : α, op (op a b) c = op a (op b c)) (L : Nat) (v : Nat → α) :
    ∀ (fuel p : Nat) (w : Nat → α), 1 ≤ p → L ≤ p * 2^fuel →
      (∀ j, j < L → w j = W op v p j) →
      ∀ j, j < L → (stridesFrom L fuel p).foldl (fun w i => step op L i w) w j = seg op v 0 j := by
  intro fuel
  induction fuel with
  | zero =>
    intro p w hp hL hw j hj
    simp only [stridesFrom, List.foldl_nil]
    rw [hw j hj]; exact W_full op v L p j (by simpa using hL) hj
  | succ fuel ih =>
    intro p w hp hL hw j hj
    unfold stridesFrom
    by_cases hlt : p < L
    · simp only [hlt, if_true, List.foldl_cons]
      apply ih (2*p) (step op L p w) (by omega) (by rw [Nat.pow_succ] at hL; calc L ≤ p * (2 ^ fuel * 2) := hL
          _ = 2 * p * 2 ^ fuel := by ac_rfl)
      · intro j hj
        rw [step_congr op L p w (W op v p) hw j hj]
        exact step_W op hassoc L v p hp j hj
      · exact hj
    · simp only [hlt, if_false, List.foldl_nil]
      rw [hw j hj]; exact W_full op v L p j (by omega) hj

/-- one round never touches positions outside the scanned range -/
theorem step_outside (L i : Nat) (v : Nat → α) (j : Nat) (hj : L ≤ j) : step op L i v j = v j := by
  unfold step; simp; intro _ h; omega


theorem ofFn_getD {β} [Inhabited β] (n : Nat) (f : Fin n → β) (j : Nat) (hj : j < n) :
    (Array.ofFn f).getD j default = f ⟨j, hj⟩ := by
  rw [Array.getD_eq_getD_getElem?]
  simp [hj]


end PP.Scan
