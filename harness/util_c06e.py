"""C06, round-5 lesson classes: (32) module-level constants poisoned by ANOTHER operation on a degenerate shape,
(30) every dtype the shape-only functions accept, (29) state shared through defaults, (31) callbacks returning their
argument, (33) user subclasses overriding attributes by properties.  Deterministic; oracles are the real code itself."""
from __future__ import annotations

import copy
import warnings

import torch

from . import common
from .util_batch import same_values
from .util_batch import ALGEBRA, DIM, DT, GROUPS, LTYPES, MANIFOLD, ltype_name, ltype_of, numel, pp


def C():
    from . import c06
    return c06


# ============================================================================= (32) poisoning histories

_BASELINE = {}


def _probe_points():
    """[(label, thunk)]: every unary op and binary site, both dtypes, on a fixed batch of 3 items (+ constructors)"""
    P = pp()
    c06 = C()
    E = []
    for lt in LTYPES:
        for dt in ("float64", "float32"):
            xb = c06.POOLS.get(lt, dt)[:3].clone()
            for op, apis, _ in c06.unary_ops(lt):
                E.append((f"{lt}.{op} [{dt}]", (lambda fn, xb, lt: lambda: fn(c06._lie(xb.clone(), lt)))(apis[sorted(apis)[0]], xb, lt)))
            E.append((f"identity_{lt} [{dt}]", (lambda lt, dt: lambda: getattr(P, "identity_" + lt)(2, dtype=DT[dt]))(lt, dt)))
    for sk in c06.SITE_KEYS:
        spec = c06.SITES[sk]
        for dt in ("float64", "float32"):
            xb = c06.POOLS.get(spec["px"], dt)[:3].clone()
            yb = c06.POOLS.get(spec["py"], dt)[3:6].clone()
            E.append((f"{sk[0]}.{sk[1]} [{dt}]", (lambda sk, spec, xb, yb: lambda: c06.site_call(sk, sorted(spec["apis"])[0], c06._lie(xb.clone(), spec["px"]),
                                                                                                  c06.wrap_second(sk, "lie", yb.clone())))(sk, spec, xb, yb)))
    return E


def _eval_points():
    """values AND gradients (d sum(out) / d operands) of every probe"""
    c06 = C()
    out = {}
    with warnings.catch_warnings():
        warnings.simplefilter("ignore")
        for label, f in _probe_points():
            try:
                r = f()
                out[label] = [c06._plain(o).detach().clone() for o in c06._flatten_result(r)]
            except Exception as e:
                out[label] = e
        for label, f, leaves in _grad_points():
            try:
                r = c06._plain(f())
                if not r.requires_grad:
                    continue
                gs = torch.autograd.grad(torch.nan_to_num(r).sum(), leaves, allow_unused=True)
                out["gradient of " + label] = [torch.zeros(()) if g is None else g.detach().clone() for g in gs]
            except Exception as e:
                out["gradient of " + label] = e
    return out


def _grad_points():
    P = pp()
    c06 = C()
    E = []
    for lt in LTYPES:
        for dt in ("float64", "float32"):
            for op, apis, _ in c06.unary_ops(lt):
                if op in ("tensor",):
                    continue
                x = c06.POOLS.get(lt, dt)[:3].clone().requires_grad_(True)
                E.append((f"{lt}.{op} [{dt}]", (lambda fn, x, lt: lambda: fn(P.LieTensor(x, ltype=ltype_of(lt))))(apis[sorted(apis)[0]], x, lt), [x]))
    for sk in c06.SITE_KEYS:
        spec = c06.SITES[sk]
        for dt in ("float64", "float32"):
            x = c06.POOLS.get(spec["px"], dt)[:3].clone().requires_grad_(True)
            y = c06.POOLS.get(spec["py"], dt)[3:6].clone().requires_grad_(True)
            E.append((f"{sk[0]}.{sk[1]} [{dt}]", (lambda sk, spec, x, y: lambda: c06.site_call(sk, sorted(spec["apis"])[0], P.LieTensor(x, ltype=ltype_of(spec["px"])),
                                                                                           c06.wrap_second(sk, "lie", y)))(sk, spec, x, y), [x, y]))
    return E


def _degenerate_everything(ctx):
    """every public operation on DEGENERATE batches (single item `()`, `(1,)`, `(1, 1)`), forward and — where a gradient
    exists — backward, each dtype, each spelling of the binary sites: the shapes for which `expand(...)` / `contiguous()` /
    `repeat` make no copy"""
    P = pp()
    c06 = C()
    n = 0
    with warnings.catch_warnings():
        warnings.simplefilter("ignore")
        for ls in ((), (1,), (1, 1)):
            for dt in ("float64", "float32"):
                if ctx.quick and ls == (1, 1):
                    continue
                grads = (False, True) if (ls == () or not ctx.quick) else (True,)      # quick: forward-only calls for the single item only
                for lt in LTYPES:
                    base = c06.POOLS.get(lt, dt)[5:6].reshape(ls + (-1,)).clone()
                    for op, apis, _ in c06.unary_ops(lt):
                        for api in sorted(apis):
                            for grad in grads:
                                try:
                                    xt = base.clone().requires_grad_(grad)
                                    r = apis[api](P.LieTensor(xt, ltype=ltype_of(lt)))
                                    rp = c06._plain(r)
                                    if grad and rp.requires_grad:
                                        torch.nan_to_num(rp).sum().backward()
                                    n += 1
                                except Exception:
                                    pass
                    for cn in ("identity_", "randn_"):
                        try:
                            getattr(P, cn + lt)(*ls, dtype=DT[dt])
                        except Exception:
                            pass
                for sk in c06.SITE_KEYS:
                    spec = c06.SITES[sk]
                    xb = c06.POOLS.get(spec["px"], dt)[6:7].reshape(ls + (-1,)).clone()
                    yb = c06.POOLS.get(spec["py"], dt)[7:8].reshape(ls + (-1,)).clone()
                    for api in sorted(spec["apis"]):
                        for grad in grads:
                            try:
                                xt = xb.clone().requires_grad_(grad)
                                yt = yb.clone().requires_grad_(grad)
                                r = c06.site_call(sk, api, P.LieTensor(xt, ltype=ltype_of(spec["px"])), c06.wrap_second(sk, "lie", yt))
                                rp = c06._plain(r)
                                if grad and rp.requires_grad:
                                    torch.nan_to_num(rp).sum().backward()
                                n += 1
                            except Exception:
                                pass
    ctx.count("poison.degenerate_calls", n)


def _compare(ctx, before, after, what):
    for label, v0 in before.items():
        v1 = after.get(label)
        case = {"kind": "poison", "entry": label, "history": what}
        ctx.note_case(("poison", label, what), True)
        ctx.count("poison.compare")
        if isinstance(v0, Exception) or isinstance(v1, Exception):
            if isinstance(v0, Exception) != isinstance(v1, Exception):
                ctx.fail(case, f"history: {label} {'raises' if isinstance(v1, Exception) else 'no longer raises'} after {what} ({str(v1)[:80] if isinstance(v1, Exception) else ''})")
            continue
        if len(v0) != len(v1) or any(a.shape != b.shape or a.dtype != b.dtype or not same_values(a, b) for a, b in zip(v0, v1)):
            a, b = v0[0], v1[0]
            ctx.fail(case, f"history: {label} on the SAME three items returns other values after {what} than at the start of the process "
                           f"({a.flatten()[:4].tolist()} → {b.flatten()[:4].tolist() if a.shape == b.shape else tuple(b.shape)}) — a module-level constant was overwritten")


def stream_poison(ctx):
    """FIRST stream of the run: baseline of every entry point on a fixed batch, then every public op on degenerate shapes
    (forward / backward, every dtype and spelling), then the same entry points again, bit for bit."""
    global _BASELINE
    _BASELINE = _eval_points()
    _degenerate_everything(ctx)
    _compare(ctx, _BASELINE, _eval_points(), "every public op on single-item / all-1 batches (forward and backward)")


def poison_final(ctx):
    """LAST step of the run: the same entry points after EVERYTHING the run did (all streams, all shapes and modes)"""
    if _BASELINE:
        _compare(ctx, _BASELINE, _eval_points(), "the whole run (every stream of this check)")


# ============================================================================= (30) every dtype of the shape-only functions

EXTRA_DTYPES = {"int64": torch.int64, "int32": torch.int32, "int16": torch.int16, "int8": torch.int8, "uint8": torch.uint8, "bool": torch.bool,
                "float16": torch.float16, "bfloat16": torch.bfloat16, "complex64": torch.complex64}


def stream_dtypes(ctx, names=None):
    """every function of the handled list on LieTensors of every dtype torch accepts for it: same type / ltype as for float,
    and dtype + values exactly those of the same call on the plain tensor (no promotion, no cast)"""
    P = pp()
    c06 = C()
    from . import util_handled as UH
    if names is None:
        from pypose.lietensor import lietensor as L
        names = list(L.HANDLED_FUNCTIONS)
    rng = c06.det_rng()
    UH.EXTENTS = [1, 2, 3, 2]
    from . import util_batch as UB
    UB.TAGMOD = 97
    try:
        with warnings.catch_warnings():
            warnings.simplefilter("ignore")
            for n in sorted(set(names)):
                if n not in c06.RECIPES or n in c06.NO_CALLABLE or n in ("cuda", "float", "double", "to"):
                    continue
                for k in range(ctx.pick(2, 6)):
                    c = UH.gen(rng, n)
                    c.update({"lt": LTYPES[(k + len(n)) % 8], "param": False})
                    for dtn, dtt in EXTRA_DTYPES.items():
                        case = dict(c, kind="dtypes", dtype=dtn)
                        DT[dtn] = dtt
                        try:
                            b = UH.build(case)
                            ins = [t for t, _ in b["inputs"]]
                            ref_ins = [c06._plain(t).clone() for t in ins]
                            try:
                                ref = b["call"](ref_ins)
                            except Exception:
                                ctx.count("dtypes.unsupported_by_torch")
                                continue            # torch itself does not take this dtype here (e.g. scatter_add on bool)
                            ctx.note_case(("dtypes", n, dtn, k), True)
                            ctx.count(f"dtypes.{dtn}")
                            try:
                                r = b["call"](ins)
                            except Exception as e:
                                ctx.fail(case, f"handled-raises: {n} on a {dtn} LieTensor raises {type(e).__name__}: {str(e)[:80]} (the plain call works)")
                                continue
                            if b["post"] is not None:
                                r, ref = ins[0], ref_ins[0]
                            outs, refs = c06._flatten_result(r), c06._flatten_result(ref)
                            for o, rf in zip(outs, refs):
                                if not isinstance(o, P.LieTensor) or getattr(o, "ltype", None) is not ltype_of(c["lt"]):
                                    ctx.fail(case, f"ltype: {n} on a {dtn} LieTensor returns {type(o).__name__} / {ltype_name(getattr(o, 'ltype', None))}")
                                    break
                                if o.dtype != rf.dtype or o.shape != rf.shape or not torch.equal(c06._plain(o), rf):
                                    ctx.fail(case, f"dtype: {n} on a {dtn} {c['lt']} LieTensor returns {o.dtype} {tuple(o.shape)}; the same call on the plain tensor "
                                                   f"returns {rf.dtype} {tuple(rf.shape)}{'' if o.dtype != rf.dtype else ' with other values'}")
                                    break
                        finally:
                            DT.pop(dtn, None)
            # the class's own container operations on every dtype
            import pickle
            for lt in LTYPES:
                for dtn, dtt in EXTRA_DTYPES.items():
                    t0 = (torch.arange(2 * DIM[lt], dtype=torch.float64) % 5).reshape(2, DIM[lt]).to(dtt)
                    X = P.LieTensor(t0.clone(), ltype=ltype_of(lt))
                    ops = {"LieTensor(t, ltype=)": lambda: X, "tensor()": lambda: X.tensor(), "new_empty": lambda: X.new_empty((3, DIM[lt])).fill_(1), "deepcopy": lambda: copy.deepcopy(X),
                           "copy.copy": lambda: copy.copy(X), "pickle": lambda: pickle.loads(pickle.dumps(X)), "lview": lambda: X.lview(2, 1), "new_empty(dtype=)": lambda: X.new_empty((1, DIM[lt]), dtype=torch.int16).fill_(1),
                           "getitem": lambda: X[0], "new_tensor-free clone": lambda: X.clone(), "identity_like(dtype=own)": (lambda: P.identity_like(X, dtype=dtt)) if dtt.is_floating_point else None}
                    for nm, f in ops.items():
                        if f is None:
                            continue
                        case = {"kind": "dtypes", "what": nm, "lt": lt, "dtype": dtn}
                        ctx.count("dtypes.container")
                        try:
                            r = f()
                        except Exception as e:
                            if nm == "identity_like(dtype=own)":
                                continue
                            ctx.fail(case, f"raises: {nm} on a {dtn} {lt} LieTensor raises {type(e).__name__}: {str(e)[:80]}")
                            continue
                        want_dt = torch.int16 if nm == "new_empty(dtype=)" else dtt
                        if r.dtype != want_dt or (nm != "tensor()" and getattr(r, "ltype", None) is not ltype_of(lt)):
                            ctx.fail(case, f"dtype: {nm} on a {dtn} {lt} LieTensor returns dtype {r.dtype} / ltype {ltype_name(getattr(r, 'ltype', None))} (expected {want_dt}, {lt})")
                        elif nm in ("deepcopy", "copy.copy", "pickle", "tensor()", "new_tensor-free clone") and not torch.equal(c06._plain(r), t0):
                            ctx.fail(case, f"dtype: {nm} on a {dtn} {lt} LieTensor changes the values")
            # constructors and *_like with every float dtype; integer LieTensors as containers
            for lt in LTYPES:
                for dtn in ("float16", "bfloat16", "float32", "float64"):
                    dtt = EXTRA_DTYPES.get(dtn, DT.get(dtn))
                    case = {"kind": "dtypes", "what": "ctor", "lt": lt, "dtype": dtn}
                    ctx.count("dtypes.ctor")
                    try:
                        r1 = getattr(P, "identity_" + lt)(2, dtype=dtt)
                        r2 = getattr(P, "randn_" + lt)(2, dtype=dtt)
                        r3 = P.randn_like(r1)
                        r4 = P.identity_like(r1, dtype=dtt)
                        for nm, r in (("identity", r1), ("randn", r2), ("randn_like", r3), ("identity_like(dtype=)", r4)):
                            if r.dtype != dtt or r.ltype is not ltype_of(lt):
                                ctx.fail(case, f"dtype: {nm} of {lt} with dtype {dtn} returns {r.dtype}")
                    except Exception:
                        ctx.count("dtypes.ctor.unsupported")
    finally:
        UH.EXTENTS = [0, 1, 2, 3, 2, 3]
        UB.TAGMOD = None


# ============================================================================= (29) state shared through defaults

def stream_shared_defaults(ctx):
    """several objects built with their optional arguments OMITTED, used interleaved: each behaves as documented and none
    shares memory / state with another"""
    P = pp()
    c06 = C()
    with warnings.catch_warnings():
        warnings.simplefilter("ignore")
        for lt in LTYPES:
            d = DIM[lt]
            case = {"kind": "shared_defaults", "lt": lt}
            ctx.note_case(("shared_defaults", lt), True)
            ctx.count("shared_defaults")
            ident = torch.tensor(c06.IDENTITY_ITEM[lt])
            try:
                a, b = getattr(P, "identity_" + lt)(), getattr(P, "identity_" + lt)()          # no size, no dtype
                a1, b1 = getattr(P, "identity_" + lt)(1), getattr(P, "identity_" + lt)(1)
                for u, v, nm in ((a, b, "identity()"), (a1, b1, "identity(1)")):
                    with torch.no_grad():
                        c06._plain(u).reshape(-1)[0] += 5.0
                    if not torch.equal(c06._plain(v).reshape(-1), ident) or not torch.equal(c06._plain(getattr(P, "identity_" + lt)(*u.lshape)).reshape(-1), ident):
                        ctx.fail(case, f"shared-default: writing into one result of {nm} of {lt} changed another / a later result (they share a default tensor)")
                r1, r2 = getattr(P, "randn_" + lt)(), getattr(P, "randn_" + lt)()
                if r1.data_ptr() == r2.data_ptr():
                    ctx.fail(case, f"shared-default: two randn_{lt}() results share memory")
                X = c06._lie(c06.POOLS.get(lt, "float32")[:2].clone(), lt)
                e1, e2 = X.euler(), X.euler(eps=2e-4)
                if not torch.equal(e1, e2):
                    ctx.fail(case, f"shared-default: {lt}.euler() differs from euler(eps=2e-4), the documented default")
                s1, s2 = X.add(c06.POOLS.get(ALGEBRA.get(lt, lt), "float32")[:2].clone()), X.add(c06.POOLS.get(ALGEBRA.get(lt, lt), "float32")[:2].clone(), 1)
                if not torch.equal(s1.tensor(), s2.tensor()):
                    ctx.fail(case, f"shared-default: {lt}.add(a) differs from add(a, alpha=1), the documented default")
            except Exception as e:
                ctx.fail(case, f"raises: default-constructed {lt} objects raise {type(e).__name__}: {str(e)[:80]}")
        # default-constructed Parameters and context managers
        p1, p2 = P.Parameter(), P.Parameter()
        if p1 is p2:
            ctx.fail({"kind": "shared_defaults", "what": "Parameter()"}, "shared-default: pp.Parameter() returns the same object twice")
        orig = c06.originals()
        cm1, cm2 = P.retain_ltype(), P.retain_ltype()
        snap = c06.attr_snapshot()
        with cm1:
            with cm2:
                pass
        if not c06._slots_ok(orig):
            ctx.fail({"kind": "shared_defaults", "what": "retain_ltype"}, "retain: two default-constructed contexts used nested leave the slots patched")
            c06._restore_slots(orig)
        c06.check_attrs(ctx, {"kind": "shared_defaults", "what": "retain_ltype"}, snap, "two default-constructed retain_ltype() objects, nested")
        j1, j2 = P.func.jacrev(lambda q, x: q @ x), P.func.jacrev(lambda q, x: (q @ x) * 2.0)
        q = c06._lie(c06.POOLS.get("SE3", "float64")[:1].clone(), "SE3")
        x = c06.POOLS.get("p3", "float64")[:1].clone()
        a1, b1, a2 = j1(q, x), j2(q, x), j1(q, x)
        if not torch.equal(a1, a2) or not bool(((b1 - 2 * a1).abs() <= 1e-12 * (1 + a1.abs().max())).all()):
            ctx.fail({"kind": "shared_defaults", "what": "jacrev"}, "shared-default: two jacrev wrappers built with default options influence each other")


# ============================================================================= (31) callbacks returning their argument, (33) property subclasses

def stream_callbacks(ctx):
    """`pp.func.jacrev` of user functions that return their argument, a view of it, or the other argument: the Jacobian is the
    one torch computes on plain tensors, the arguments are untouched (bit for bit) and keep their ltype"""
    P = pp()
    c06 = C()
    with warnings.catch_warnings():
        warnings.simplefilter("ignore")
        for lt in GROUPS:
            d = DIM[lt]
            funcs = {"returns its LieTensor argument": (lambda q, x: q, lambda t, x: t), "returns a view of it": (lambda q, x: q[..., :3], lambda t, x: t[..., :3]),
                     "returns q.tensor()": (lambda q, x: q.tensor(), lambda t, x: t), "returns the other argument": (lambda q, x: x, lambda t, x: x),
                     "returns a view of the other argument": (lambda q, x: x[..., 1:], lambda t, x: x[..., 1:]),
                     "returns (argument, aux = argument)": None}
            for label, pair in funcs.items():
                case = {"kind": "callbacks", "lt": lt, "f": label}
                ctx.note_case(("callbacks", lt, label), True)
                ctx.count("callbacks")
                q = c06._lie(c06.POOLS.get(lt, "float64")[:2].clone(), lt)
                x = c06.POOLS.get("p3", "float64")[:2].clone()
                x[0, 0], x[1, 2], x[1, 1] = float("inf"), float("-inf"), 3e7          # what a callback returns is the user's: also non-finite / huge entries stay
                q0, x0 = q.tensor().clone(), x.clone()
                try:
                    if pair is None:
                        got = P.func.jacrev(lambda q_, x_: (q_.tensor(), q_), has_aux=True)(q, x)
                        want = torch.func.jacrev(lambda t, x_: (t, t), has_aux=True)(q.tensor().clone(), x)
                        ga, wa = [got[0], c06._plain(got[1])], [want[0], want[1]]
                    else:
                        for argnums in (0, 1):
                            got = P.func.jacrev(pair[0], argnums)(q, x)
                            want = torch.func.jacrev(pair[1], argnums)(q.tensor().clone(), x)
                            if got.shape != want.shape or not torch.equal(c06._plain(got), want):
                                ctx.fail(case, f"callbacks: pp.func.jacrev(argnums={argnums}) of a function that {label} differs from torch.func.jacrev on plain tensors ({lt})")
                        ga, wa = [], []
                    for a, b in zip(ga, wa):
                        if a.shape != b.shape or not torch.equal(c06._plain(a), b):
                            ctx.fail(case, f"callbacks: pp.func.jacrev of a function that {label} differs from torch.func.jacrev ({lt})")
                except Exception as e:
                    ctx.fail(case, f"raises: pp.func.jacrev of a function that {label} raises {type(e).__name__}: {str(e)[:80]}")
                    continue
                if not torch.equal(q.tensor(), q0) or not torch.equal(x, x0) or q.ltype is not ltype_of(lt) or type(q) is not P.LieTensor:
                    ctx.fail(case, f"mutation: pp.func.jacrev of a function that {label} changed its argument (values / ltype / class)")
                if not c06._slots_ok(c06.originals()):
                    ctx.fail(case, "retain: slots not restored after jacrev of an identity-like callback")
                    c06._restore_slots(c06.originals())


def stream_propsubclass(ctx):
    """a user subclass of LieTensor whose `ltype` is a PROPERTY (stored elsewhere): every unary op, binary site and shape function
    behaves as for a LieTensor carrying the same ltype"""
    P = pp()
    c06 = C()

    class PropLie(P.LieTensor):
        @property
        def ltype(self):
            return self.__dict__.get("vfh06_ltype")

        @ltype.setter
        def ltype(self, v):
            self.__dict__["vfh06_ltype"] = v

    def mk(t, lt):
        x = t.clone().as_subclass(PropLie)
        x.ltype = ltype_of(lt)
        return x
    with warnings.catch_warnings():
        warnings.simplefilter("ignore")
        for lt in LTYPES:
            xb = c06.POOLS.get(lt, "float64")[:4].clone()
            calls = [(op, apis[sorted(apis)[0]]) for op, apis, _ in c06.unary_ops(lt)]
            calls += [("clone", lambda X: X.clone()), ("getitem", lambda X: X[1:3]), ("cat", lambda X: torch.cat([X, X])), ("view", lambda X: X.view(2, 2, -1)),
                      ("new_empty", lambda X: X.new_empty((2, DIM[lt])).fill_(0)), ("new_empty(dtype=)", lambda X: X.new_empty((1, DIM[lt]), dtype=torch.float32).fill_(1)), ("deepcopy", lambda X: copy.deepcopy(X)), ("lview", lambda X: X.lview(2, 2)),
                      ("repr", lambda X: torch.tensor([float(type(X.ltype).__name__ in repr(X))])), ("identity_like", lambda X: P.identity_like(X, dtype=X.dtype)),
                      ("Parameter", lambda X: P.Parameter(X).detach())]
            for sk in c06.SITE_KEYS:
                if sk[0] != lt:
                    continue
                spec = c06.SITES[sk]
                yb = c06.POOLS.get(spec["py"], "float64")[4:8].clone()
                for api in sorted(spec["apis"]):
                    calls.append((f"{sk[1]} ({api})", (lambda sk, api, yb: lambda X: c06.site_call(sk, api, X, c06.wrap_second(sk, "lie", yb.clone())))(sk, api, yb)))
            for op, fn in calls:
                case = {"kind": "propsubclass", "lt": lt, "op": op}
                ctx.note_case(("propsubclass", lt, op), True)
                ctx.count("propsubclass")
                try:
                    want = fn(c06._lie(xb.clone(), lt))
                except Exception:
                    continue
                try:
                    got = fn(mk(xb, lt))
                except Exception as e:
                    ctx.fail(case, f"subclass: {lt}.{op} on a user LieTensor whose ltype is a property raises {type(e).__name__}: {str(e)[:80]}")
                    continue
                ok = isinstance(got, P.LieTensor) == isinstance(want, P.LieTensor) and getattr(got, "ltype", None) is getattr(want, "ltype", None) \
                    and got.shape == want.shape and same_values(c06._plain(got).detach(), c06._plain(want).detach())
                if not ok:
                    ctx.fail(case, f"subclass: {lt}.{op} on a user LieTensor whose ltype is a property returns {type(got).__name__}/{ltype_name(getattr(got, 'ltype', None))} "
                                   f"— other type / ltype / values than for a LieTensor")


# ============================================================================= pass 7 (38c): exact ties of the matrix conversions

def signed_permutations():
    """the 24 rotation matrices with entries in {0, ±1}: every comparison between diagonal entries in `mat2SO3` (d0 > d1, d0 < -d1,
    d2 < atol) is an EXACT tie or an exact strict case for them; all exactly representable in every dtype"""
    import itertools
    out = []
    for perm in itertools.permutations(range(3)):
        for signs in itertools.product((1.0, -1.0), repeat=3):
            M = torch.zeros(3, 3, dtype=torch.float64)
            for r in range(3):
                M[r, perm[r]] = signs[r]
            if abs(float(torch.det(M)) - 1.0) < 1e-9:
                out.append(M)
    return out


def stream_convties(ctx):
    """`mat2SO3 / mat2SE3 / mat2RxSO3 / mat2Sim3 / from_matrix` on the 24 signed permutation matrices (+ two generic rotations), both
    dtypes, `check` on and off: the batch equals the conversion of each matrix alone bit for bit, every result is finite (no branch
    of the four-way selection may be left unselected on a tie) and converting back gives the matrix"""
    P = pp()
    c06 = C()
    Rs = signed_permutations()
    gen = c06._lie(c06.POOLS.get("SO3", "float64")[:2].clone(), "SO3").matrix()
    Rs = Rs + [gen[0], gen[1]]
    t = torch.tensor([0.5, -2.0, 4.0], dtype=torch.float64)
    with warnings.catch_warnings():
        warnings.simplefilter("ignore")
        for g in GROUPS:
            for dtn in ("float64", "float32"):
                for scale in ((1.0,) if g in ("SO3", "SE3") else (1.0, 2.0, 0.5)):
                    mats = []
                    for R in Rs:
                        if g in ("SO3", "RxSO3"):
                            M = scale * R
                        else:
                            M = torch.eye(4, dtype=torch.float64)
                            M[:3, :3] = scale * R
                            M[:3, 3] = t
                        mats.append(M)
                    B = torch.stack(mats).to(DT[dtn])
                    for fname, fn in ((f"mat2{g}", lambda m, ck: getattr(P, "mat2" + g)(m, check=ck)), ("from_matrix", lambda m, ck: P.from_matrix(m, ltype_of(g), check=ck))):
                        if ctx.quick and fname == "from_matrix" and dtn == "float32":
                            continue
                        for ck in ((True, False) if dtn == "float64" else (False,)):
                            case = {"kind": "convties", "f": fname, "g": g, "dtype": dtn, "scale": scale, "check": ck}
                            ctx.note_case(("convties", fname, g, dtn, scale, ck), True)
                            ctx.count("convties")
                            try:
                                full = fn(B.clone(), ck)
                            except Exception as e:
                                ctx.fail(case, f"raises: {fname}({g}) on the batch of signed permutation matrices raises {type(e).__name__}: {str(e)[:80]}")
                                continue
                            ft = c06._plain(full)
                            if getattr(full, "ltype", None) is not ltype_of(g) or tuple(ft.shape) != (len(mats), DIM[g]):
                                ctx.fail(case, f"ltype: {fname}({g}) on a batch of {len(mats)} matrices returns {ltype_name(getattr(full, 'ltype', None))} {tuple(ft.shape)}")
                                continue
                            for k in range(len(mats)):
                                one = c06._plain(fn(B[k].clone(), ck))
                                what = f"matrix #{k} = {B[k][:3, :3].tolist()} (scale {scale}, {dtn}, check={ck})"
                                if not bool(torch.isfinite(one).all()) or not bool(torch.isfinite(ft[k]).all()):
                                    ctx.fail(dict(case, k=k), f"non-finite result: {fname}({g}) of the valid {what} is {one.tolist()}")
                                    break
                                if not same_values(ft[k], one):
                                    ctx.fail(dict(case, k=k), f"itemwise: {fname}({g}) on the batch gives {ft[k].tolist()} for {what}, alone {one.tolist()}")
                                    break
                                back = c06._plain(c06._lie(one.clone(), g).matrix())
                                want = B[k] if g in ("SO3", "RxSO3") else B[k]
                                if back.shape[-1] != want.shape[-1]:
                                    back = back[..., :want.shape[-2], :want.shape[-1]]
                                if not bool(((back - want).abs() <= 1e-5 * (1 + want.abs())).all()):
                                    ctx.fail(dict(case, k=k), f"roundtrip: {fname}({g}) of {what} is {one.tolist()}, whose matrix() is {back.tolist()}")
                                    break


# ============================================================================= pass 7 (B): torch's stride rules = the modelled views

def stream_views(ctx):
    """chains of slice / select / expand / permute (transpose) views of a contiguous LieTensor: storage offset, strides (of every dimension with extent > 1;
    in items) and lshape equal the model's `View.slice / select / expand / permute` (theorems `view_slice`, `view_select`, `view_expand`, `view_permute`,
    `contiguous_of_view` are about these definitions), and `.contiguous()` holds the items the model addresses"""
    c06 = C()
    rng = c06.det_rng()
    cases = []
    for n in range(ctx.pick(120, 1200)):
        r = (rng if n < 60 else ctx.rng)
        s = [r.choice([1, 2, 3, 4]) for _ in range(r.randint(1, 3))]
        ops, cur = [], list(s)
        for _ in range(r.randint(1, 3)):
            kind = r.choice("LSEP") if cur else "E"
            if kind == "P" and len(cur) < 2:
                kind = "L"
            if kind == "L":
                dim = r.randrange(len(cur))
                step = r.choice([1, 1, 2, 3])
                start = r.randrange(cur[dim])
                ln = r.randint(1, (cur[dim] - start - 1) // step + 1)
                ops.append(("L", dim, start, step, ln))
                cur[dim] = ln
            elif kind == "S":
                dim = r.randrange(len(cur))
                ops.append(("S", dim, r.randrange(cur[dim])))
                cur.pop(dim)
            elif kind == "P":           # pass 10: permute / transpose / movedim of the batch dimensions
                pm = list(range(len(cur)))
                while pm == list(range(len(cur))):
                    r.shuffle(pm)
                ops.append(("P", tuple(pm)))
                cur = [cur[a] for a in pm]
            else:
                new = [r.choice([1, 2, 3]) for _ in range(r.randint(0, 2))] + [(c if c != 1 else r.choice([1, 1, 2, 4])) for c in cur]
                ops.append(("E", tuple(new)))
                cur = list(new)
        cases.append({"kind": "views", "s": s, "ops": [list(o) if o[0] not in "EP" else [o[0], list(o[1])] for o in ops], "lt": LTYPES[n % 8]})
    lines = []
    for c in cases:
        toks = []
        for o in c["ops"]:
            toks += [o[0]] + ([str(x) for x in o[1:]] if o[0] not in "EP" else [str(len(o[1]))] + [str(x) for x in o[1]])
        lines.append("c06.view " + " ".join([str(len(c["s"]))] + [str(x) for x in c["s"]] + toks))
    reps = ctx.driver.run(lines)
    for n_case, (c, rep) in enumerate(zip(cases, reps)):
        ctx.note_case(("views", tuple(c["s"]), str(c["ops"])), True)
        ctx.count("views")
        d = DIM[c["lt"]]
        base = torch.arange(numel(c["s"]) * d, dtype=torch.float64).reshape(tuple(c["s"]) + (d,))
        X = c06._lie(base.clone(), c["lt"])
        V = X
        for o in c["ops"]:
            if o[0] == "L":
                _, dim, start, step, ln = o
                V = V[(slice(None),) * dim + (slice(start, start + (ln - 1) * step + 1, step),)]
            elif o[0] == "S":
                V = V.select(o[1], o[2])
            elif o[0] == "P":
                V = V.permute(tuple(o[1]) + (len(o[1]),)) if len(o[1]) != 2 or n_case % 2 else V.transpose(0, 1)
            else:
                V = V.expand(tuple(o[1]) + (d,))
        st, toks = common.parse_reply(rep)
        if st != "ok":
            ctx.disagree("views", c, f"model rejects the view chain {c['ops']} of lshape {c['s']} that torch accepts: {rep}")
            continue
        txt = " ".join(toks).split("|")
        off = int(txt[0])
        mstr = [int(x) for x in txt[1].split()[2:]]
        mshape = [int(x) for x in txt[2].split()[2:]]
        if type(V) is not type(X) or V.ltype is not X.ltype:
            ctx.fail(c, f"ltype: the view chain {c['ops']} of a {c['lt']} LieTensor returns {type(V).__name__} / {ltype_name(getattr(V, 'ltype', None))}")
            continue
        tshape, tstr, toff = list(V.shape[:-1]), [x // d for x in V.stride()[:-1]], V.storage_offset() // d
        same = tshape == mshape and toff == off and len(tstr) == len(mstr) and all(a == b for a, b, n_ in zip(tstr, mstr, tshape) if n_ > 1)
        if not same or V.stride()[-1] != 1 or V.storage_offset() % d:
            ctx.disagree("views", c, f"view chain {c['ops']} of lshape {c['s']}: torch gives lshape {tshape}, item strides {tstr}, item offset {toff}; "
                                     f"the model lshape {mshape}, strides {mstr}, offset {off}")
            continue
        # `.contiguous()` holds the addressed items (first element of item k of the base is k * d)
        got = (c06._plain(V.contiguous())[..., 0] / d).reshape(-1).long().tolist()
        idx = [[]]
        for n_ in mshape:
            idx = [i + [j] for i in idx for j in range(n_)]
        want = [off + sum(a * b for a, b in zip(i, mstr)) for i in idx]
        if got != want:
            ctx.fail(c, f"views: `.contiguous()` of the view chain {c['ops']} of a {c['lt']} LieTensor of lshape {c['s']} holds items {got[:8]}…, the addressed items are {want[:8]}…")


# ============================================================================= pass 8: (39) layout x regime-minority x size, (49) layout of the cotangent

LAYOUT_SHAPES = [(6, 4), (9, 5), (2, 3, 4), (4, 4, 4)]
BLOCKS = {  # ltype -> {block: (slice, degenerate values)}
    "SO3": {"rotation": (slice(0, 4), [0., 0., 0., 1.])},
    "so3": {"rotation": (slice(0, 3), [0., 0., 0.])},
    "SE3": {"translation": (slice(0, 3), [0., 0., 0.]), "rotation": (slice(3, 7), [0., 0., 0., 1.])},
    "se3": {"translation": (slice(0, 3), [0., 0., 0.]), "rotation": (slice(3, 6), [0., 0., 0.])},
    "RxSO3": {"rotation": (slice(0, 4), [0., 0., 0., 1.]), "scale": (slice(4, 5), [1.])},
    "rxso3": {"rotation": (slice(0, 3), [0., 0., 0.]), "scale": (slice(3, 4), [0.])},
    "Sim3": {"translation": (slice(0, 3), [0., 0., 0.]), "rotation": (slice(3, 7), [0., 0., 0., 1.]), "scale": (slice(7, 8), [1.])},
    "sim3": {"translation": (slice(0, 3), [0., 0., 0.]), "rotation": (slice(3, 6), [0., 0., 0.]), "scale": (slice(6, 7), [0.])},
}


def permuted_layout(t, kind):
    """the SAME values with permuted strides of the batch dimensions (the item dimension stays innermost):
    rev: storage in reversed batch-dim order, viewed back; transpose: dims 0 and 1 swapped in storage; movedim: dim 0 stored last"""
    nb = t.dim() - 1
    if kind == "rev":
        perm = list(range(nb))[::-1] + [nb]
    elif kind == "transpose":
        perm = [1, 0] + list(range(2, nb)) + [nb]
    else:
        perm = list(range(1, nb)) + [0, nb]
    inv = [perm.index(k) for k in range(nb + 1)]
    out = t.permute(perm).contiguous().permute(inv)
    assert out.shape == t.shape and (nb < 2 or not out.is_contiguous())
    return out


def degenerate_batch(lt, ls, frac, block, dtype):
    """generic pool items on lshape `ls`; ONE / at most 1/8 / most of them exactly degenerate in `block` (`all` = every block)"""
    c06 = C()
    n = numel(ls)
    pool = c06.POOLS.get(lt, dtype)
    x = pool[(torch.arange(n) * 5 + 2) % pool.shape[0]].clone()
    k = {"one": 1, "few": max(1, n // 8), "most": n - max(2, n // 8)}[frac]
    pos = [(7 * j + 3) % n for j in range(n)]
    pos = sorted(set(pos[:k])) if len(set(pos[:k])) == k else list(range(k))
    for b, (sl, val) in BLOCKS[lt].items():
        if block in (b, "all"):
            x[pos, sl] = torch.tensor(val, dtype=x.dtype)
    return x.reshape(tuple(ls) + (-1,)), pos


def _grad_close(g, ref):
    """gradients: same non-finite pattern, finite entries within 1e-8 of the item's scale (float64)"""
    if g is None or ref is None:
        return g is None and ref is None
    if g.shape != ref.shape or not torch.equal(torch.isfinite(g), torch.isfinite(ref)):
        return False
    fin = torch.isfinite(ref)
    a, b = torch.where(fin, g, torch.zeros_like(g)), torch.where(fin, ref, torch.zeros_like(ref))
    scale = b.abs().amax(dim=-1, keepdim=True)
    return bool(((a - b).abs() <= 1e-8 * (1e-30 + b.abs() + scale)).all())


def _entries():
    c06 = C()
    E = []
    for lt in LTYPES:
        for op, apis, _ in c06.unary_ops(lt):
            E.append((f"{lt}.{op}", lt, None, apis[sorted(apis)[0]]))
    for sk in c06.SITE_KEYS:
        E.append((f"{sk[0]}.{sk[1]}", c06.SITES[sk]["px"], sk, None))
    return E


def stream_layouts(ctx):
    """(39) every unary op and binary site on 2-D / 3-D batches of 24..64 items whose batch dimensions have PERMUTED strides, with one /
    <= 1/8 / most items exactly degenerate in one block: the result equals the same call on the contiguous clone, every degenerate item
    (and some generic ones) equals the call on that item alone, and the gradient of a weighted sum w.r.t. the permuted leaf equals the
    gradient w.r.t. the contiguous leaf.  (49) backward with a cotangent of permuted strides (`grad_outputs=`) and through glue after the op
    (`transpose` / `permute` / `movedim`, then a weighted sum) equals backward with the contiguous cotangent of the same values."""
    P = pp()
    c06 = C()
    dtype = "float64"
    # quick: ONE item with unit scale (rotation where the type has no scale) always — a lost patch of a degenerate ROTATION multiplies skew(0) = 0
    # and a fully degenerate item has translation 0, so `scale` alone is the block whose loss shows; the other combinations rotate with the seed
    quick_plan = [((6, 4), "rev", "one", "scale"), ((9, 5), "transpose", "few", "rotation"), ((2, 3, 4), "movedim", "few", "all"), ((4, 4, 4), "rev", "most", "scale")]
    with warnings.catch_warnings():
        warnings.simplefilter("ignore")
        for ei, (label, lt, sk, fn) in enumerate(_entries()):
            blocks = list(BLOCKS[lt]) + ["all"]
            if ctx.quick:
                plan = [quick_plan[0], quick_plan[1 + (ei + ctx.seed) % 3]]
            else:
                plan = [(ls, lay, fr, bl) for ls in LAYOUT_SHAPES for lay in (("rev", "transpose") if len(ls) == 2 else ("rev", "transpose", "movedim"))
                        for fr in ("one", "few", "most") for bl in blocks]
            for ls, lay, frac, block in plan:
                if block not in blocks:
                    block = "rotation"
                case = {"kind": "layouts", "entry": label, "ls": list(ls), "layout": lay, "frac": frac, "block": block}
                ctx.note_case(("layouts", label, ls, lay, frac, block), True)
                ctx.count("layouts")
                xc, pos = degenerate_batch(lt, ls, frac, block, dtype)
                if sk is not None:
                    spec = c06.SITES[sk]
                    ypool = c06.POOLS.get(spec["py"], dtype)
                    yc = ypool[(torch.arange(numel(ls)) * 3 + 1) % ypool.shape[0]].clone().reshape(tuple(ls) + (-1,))
                    api = sorted(spec["apis"])[0]

                    def call(x, y, sk=sk, api=api, spec=spec):
                        return c06._plain(c06.site_call(sk, api, P.LieTensor(x, ltype=ltype_of(spec["px"])), c06.wrap_second(sk, "lie", y)))
                else:
                    yc = None

                    def call(x, y, fn=fn, lt=lt):
                        return c06._plain(fn(P.LieTensor(x, ltype=ltype_of(lt))))
                what = f"{label} on lshape {ls} with {lay}-permuted strides, {frac} item(s) {pos[:6]} exactly degenerate in `{block}`"
                try:
                    xr, yr = xc.clone().requires_grad_(True), (None if yc is None else yc.clone().requires_grad_(True))
                    ref = call(xr, yr)
                except Exception:
                    continue                        # the op rejects this operand also in the contiguous layout (not a layout matter)
                try:
                    xp = permuted_layout(xc, lay).requires_grad_(True)
                    yp = None if yc is None else permuted_layout(yc, lay).requires_grad_(True)
                    got = call(xp, yp)
                except Exception as e:
                    ctx.fail(case, f"raises: {what} raises {type(e).__name__}: {str(e)[:80]} (the contiguous clone works)")
                    continue
                if got.shape != ref.shape:
                    ctx.fail(case, f"shape: {what} returns shape {tuple(got.shape)}, the contiguous clone {tuple(ref.shape)}")
                    continue
                nb = len(ls)
                g2, r2 = got.detach().reshape((numel(ls),) + tuple(got.shape[nb:])), ref.detach().reshape((numel(ls),) + tuple(ref.shape[nb:]))
                bad = [k for k in range(numel(ls)) if not c06._close(g2[k], r2[k], dtype)]
                if bad:
                    k = bad[0]
                    ctx.fail(dict(case, item=k), f"layout: {what}: output item {k} = {xc.reshape(numel(ls), -1)[k].tolist()} is {g2[k].flatten()[:6].tolist()}, on the contiguous clone "
                                                 f"of the same batch {r2[k].flatten()[:6].tolist()} ({len(bad)} of {numel(ls)} items differ)")
                    continue
                # item by item: every degenerate item and three generic ones against the call on the item alone
                xs = xc.reshape(numel(ls), -1)
                ys = None if yc is None else yc.reshape(numel(ls), -1)
                for k in list(pos[:4]) + [q for q in (0, numel(ls) // 2, numel(ls) - 1) if q not in pos][:2 if ctx.quick else 3]:
                    one = call(xs[k].clone(), None if ys is None else ys[k].clone()).detach()
                    if not c06._close(g2[k], one, dtype):
                        ctx.fail(dict(case, item=k), f"itemwise: {what}: output item {k} is {g2[k].flatten()[:6].tolist()}, the call on that item alone gives {one.flatten()[:6].tolist()}")
                        break
                if not ref.requires_grad:
                    continue
                # gradients of one weighted sum: permuted leaves vs contiguous leaves
                W = torch.cos(torch.arange(ref.numel(), dtype=ref.dtype) * 0.37 + 0.2).reshape(ref.shape)
                leaves_r = [t for t in (xr, yr) if t is not None]
                leaves_p = [t for t in (xp, yp) if t is not None]
                try:
                    gr = torch.autograd.grad((ref * W).sum(), leaves_r, allow_unused=True, retain_graph=True)
                except Exception:
                    continue                        # not differentiable on this tree in any layout (observation, see `modeorder`)
                try:
                    gp = torch.autograd.grad((got * W).sum(), leaves_p, allow_unused=True)
                    for a, b, nm in zip(gp, gr, ("first", "second")):
                        if not _grad_close(a, b):
                            ctx.fail(case, f"layout-gradient: {what}: the gradient of a weighted sum w.r.t. the {nm} operand differs from the gradient on the contiguous clone "
                                           f"({(a if a is not None else torch.zeros(1)).flatten()[:4].tolist()} vs {(b if b is not None else torch.zeros(1)).flatten()[:4].tolist()})")
                            break
                    # batched gradient = gradient of the single-item call (the op is item-wise, so d sum(W out) / d x[k] = d sum(W[k] out_k) / d x_k)
                    if frac == "one" or not ctx.quick:
                        Wk = W.reshape((numel(ls),) + tuple(ref.shape[nb:]))
                        for k in [pos[0]] + [q for q in (1, numel(ls) - 2) if q not in pos][:1]:
                            xk = xs[k].clone().requires_grad_(True)
                            yk = None if ys is None else ys[k].clone().requires_grad_(True)
                            gk = torch.autograd.grad((call(xk, yk) * Wk[k]).sum(), [t for t in (xk, yk) if t is not None], allow_unused=True)
                            for a, b, nm in zip(gr, gk, ("first", "second")):
                                ak = None if a is None else a.reshape(numel(ls), -1)[k]
                                if not _grad_close(ak, b):
                                    ctx.fail(dict(case, item=k), f"itemwise-gradient: {label} on a contiguous batch of lshape {ls}: the gradient of a weighted sum w.r.t. item {k} of the {nm} operand is "
                                                                 f"{(ak if ak is not None else torch.zeros(1)).flatten()[:4].tolist()}, for the call on that item alone {(b if b is not None else torch.zeros(1)).flatten()[:4].tolist()}")
                                    break
                    # (49) the cotangent's layout: explicit grad_outputs with permuted strides, and glue after the op
                    if frac != "one" or nb + 1 > ref.dim():          # the cotangent's layout does not depend on the degenerate pattern: once per lshape / layout / block
                        continue
                    Wfull = W
                    Wp = permuted_layout(W.reshape(tuple(ls) + (-1,)), lay).reshape(ref.shape) if ref.dim() > nb else W
                    if ref.dim() > nb + 1:          # matrix-valued outputs: permute the batch dims of the full cotangent
                        perm = {"rev": list(range(nb))[::-1], "transpose": [1, 0] + list(range(2, nb)), "movedim": list(range(1, nb)) + [0]}[lay]
                        full = perm + list(range(nb, ref.dim()))
                        inv = [full.index(q) for q in range(ref.dim())]
                        Wp = W.permute(full).contiguous().permute(inv)
                    g1 = torch.autograd.grad(ref, leaves_r, grad_outputs=Wp, allow_unused=True, retain_graph=True)
                    perm2 = [1, 0] + list(range(2, ref.dim()))
                    g2_ = torch.autograd.grad((ref.permute(perm2) * Wfull.permute(perm2)).sum(), leaves_r, allow_unused=True, retain_graph=True)
                    g3 = torch.autograd.grad((torch.movedim(ref, 0, nb - 1).contiguous() * torch.movedim(Wfull, 0, nb - 1)).sum(), leaves_r, allow_unused=True)
                    for gg, how in ((g1, f"`grad_outputs` with {lay}-permuted strides"), (g2_, "`op(X).transpose(0, 1)` followed by a weighted sum"),
                                    (g3, "`op(X).movedim(0, -1).contiguous()` followed by a weighted sum")):
                        for a, b, nm in zip(gg, gr, ("first", "second")):
                            if not _grad_close(a, b):
                                ctx.fail(dict(case, cotangent=how), f"cotangent-layout: {label} on a contiguous batch of lshape {ls}: backward through {how} gives the gradient "
                                                                    f"{(a if a is not None else torch.zeros(1)).flatten()[:4].tolist()} w.r.t. the {nm} operand, with the contiguous cotangent of the "
                                                                    f"same values {(b if b is not None else torch.zeros(1)).flatten()[:4].tolist()}")
                                break
                except Exception as e:
                    ctx.fail(case, f"raises: backward of {what} raises {type(e).__name__}: {str(e)[:80]} (backward on the contiguous clone works)")


# ============================================================================= pass 8 (50): device metadata

def stream_devices(ctx):
    """every entry point that creates a tensor, with operands on `torch.device('meta')` (the only second device of this box) and, where a
    function takes `device=`, with `device='meta'`: the result lives on the operand's / the requested device, with the shape and dtype
    of the same call on cpu.  Ops that cannot run on meta (data-dependent indexing, `.item()`) while they run on cpu are OBSERVATIONS
    (`devices.meta_unsupported`), not failures."""
    P = pp()
    c06 = C()
    meta = torch.device("meta")

    def flat(r):
        return [t for t in c06._flatten_result(r) if isinstance(t, torch.Tensor)]

    def compare(case, what, f_cpu, f_meta):
        ctx.note_case(("devices", what), True)
        ctx.count("devices")
        try:
            want = flat(f_cpu())
        except Exception:
            ctx.count("devices.cpu_rejects")
            return
        try:
            got = flat(f_meta())
        except Exception as e:
            ctx.count("devices.meta_unsupported")
            ctx.notes.append(f"observation: {what} does not run on the meta device ({type(e).__name__}: {str(e)[:60]})") if len(ctx.notes) < 40 else None
            return
        if len(got) != len(want):
            ctx.fail(case, f"device: {what} returns {len(got)} tensors on meta operands, {len(want)} on cpu")
            return
        for k, (g, w) in enumerate(zip(got, want)):
            if g.device != meta or tuple(g.shape) != tuple(w.shape) or g.dtype != w.dtype or type(g) is not type(w) or getattr(g, "ltype", None) is not getattr(w, "ltype", None):
                ctx.fail(case, f"device: {what} with operand(s) on device `meta` returns a {type(g).__name__} on device `{g.device}` of shape {tuple(g.shape)}, {g.dtype}; "
                               f"expected device `meta` (the operand's), shape {tuple(w.shape)}, {w.dtype}, {type(w).__name__} as on cpu")
                return
    with warnings.catch_warnings():
        warnings.simplefilter("ignore")
        for lt in LTYPES:
            d = DIM[lt]
            for dtn in ("float64", "float32"):
                dt = DT[dtn]
                for ls in ((), (3,), (2, 1)):
                    xc = c06.POOLS.get(lt, dtn)[:max(1, numel(ls))].reshape(ls + (d,)).clone()
                    Xc = c06._lie(xc, lt)
                    Xm = c06._lie(torch.empty(ls + (d,), dtype=dt, device=meta), lt)
                    if (dtn == "float32" and ls != (3,)) or (ctx.quick and ls == (2, 1)) or (ctx.quick and ls == () and dtn == "float32"):
                        continue
                    for op, apis, _ in c06.unary_ops(lt):
                        for api in sorted(apis):
                            case = {"kind": "devices", "what": f"{lt}.{op} ({api})", "ls": list(ls), "dtype": dtn}
                            compare(case, f"{lt}.{op} ({api}) on lshape {ls} {dtn}", (lambda f=apis[api]: f(Xc)), (lambda f=apis[api]: f(Xm)))
                    extra = {"new_empty": lambda X: X.new_empty((2, d)), "new_zeros": lambda X: X.new_zeros((2, d)), "new_ones": lambda X: X.new_ones((2, d)),
                             "new_full": lambda X: X.new_full((2, d), 0.5), "clone": lambda X: X.clone(), "deepcopy": lambda X: copy.deepcopy(X), "lview": lambda X: X.lview(-1),
                             "zeros_like": lambda X: torch.zeros_like(X),        # `identity_like(X)` WITHOUT device= is documented to use the default device, not X's
                             "identity_like(device=)": lambda X: P.identity_like(c06._lie(xc.clone(), lt), device=X.device),
                             "randn_like(device=)": lambda X: P.randn_like(c06._lie(xc.clone(), lt), device=X.device),
                             "to(device)": lambda X: c06._lie(xc.clone(), lt).to(X.device), "cat": lambda X: torch.cat([X, X]), "stack": lambda X: torch.stack([X, X]),
                             "getitem": lambda X: X[..., :], "unsqueeze": lambda X: X.unsqueeze(0), "expand": lambda X: X.unsqueeze(0).expand((2,) + tuple(X.shape)),
                             "LieTensor(t, ltype=)": lambda X: P.LieTensor(X.tensor(), ltype=X.ltype), "Parameter": lambda X: P.Parameter(X),
                             "tensor()": lambda X: X.tensor(), "cumops-free Inv*X": lambda X: X.Inv() * X if lt in GROUPS else X + X}
                    for nm, f in extra.items():
                        case = {"kind": "devices", "what": f"{lt}.{nm}", "ls": list(ls), "dtype": dtn}
                        compare(case, f"{nm} of a {lt} LieTensor of lshape {ls} {dtn}", (lambda f=f: f(Xc)), (lambda f=f: f(Xm)))
            # constructors with device=
            for cn in ("identity_", "randn_"):
                for size in (((2,),) if ctx.quick else ((), (2,), (2, 3))):
                    for dtn in ("float64", "float32"):
                        case = {"kind": "devices", "what": cn + lt, "size": list(size), "dtype": dtn}
                        compare(case, f"pp.{cn}{lt}{size} with device='meta', dtype={dtn}", (lambda: getattr(P, cn + lt)(*size, dtype=DT[dtn])),
                                (lambda: getattr(P, cn + lt)(*size, dtype=DT[dtn], device=meta)))
            compare({"kind": "devices", "what": "ctor " + lt}, f"pp.{lt}(data on meta)", (lambda: getattr(P, lt)(torch.zeros(2, d))), (lambda: getattr(P, lt)(torch.zeros(2, d, device=meta))))
        for sk in c06.SITE_KEYS:
            spec = c06.SITES[sk]
            for sa, sb in ((((2, 1), (3,)),) if ctx.quick else (((3,), (3,)), ((2, 1), (3,)), ((), (2,)))):
                for dtn in ("float64",):
                    xa = c06.POOLS.get(spec["px"], dtn)[:max(1, numel(sa))].reshape(sa + (-1,)).clone()
                    yb = c06.POOLS.get(spec["py"], dtn)[:max(1, numel(sb))].reshape(sb + (-1,)).clone()
                    for api in (sorted(spec["apis"])[:1] if ctx.quick else sorted(spec["apis"])):
                        for ycase in (("lie", "plain") if spec["wrap_y"] == "either" and not ctx.quick else ("lie",)):
                            case = {"kind": "devices", "what": f"{sk[0]}.{sk[1]} ({api})", "sa": list(sa), "sb": list(sb), "ycase": ycase}
                            compare(case, f"{sk[0]}.{sk[1]} ({api}) on lshapes {sa} x {sb}",
                                    (lambda: c06.site_call(sk, api, c06._lie(xa.clone(), spec["px"]), c06.wrap_second(sk, ycase, yb.clone()))),
                                    (lambda: c06.site_call(sk, api, c06._lie(torch.empty_like(xa, device=meta), spec["px"]), c06.wrap_second(sk, ycase, torch.empty_like(yb, device=meta)))))
