import Proofs.Real
import Proofs.Lemmas.Quat
import Proofs.Lemmas.So3Exp
import Proofs.Props.C03
import Pose.Model.Spline
import Mathlib.Tactic.Ring
import Mathlib.Tactic.Linarith
import Mathlib.Tactic.NormNum
import Mathlib.Tactic.FieldSimp
import Mathlib.Tactic.Push
import Mathlib.Analysis.Calculus.Deriv.Pow
import Mathlib.Analysis.Calculus.Deriv.Mul
import Mathlib.Analysis.Calculus.Deriv.Add
/-! Helper lemmas for C19, spline part (`chspline`, `bspline`). -/
namespace PP.Spline
open PP

/-! ## counting -/

theorem filter_lt_length (n i : Nat) :
    ((List.range n).filter (fun m => decide (m < i))).length = min i n := by
  induction n with
  | zero => simp
  | succ n ih =>
    rw [List.range_succ, List.filter_append, List.length_append, ih]
    by_cases h : n < i
    · simp [h]; omega
    · simp [h]; omega

/-- over ℝ the `searchsorted` index of `v ∈ (i, i+1]` is `i` (clipped to the last segment start `N-1`) -/
theorem searchIdx_of_mem (N i : Nat) (v : ℝ) (h1 : (i : ℝ) < v) (h2 : v ≤ (i : ℝ) + 1) :
    searchIdx N v = min i (N - 1) := by
  unfold searchIdx
  rw [← filter_lt_length (N - 1) i]
  congr 1
  apply List.filter_congr
  intro m _
  simp only [lt_real, k_real, decide_eq_decide]
  constructor
  · intro h
    have : ((m + 1 : ℕ) : ℝ) < (i : ℝ) + 1 := lt_of_lt_of_le h h2
    have : ((m + 1 : ℕ) : ℝ) < ((i + 1 : ℕ) : ℝ) := by push_cast at this ⊢; linarith
    have := Nat.cast_lt.mp this
    omega
  · intro h
    have : ((m + 1 : ℕ) : ℝ) ≤ (i : ℝ) := by exact_mod_cast h
    linarith

/-- at or before the first knot the index is `0` -/
theorem searchIdx_of_le_one (N : Nat) (v : ℝ) (h : v ≤ 1) : searchIdx N v = 0 := by
  unfold searchIdx
  rw [List.length_eq_zero_iff, List.filter_eq_nil_iff]
  intro m _
  simp only [lt_real, k_real, decide_eq_true_eq, not_lt]
  have : (1 : ℝ) ≤ ((m + 1 : ℕ) : ℝ) := by push_cast; linarith [Nat.cast_nonneg (α := ℝ) m]
  linarith

theorem searchIdx_le (N : Nat) (v : ℝ) : searchIdx N v ≤ N - 1 := by
  unfold searchIdx
  calc _ ≤ (List.range (N - 1)).length := List.length_filter_le _ _
    _ = N - 1 := List.length_range

/-! ## Hermite basis -/

theorem dxAt_real (i : Nat) : (dxAt i : ℝ) = 1 := by
  unfold dxAt; simp only [k_real]; push_cast; ring

theorem h_at_zero : (h00 (0 : ℝ) = 1) ∧ (h10 (0 : ℝ) = 0) ∧ (h01 (0 : ℝ) = 0) ∧ (h11 (0 : ℝ) = 0) := by
  unfold h00 h10 h01 h11; simp only [k_real]; norm_num
theorem h_at_one : (h00 (1 : ℝ) = 0) ∧ (h10 (1 : ℝ) = 0) ∧ (h01 (1 : ℝ) = 1) ∧ (h11 (1 : ℝ) = 0) := by
  unfold h00 h10 h01 h11; simp only [k_real]; norm_num
theorem h_partition (t : ℝ) : h00 t + h01 t = 1 := by
  unfold h00 h01; simp only [k_real]; push_cast; ring
theorem h_first_moment (t : ℝ) : h10 t + h01 t + h11 t = t := by
  unfold h10 h01 h11; simp only [k_real]; push_cast; ring

theorem diff1_real (p : Nat → ℝ) (i : Nat) : diff1 p i = p (i + 1) - p i := by
  unfold diff1; rw [dxAt_real]; ring

/-- tangents of a straight line are its slope, at every index and for every `N` -/
theorem slope_line (N : Nat) (a d : ℝ) (i : Nat) : slope N (fun j => a + (j : ℝ) * d) i = d := by
  unfold slope
  simp only [diff1_real, k_real]
  split_ifs <;> push_cast <;> ring

theorem slope_affine (N : Nat) (p : Nat → ℝ) (c b : ℝ) (i : Nat) :
    slope N (fun j => c * p j + b) i = c * slope N p i := by
  unfold slope
  simp only [diff1_real, k_real]
  split_ifs <;> ring

theorem slope_add (N : Nat) (p r : Nat → ℝ) (i : Nat) :
    slope N (fun j => p j + r j) i = slope N p i + slope N r i := by
  unfold slope
  simp only [diff1_real, k_real]
  split_ifs <;> ring

/-! ## B-spline weights -/

theorem bw_sum (u : ℝ) : bw1 u + bw2 u + bw3 u = 1 + u := by
  unfold bw1 bw2 bw3; simp only [k_real, q_real]; push_cast; ring
theorem bw_zero : bw1 (0 : ℝ) = 5 / 6 ∧ bw2 (0 : ℝ) = 1 / 6 ∧ bw3 (0 : ℝ) = 0 := by
  unfold bw1 bw2 bw3; simp only [k_real, q_real]; norm_num
theorem bw_one : bw1 (1 : ℝ) = 1 ∧ bw2 (1 : ℝ) = 5 / 6 ∧ bw3 (1 : ℝ) = 1 / 6 := by
  unfold bw1 bw2 bw3; simp only [k_real, q_real]; norm_num
theorem bwEnd_eq : (bwEnd1 : ℝ) = 1 ∧ (bwEnd2 : ℝ) = 5 / 6 ∧ (bwEnd3 : ℝ) = 1 / 6 := by
  unfold bwEnd1 bwEnd2 bwEnd3; simp only [k_real, q_real]; norm_num


/-! ## SE3: equality as transformations, inverse of a product -/

/-- same rigid transformation: equal translation, quaternions equal up to sign -/
def SE3Equiv (X Y : SE3 ℝ) : Prop := X.t = Y.t ∧ (X.q = Y.q ∨ X.q = Y.q.neg)

theorem SE3Equiv.refl (X : SE3 ℝ) : SE3Equiv X X := ⟨rfl, Or.inl rfl⟩
theorem SE3Equiv.of_eq {X Y : SE3 ℝ} (h : X = Y) : SE3Equiv X Y := h ▸ SE3Equiv.refl X

theorem Quat.neg_neg' (q : Quat ℝ) : q.neg.neg = q := by ext <;> simp [Quat.neg]
theorem Quat.neg_mul' (p q : Quat ℝ) : p.neg.mul q = (p.mul q).neg := by ext <;> lie_unfold <;> ring
theorem Quat.mul_neg' (p q : Quat ℝ) : p.mul q.neg = (p.mul q).neg := by ext <;> lie_unfold <;> ring
theorem Quat.normSq_neg (q : Quat ℝ) : q.neg.normSq = q.normSq := by lie_unfold; ring
theorem Quat.conj_neg (q : Quat ℝ) : q.neg.conj = q.conj.neg := by ext <;> lie_unfold

theorem SE3Equiv.symm {X Y : SE3 ℝ} (h : SE3Equiv X Y) : SE3Equiv Y X := by
  refine ⟨h.1.symm, ?_⟩
  rcases h.2 with h | h
  · exact Or.inl h.symm
  · right; rw [h, Quat.neg_neg']

theorem SE3Equiv.trans {X Y Z : SE3 ℝ} (h1 : SE3Equiv X Y) (h2 : SE3Equiv Y Z) : SE3Equiv X Z := by
  refine ⟨h1.1.trans h2.1, ?_⟩
  rcases h1.2 with h | h <;> rcases h2.2 with h' | h'
  · exact Or.inl (h.trans h')
  · right; rw [h, h']
  · right; rw [h, h']
  · left; rw [h, h', Quat.neg_neg']

theorem SE3Equiv.valid {X Y : SE3 ℝ} (h : SE3Equiv X Y) (hY : SE3.Valid Y) : SE3.Valid X := by
  unfold SE3.Valid at *
  rcases h.2 with h | h
  · rw [h]; exact hY
  · rw [h, Quat.normSq_neg]; exact hY

theorem SE3Equiv.mul_right {X X' : SE3 ℝ} (h : SE3Equiv X X') (Y : SE3 ℝ) :
    SE3Equiv (SE3Mul X Y) (SE3Mul X' Y) := by
  unfold SE3Mul
  rcases h.2 with hq | hq
  · exact ⟨by simp only [h.1, hq], Or.inl (by simp only [hq])⟩
  · refine ⟨by simp only [h.1, hq, Quat.neg_act], Or.inr ?_⟩
    simp only [hq, Quat.neg_mul']

theorem SE3Equiv.mul_left (X : SE3 ℝ) {Y Y' : SE3 ℝ} (h : SE3Equiv Y Y') :
    SE3Equiv (SE3Mul X Y) (SE3Mul X Y') := by
  unfold SE3Mul
  rcases h.2 with hq | hq
  · exact ⟨by simp only [h.1], Or.inl (by simp only [hq])⟩
  · refine ⟨by simp only [h.1], Or.inr ?_⟩
    simp only [hq, Quat.mul_neg']

/-- `(G X)⁻¹ = X⁻¹ G⁻¹` -/
theorem SE3_inv_mul_rev (G X : SE3 ℝ) (hG : SE3.Valid G) (hX : SE3.Valid X) :
    SE3Inv (SE3Mul G X) = SE3Mul (SE3Inv X) (SE3Inv G) := by
  have hGc : G.q.conj.normSq = 1 := by rw [Quat.normSq_conj]; exact hG
  have hXc : X.q.conj.normSq = 1 := by rw [Quat.normSq_conj]; exact hX
  unfold SE3Inv SE3Mul
  ext1
  · simp only []
    rw [Quat.conj_mul_rev, Quat.act_mul _ _ hXc hGc, Quat.act_add, Quat.conj_act_act G.q hG, Quat.act_add,
      Quat.act_neg]
    ext <;> simp only [Vec3.neg, Vec3.add] <;> ring
  · simp only []; exact Quat.conj_mul_rev _ _

/-- `(G X)⁻¹ (G Y) = X⁻¹ Y` : relative poses are invariant under left multiplication -/
theorem SE3_rel_left_invariant (G X Y : SE3 ℝ) (hG : SE3.Valid G) (hX : SE3.Valid X) :
    SE3Mul (SE3Inv (SE3Mul G X)) (SE3Mul G Y) = SE3Mul (SE3Inv X) Y := by
  have hXi := SE3_valid_inv X hX
  have hGi := SE3_valid_inv G hG
  rw [SE3_inv_mul_rev G X hG hX, SE3_mul_assoc _ _ _ hXi hGi, ← SE3_mul_assoc _ _ _ hGi hG,
    SE3_inv_mul G hG, SE3_one_mul]

theorem delta_left_invariant (eps : ℝ) (G X Y : SE3 ℝ) (hG : SE3.Valid G) (hX : SE3.Valid X) :
    delta eps (SE3Mul G X) (SE3Mul G Y) = delta eps X Y := by
  unfold delta; rw [SE3_rel_left_invariant G X Y hG hX]

/-! ## `Exp` at zero, `Log` at the identity -/

theorem Vec3.norm_zero' : (Vec3.zero : Vec3 ℝ).norm = 0 := by
  unfold Vec3.norm Vec3.normSq Vec3.zero; simp

theorem Vec3.smul_zero_right (v : Vec3 ℝ) : v.smul 0 = Vec3.zero := by
  ext <;> simp [Vec3.smul, Vec3.zero]
theorem Vec3.smul_of_zero (w : ℝ) : (Vec3.zero : Vec3 ℝ).smul w = Vec3.zero := by
  ext <;> simp [Vec3.smul, Vec3.zero]
theorem Vec3.smul_one' (v : Vec3 ℝ) : v.smul 1 = v := by
  ext <;> simp [Vec3.smul]

noncomputable def se3zero : se3 ℝ := ⟨Vec3.zero, Vec3.zero⟩

theorem so3Exp_zero (eps : ℝ) (h : 0 ≤ eps) : so3Exp eps (Vec3.zero : Vec3 ℝ) = Quat.one := by
  unfold so3Exp
  rw [Vec3.norm_zero']
  have : ¬ eps < 0 := not_lt.mpr h
  simp only [lt_real, this, decide_false, Bool.false_eq_true, if_false]
  ext <;> simp [Quat.mk', Quat.one, Vec3.smul, Vec3.zero]

theorem mulVec_zero (M : Mat3 ℝ) : M.mulVec Vec3.zero = Vec3.zero := by
  ext <;> simp [Mat3.mulVec, Vec3.dot, Vec3.zero]

theorem se3Exp_zero (eps : ℝ) (h : 0 ≤ eps) : se3Exp eps se3zero = SE3one := by
  unfold se3Exp se3zero SE3one
  simp only [so3Exp_zero eps h, mulVec_zero]

theorem scale_zero_right (x : se3 ℝ) : scale x 0 = se3zero := by
  unfold scale se3zero; simp only [Vec3.smul_zero_right]
theorem scale_of_zero (w : ℝ) : scale se3zero w = se3zero := by
  unfold scale se3zero; simp only [Vec3.smul_of_zero]
theorem scale_one (x : se3 ℝ) : scale x 1 = x := by
  unfold scale; cases x; simp only [Vec3.smul_one']

theorem SO3Log_one (eps : ℝ) (_h : 0 ≤ eps) : SO3Log eps (Quat.one : Quat ℝ) = Vec3.zero := by
  unfold SO3Log
  have hv : (Quat.one : Quat ℝ).vec = Vec3.zero := by ext <;> simp [Quat.vec, Quat.one, Vec3.zero]
  rw [hv, Vec3.smul_of_zero]

theorem SE3Log_one (eps : ℝ) (h : 0 ≤ eps) : SE3Log eps SE3one = se3zero := by
  unfold SE3Log SE3one se3zero
  simp only [SO3Log_one eps h, mulVec_zero]

theorem delta_self (eps : ℝ) (h : 0 ≤ eps) (X : SE3 ℝ) (hX : SE3.Valid X) : delta eps X X = se3zero := by
  unfold delta; rw [SE3_inv_mul X hX, SE3Log_one eps h]

theorem SE3_valid_one : SE3.Valid (SE3one : SE3 ℝ) := SO3_valid_one

/-! ## small list/index helpers used by the property theorems -/

theorem timeAt_knot (kk : Nat) (interval : ℝ) (i : Nat) (hk : 0 < kk) : timeAt kk interval (i * kk) = (i : ℝ) := by
  unfold timeAt
  rw [Nat.mul_div_cancel _ hk, Nat.mul_mod_left]
  simp only [k_real, Nat.cast_zero, zero_mul, add_zero]

theorem pad_left (G : SE3 ℝ) (N : Nat) (P : Nat → SE3 ℝ) :
    pad N (fun j => SE3Mul G (P j)) = fun m => SE3Mul G (pad N P m) := by
  funext m; unfold pad; split_ifs <;> rfl


/-! ## derivative of a Hermite segment -/

theorem cubic_hasDerivAt (a b c d t : ℝ) :
    HasDerivAt (fun s : ℝ => a + b * s + c * s ^ 2 + d * s ^ 3) (b + 2 * c * t + 3 * d * t ^ 2) t := by
  have hd : DifferentiableAt ℝ (fun s : ℝ => a + b * s + c * s ^ 2 + d * s ^ 3) t := by fun_prop
  have h := hd.hasDerivAt
  have e : deriv (fun s : ℝ => a + b * s + c * s ^ 2 + d * s ^ 3) t = b + 2 * c * t + 3 * d * t ^ 2 := by
    simp (disch := fun_prop) only [deriv_fun_add, deriv_fun_mul, deriv_const, deriv_fun_pow, deriv_id'']
    simp; ring
  rw [e] at h; exact h

theorem hermite_cubic (p0 m0 p1 m1 : ℝ) :
    (fun t : ℝ => h00 t * p0 + h10 t * m0 + h01 t * p1 + h11 t * m1)
      = fun t => p0 + m0 * t + (-3 * p0 - 2 * m0 + 3 * p1 - m1) * t ^ 2 + (2 * p0 + m0 - 2 * p1 + m1) * t ^ 3 := by
  funext t
  unfold h00 h10 h01 h11
  simp only [k_real]; push_cast; ring

/-! ## the float `arange` length against the rational count -/

theorem roundAt_bounds (num den s : Nat) (h : 0 < num) :
    den * 2 ^ s / num ≤ roundAt num den s ∧ roundAt num den s * num < den * 2 ^ s + num := by
  unfold roundAt
  set D := den * 2 ^ s with hD
  have hdm := Nat.div_add_mod D num
  have hml := Nat.mod_lt D h
  have e1 : D / num * num = num * (D / num) := Nat.mul_comm _ _
  by_cases hup : (decide (num < 2 * (D % num)) || (2 * (D % num) == num && D / num % 2 == 1)) = true
  · simp only [hup, if_true]
    have hr : 0 < D % num := by
      simp only [Bool.or_eq_true, decide_eq_true_eq, Bool.and_eq_true, beq_iff_eq] at hup
      rcases hup with h1 | ⟨h1, _⟩ <;> omega
    refine ⟨Nat.le_succ _, ?_⟩
    rw [Nat.succ_mul, e1]; omega
  · simp only [hup, Bool.false_eq_true, if_false]
    refine ⟨le_refl _, ?_⟩
    rw [e1]; omega

theorem count_mul_ge (num den : Nat) (h : 0 < num) : den ≤ count num den * num := by
  unfold count
  have hdm := Nat.div_add_mod (den + num - 1) num
  have hml := Nat.mod_lt (den + num - 1) h
  rw [Nat.mul_comm]; omega

theorem ceilShift_le_of (m s c : Nat) (h : m ≤ c * 2 ^ s) : ceilShift m s ≤ c := by
  unfold ceilShift
  have hP : 0 < 2 ^ s := Nat.pow_pos (by norm_num)
  apply Nat.le_of_lt_succ
  rw [Nat.div_lt_iff_lt_mul hP, Nat.succ_mul]
  omega

theorem le_ceilShift_of (m s c : Nat) (h : c * 2 ^ s ≤ m) : c ≤ ceilShift m s := by
  unfold ceilShift
  have hP : 0 < 2 ^ s := Nat.pow_pos (by norm_num)
  rw [Nat.le_div_iff_mul_le hP]
  omega

theorem floatLen_bounds_at (num den s : Nat) (h : 0 < num) :
    ceilShift (roundAt num den s) s ≤ count num den ∧ count num den ≤ ceilShift (roundAt num den s) s + 1 := by
  obtain ⟨hlo, hhi⟩ := roundAt_bounds num den s h
  have hc := count_mul_ge num den h
  constructor
  · apply ceilShift_le_of
    have h2 : den * 2 ^ s ≤ count num den * 2 ^ s * num := by
      calc den * 2 ^ s ≤ count num den * num * 2 ^ s := Nat.mul_le_mul_right _ hc
        _ = count num den * 2 ^ s * num := by ring
    have h3 : roundAt num den s * num < (count num den * 2 ^ s + 1) * num := by
      rw [Nat.add_mul, Nat.one_mul]; omega
    exact Nat.lt_succ_iff.mp (Nat.lt_of_mul_lt_mul_right h3)
  · have h1 : den / num ≤ ceilShift (roundAt num den s) s := by
      apply le_ceilShift_of
      refine le_trans ?_ hlo
      rw [Nat.le_div_iff_mul_le h]
      calc den / num * 2 ^ s * num = den / num * num * 2 ^ s := by ring
        _ ≤ den * 2 ^ s := Nat.mul_le_mul_right _ (Nat.div_mul_le_self den num)
    have h2 : count num den ≤ den / num + 1 := by
      unfold count
      calc (den + num - 1) / num ≤ (den + num) / num := Nat.div_le_div_right (by omega)
        _ = den / num + 1 := Nat.add_div_right den h
    omega

/-! ## cumulative B-spline weights as cubics -/

theorem bw1_cubic : (bw1 : ℝ → ℝ) = fun u => 5 / 6 + 1 / 2 * u + (-1 / 2) * u ^ 2 + 1 / 6 * u ^ 3 := by
  funext u; unfold bw1; simp only [k_real, q_real]; push_cast; ring
theorem bw2_cubic : (bw2 : ℝ → ℝ) = fun u => 1 / 6 + 1 / 2 * u + 1 / 2 * u ^ 2 + (-1 / 3) * u ^ 3 := by
  funext u; unfold bw2; simp only [k_real, q_real]; push_cast; ring
theorem bw3_cubic : (bw3 : ℝ → ℝ) = fun u => 0 + 0 * u + 0 * u ^ 2 + 1 / 6 * u ^ 3 := by
  funext u; unfold bw3; simp only [k_real, q_real]; push_cast; ring

theorem quad_hasDerivAt (a b c t : ℝ) : HasDerivAt (fun s : ℝ => a + b * s + c * s ^ 2) (b + 2 * c * t) t := by
  have := cubic_hasDerivAt a b c 0 t
  simp only [zero_mul, add_zero, mul_zero] at this
  exact this

/-! ## statements moved from Props/C19.lean (helpers / structural facts, pass 5) -/

/-- **Locality / independence of the other points** (hardening class 7): the value at time `v` only reads the four
points `idx-1 … idx+2` around its segment `idx = searchIdx N v`; two point sequences that agree there give the
same sample — whatever else is in the sequence (or in the rest of a batch). (`idx + 2 ≤ N` holds for every grid time.) -/
theorem evalAt_congr (N : Nat) (p p' : Nat → ℝ) (v : ℝ) (hle : searchIdx N v + 2 ≤ N)
    (h : ∀ j, searchIdx N v ≤ j + 1 → j ≤ searchIdx N v + 2 → p j = p' j) : evalAt N p v = evalAt N p' v := by
  set i := searchIdx N v with hi
  have e0 : p i = p' i := h i (by omega) (by omega)
  have e1 : p (i + 1) = p' (i + 1) := h (i + 1) (by omega) (by omega)
  have hs0 : slope N p i = slope N p' i := by
    unfold slope
    simp only [diff1_real]
    by_cases hz : i = 0
    · simp only [hz, if_true]
      rw [hz] at e0 e1; simp only [Nat.zero_add] at e1; rw [e0, e1]
    · have hne : ¬ i + 1 = N := by omega
      have em : p (i - 1) = p' (i - 1) := h (i - 1) (by omega) (by omega)
      have ei : i - 1 + 1 = i := by omega
      simp only [hz, hne, if_false, ei]
      rw [e0, e1, em]
  have hs1 : slope N p (i + 1) = slope N p' (i + 1) := by
    unfold slope
    simp only [diff1_real]
    have hz : ¬ i + 1 = 0 := by omega
    by_cases hl : i + 1 + 1 = N
    · have e2 : N - 2 = i := by omega
      simp only [hz, hl, if_false, if_true, e2]
      rw [e0, e1]
    · have e2 : p (i + 1 + 1) = p' (i + 1 + 1) := h (i + 1 + 1) (by omega) (by omega)
      simp only [hz, hl, if_false, Nat.add_sub_cancel]
      rw [e0, e1, e2]
  unfold evalAt
  simp only [← hi, e0, e1, hs0, hs1]

/-- with `extrapolate=True` there are `(N+1)·k + 1` poses; without, `(N-3)·k+1` and fewer than 4 poses are refused -/
theorem bspline_length (eps : ℝ) (N kk : Nat) (interval : ℝ) (ex : Bool) (P : Nat → SE3 ℝ) :
    bspline eps N kk interval ex P =
      if ex then some (bsplineCore eps (N + 4) kk interval (pad N P))
      else if N < 4 then none else some (bsplineCore eps N kk interval P) := rfl

/-- **A segment only reads its own four control poses** (hardening classes 4/7: no dependence on the rest of the
sequence, of the batch, or on earlier calls — the model is a pure function of exactly these arguments). -/
theorem bsplineAt_congr (eps : ℝ) (P P' : Nat → SE3 ℝ) (i : Nat) (u : ℝ)
    (h : ∀ j, i ≤ j → j ≤ i + 3 → P j = P' j) : bsplineAt eps P i u = bsplineAt eps P' i u := by
  unfold bsplineAt
  rw [h i (by omega) (by omega), h (i + 1) (by omega) (by omega), h (i + 2) (by omega) (by omega),
    h (i + 3) (by omega) (by omega)]

/-- **The underlying cubic B-spline basis** (pass 3): the differences of the cumulative weights,
`b₀ = 1 - w₁`, `b₁ = w₁ - w₂`, `b₂ = w₂ - w₃`, `b₃ = w₃`, are the uniform cubic B-spline basis functions; they are
non-negative on `[0,1]` and sum to one (partition of unity) — for every segment, hence every number of control poses. -/
theorem bw_partition_of_unity (u : ℝ) (h0 : 0 ≤ u) (h1 : u ≤ 1) :
    (1 - bw1 u = (1 - u) ^ 3 / 6) ∧ (bw1 u - bw2 u = (4 - 6 * u ^ 2 + 3 * u ^ 3) / 6) ∧
    (bw2 u - bw3 u = (1 + 3 * u + 3 * u ^ 2 - 3 * u ^ 3) / 6) ∧ (bw3 u = u ^ 3 / 6) ∧
    0 ≤ 1 - bw1 u ∧ 0 ≤ bw1 u - bw2 u ∧ 0 ≤ bw2 u - bw3 u ∧ 0 ≤ bw3 u ∧
    (1 - bw1 u) + (bw1 u - bw2 u) + (bw2 u - bw3 u) + bw3 u = 1 := by
  rw [bw1_cubic, bw2_cubic, bw3_cubic]
  simp only
  have hu : 0 ≤ 1 - u := by linarith
  refine ⟨by ring, by ring, by ring, by ring, ?_, ?_, ?_, ?_, by ring⟩
  · have : 1 - (5 / 6 + 1 / 2 * u + -1 / 2 * u ^ 2 + 1 / 6 * u ^ 3) = (1 - u) ^ 3 / 6 := by ring
    rw [this]; positivity
  · have : 5 / 6 + 1 / 2 * u + -1 / 2 * u ^ 2 + 1 / 6 * u ^ 3 - (1 / 6 + 1 / 2 * u + 1 / 2 * u ^ 2 + -1 / 3 * u ^ 3)
        = (1 + 3 * (1 - u) * (1 + u * (1 - u))) / 6 := by ring
    rw [this]
    have : 0 ≤ u * (1 - u) := mul_nonneg h0 hu
    have : 0 ≤ (1 - u) * (1 + u * (1 - u)) := mul_nonneg hu (by linarith)
    linarith
  · have : 1 / 6 + 1 / 2 * u + 1 / 2 * u ^ 2 + -1 / 3 * u ^ 3 - (0 + 0 * u + 0 * u ^ 2 + 1 / 6 * u ^ 3)
        = (1 + 3 * u + 3 * u ^ 2 * (1 - u)) / 6 := by ring
    rw [this]
    have : 0 ≤ u ^ 2 * (1 - u) := mul_nonneg (sq_nonneg u) hu
    linarith
  · have : (0 : ℝ) + 0 * u + 0 * u ^ 2 + 1 / 6 * u ^ 3 = u ^ 3 / 6 := by ring
    rw [this]; positivity

/-- the cumulative weights are ordered `1 ≥ w₁ ≥ w₂ ≥ w₃ ≥ 0` on `[0,1]` -/
theorem bw_ordered (u : ℝ) (h0 : 0 ≤ u) (h1 : u ≤ 1) : bw3 u ≥ 0 ∧ bw2 u ≥ bw3 u ∧ bw1 u ≥ bw2 u ∧ 1 ≥ bw1 u := by
  obtain ⟨_, _, _, _, a, b, c, d, _⟩ := bw_partition_of_unity u h0 h1
  exact ⟨d, by linarith, by linarith, by linarith⟩

/-- first and second derivatives of the cumulative weights (every `u`) -/
theorem bw_hasDerivAt (u : ℝ) :
    HasDerivAt bw1 ((1 - u) ^ 2 / 2) u ∧ HasDerivAt bw2 ((1 + 2 * u - 2 * u ^ 2) / 2) u ∧ HasDerivAt bw3 (u ^ 2 / 2) u ∧
    HasDerivAt (fun v : ℝ => (1 - v) ^ 2 / 2) (u - 1) u ∧ HasDerivAt (fun v : ℝ => (1 + 2 * v - 2 * v ^ 2) / 2) (1 - 2 * u) u ∧
    HasDerivAt (fun v : ℝ => v ^ 2 / 2) u u := by
  refine ⟨?_, ?_, ?_, ?_, ?_, ?_⟩
  · rw [bw1_cubic]; convert cubic_hasDerivAt (5 / 6) (1 / 2) (-1 / 2) (1 / 6) u using 1; ring
  · rw [bw2_cubic]; convert cubic_hasDerivAt (1 / 6) (1 / 2) (1 / 2) (-1 / 3) u using 1; ring
  · rw [bw3_cubic]; convert cubic_hasDerivAt 0 0 0 (1 / 6) u using 1; ring
  · have := quad_hasDerivAt (1 / 2) (-1) (1 / 2) u
    convert this using 1
    · funext v; ring
    · ring
  · have := quad_hasDerivAt (1 / 2) 1 (-1) u
    convert this using 1
    · funext v; ring
    · ring
  · have := quad_hasDerivAt 0 0 (1 / 2) u
    convert this using 1
    · funext v; ring
    · ring

/-- **C² joins of the weight functions** (pass 3). Write segment `i` with the four weights `(w₁,w₂,w₃,0)(u)` on the relative
motions `(δ₁,δ₂,δ₃,δ₄)` and segment `i+1` with `(1,w₁,w₂,w₃)(u)` on the *same* four motions (`bsplineAt_as_four`,
`bsplineAt_succ_as_four`). At the join the two weight 4-vectors agree in value, first and second derivative:
`(1, 5/6, 1/6, 0)`, `(0, 1/2, 1/2, 0)`, `(0, -1, 1, 0)` — for every join, i.e. every number of control poses. -/
theorem bw_join_C2 :
    (bw1 (1 : ℝ) = 1 ∧ bw2 (1 : ℝ) = bw1 0 ∧ bw3 (1 : ℝ) = bw2 0 ∧ (0 : ℝ) = bw3 0) ∧
    (((1 : ℝ) - 1) ^ 2 / 2 = 0 ∧ (1 + 2 * (1 : ℝ) - 2 * 1 ^ 2) / 2 = (1 - (0 : ℝ)) ^ 2 / 2
      ∧ (1 : ℝ) ^ 2 / 2 = (1 + 2 * (0 : ℝ) - 2 * 0 ^ 2) / 2 ∧ (0 : ℝ) = 0 ^ 2 / 2) ∧
    (((1 : ℝ) - 1 = 0) ∧ (1 - 2 * (1 : ℝ) = 0 - 1) ∧ ((1 : ℝ) = 1 - 2 * 0) ∧ ((0 : ℝ) = 0)) := by
  obtain ⟨a1, b1, c1⟩ := bw_one
  obtain ⟨a0, b0, c0⟩ := bw_zero
  refine ⟨⟨a1, by rw [b1, a0], by rw [c1, b0], c0.symm⟩, ⟨by norm_num, by norm_num, by norm_num, by norm_num⟩,
    ⟨by norm_num, by norm_num, by norm_num, rfl⟩⟩

end PP.Spline
