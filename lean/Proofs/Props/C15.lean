import Proofs.Lemmas.Dynamics
/-!
# C15 — dynamics follow their equations; NLS linearisation is exact at the reference point

Property theorems only (helpers: `Proofs/Lemmas/Dynamics.lean`; model: `Pose/Model/Dynamics.lean`).

* §1 clock: every completed call advances the time by exactly one; `reset` / `systime =` /
  `LTV.set_refpoint(t)` set it; after *any* interleaving the clock is the last set value plus the
  number of completed calls since (`clock_history`, `clock_no_set`, `clock_history_complete`). The model's clock is an
  unbounded `Int`; the code's is an int64 buffer: the statements are about the code for `|clock| < 2^63` (beyond, torch wraps).
  Times are exact rationals `n / d` with `d > 0` (`TArg.valid`; the driver only produces `d = 2^k`; `inf` / `nan` cannot be written).
  (That the clocks of *different* systems, copies and caller tensors are independent holds by construction of the model —
  `Lemmas/Dynamics §10` — and is decided for the code by the streams.)
* §2 `bmv`, `bvv`, `bvmv` are `Matrix.mulVec`, `Matrix.vecMulVec`, `l ⬝ᵥ M *ᵥ r`; on batches of every shape, with the code's
  shape assertions and `atleast_1d`, they act item-wise under the torch broadcasting rule and raise exactly when an assertion
  or a broadcast fails (`bmv_batched`, `bmv_batched_raises`, `bvv_batched`, `bvmv_batched`, `bvmv_unbatched`,
  `bvmv_batched_raises`, `lti_batched`, `lti_batched_noconst`).
* §3 LTI: a forward returns `A x + B u + c1`, `C x + D u + c2` at every clock value (`lti_eq`); the forward reads the public
  *properties*, for the `is None` test of the constants too (`forward_reads_properties`, `overridden_constants_used`,
  `overrides_resolve`, `private_test_variant_differs`; model `LinObj`: buffers vs overridden properties); what is established about
  pypose's `LTV` is only that `LTI.state_transition/observation` read the *overridable properties* `A … c2` and that
  `LTV.set_refpoint(t)` sets the clock — pypose's `LTV` does **no** time indexing. §3b states the indexing law of the
  *user's subclass* the harness uses (the documented pattern `self._A[..., self._t, :, :]` / `… % T`): `ltv_eq_periodic`,
  `ltv_eq_plain`, `ltv_eq_plain_negative`, `ltv_plain_raises`; roll-outs (`rollout_spec`, `rollout_spec_range`,
  `rollout_lti`, `rollout_ltv_periodic`, `rollout_ltv_plain`), histories tie to the clock machine (`runLin_clocks`).
* §4 NLS (unbatched reference points — batched ones are outside the modelled domain, see notes): the symbolic partial
  derivative is the derivative (`symdiff_correct`); the entries of `A, B, C, D` are the partial derivatives of the components
  of `f`, `g` at the reference point (`jacobian_A … jacobian_D`); `A x* + B u* + c1 = f(x*,u*,t*)`, same for `g`
  (`affine_reproduces`); over all histories (`nls_history`, `nls_history_complete`, `nls_read_without_refpoint`,
  `nls_refpoint_success_iff`, `nls_forward_history`, `forward_time_exact`, `nls_history_after_attempt`; clock: `nls_clock`,
  `nls_rollout_time`); the error of the affine model is second order with explicit constants, for `f` and for `g`
  (`second_order`, `nls_second_order`, `second_order_explicit`, `bnd_scale`, `nls_second_order_explicit`,
  `nls_second_order_explicit_obs`).
* §4b affine systems (an LTI / LTV system written as an NLS; full- / partial-state observations): for components affine in
  state and input (`Fn.affineIn`, time-dependent coefficients allowed) the affine model is exact **everywhere** and the same for
  every reference state / input (`nls_affine_exact`, `nls_affine_exact_obs`, `nls_affine_refpoint_irrelevant`,
  `nls_affine_jacobian_constant`).
* §3c overridden properties at full strength: whichever properties are overridden and whatever the buffers hold, the forward
  follows the time-indexed law with the *resolved* stacks (`obj_forward_periodic`, `obj_forward_plain`,
  `overridden_constants_used_ltv` — the shape of the seeded change C15-5).
* §4c an LTV system written as an NLS (`Fn.affRow`: rows `Σ a_j(t) x_j + Σ b_j(t) u_j + c(t)`): the linearisation returns the
  coefficients — `A[i][j] = a_j(t*)`, `B[i][j] = b_j(t*)`, `c1[i] = c(t*)`, same for `C`, `D` — at every reference state / input
  (`nls_ltv_jacobians`, `nls_ltv_jacobians_obs`, `nls_ltv_exact`, `nls_ltv_constant`, `nls_ltv_c1`, `nls_ltv_c2` on the `c1` / `c2`
  fields themselves; driver op `c15.affrow`, stream det/affrow).
* §7 `nls_read_unchanged_by_calls`; §8 error paths: the code is **not** atomic (`partial_update_defect_witness`,
  `nls_history_last_attempt_raised`); `nls_failed_call_atomic`, `nls_history_without_failed_call` state what atomic error
  paths would give (a variant, not the code). The historical alias variants (D32, D38) are in `Lemmas/Dynamics §10`.
-/
namespace PP.Dyn
open PP

/-! ## 1. The clock -/

/-- every completed call advances the time by exactly one (any kind of system, any clock value) -/
theorem clock_call (k : Kind) (c : Int) (evs : List Ev) :
    runClock k c (evs ++ [.call]) = runClock k c evs + 1 := by
  simp [runClock, List.foldl_append, stepClock]

/-- (For every `TArg`; the ones a caller can write have `d > 0`, see `trunc_spec`. Model clock: unbounded `Int`; code: int64,
so this is about the code while `|t.trunc| < 2^63`.)
`reset(t)` and `systime = t` set the time (a float is truncated toward zero by the int64 buffer);
`LTV.set_refpoint(t=…)` sets it, every other `set_refpoint` leaves it alone; a call whose forward
raises, and direct calls of `.forward`, leave it alone. -/
theorem clock_set (k : Kind) (c : Int) (evs : List Ev) (t : TArg) :
    runClock k c (evs ++ [.reset t]) = t.trunc ∧ runClock k c (evs ++ [.assign t]) = t.trunc ∧
    runClock .ltv c (evs ++ [.refpoint (some t)]) = t.trunc ∧
    runClock .lti c (evs ++ [.refpoint (some t)]) = runClock .lti c evs ∧
    runClock .nls c (evs ++ [.refpoint (some t)]) = runClock .nls c evs ∧
    runClock k c (evs ++ [.refpoint none]) = runClock k c evs ∧
    runClock k c (evs ++ [.callRaise]) = runClock k c evs ∧
    runClock k c (evs ++ [.fwdDirect]) = runClock k c evs := by
  simp only [runClock, List.foldl_append, List.foldl_cons, List.foldl_nil, stepClock, true_and]

/-- an integer time is stored as it is; floats go toward zero -/
theorem trunc_int (m : Int) : (⟨m, 1⟩ : TArg).trunc = m := by simp [TArg.trunc]

/-- for a valid time argument (`d > 0`; the totalised `d = 0` case, where `Int.tdiv` gives 0, never occurs: the driver
produces `d = 2^k`, and `inf` / `nan` are not representable) the stored value is the truncation toward zero:
`trunc · d` differs from `n` by less than `d` and lies between `0` and `n`. -/
theorem trunc_spec (a : TArg) (hv : a.valid) :
    |a.n - a.trunc * (a.d : Int)| < a.d ∧ (0 ≤ a.n → 0 ≤ a.trunc ∧ a.trunc * (a.d : Int) ≤ a.n) ∧
      (a.n ≤ 0 → a.trunc ≤ 0 ∧ a.n ≤ a.trunc * (a.d : Int)) := by
  unfold TArg.valid at hv
  unfold TArg.trunc
  have hd : (0 : Int) < a.d := by exact_mod_cast hv
  have e := Int.tmod_add_tdiv_mul a.n a.d
  have hr : -(a.d : Int) < Int.tmod a.n a.d ∧ Int.tmod a.n a.d < a.d ∧ (0 ≤ a.n → 0 ≤ Int.tmod a.n a.d) ∧
      (a.n ≤ 0 → Int.tmod a.n a.d ≤ 0) := by
    have h1 := Int.tmod_lt_of_pos a.n hd
    have h3 : Int.tmod (-a.n) a.d < a.d := Int.tmod_lt_of_pos _ hd
    rw [Int.neg_tmod] at h3
    refine ⟨by omega, h1, fun h => Int.tmod_nonneg _ h, fun h => ?_⟩
    have := Int.tmod_nonneg (a.d : Int) (show 0 ≤ -a.n by omega)
    rw [Int.neg_tmod] at this; omega
  obtain ⟨r1, r2, r3, r4⟩ := hr
  set r := Int.tmod a.n a.d
  set q := Int.tdiv a.n a.d
  refine ⟨by rw [abs_lt]; constructor <;> omega, fun h => ?_, fun h => ?_⟩
  · have := r3 h
    refine ⟨?_, by omega⟩
    by_contra hq
    have : q ≤ -1 := by omega
    nlinarith
  · have := r4 h
    refine ⟨?_, by omega⟩
    by_contra hq
    have : 1 ≤ q := by omega
    nlinarith

/-- histories compose -/
theorem clock_append (k : Kind) (c : Int) (a b : List Ev) :
    runClock k c (a ++ b) = runClock k (runClock k c a) b := by
  simp [runClock, List.foldl_append]

/-- no setting event in the history: the clock is the initial value plus the number of completed calls -/
theorem clock_no_set (k : Kind) (evs : List Ev) : ∀ (c : Int), (∀ e ∈ evs, setVal k e = none) →
    runClock k c evs = c + calls evs := by
  induction evs with
  | nil => intro c _; simp [runClock, calls]
  | cons e es ih =>
    intro c h
    have he := h e (by simp)
    have := ih (stepClock k c e) (fun e' he' => h e' (by simp [he']))
    simp only [runClock, List.foldl_cons] at this ⊢
    rw [this, stepClock_eq, he]
    by_cases hc : isCall e
    · simp [calls, hc]; omega
    · simp [calls, hc]

/-- **Clock after any interleaving**: the last setting event's value plus the number of completed calls
since — whatever happened before. -/
theorem clock_history (k : Kind) (c : Int) (pre post : List Ev) (e : Ev) (v : Int)
    (he : setVal k e = some v) (hpost : ∀ e' ∈ post, setVal k e' = none) :
    runClock k c (pre ++ e :: post) = v + calls post := by
  rw [clock_append]
  have : runClock k (runClock k c pre) (e :: post) = runClock k (stepClock k (runClock k c pre) e) post := by
    simp [runClock]
  rw [this, stepClock_eq, he]
  exact clock_no_set k post v hpost

/-- the two cases above cover every history -/
theorem clock_history_complete (k : Kind) (evs : List Ev) :
    (∀ e ∈ evs, setVal k e = none) ∨
    ∃ pre e post v, evs = pre ++ e :: post ∧ setVal k e = some v ∧ ∀ e' ∈ post, setVal k e' = none := by
  induction evs with
  | nil => left; simp
  | cons e es ih =>
    rcases ih with h | ⟨pre, e', post, v, rfl, hv, hp⟩
    · cases hs : setVal k e with
      | none => left; intro e' he'; rcases List.mem_cons.1 he' with rfl | h' <;> [exact hs; exact h e' h']
      | some v => right; exact ⟨[], e, es, v, rfl, hs, h⟩
    · right; exact ⟨e :: pre, e', post, v, rfl, hv, hp⟩

/-- the clock observed after the `j`-th event is the run of the first `j+1` events -/
theorem traceClock_spec (k : Kind) (evs : List Ev) : ∀ (c : Int) (j : Nat), j < evs.length →
    (traceClock k c evs)[j]? = some (runClock k c (evs.take (j + 1))) := by
  induction evs with
  | nil => intro c j h; simp at h
  | cons e es ih =>
    intro c j hj
    cases j with
    | zero => simp [traceClock, runClock]
    | succ j =>
      have := ih (stepClock k c e) j (by simpa using hj)
      simpa [traceClock, runClock] using this

example : traceClock .ltv 0 [.call, .call, .callRaise, .reset ⟨5, 1⟩, .call, .assign ⟨-11, 4⟩, .call,
    .refpoint (some ⟨7, 1⟩), .refpoint none, .call] = [1, 2, 2, 5, 6, -2, -1, 7, 7, 8] := by decide

/-! ### several systems: every clock is its own state machine -/

/-! ## 2. `bmv`, `bvv`, `bvmv` -/

/-- `bmv` is the matrix–vector product -/
theorem bmv_spec {n m : ℕ} (M : Matrix (Fin n) (Fin m) ℝ) (v : Fin m → ℝ) :
    bmv (rowsOf M) (List.ofFn v) = List.ofFn (M.mulVec v) := bmv_eq_mulVec M v

/-- `bvv` is the outer product `l rᵀ` -/
theorem bvv_spec {n m : ℕ} (l : Fin n → ℝ) (r : Fin m → ℝ) :
    bvv (List.ofFn l) (List.ofFn r) = rowsOf (Matrix.vecMulVec l r) := by
  unfold bvv rowsOf
  rw [List.map_ofFn]
  congr 1; funext i
  simp only [Function.comp, List.map_ofFn, Matrix.vecMulVec_apply]
  rfl

/-- `bvmv` is the bilinear form `lᵀ M r` -/
theorem bvmv_spec {n m : ℕ} (l : Fin n → ℝ) (M : Matrix (Fin n) (Fin m) ℝ) (r : Fin m → ℝ) :
    bvmv (List.ofFn l) (rowsOf M) (List.ofFn r) = l ⬝ᵥ M.mulVec r := by
  rw [Matrix.dotProduct_mulVec]
  unfold bvmv
  rw [vecMul_rowsOf]

/-! ### the helpers on batches of every shape (with the code's shape assertions) -/
section
open Batch

/-- **`bmv` on batches**: when the code's assertion `mat.shape[-1] == vec.shape[-1]` holds and the batch shapes broadcast
(to `out`), the result has shape `out ++ [rows]` and item `i` is the matrix–vector product of the items the torch
broadcasting rule pairs (`proj`: missing leading dimensions dropped, extent-1 dimensions read index 0) — every rank, every shape. -/
theorem bmv_batched (M : MT ℝ) (v : VT ℝ) (out : Shape) (hd : M.cols = v.len)
    (h : broadcastShapes M.shape v.shape = some out) :
    ∃ r, bmvG M v = some r ∧ r.shape = out ∧ r.len = M.rows ∧
      ∀ i, inb out i → r.t.get i = bmv (M.t.get (proj M.shape i)) (v.t.get (proj v.shape i)) := by
  obtain ⟨z, e, sh, it⟩ := bcast2_itemwise bmv M.t v.t out h
  exact ⟨⟨z.shape, M.rows, z.data⟩, by simp [bmvG, hd, e], sh, rfl, fun i hi => by
    have := it i hi
    simpa [VT.t, MT.t, T.get, sh] using this⟩

/-- **`bmv` raises exactly when** the core dimensions do not match (`assert mat.shape[-1] == vec.shape[-1]`) **or** the batch
shapes do not broadcast. (`mat.ndim >= 2`, `vec.ndim >= 1` hold by construction of `MT`, `VT`.) -/
theorem bmv_batched_raises (M : MT ℝ) (v : VT ℝ) :
    (bmvG M v).isSome = (decide (M.cols = v.len) && (broadcastShapes M.shape v.shape).isSome) := by
  unfold bmvG
  by_cases hd : M.cols = v.len
  · simp [hd, bcast2_isSome, VT.t, MT.t]
  · simp [hd]

/-- `bvv` on batches (no assertion in the code): item `i` is the outer product of the paired items, core shape `[len l, len r]` -/
theorem bvv_batched (l r : VT ℝ) (out : Shape) (h : broadcastShapes l.shape r.shape = some out) :
    ∃ z, bvvG l r = some z ∧ z.shape = out ∧ z.rows = l.len ∧ z.cols = r.len ∧
      ∀ i, inb out i → z.t.get i = bvv (l.t.get (proj l.shape i)) (r.t.get (proj r.shape i)) := by
  obtain ⟨z, e, sh, it⟩ := bcast2_itemwise bvv l.t r.t out h
  exact ⟨⟨z.shape, l.len, r.len, z.data⟩, by simp [bvvG, e], sh, rfl, rfl, fun i hi => by
    have := it i hi
    simpa [VT.t, MT.t, T.get, sh] using this⟩

/-- **`bvmv` on batches** (`assert lvec.shape[-1] == mat.shape[-2] and mat.shape[-1] == rvec.shape[-1]`, `(lvec.mT @ mat) @ rvec`,
`torch.atleast_1d`): the batch shape of the result is `out`, except that an unbatched call (`out = []`) returns shape `(1,)`;
the entry for index `i` is `lᵀ M r` of the three items the broadcasting rule pairs with `i` *directly*. -/
theorem bvmv_batched (l : VT ℝ) (M : MT ℝ) (r : VT ℝ) (s1 out : Shape) (hd : l.len = M.rows ∧ M.cols = r.len)
    (h1 : broadcastShapes l.shape M.shape = some s1) (h2 : broadcastShapes s1 r.shape = some out) :
    ∃ z, bvmvG l M r = some z ∧ z.shape = atleast1d out ∧
      ∀ i, inb out i → z.data (ravel out i) = bvmv (l.t.get (proj l.shape i)) (M.t.get (proj M.shape i)) (r.t.get (proj r.shape i)) := by
  obtain ⟨lm, e1, sh1, it1⟩ := bcast2_itemwise DMat.vecMul l.t M.t s1 h1
  obtain ⟨z, e2, sh2, it2⟩ := bcast2_itemwise DVec.dot lm r.t out (by rw [sh1]; exact h2)
  refine ⟨⟨atleast1d z.shape, z.data⟩, by simp [bvmvG, hd, e1, e2], by simp [sh2], ?_⟩
  intro i hi
  have hlen : out.length ≤ i.length := by rw [inb_length hi]
  have hl1 : s1.length ≤ i.length := le_trans (broadcastShapes_length h2).1 hlen
  have hz : z.data (ravel out i) = z.get i := by simp [T.get, sh2]
  show z.data (ravel out i) = _
  rw [hz, it2 i hi, sh1, it1 _ (proj_inb_left h2 hi)]
  have p1 := proj_proj h1 i hl1
  have p2 := proj_proj_right h1 i hl1
  simp only [VT.t, MT.t] at p1 p2 ⊢
  rw [p1, p2]
  rfl

/-- an unbatched `bvmv` returns a tensor of shape `(1,)` holding `lᵀ M r` -/
theorem bvmv_unbatched (l : VT ℝ) (M : MT ℝ) (r : VT ℝ) (hl : l.shape = []) (hM : M.shape = []) (hr : r.shape = [])
    (hd : l.len = M.rows ∧ M.cols = r.len) :
    ∃ z, bvmvG l M r = some z ∧ z.shape = [1] ∧ z.get [0] = bvmv (l.data 0) (M.data 0) (r.data 0) := by
  have h1 : broadcastShapes l.shape M.shape = some [] := by rw [hl, hM]; rfl
  have h2 : broadcastShapes [] r.shape = some [] := by rw [hr]; rfl
  obtain ⟨z, e, sh, it⟩ := bvmv_batched l M r [] [] hd h1 h2
  refine ⟨z, e, by simpa [atleast1d] using sh, ?_⟩
  have := it [] (by simp [inb])
  simp only [ravel, VT.t, MT.t, T.get, hl, hM, hr, proj, projEq, List.drop_nil, List.length_nil] at this
  simpa [T.get, sh, atleast1d, ravel, numel] using this

/-- `bvmv` raises exactly when one of its two core-dimension assertions fails or one of the two broadcasts fails -/
theorem bvmv_batched_raises (l : VT ℝ) (M : MT ℝ) (r : VT ℝ) :
    (bvmvG l M r).isSome = (decide (l.len = M.rows ∧ M.cols = r.len) &&
      (match broadcastShapes l.shape M.shape with
       | some s1 => (broadcastShapes s1 r.shape).isSome
       | none => false)) := by
  unfold bvmvG
  by_cases hd : l.len = M.rows ∧ M.cols = r.len
  · simp only [hd, and_self, if_true, decide_true, Bool.true_and, Option.isSome_map]
    cases h1 : broadcastShapes l.shape M.shape with
    | none => simp [bcast2, VT.t, MT.t, h1]
    | some s1 =>
      obtain ⟨lm, e1, sh1, _⟩ := bcast2_itemwise DMat.vecMul l.t M.t s1 h1
      rw [e1]
      simp only [Option.bind_some, bcast2_isSome, sh1]
      rfl
  · simp [hd]

theorem vaddB_eq (a b : DVec ℝ) (h : a.length = b.length) : vaddB a b = DVec.add a b := by simp [vaddB, h]

/-- **One LTI forward on batches of every shape** with the code's assertions: `A : … × n × n'`, `x : … × n'`, `B : … × n × m`,
`u : … × m`, `c : … × n` (well-formed items, `A.cols = x.len`, `B.cols = u.len`, equal row counts), *independent* batch shapes
that broadcast: item `i` of the result is `A_i x_i + B_i u_i + c_i` of the items paired with `i` directly. -/
theorem lti_batched (A B : MT ℝ) (c x u : VT ℝ) (s1 s2 s3 out : Shape)
    (hA : A.WF) (hB : B.WF) (hc : c.WF) (d1 : A.cols = x.len) (d2 : B.cols = u.len) (d3 : A.rows = B.rows) (d4 : c.len = A.rows)
    (h1 : broadcastShapes A.shape x.shape = some s1) (h2 : broadcastShapes B.shape u.shape = some s2)
    (h3 : broadcastShapes s1 s2 = some s3) (h4 : broadcastShapes s3 c.shape = some out) :
    ∃ z, affineG A B (some c) x u = some z ∧ z.shape = out ∧ z.len = A.rows ∧
      ∀ i, inb out i → z.t.get i = affine (A.t.get (proj A.shape i)) (B.t.get (proj B.shape i)) (some (c.t.get (proj c.shape i)))
        (x.t.get (proj x.shape i)) (u.t.get (proj u.shape i)) := by
  obtain ⟨ax, e1, sh1, it1⟩ := bcast2_itemwise bmv A.t x.t s1 h1
  obtain ⟨bu, e2, sh2, it2⟩ := bcast2_itemwise bmv B.t u.t s2 h2
  obtain ⟨z0, e3, sh3, it3⟩ := bcast2_itemwise vaddB ax bu s3 (by rw [sh1, sh2]; exact h3)
  obtain ⟨z, e4, sh4, it4⟩ := bcast2_itemwise vaddB z0 c.t out (by rw [sh3]; exact h4)
  refine ⟨⟨z.shape, A.rows, z.data⟩, ?_, sh4, rfl, ?_⟩
  · have e3' : bcast2 vaddB (⟨ax.shape, A.rows, ax.data⟩ : VT ℝ).t (⟨bu.shape, A.rows, bu.data⟩ : VT ℝ).t = some z0 := e3
    have e4' : bcast2 vaddB (⟨z0.shape, A.rows, z0.data⟩ : VT ℝ).t c.t = some z := e4
    simp only [affineG, bmvG, d1, d2, if_true, e1, e2, Option.map_some, Option.bind_some, addG, ← d3, bdim_self, e3', d4, e4']
  intro i hi
  have hlen : out.length ≤ i.length := by rw [inb_length hi]
  have l3 : s3.length ≤ i.length := le_trans (broadcastShapes_length h4).1 hlen
  have i3 : inb s3 (proj s3 i) := proj_inb_left h4 hi
  have l3' : s3.length ≤ (proj s3 i).length := by rw [proj_length s3 i l3]
  have h3' : broadcastShapes s2 s1 = some s3 := by rw [broadcastShapes_comm]; exact h3
  have hz : (⟨z.shape, A.rows, z.data⟩ : VT ℝ).t.get i = z.get i := rfl
  rw [hz, it4 i hi, sh3, it3 _ i3, sh1, sh2, it1 _ (proj_inb_left h3 i3), it2 _ (proj_inb_right h3 i3)]
  have q1 := proj_proj h1 (proj s3 i) (le_trans (broadcastShapes_length h3).1 l3')
  have q2 := proj_proj_right h1 (proj s3 i) (le_trans (broadcastShapes_length h3).1 l3')
  have q3 := proj_proj h2 (proj s3 i) (le_trans (broadcastShapes_length h3).2 l3')
  have q4 := proj_proj_right h2 (proj s3 i) (le_trans (broadcastShapes_length h3).2 l3')
  have r1 := proj_trans h1 h3 i l3
  have r2 := proj_trans_right h1 h3 i l3
  have r3 := proj_trans h2 h3' i l3
  have r4 := proj_trans_right h2 h3' i l3
  simp only [VT.t, MT.t] at q1 q2 q3 q4 r1 r2 r3 r4 ⊢
  rw [q1, q2, q3, q4, r1, r2, r3, r4]
  have la : (bmv (T.get ⟨A.shape, A.data⟩ (proj A.shape i)) (T.get ⟨x.shape, x.data⟩ (proj x.shape i))).length = A.rows := by
    rw [bmv_length]; exact (hA _).1
  have lb : (bmv (T.get ⟨B.shape, B.data⟩ (proj B.shape i)) (T.get ⟨u.shape, u.data⟩ (proj u.shape i))).length = A.rows := by
    rw [bmv_length, d3]; exact (hB _).1
  set P := bmv (T.get ⟨A.shape, A.data⟩ (proj A.shape i)) (T.get ⟨x.shape, x.data⟩ (proj x.shape i)) with hP
  set Q := bmv (T.get ⟨B.shape, B.data⟩ (proj B.shape i)) (T.get ⟨u.shape, u.data⟩ (proj u.shape i)) with hQ
  have inner : vaddB P Q = DVec.add P Q := vaddB_eq _ _ (la.trans lb.symm)
  rw [inner]
  have outer : vaddB (DVec.add P Q) (T.get ⟨c.shape, c.data⟩ (proj c.shape i)) = DVec.add (DVec.add P Q) (T.get ⟨c.shape, c.data⟩ (proj c.shape i)) := by
    apply vaddB_eq
    simp only [DVec.add, List.length_zipWith, la, lb, Nat.min_self]
    exact ((hc _).trans d4).symm
  rw [outer]
  rfl

/-- … and without a constant term -/
theorem lti_batched_noconst (A B : MT ℝ) (x u : VT ℝ) (s1 s2 out : Shape)
    (hA : A.WF) (hB : B.WF) (d1 : A.cols = x.len) (d2 : B.cols = u.len) (d3 : A.rows = B.rows)
    (h1 : broadcastShapes A.shape x.shape = some s1) (h2 : broadcastShapes B.shape u.shape = some s2)
    (h3 : broadcastShapes s1 s2 = some out) :
    ∃ z, affineG A B none x u = some z ∧ z.shape = out ∧ z.len = A.rows ∧
      ∀ i, inb out i → z.t.get i = affine (A.t.get (proj A.shape i)) (B.t.get (proj B.shape i)) none
        (x.t.get (proj x.shape i)) (u.t.get (proj u.shape i)) := by
  obtain ⟨ax, e1, sh1, it1⟩ := bcast2_itemwise bmv A.t x.t s1 h1
  obtain ⟨bu, e2, sh2, it2⟩ := bcast2_itemwise bmv B.t u.t s2 h2
  obtain ⟨z, e3, sh3, it3⟩ := bcast2_itemwise vaddB ax bu out (by rw [sh1, sh2]; exact h3)
  refine ⟨⟨z.shape, A.rows, z.data⟩, ?_, sh3, rfl, ?_⟩
  · have e3' : bcast2 vaddB (⟨ax.shape, A.rows, ax.data⟩ : VT ℝ).t (⟨bu.shape, A.rows, bu.data⟩ : VT ℝ).t = some z := e3
    simp only [affineG, bmvG, d1, d2, if_true, e1, e2, Option.map_some, Option.bind_some, addG, ← d3, bdim_self, e3']
  intro i hi
  have hlen : out.length ≤ i.length := by rw [inb_length hi]
  have l1 : s1.length ≤ i.length := le_trans (broadcastShapes_length h3).1 hlen
  have l2 : s2.length ≤ i.length := le_trans (broadcastShapes_length h3).2 hlen
  have hz : (⟨z.shape, A.rows, z.data⟩ : VT ℝ).t.get i = z.get i := rfl
  rw [hz, it3 i hi, sh1, sh2, it1 _ (proj_inb_left h3 hi), it2 _ (proj_inb_right h3 hi)]
  have q1 := proj_proj h1 i l1
  have q2 := proj_proj_right h1 i l1
  have q3 := proj_proj h2 i l2
  have q4 := proj_proj_right h2 i l2
  simp only [VT.t, MT.t] at q1 q2 q3 q4 ⊢
  rw [q1, q2, q3, q4]
  have la : (bmv (T.get ⟨A.shape, A.data⟩ (proj A.shape i)) (T.get ⟨x.shape, x.data⟩ (proj x.shape i))).length = A.rows := by
    rw [bmv_length]; exact (hA _).1
  have lb : (bmv (T.get ⟨B.shape, B.data⟩ (proj B.shape i)) (T.get ⟨u.shape, u.data⟩ (proj u.shape i))).length = A.rows := by
    rw [bmv_length, d3]; exact (hB _).1
  rw [vaddB_eq _ _ (la.trans lb.symm)]
  rfl

/-- non-vacuity of `lti_batched`: `A : [2] × 1×1`, `x : [3,1] × 1`, `B : [] × 1×1`, `u : [1] × 1`, `c : [3,2] × 1` broadcast to `[3,2]` -/
example : ∃ z, affineG (⟨[2], 1, 1, fun k => [[(k : ℝ) + 1]]⟩ : MT ℝ) ⟨[], 1, 1, fun _ => [[2]]⟩ (some ⟨[3, 2], 1, fun k => [(k : ℝ)]⟩)
    ⟨[3, 1], 1, fun k => [(k : ℝ)]⟩ ⟨[1], 1, fun _ => [1]⟩ = some z ∧ z.shape = [3, 2] ∧ z.len = 1 := by
  obtain ⟨z, e, sh, ln, _⟩ := lti_batched (⟨[2], 1, 1, fun k => [[(k : ℝ) + 1]]⟩ : MT ℝ) ⟨[], 1, 1, fun _ => [[2]]⟩ ⟨[3, 2], 1, fun k => [(k : ℝ)]⟩
    ⟨[3, 1], 1, fun k => [(k : ℝ)]⟩ ⟨[1], 1, fun _ => [1]⟩ [3, 2] [1] [3, 2] [3, 2]
    (by intro k; simp) (by intro k; simp) (by intro k; simp) rfl rfl rfl rfl
    (by simp [broadcastShapes, padTo, bzip, bdim]) (by simp [broadcastShapes, padTo, bzip, bdim])
    (by simp [broadcastShapes, padTo, bzip, bdim]) (by simp [broadcastShapes, padTo, bzip, bdim])
  exact ⟨z, e, sh, ln⟩

/-- non-vacuity of `bvmv_batched`: `l : [2,1] × 2`, `M : [3] × 2×2`, `r : [] × 2` give batch shape `[2,3]` -/
example : ∃ z, bvmvG (⟨[2, 1], 2, fun k => [(k : ℝ), 1]⟩ : VT ℝ) ⟨[3], 2, 2, fun k => [[1, (k : ℝ)], [0, 1]]⟩ ⟨[], 2, fun _ => [1, 2]⟩ = some z ∧
    z.shape = [2, 3] := by
  obtain ⟨z, e, sh, _⟩ := bvmv_batched (⟨[2, 1], 2, fun k => [(k : ℝ), 1]⟩ : VT ℝ) ⟨[3], 2, 2, fun k => [[1, (k : ℝ)], [0, 1]]⟩ ⟨[], 2, fun _ => [1, 2]⟩
    [2, 3] [2, 3] ⟨rfl, rfl⟩ (by simp [broadcastShapes, padTo, bzip, bdim]) (by simp [broadcastShapes, padTo, bzip, bdim])
  exact ⟨z, e, by simpa [atleast1d] using sh⟩

/-- non-vacuity: `[2,1]` matrices against `[3]` vectors give batch shape `[2,3]`; mismatching core dimensions raise although
the data would zip; an unbatched `bvmv` has shape `(1,)` -/
example : (bmvG (⟨[2, 1], 2, 2, fun k => [[(k : ℝ) + 1, 0], [0, 1]]⟩ : MT ℝ) ⟨[3], 2, fun k => [1, (k : ℝ)]⟩).map (·.shape) = some [2, 3] := by
  simp [bmvG, bcast2, broadcastShapes, padTo, bzip, bdim, VT.t, MT.t]
example : (bmvG (⟨[], 1, 2, fun _ => [[(1 : ℝ), 2]]⟩ : MT ℝ) ⟨[], 3, fun _ => [1, 2, 3]⟩).isSome = false := by
  simp [bmvG]
example : (bvmvG (⟨[], 2, fun _ => [(1 : ℝ), 1]⟩ : VT ℝ) ⟨[], 2, 2, fun _ => [[1, 2], [3, 4]]⟩ ⟨[], 2, fun _ => [1, 1]⟩).map (·.shape) = some [1] := by
  simp [bvmvG, bcast2, broadcastShapes, padTo, bzip, atleast1d, VT.t, MT.t]
end

/-! ## 3. LTI / LTV -/

/-- **LTI**: at *every* clock value — hence after every history — a forward returns
`A x + B u + c1` and `C x + D u + c2` (a missing constant is zero). -/
theorem lti_eq {n m p : ℕ} (A : Matrix (Fin n) (Fin n) ℝ) (B : Matrix (Fin n) (Fin m) ℝ)
    (C : Matrix (Fin p) (Fin n) ℝ) (D : Matrix (Fin p) (Fin m) ℝ)
    (c1 : Option (Fin n → ℝ)) (c2 : Option (Fin p → ℝ)) (t : Int) (x : Fin n → ℝ) (u : Fin m → ℝ) :
    linForward (mkSys .lti false (fun _ : Fin 1 => A) (fun _ => B) (fun _ => C) (fun _ => D)
        (c1.map fun c _ => c) (c2.map fun c _ => c)) t (List.ofFn x) (List.ofFn u) =
      some (List.ofFn (A.mulVec x + B.mulVec u + optC c1), List.ofFn (C.mulVec x + D.mulVec u + optC c2)) := by
  have := linForward_mkSys .lti false (fun _ : Fin 1 => A) (fun _ => B) (fun _ => C) (fun _ => D)
    (c1.map fun c _ => c) (c2.map fun c _ => c) t 0 (by simp [sliceIdx]) x u
  rw [this]
  cases c1 <;> cases c2 <;> rfl

/-! ### 3a. `state_transition` / `observation` read the overridable *properties* -/

/-- **The forward depends on the public properties only** — not on what the constructor stored in the private buffers: two
objects (of `LTI`, `LTV` or user subclasses) whose properties `A, B, C, D, c1, c2` agree give the same outputs, whatever
their buffers hold (`None`, a dummy, the real thing). -/
theorem forward_reads_properties (o o' : LinObj ℝ) (h : o.props = o'.props) (t : Int) (x u : DVec ℝ) :
    objForward o t x u = objForward o' t x u := by
  simp [objForward, h]

/-- **An overridden constant term is used**, also when the constructor received `None`: a subclass overriding the `c1` and
`c2` properties (here: one time slice, e.g. a value computed from the clock) on an object built with `c1 = c2 = None`
advances by `A x + B u + c1`, observes `C x + D u + c2`. -/
theorem overridden_constants_used {n m p : ℕ} (k : Kind) (A : Matrix (Fin n) (Fin n) ℝ) (B : Matrix (Fin n) (Fin m) ℝ)
    (C : Matrix (Fin p) (Fin n) ℝ) (D : Matrix (Fin p) (Fin m) ℝ) (c1 : Fin n → ℝ) (c2 : Fin p → ℝ)
    (hk : k ≠ .ltv) (t : Int) (x : Fin n → ℝ) (u : Fin m → ℝ) :
    objForward { kind := k, periodic := false, bufA := [rowsOf A], bufB := [rowsOf B], bufC := [rowsOf C], bufD := [rowsOf D],
                 bufc1 := none, bufc2 := none, ovc1 := some (some [List.ofFn c1]), ovc2 := some (some [List.ofFn c2]) }
      t (List.ofFn x) (List.ofFn u)
      = some (List.ofFn (A.mulVec x + B.mulVec u + c1), List.ofFn (C.mulVec x + D.mulVec u + c2)) := by
  have hs : sliceIdx k false 1 t = some 0 := by cases k <;> simp_all [sliceIdx]
  simp only [objForward, LinObj.props, Option.getD_none, Option.getD_some, linForward, List.length_singleton, hs]
  simp only [List.getElem?_cons_zero, bmvOK_rowsOf, Bool.and_self, if_true, Option.bind_some]
  have e1 := affine_eq A B (some c1) x u
  have e2 := affine_eq C D (some c2) x u
  simp only [Option.map_some, optC, Option.getD_some] at e1 e2
  rw [e1, e2]

/-- every property can be overridden, in every combination: the forward of an object with overrides is the forward of the
plain system made of the resolved properties (override where present, buffer otherwise) -/
theorem overrides_resolve (o : LinObj ℝ) (t : Int) (x u : DVec ℝ) :
    objForward o t x u = linForward ⟨o.kind, o.periodic, o.ovA.getD o.bufA, o.ovB.getD o.bufB, o.ovC.getD o.bufC,
      o.ovD.getD o.bufD, o.ovc1.getD o.bufc1, o.ovc2.getD o.bufc2⟩ t x u := rfl

/-- the variant that tests the private buffer (seeded change C15-5, not the code) drops the overridden constants:
`x = u = 0`, `A = B = C = D = 0`, buffers `None`, overridden `c1 = c2 = 1` — the model of the code returns `(1, 1)`, the variant `(0, 0)` -/
theorem private_test_variant_differs :
    let o : LinObj ℝ := { kind := .lti, periodic := false, bufA := [[[0]]], bufB := [[[0]]], bufC := [[[0]]], bufD := [[[0]]],
                           bufc1 := none, bufc2 := none, ovc1 := some (some [[1]]), ovc2 := some (some [[1]]) }
    objForward o 0 [0] [0] = some ([1], [1]) ∧ objForwardPrivateTest o 0 [0] [0] = some ([0], [0]) := by
  constructor <;>
    simp [objForward, objForwardPrivateTest, LinObj.props, linForward, sliceIdx, bmvOK, affine, optAdd, bmv, DMat.mulVec,
      DVec.add, dot_real]

/-! ### 3b. The indexing law of the *user's* LTV subclass

pypose's `LTV` (dynamics.py) does **no** time indexing: it is `LTI` plus `set_refpoint(t)` setting the clock. What is established
about pypose is: `LTI.state_transition / observation` read the overridable properties `A, B, C, D, c1, c2` (correspondence
stream `lin` with subclasses overriding them) and the clock law. The theorems of this sub-section model the *harness's own*
subclass `MyLTV` — the pattern documented in the `LTV` docstring and used by pypose's LQR test: properties returning
`self._A[..., self._t, :, :]` (python indexing: `pyIndex`) or `self._A[..., self._t % T, :, :]` (`sliceIdx`). -/

/-- **user subclass indexing `self._A[..., self._t % T, :, :]`**: a forward at clock `t` uses slice `t mod T`. -/
theorem ltv_eq_periodic {T n m p : ℕ} (hT : 0 < T)
    (A : Fin T → Matrix (Fin n) (Fin n) ℝ) (B : Fin T → Matrix (Fin n) (Fin m) ℝ)
    (C : Fin T → Matrix (Fin p) (Fin n) ℝ) (D : Fin T → Matrix (Fin p) (Fin m) ℝ)
    (c1 : Option (Fin T → Fin n → ℝ)) (c2 : Option (Fin T → Fin p → ℝ))
    (t : Int) (x : Fin n → ℝ) (u : Fin m → ℝ) :
    let i : Fin T := ⟨(t % (T : Int)).toNat, by
      have h1 := Int.emod_nonneg t (show (T : Int) ≠ 0 by omega)
      have h2 := Int.emod_lt_of_pos t (show (0 : Int) < T by omega)
      omega⟩
    linForward (mkSys .ltv true A B C D c1 c2) t (List.ofFn x) (List.ofFn u) =
      some (List.ofFn ((A i).mulVec x + (B i).mulVec u + optC (c1.map (· i))),
            List.ofFn ((C i).mulVec x + (D i).mulVec u + optC (c2.map (· i)))) := by
  intro i
  exact linForward_mkSys .ltv true A B C D c1 c2 t i (by simp [sliceIdx, i]; omega) x u

/-- **user subclass indexing `self._A[..., self._t, :, :]`**: for `0 ≤ t < T` a forward at clock `t` uses slice `t`. -/
theorem ltv_eq_plain {T n m p : ℕ}
    (A : Fin T → Matrix (Fin n) (Fin n) ℝ) (B : Fin T → Matrix (Fin n) (Fin m) ℝ)
    (C : Fin T → Matrix (Fin p) (Fin n) ℝ) (D : Fin T → Matrix (Fin p) (Fin m) ℝ)
    (c1 : Option (Fin T → Fin n → ℝ)) (c2 : Option (Fin T → Fin p → ℝ))
    (i : Fin T) (x : Fin n → ℝ) (u : Fin m → ℝ) :
    linForward (mkSys .ltv false A B C D c1 c2) (i.val : Int) (List.ofFn x) (List.ofFn u) =
      some (List.ofFn ((A i).mulVec x + (B i).mulVec u + optC (c1.map (· i))),
            List.ofFn ((C i).mulVec x + (D i).mulVec u + optC (c2.map (· i)))) := by
  have hi := i.isLt
  exact linForward_mkSys .ltv false A B C D c1 c2 i.val i (by simp [sliceIdx, pyIndex]) x u

/-- python indexing wraps negative times: for `-T ≤ t < 0` the forward uses slice `T + t` -/
theorem ltv_eq_plain_negative {T n m p : ℕ}
    (A : Fin T → Matrix (Fin n) (Fin n) ℝ) (B : Fin T → Matrix (Fin n) (Fin m) ℝ)
    (C : Fin T → Matrix (Fin p) (Fin n) ℝ) (D : Fin T → Matrix (Fin p) (Fin m) ℝ)
    (c1 : Option (Fin T → Fin n → ℝ)) (c2 : Option (Fin T → Fin p → ℝ))
    (i : Fin T) (x : Fin n → ℝ) (u : Fin m → ℝ) :
    linForward (mkSys .ltv false A B C D c1 c2) ((i.val : Int) - T) (List.ofFn x) (List.ofFn u) =
      some (List.ofFn ((A i).mulVec x + (B i).mulVec u + optC (c1.map (· i))),
            List.ofFn ((C i).mulVec x + (D i).mulVec u + optC (c2.map (· i)))) := by
  have hi := i.isLt
  refine linForward_mkSys .ltv false A B C D c1 c2 _ i ?_ x u
  simp only [sliceIdx, pyIndex, Bool.false_eq_true, if_false]
  rw [if_neg (by omega), if_pos (by omega)]
  congr 1; omega

/-- … and outside `[-T, T)` the forward raises (`IndexError`); by `clock_set` the clock then stays. -/
theorem ltv_plain_raises {T n m p : ℕ}
    (A : Fin T → Matrix (Fin n) (Fin n) ℝ) (B : Fin T → Matrix (Fin n) (Fin m) ℝ)
    (C : Fin T → Matrix (Fin p) (Fin n) ℝ) (D : Fin T → Matrix (Fin p) (Fin m) ℝ)
    (c1 : Option (Fin T → Fin n → ℝ)) (c2 : Option (Fin T → Fin p → ℝ))
    (t : Int) (ht : (T : Int) ≤ t ∨ t < -(T : Int)) (x u : DVec ℝ) :
    linForward (mkSys .ltv false A B C D c1 c2) t x u = none := by
  have : sliceIdx .ltv false T t = none := by
    simp only [sliceIdx, pyIndex, Bool.false_eq_true, if_false]
    rw [if_neg (by omega), if_neg (by omega)]
  simp [linForward, mkSys, this]

/-! ### 3c. Overridden properties with time-indexed values (any subset, `LTI` or `LTV` subclass)

`overridden_constants_used` (§3a) is the one-slice case. At full strength: whatever the private buffers hold and whichever of the
six properties are overridden, if the *resolved* properties are the stacks `A_k, B_k, C_k, D_k, c1_k, c2_k` (k < T), a forward at
clock `t` follows the time-indexed law with the **resolved** values — periodic (`t mod T`) or plain (`0 ≤ t < T`) indexing. -/

/-- **periodic indexing, any overrides**: `x' = A_{t mod T} x + B_{t mod T} u + c1_{t mod T}`, `y = C_{…} x + D_{…} u + c2_{…}` with the
values the *properties* return. -/
theorem obj_forward_periodic {T n m p : ℕ} (hT : 0 < T) (o : LinObj ℝ)
    (A : Fin T → Matrix (Fin n) (Fin n) ℝ) (B : Fin T → Matrix (Fin n) (Fin m) ℝ)
    (C : Fin T → Matrix (Fin p) (Fin n) ℝ) (D : Fin T → Matrix (Fin p) (Fin m) ℝ)
    (c1 : Option (Fin T → Fin n → ℝ)) (c2 : Option (Fin T → Fin p → ℝ))
    (ho : o.props = mkSys .ltv true A B C D c1 c2) (t : Int) (x : Fin n → ℝ) (u : Fin m → ℝ) :
    let i : Fin T := ⟨(t % (T : Int)).toNat, by
      have h1 := Int.emod_nonneg t (show (T : Int) ≠ 0 by omega)
      have h2 := Int.emod_lt_of_pos t (show (0 : Int) < T by omega)
      omega⟩
    objForward o t (List.ofFn x) (List.ofFn u) =
      some (List.ofFn ((A i).mulVec x + (B i).mulVec u + optC (c1.map (· i))),
            List.ofFn ((C i).mulVec x + (D i).mulVec u + optC (c2.map (· i)))) := by
  intro i
  unfold objForward
  rw [ho]
  exact ltv_eq_periodic hT A B C D c1 c2 t x u

/-- **plain indexing, any overrides**: for `0 ≤ t < T` the slice `t` of the resolved properties is used. -/
theorem obj_forward_plain {T n m p : ℕ} (o : LinObj ℝ)
    (A : Fin T → Matrix (Fin n) (Fin n) ℝ) (B : Fin T → Matrix (Fin n) (Fin m) ℝ)
    (C : Fin T → Matrix (Fin p) (Fin n) ℝ) (D : Fin T → Matrix (Fin p) (Fin m) ℝ)
    (c1 : Option (Fin T → Fin n → ℝ)) (c2 : Option (Fin T → Fin p → ℝ))
    (ho : o.props = mkSys .ltv false A B C D c1 c2) (i : Fin T) (x : Fin n → ℝ) (u : Fin m → ℝ) :
    objForward o (i.val : Int) (List.ofFn x) (List.ofFn u) =
      some (List.ofFn ((A i).mulVec x + (B i).mulVec u + optC (c1.map (· i))),
            List.ofFn ((C i).mulVec x + (D i).mulVec u + optC (c2.map (· i)))) := by
  unfold objForward
  rw [ho]
  exact ltv_eq_plain A B C D c1 c2 i x u

/-- **the shape of the seeded change C15-5 at full strength**: stacked buffers `A, B, C, D` handed to the constructor, `c1 = c2 =
None` handed to the constructor, the `c1`, `c2` *properties* overridden by time-indexed values: every step adds the overriding
`c1_{t mod T}`, `c2_{t mod T}`. -/
theorem overridden_constants_used_ltv {T n m p : ℕ} (hT : 0 < T)
    (A : Fin T → Matrix (Fin n) (Fin n) ℝ) (B : Fin T → Matrix (Fin n) (Fin m) ℝ)
    (C : Fin T → Matrix (Fin p) (Fin n) ℝ) (D : Fin T → Matrix (Fin p) (Fin m) ℝ)
    (c1 : Fin T → Fin n → ℝ) (c2 : Fin T → Fin p → ℝ) (t : Int) (x : Fin n → ℝ) (u : Fin m → ℝ) :
    let i : Fin T := ⟨(t % (T : Int)).toNat, by
      have h1 := Int.emod_nonneg t (show (T : Int) ≠ 0 by omega)
      have h2 := Int.emod_lt_of_pos t (show (0 : Int) < T by omega)
      omega⟩
    objForward { kind := .ltv, periodic := true
                 bufA := List.ofFn fun k => rowsOf (A k), bufB := List.ofFn fun k => rowsOf (B k)
                 bufC := List.ofFn fun k => rowsOf (C k), bufD := List.ofFn fun k => rowsOf (D k)
                 bufc1 := none, bufc2 := none
                 ovc1 := some (some (List.ofFn fun k => List.ofFn (c1 k))), ovc2 := some (some (List.ofFn fun k => List.ofFn (c2 k))) }
      t (List.ofFn x) (List.ofFn u) =
      some (List.ofFn ((A i).mulVec x + (B i).mulVec u + c1 i), List.ofFn ((C i).mulVec x + (D i).mulVec u + c2 i)) := by
  intro i
  have h := obj_forward_periodic hT
    { kind := .ltv, periodic := true
      bufA := List.ofFn fun k => rowsOf (A k), bufB := List.ofFn fun k => rowsOf (B k)
      bufC := List.ofFn fun k => rowsOf (C k), bufD := List.ofFn fun k => rowsOf (D k)
      bufc1 := none, bufc2 := none
      ovc1 := some (some (List.ofFn fun k => List.ofFn (c1 k))), ovc2 := some (some (List.ofFn fun k => List.ofFn (c2 k))) }
    A B C D (some c1) (some c2) rfl t x u
  simpa [optC] using h

/-- in a history of a linear system a successful call advances the clock by one and a call whose
forward raises leaves it; the clocks of `runLin` are those of the clock machine. -/
theorem runLin_clocks (S : LinSys ℝ) (evs : List (LEv ℝ)) : ∀ (c : Int),
    (runLin S c evs).map Prod.fst = traceClock S.kind c (absEvs S c evs) := by
  induction evs with
  | nil => intro c; simp [runLin, absEvs, traceClock]
  | cons e es ih => intro c; simp [runLin, absEvs, traceClock, ih]

/-- the outputs of the `j`-th event are the forward at the clock left by the events before it -/
theorem runLin_call (S : LinSys ℝ) (c : Int) (x u : DVec ℝ) (es : List (LEv ℝ)) :
    runLin S c (.call x u :: es) =
      (if (linForward S c x u).isSome then c + 1 else c, linForward S c x u) ::
        runLin S (if (linForward S c x u).isSome then c + 1 else c) es := by
  by_cases h : (linForward S c x u).isSome <;> simp [runLin, LEv.toEv, LEv.out, stepClock, h]

/-- **Roll-out of any length** from clock `c`: step `i` uses the matrices of time `c + i`
(`step` is any per-time map, e.g. the right-hand sides of `ltv_eq_periodic`). -/
theorem rollout_spec (S : LinSys ℝ) {n m p : ℕ}
    (step : Int → (Fin n → ℝ) → (Fin m → ℝ) → (Fin n → ℝ) × (Fin p → ℝ))
    (hstep : ∀ t x u, linForward S t (List.ofFn x) (List.ofFn u)
      = some (List.ofFn (step t x u).1, List.ofFn (step t x u).2))
    (us : List (Fin m → ℝ)) : ∀ (c : Int) (x : Fin n → ℝ),
    rollout S c (List.ofFn x) (us.map fun u => List.ofFn u)
      = (trajSpec step c x us).map fun xy => (List.ofFn xy.1, List.ofFn xy.2) := by
  induction us with
  | nil => intro c x; simp [rollout, trajSpec]
  | cons u us ih =>
    intro c x
    simp only [List.map_cons, rollout, hstep, trajSpec]
    rw [ih]

/-- **Roll-out over a time window**: the per-time law is only needed on `[c, c + len)` — this is the form that applies to
a subclass indexed by `_t` itself, whose law holds on `[0, T)` only (at `t = T` the code raises: the hypothesis of
`rollout_spec`, for *all* `t`, cannot be met there). -/
theorem rollout_spec_range (S : LinSys ℝ) {n m p : ℕ}
    (step : Int → (Fin n → ℝ) → (Fin m → ℝ) → (Fin n → ℝ) × (Fin p → ℝ))
    (us : List (Fin m → ℝ)) : ∀ (c : Int) (x : Fin n → ℝ),
    (∀ t x u, c ≤ t → t < c + us.length → linForward S t (List.ofFn x) (List.ofFn u)
      = some (List.ofFn (step t x u).1, List.ofFn (step t x u).2)) →
    rollout S c (List.ofFn x) (us.map fun u => List.ofFn u)
      = (trajSpec step c x us).map fun xy => (List.ofFn xy.1, List.ofFn xy.2) := by
  induction us with
  | nil => intro c x _; simp [rollout, trajSpec]
  | cons u us ih =>
    intro c x hstep
    have h0 := hstep c x u (le_refl _) (by simp)
    simp only [List.map_cons, rollout, h0, trajSpec]
    rw [ih (c + 1) _ (fun t x u h1 h2 => hstep t x u (by omega) (by simp at h2 ⊢; omega))]

/-- roll-out of an **LTI** system of any length from any clock value: `x_{i+1} = A x_i + B u_i + c1`, `y_i = C x_i + D u_i + c2` -/
theorem rollout_lti {n m p : ℕ} (A : Matrix (Fin n) (Fin n) ℝ) (B : Matrix (Fin n) (Fin m) ℝ)
    (C : Matrix (Fin p) (Fin n) ℝ) (D : Matrix (Fin p) (Fin m) ℝ) (c1 : Option (Fin n → ℝ)) (c2 : Option (Fin p → ℝ))
    (us : List (Fin m → ℝ)) (c : Int) (x : Fin n → ℝ) :
    rollout (mkSys .lti false (fun _ : Fin 1 => A) (fun _ => B) (fun _ => C) (fun _ => D) (c1.map fun c _ => c) (c2.map fun c _ => c))
        c (List.ofFn x) (us.map fun u => List.ofFn u)
      = (trajSpec (fun _ x u => (A.mulVec x + B.mulVec u + optC c1, C.mulVec x + D.mulVec u + optC c2)) c x us).map
          fun xy => (List.ofFn xy.1, List.ofFn xy.2) :=
  rollout_spec _ _ (fun t x u => lti_eq A B C D c1 c2 t x u) us c x

/-- roll-out of the user subclass indexed by `_t % T`: any length, any start, step `i` uses slice `(c + i) mod T` -/
theorem rollout_ltv_periodic {T n m p : ℕ} (hT : 0 < T)
    (A : Fin T → Matrix (Fin n) (Fin n) ℝ) (B : Fin T → Matrix (Fin n) (Fin m) ℝ)
    (C : Fin T → Matrix (Fin p) (Fin n) ℝ) (D : Fin T → Matrix (Fin p) (Fin m) ℝ)
    (c1 : Option (Fin T → Fin n → ℝ)) (c2 : Option (Fin T → Fin p → ℝ)) (us : List (Fin m → ℝ)) (c : Int) (x : Fin n → ℝ) :
    let sl : Int → Fin T := fun t => ⟨(t % (T : Int)).toNat, by
      have h1 := Int.emod_nonneg t (show (T : Int) ≠ 0 by omega)
      have h2 := Int.emod_lt_of_pos t (show (0 : Int) < T by omega)
      omega⟩
    rollout (mkSys .ltv true A B C D c1 c2) c (List.ofFn x) (us.map fun u => List.ofFn u)
      = (trajSpec (fun t x u => ((A (sl t)).mulVec x + (B (sl t)).mulVec u + optC (c1.map (· (sl t))),
                                 (C (sl t)).mulVec x + (D (sl t)).mulVec u + optC (c2.map (· (sl t))))) c x us).map
          fun xy => (List.ofFn xy.1, List.ofFn xy.2) := by
  intro sl
  exact rollout_spec _ _ (fun t x u => ltv_eq_periodic hT A B C D c1 c2 t x u) us c x

/-- roll-out of the user subclass indexed by `_t`: a window `[c, c + len) ⊆ [0, T)`; step `i` uses slice `c + i` -/
theorem rollout_ltv_plain {T n m p : ℕ}
    (A : Fin T → Matrix (Fin n) (Fin n) ℝ) (B : Fin T → Matrix (Fin n) (Fin m) ℝ)
    (C : Fin T → Matrix (Fin p) (Fin n) ℝ) (D : Fin T → Matrix (Fin p) (Fin m) ℝ)
    (c1 : Option (Fin T → Fin n → ℝ)) (c2 : Option (Fin T → Fin p → ℝ)) (us : List (Fin m → ℝ)) (c : ℕ) (x : Fin n → ℝ)
    (hT : 0 < T) (hwin : c + us.length ≤ T) :
    let sl : Int → Fin T := fun t => ⟨t.toNat % T, Nat.mod_lt _ hT⟩
    rollout (mkSys .ltv false A B C D c1 c2) (c : Int) (List.ofFn x) (us.map fun u => List.ofFn u)
      = (trajSpec (fun t x u => ((A (sl t)).mulVec x + (B (sl t)).mulVec u + optC (c1.map (· (sl t))),
                                 (C (sl t)).mulVec x + (D (sl t)).mulVec u + optC (c2.map (· (sl t))))) (c : Int) x us).map
          fun xy => (List.ofFn xy.1, List.ofFn xy.2) := by
  intro sl
  apply rollout_spec_range
  intro t x u h1 h2
  have ht : t.toNat < T := by omega
  have e := ltv_eq_plain A B C D c1 c2 ⟨t.toNat, ht⟩ x u
  have et : ((⟨t.toNat, ht⟩ : Fin T).val : Int) = t := by simp; omega
  rw [et] at e
  have es : sl t = ⟨t.toNat, ht⟩ := by simp [sl, Nat.mod_eq_of_lt ht]
  rw [es]; exact e

/-- non-vacuity of the roll-out theorems: a 2-slice periodic system, three steps from clock 1 use slices 1, 0, 1 -/
example : (rollout (mkSys .ltv true (fun i : Fin 2 => !![(i.val : ℝ) + 1]) (fun _ => !![(1 : ℝ)]) (fun _ => !![(1 : ℝ)]) (fun _ => !![(0 : ℝ)]) none none)
    1 (List.ofFn ![(1 : ℝ)]) ([![(0 : ℝ)], ![0], ![0]].map fun u => List.ofFn u)).map Prod.fst = [[2], [2], [4]] := by
  have h := rollout_ltv_periodic (T := 2) (by norm_num) (fun i : Fin 2 => !![(i.val : ℝ) + 1]) (fun _ => !![(1 : ℝ)]) (fun _ => !![(1 : ℝ)])
    (fun _ => !![(0 : ℝ)]) none none [![(0 : ℝ)], ![0], ![0]] 1 ![(1 : ℝ)]
  simp only at h
  rw [h]
  simp [trajSpec, optC, dotProduct, List.ofFn_succ]
  norm_num

/-- the `i`-th step of the specification trajectory runs at time `c + i`, from the `i`-th state -/
theorem trajSpec_get {n m p : ℕ} (step : Int → (Fin n → ℝ) → (Fin m → ℝ) → (Fin n → ℝ) × (Fin p → ℝ))
    (us : List (Fin m → ℝ)) : ∀ (c : Int) (x : Fin n → ℝ) (i : ℕ) (hi : i < us.length),
    (trajSpec step c x us)[i]? = some (step (c + i) (trajState step c x us i) us[i]) := by
  induction us with
  | nil => intro c x i hi; simp at hi
  | cons u us ih =>
    intro c x i hi
    cases i with
    | zero => simp [trajSpec, trajState]
    | succ i =>
      have := ih (c + 1) (step c x u).1 i (by simpa using hi)
      simp only [trajSpec, List.getElem?_cons_succ, this, trajState, List.getElem_cons_succ]
      congr 2; push_cast; ring

/-! ## 4. NLS -/

/-- a call returns `f(x, u, t)`, `g(x, u, t)` at the current time and advances it by one -/
theorem nls_call (al ax pf : Bool) (fs gs : List Fn) (S : NState ℝ) (x u : DVec ℝ) :
    (stepN al ax pf fs gs S (.call x u)).1.clock = S.clock + 1 ∧
    ∃ f g, (stepN al ax pf fs gs S (.call x u)).2 = .outputs f g ∧
      f = evalAll fs (mkEnv x u (S.clock : ℝ)) ∧ g = evalAll gs (mkEnv x u (S.clock : ℝ)) := by
  simp [stepN]

/-- **The NLS clock over all histories** (calls, `set_refpoint`s that succeed or raise, resets, assignments;
both semantics of `_ref_t`): it is the clock machine run on the corresponding events — `set_refpoint` never
moves it — so `clock_history` applies: last set value plus completed calls since. -/
theorem nls_clock (al ax pf : Bool) (fs gs : List Fn) (evs : List (NEv ℝ)) : ∀ (S : NState ℝ),
    (runN al ax pf fs gs S evs).clock = runClock .nls S.clock (evs.map NEv.toEv) := by
  induction evs with
  | nil => intro S; simp [runN, runClock]
  | cons e es ih =>
    intro S
    rw [runN_cons, ih]
    have : (stepN al ax pf fs gs S e).1.clock = stepClock .nls S.clock e.toEv := by
      cases e with
      | poke tgt v => cases tgt <;> simp [stepN, pokeN, NEv.toEv, stepClock]
      | callRaise x u => cases pf <;> simp [stepN, NEv.toEv, stepClock]
      | refRaise x? u? tr =>
        simp only [stepN, NEv.toEv, stepClock, setRefpoint]
        cases orLast x? (S.last.map Prod.fst) <;> simp
        cases orLast u? (S.last.map Prod.snd) <;> cases pf <;> simp
      | call x u => simp [stepN, NEv.toEv, stepClock]
      | reset t => simp [stepN, NEv.toEv, stepClock]
      | assign t => simp [stepN, NEv.toEv, stepClock]
      | refpoint x? u? tr =>
        simp only [stepN, NEv.toEv, stepClock, setRefpoint]
        cases orLast x? (S.last.map Prod.fst) <;> simp
        cases orLast u? (S.last.map Prod.snd) <;> cases pf <;> simp
    rw [this]; simp [runClock]

/-- after `n` calls in a row the time is `c + n` (the `i`-th call is evaluated at time `c + i`) -/
theorem nls_rollout_time (al ax pf : Bool) (fs gs : List Fn) (S : NState ℝ) (xus : List (DVec ℝ × DVec ℝ)) :
    (runN al ax pf fs gs S (xus.map fun xu => .call xu.1 xu.2)).clock = S.clock + xus.length := by
  rw [nls_clock, clock_no_set]
  · congr 1
    induction xus with
    | nil => simp [calls]
    | cons xu xus ih =>
      simp only [calls, List.map_cons, NEv.toEv, List.filter_cons, isCall, if_true, List.length_cons] at ih ⊢
      push_cast at ih ⊢
      rw [ih]
  · intro e he
    simp only [List.map_map, List.mem_map, Function.comp] at he
    obtain ⟨_, _, rfl⟩ := he
    simp [NEv.toEv, setVal]

/-- **The symbolic partial derivative is the partial derivative**, for every expression tree, every
environment, every variable. (This is the oracle for `A, B, C, D`.) -/
theorem symdiff_correct (e : Fn) (env : ℕ → ℝ) (v : ℕ) :
    HasDerivAt (fun s => e.eval (Function.update env v s)) ((e.D v).eval env) (env v) := by
  have := symdiff e env v (env v)
  rwa [Function.update_eq_self] at this

/-- `A[i][j] = ∂f_i/∂x_j (x*, u*, t*)` -/
theorem jacobian_A (fs gs : List Fn) (x u : DVec ℝ) (t : ℝ) (i j : ℕ) (hi : i < fs.length) (hj : j < x.length) :
    HasDerivAt (fun s => (fs[i]).eval (mkEnv (x.set j s) u t))
      (((linearize fs gs x u t).A.getD i []).getD j 0) (x.getD j 0) := by
  have h := symdiff_correct fs[i] (mkEnv x u t) j
  rw [mkEnv_state x u t j hj] at h
  simp only [linearize, linAt, jac_entry fs 0 x.length _ i j hi hj, Nat.zero_add]
  simpa [mkEnv_set_state x u t j hj] using h

/-- `B[i][j] = ∂f_i/∂u_j (x*, u*, t*)` -/
theorem jacobian_B (fs gs : List Fn) (x u : DVec ℝ) (t : ℝ) (i j : ℕ) (hi : i < fs.length) (hj : j < u.length) :
    HasDerivAt (fun s => (fs[i]).eval (mkEnv x (u.set j s) t))
      (((linearize fs gs x u t).B.getD i []).getD j 0) (u.getD j 0) := by
  have h := symdiff_correct fs[i] (mkEnv x u t) (x.length + j)
  rw [mkEnv_input x u t j hj] at h
  simp only [linearize, linAt, jac_entry fs x.length u.length _ i j hi hj]
  simpa [mkEnv_set_input x u t j hj] using h

/-- `C[i][j] = ∂g_i/∂x_j (x*, u*, t*)` -/
theorem jacobian_C (fs gs : List Fn) (x u : DVec ℝ) (t : ℝ) (i j : ℕ) (hi : i < gs.length) (hj : j < x.length) :
    HasDerivAt (fun s => (gs[i]).eval (mkEnv (x.set j s) u t))
      (((linearize fs gs x u t).C.getD i []).getD j 0) (x.getD j 0) := by
  have h := symdiff_correct gs[i] (mkEnv x u t) j
  rw [mkEnv_state x u t j hj] at h
  simp only [linearize, linAt, jac_entry gs 0 x.length _ i j hi hj, Nat.zero_add]
  simpa [mkEnv_set_state x u t j hj] using h

/-- `D[i][j] = ∂g_i/∂u_j (x*, u*, t*)` -/
theorem jacobian_D (fs gs : List Fn) (x u : DVec ℝ) (t : ℝ) (i j : ℕ) (hi : i < gs.length) (hj : j < u.length) :
    HasDerivAt (fun s => (gs[i]).eval (mkEnv x (u.set j s) t))
      (((linearize fs gs x u t).D.getD i []).getD j 0) (u.getD j 0) := by
  have h := symdiff_correct gs[i] (mkEnv x u t) (x.length + j)
  rw [mkEnv_input x u t j hj] at h
  simp only [linearize, linAt, jac_entry gs x.length u.length _ i j hi hj]
  simpa [mkEnv_set_input x u t j hj] using h

/-- **The affine model is exact at the reference point**: `A x* + B u* + c1 = f(x*, u*, t*)` and
`C x* + D u* + c2 = g(x*, u*, t*)`, for all `f`, `g`, all reference points. -/
theorem affine_reproduces (fs gs : List Fn) (x u : DVec ℝ) (t : ℝ) :
    (linearize fs gs x u t).predict x u = (evalAll fs (mkEnv x u t), evalAll gs (mkEnv x u t)) :=
  affine_reproduces' fs gs x u t

/-- **All histories (documented semantics: the reference point is a snapshot).** After a successful
`set_refpoint(x?, u?, t?)` — `None`s resolved to the last call's state/input and to the clock at that
moment — and *any* later calls (also calls whose user function raises, under either semantics `pf` of error paths),
resets, `systime` assignments **and in-place updates of the caller's own tensors** (`poke`), reading `A, B, C, D, c1, c2` yields the linearisation at exactly that point; so
`jacobian_*` and `affine_reproduces` apply. -/
theorem nls_history (pf : Bool) (fs gs : List Fn) (S0 : NState ℝ) (pre post : List (NEv ℝ))
    (x? u? : Option (DVec ℝ)) (tr : TRef ℝ) (x u : DVec ℝ)
    (hx : orLast x? ((runN false false pf fs gs S0 pre).last.map Prod.fst) = some x)
    (hu : orLast u? ((runN false false pf fs gs S0 pre).last.map Prod.snd) = some u)
    (hpost : ∀ e ∈ post, e.isRef = false) :
    readLin fs gs (runN false false pf fs gs S0 (pre ++ .refpoint x? u? tr :: post))
      = some (linearize fs gs x u (refTime (runN false false pf fs gs S0 pre).clock tr)) := by
  rw [runN_append, runN_cons]
  set S := runN false false pf fs gs S0 pre with hS
  obtain ⟨r1, r2, r3, r4, r5, _⟩ := setRefpoint_ok false pf fs gs S x? u? tr x u hx hu
  have hstep : (stepN false false pf fs gs S (.refpoint x? u? tr)).1 = (setRefpoint false fs gs S x? u? tr pf).1 := rfl
  rw [hstep]
  obtain ⟨q1, q2, q3, q4, q5, _⟩ := runN_nonref false false pf fs gs post (setRefpoint false fs gs S x? u? tr pf).1 hpost (Or.inl rfl)
  have hv : ∀ c : Int, (refTOf false S.clock tr).value c = refTime S.clock tr := by
    intro c; cases tr <;> simp [refTOf, refTime, RefT.value]
  unfold readLin
  rw [q1, q2, q3, q4, q5, r1, r2, r3, r4, r5]
  simp only [hv, linearize]

/-- the cases of `nls_history` cover every history: either there was no `set_refpoint` attempt at all, or there is a last one -/
theorem nls_history_complete (evs : List (NEv ℝ)) :
    (∀ e ∈ evs, e.isRef = false) ∨
    ∃ pre e post, evs = pre ++ e :: post ∧ e.isRef = true ∧ ∀ e' ∈ post, e'.isRef = false := by
  induction evs with
  | nil => left; simp
  | cons e es ih =>
    rcases ih with h | ⟨pre, e', post, rfl, hv, hp⟩
    · cases hs : e.isRef with
      | false => left; intro e' he'; rcases List.mem_cons.1 he' with rfl | h' <;> [exact hs; exact h e' h']
      | true => right; exact ⟨[], e, es, rfl, hs, h⟩
    · right; exact ⟨e :: pre, e', post, rfl, hv, hp⟩

/-- before any `set_refpoint` attempt, whatever else happened, reading `A … c2` raises (no reference point) -/
theorem nls_read_without_refpoint (pf : Bool) (fs gs : List Fn) (c : Int) (evs : List (NEv ℝ))
    (h : ∀ e ∈ evs, e.isRef = false) : readLin fs gs (runN false false pf fs gs (NState.init c) evs) = none := by
  obtain ⟨q1, _, _, _, _, _⟩ := runN_nonref false false pf fs gs evs (NState.init c) h (Or.inl rfl)
  unfold readLin
  rw [q1]; rfl

/-- `set_refpoint` succeeds exactly when both the state and the input can be resolved (given, or a `forward` happened) -/
theorem nls_refpoint_success_iff (al ax pf : Bool) (fs gs : List Fn) (S : NState ℝ) (x? u? : Option (DVec ℝ)) (tr : TRef ℝ) :
    (stepN al ax pf fs gs S (.refpoint x? u? tr)).2 = .done ↔
      (orLast x? (S.last.map Prod.fst)).isSome ∧ (orLast u? (S.last.map Prod.snd)).isSome := by
  simp only [stepN, setRefpoint]
  cases orLast x? (S.last.map Prod.fst) <;> cases orLast u? (S.last.map Prod.snd) <;> simp

/-- **Every forward of every history**: after any events `pre` (calls, raising calls, `set_refpoint`s, resets, assignments,
in-place updates), a call returns `f(x, u, t)`, `g(x, u, t)` with `t` the clock-machine time of that history (so by
`clock_history`: the last set value plus the completed calls since). -/
theorem nls_forward_history (al ax pf : Bool) (fs gs : List Fn) (S0 : NState ℝ) (pre : List (NEv ℝ)) (x u : DVec ℝ) :
    (stepN al ax pf fs gs (runN al ax pf fs gs S0 pre) (.call x u)).2 =
      .outputs (evalAll fs (mkEnv x u ((runClock .nls S0.clock (pre.map NEv.toEv) : Int) : ℝ)))
               (evalAll gs (mkEnv x u ((runClock .nls S0.clock (pre.map NEv.toEv) : Int) : ℝ))) := by
  simp [stepN, nls_clock]

/-- **In the model, the time handed to `f`, `g` is the clock itself** (a repackaging of `nls_forward_history` +
`mkEnv_time`): for every history there is an integer `n` (the clock-machine time, `clock_history`) such that the forward
returns `f(x, u, n)`, `g(x, u, n)` and the time variable of the user's functions reads exactly `n`. The model has no
dtype: whether the *code* hands over the exact int64 clock for every state dtype (and not a value rounded to float32 /
float64) is decided by the harness — input class (22): clocks above 2^24 / 2^53 with user functions doing exact integer
arithmetic on `t` (seeded change C15-4). -/
theorem forward_time_exact (al ax pf : Bool) (fs gs : List Fn) (S0 : NState ℝ) (pre : List (NEv ℝ)) (x u : DVec ℝ) :
    ∃ n : Int, n = runClock .nls S0.clock (pre.map NEv.toEv) ∧
      (stepN al ax pf fs gs (runN al ax pf fs gs S0 pre) (.call x u)).2
        = .outputs (evalAll fs (mkEnv x u (n : ℝ))) (evalAll gs (mkEnv x u (n : ℝ))) ∧
      mkEnv x u ((n : Int) : ℝ) (x.length + u.length) = (n : ℝ) :=
  ⟨_, rfl, nls_forward_history al ax pf fs gs S0 pre x u, mkEnv_time x u _⟩

/-- a `set_refpoint` that cannot resolve its arguments (no `forward` yet) raises -/
theorem nls_refpoint_raises (al ax pf : Bool) (fs gs : List Fn) (c : Int) (u? : Option (DVec ℝ)) (tr : TRef ℝ) :
    ∃ S, stepN al ax pf fs gs (NState.init c) (.refpoint none u? tr) = (S, .raised) := by
  simp [stepN, setRefpoint, NState.init, orLast]

/-- **Second-order error of the first-order expansion**, for every expression tree `e`, every point `p`
and every finite set `vs` of variables: there are constants `K, M` with
`|e(p + d) − e(p) − Σ_v ∂_v e(p)·d_v| ≤ K·|d|²` for all perturbations `d` of the variables in `vs`
with `|d| = Σ_v |d_v| ≤ 1` (and the linear part is bounded by `M·|d|`). -/
theorem second_order (vs : Finset ℕ) (p : ℕ → ℝ) (e : Fn) :
    ∃ K M : ℝ, 0 ≤ K ∧ 0 ≤ M ∧ ∀ d : ℕ → ℝ, (∀ i, i ∉ vs → d i = 0) → nrm vs d ≤ 1 →
      |∑ v ∈ vs, (e.D v).eval p * d v| ≤ M * nrm vs d ∧
      |e.eval (fun i => p i + d i) - e.eval p - ∑ v ∈ vs, (e.D v).eval p * d v| ≤ K * nrm vs d ^ 2 :=
  SO_Fn vs p e

/-- **The affine model's error is second order in the distance from the reference point**: for every
component `i` of `f` there is `K` such that for all `(x', u')` (same dimensions) at distance
`δ = Σ|x'_j − x*_j| + Σ|u'_j − u*_j| ≤ 1`:  `|(A x' + B u' + c1)_i − f_i(x', u', t*)| ≤ K δ²`. -/
theorem nls_second_order (fs gs : List Fn) (x u : DVec ℝ) (t : ℝ) (i : ℕ) (hi : i < fs.length) :
    ∃ K : ℝ, 0 ≤ K ∧ ∀ x' u' : DVec ℝ, x'.length = x.length → u'.length = u.length →
      dist1 x u t x' u' ≤ 1 →
      |((linearize fs gs x u t).predict x' u').1.getD i 0 - (fs[i]).eval (mkEnv x' u' t)|
        ≤ K * dist1 x u t x' u' ^ 2 := by
  obtain ⟨K, M, hK, _, H⟩ := SO_Fn (Finset.range (x.length + u.length)) (mkEnv x u t) fs[i]
  refine ⟨K, hK, fun x' u' hx hu hd => ?_⟩
  have h2 := (H _ (mkEnv_diff_support x u t x' u' hx hu) hd).2
  have e : (fun j => mkEnv x u t j + (mkEnv x' u' t j - mkEnv x u t j)) = mkEnv x' u' t := by
    funext j; ring
  rw [e] at h2
  rw [predict_component fs gs x u t x' u' hx hu i hi, abs_sub_comm]
  have e2 : ∀ a b c : ℝ, a - (b + c) = a - b - c := fun a b c => by ring
  rw [e2]
  exact h2

/-- **Second-order expansion with explicit constants.** For every tree `e`, every point `p` and perturbation `d` of the
variables in `vs`, every box `ea` containing `p` and `p + d` and every bound `da` of `|d|`: the computable triple
`(m0, l, r) = e.bnd ea da` (model, executable) bounds the values, the first-order part and the remainder:
`|e(p+d) − e(p) − Σ_v ∂_v e(p)·d_v| ≤ r`. `r` is assembled like half a bound of the second directional derivative
(`r(ab) = r_a|b| + |a|r_b + l_a l_b + l_a r_b`, `r(sin a) = r(cos a) = r_a + (l_a + r_a)²/2`, sharp Taylor constant ½). -/
theorem second_order_explicit (vs : Finset ℕ) (p d ea da : ℕ → ℝ) (hp : ∀ i, |p i| ≤ ea i)
    (hq : ∀ i, |p i + d i| ≤ ea i) (hd : ∀ i, |d i| ≤ da i) (hs : ∀ i, i ∉ vs → d i = 0) (e : Fn) :
    |e.eval p| ≤ (e.bnd ea da).m0 ∧ |e.eval (fun i => p i + d i)| ≤ (e.bnd ea da).m0 ∧
    |∑ v ∈ vs, (e.D v).eval p * d v| ≤ (e.bnd ea da).l ∧
    |e.eval (fun i => p i + d i) - e.eval p - ∑ v ∈ vs, (e.D v).eval p * d v| ≤ (e.bnd ea da).r :=
  SOB_Fn vs p d ea da hp hq hd hs e

/-- … and the constants are second order: scaling the perturbation bound by `0 ≤ h ≤ 1` scales the first-order bound by
`h` and the remainder bound by at most `h²` (same box). -/
theorem bnd_scale (ea da : ℕ → ℝ) (he : ∀ i, 0 ≤ ea i) (hd : ∀ i, 0 ≤ da i) (h : ℝ) (h0 : 0 ≤ h) (h1 : h ≤ 1) (e : Fn) :
    (e.bnd ea (fun i => h * da i)).m0 = (e.bnd ea da).m0 ∧ (e.bnd ea (fun i => h * da i)).l = h * (e.bnd ea da).l ∧
    (e.bnd ea (fun i => h * da i)).r ≤ h ^ 2 * (e.bnd ea da).r ∧ 0 ≤ (e.bnd ea da).r := by
  obtain ⟨a1, a2, _, a4, _, _, a7⟩ := bnd_scale' ea da he hd h h0 h1 e
  exact ⟨a1, a2, a4, a7⟩

/-- **The affine model's error with an explicit constant.** Reference point `(x, u, t)`, any `(x', u')` of the same
dimensions, any box `ea` containing both points and any direction bound `da` with `|(x',u') − (x,u)| ≤ h·da` componentwise,
`0 ≤ h ≤ 1`: for every component `i` of `f`
`|(A x' + B u' + c1)_i − f_i(x', u', t)| ≤ h² · K`,  `K = (f_i.bnd ea da).r` — computable from the tree, the box and the
direction (the driver op `c15.bnd` evaluates it; the harness uses it as the bound of its second-order oracle). -/
theorem nls_second_order_explicit (fs gs : List Fn) (x u : DVec ℝ) (t : ℝ) (i : ℕ) (hi : i < fs.length)
    (x' u' : DVec ℝ) (hx : x'.length = x.length) (hu : u'.length = u.length) (ea da : ℕ → ℝ) (h : ℝ)
    (h0 : 0 ≤ h) (h1 : h ≤ 1) (hda : ∀ j, 0 ≤ da j)
    (hp : ∀ j, |mkEnv x u t j| ≤ ea j) (hq : ∀ j, |mkEnv x' u' t j| ≤ ea j)
    (hd : ∀ j, |mkEnv x' u' t j - mkEnv x u t j| ≤ h * da j) :
    |((linearize fs gs x u t).predict x' u').1.getD i 0 - (fs[i]).eval (mkEnv x' u' t)|
      ≤ h ^ 2 * ((fs[i]).bnd ea da).r := by
  have he : ∀ j, 0 ≤ ea j := fun j => (abs_nonneg _).trans (hp j)
  have e : (fun j => mkEnv x u t j + (mkEnv x' u' t j - mkEnv x u t j)) = mkEnv x' u' t := by funext j; ring
  have H := SOB_Fn (Finset.range (x.length + u.length)) (mkEnv x u t) (fun j => mkEnv x' u' t j - mkEnv x u t j) ea
    (fun j => h * da j) hp (by intro j; rw [show mkEnv x u t j + (mkEnv x' u' t j - mkEnv x u t j) = mkEnv x' u' t j by ring]; exact hq j)
    hd (mkEnv_diff_support x u t x' u' hx hu) fs[i]
  obtain ⟨_, _, _, h4⟩ := H
  rw [e] at h4
  obtain ⟨_, _, _, a4, _, _, _⟩ := bnd_scale' ea da he hda h h0 h1 fs[i]
  rw [predict_component fs gs x u t x' u' hx hu i hi, abs_sub_comm]
  have e2 : ∀ a b c : ℝ, a - (b + c) = a - b - c := fun a b c => by ring
  rw [e2]
  exact h4.trans a4

/-! ## 5. Historical (before fix D32): `_ref_t` could be the clock buffer itself (`aliasT = true`) -/

/-! ## 6. Historical (before fix D38): `_ref_state`, `_ref_input` were the caller's tensors (`aliasX = true`) -/

/-- the observation half of the affine model is the state-transition half of the system with `f` and `g` exchanged -/
theorem predict_obs_swap (fs gs : List Fn) (x u : DVec ℝ) (t : ℝ) (x' u' : DVec ℝ) :
    ((linearize fs gs x u t).predict x' u').2 = ((linearize gs fs x u t).predict x' u').1 := rfl

/-- **Second-order error of the observation model with an explicit constant** (`C x' + D u' + c2` against `g`): as
`nls_second_order_explicit`, for every component `i` of `g`. -/
theorem nls_second_order_explicit_obs (fs gs : List Fn) (x u : DVec ℝ) (t : ℝ) (i : ℕ) (hi : i < gs.length)
    (x' u' : DVec ℝ) (hx : x'.length = x.length) (hu : u'.length = u.length) (ea da : ℕ → ℝ) (h : ℝ)
    (h0 : 0 ≤ h) (h1 : h ≤ 1) (hda : ∀ j, 0 ≤ da j)
    (hp : ∀ j, |mkEnv x u t j| ≤ ea j) (hq : ∀ j, |mkEnv x' u' t j| ≤ ea j)
    (hd : ∀ j, |mkEnv x' u' t j - mkEnv x u t j| ≤ h * da j) :
    |((linearize fs gs x u t).predict x' u').2.getD i 0 - (gs[i]).eval (mkEnv x' u' t)|
      ≤ h ^ 2 * ((gs[i]).bnd ea da).r := by
  rw [predict_obs_swap]
  exact nls_second_order_explicit gs fs x u t i hi x' u' hx hu ea da h h0 h1 hda hp hq hd

/-- … and in the existential form of `nls_second_order` -/
theorem nls_second_order_obs (fs gs : List Fn) (x u : DVec ℝ) (t : ℝ) (i : ℕ) (hi : i < gs.length) :
    ∃ K : ℝ, 0 ≤ K ∧ ∀ x' u' : DVec ℝ, x'.length = x.length → u'.length = u.length →
      dist1 x u t x' u' ≤ 1 →
      |((linearize fs gs x u t).predict x' u').2.getD i 0 - (gs[i]).eval (mkEnv x' u' t)|
        ≤ K * dist1 x u t x' u' ^ 2 := by
  obtain ⟨K, hK, H⟩ := nls_second_order gs fs x u t i hi
  exact ⟨K, hK, fun x' u' hx hu hd => by rw [predict_obs_swap]; exact H x' u' hx hu hd⟩

/-! ### 4b. Affine systems (an LTI / LTV system written as an `NLS`): the linearisation is the system itself

The second-order theorems bound the error of the affine model by `K·h²`. For components of `f` / `g` that are **affine in
state and input** (`Fn.affineIn`: coefficients may depend on the time in any way — `A(t) x + B(t) u + c(t)`; full-state or
partial-state observations `g = x`, `g = x[:p]`; `f = u`) the error is **zero at every point, for every reference point**:
`A x' + B u' + c1 = f(x', u', t*)` exactly, the matrices do not depend on the reference state / input, and two reference
points (same time) give the same affine model. Correspondence: the `nls` stream's `affine-exact` oracle evaluates the code's
`A x' + B u' + c1` at points far from the reference point for every affine component. -/

/-- **Exactness for affine components of `f`**: if `f_i` is affine in state and input, then for every reference point
`(x, u, t)` and *every* `(x', u')` of the same dimensions (no smallness assumption)
`(A x' + B u' + c1)_i = f_i(x', u', t)`. -/
theorem nls_affine_exact (fs gs : List Fn) (x u : DVec ℝ) (t : ℝ) (i : ℕ) (hi : i < fs.length)
    (ha : (fs[i]).affineIn (x.length + u.length) = true)
    (x' u' : DVec ℝ) (hx : x'.length = x.length) (hu : u'.length = u.length) :
    ((linearize fs gs x u t).predict x' u').1.getD i 0 = (fs[i]).eval (mkEnv x' u' t) := by
  rw [predict_component fs gs x u t x' u' hx hu i hi]
  exact (affine_expansion _ _ _ (mkEnv_agree x u t x' u' hx hu) _ ha).symm

/-- **Exactness for affine components of `g`**: `(C x' + D u' + c2)_i = g_i(x', u', t)` everywhere. -/
theorem nls_affine_exact_obs (fs gs : List Fn) (x u : DVec ℝ) (t : ℝ) (i : ℕ) (hi : i < gs.length)
    (ha : (gs[i]).affineIn (x.length + u.length) = true)
    (x' u' : DVec ℝ) (hx : x'.length = x.length) (hu : u'.length = u.length) :
    ((linearize fs gs x u t).predict x' u').2.getD i 0 = (gs[i]).eval (mkEnv x' u' t) := by
  rw [predict_obs_swap]
  exact nls_affine_exact gs fs x u t i hi ha x' u' hx hu

/-- **The reference state / input is irrelevant for an affine component**: two reference points at the same time give affine
models that agree at every point. -/
theorem nls_affine_refpoint_irrelevant (fs gs : List Fn) (x₁ u₁ x₂ u₂ : DVec ℝ) (t : ℝ) (i : ℕ) (hi : i < fs.length)
    (hx₂ : x₂.length = x₁.length) (hu₂ : u₂.length = u₁.length)
    (ha : (fs[i]).affineIn (x₁.length + u₁.length) = true)
    (x' u' : DVec ℝ) (hx : x'.length = x₁.length) (hu : u'.length = u₁.length) :
    ((linearize fs gs x₁ u₁ t).predict x' u').1.getD i 0 = ((linearize fs gs x₂ u₂ t).predict x' u').1.getD i 0 := by
  rw [nls_affine_exact fs gs x₁ u₁ t i hi ha x' u' hx hu,
    nls_affine_exact fs gs x₂ u₂ t i hi (by rw [hx₂, hu₂]; exact ha) x' u' (hx.trans hx₂.symm) (hu.trans hu₂.symm)]

/-- **The Jacobians of an affine component are coefficients**: `A[i][j]` and `B[i][j]` are the same at every reference
state / input (they depend on the reference time only) — for `f = A(t) x + B(t) u + c(t)` the linearisation returns
`A(t*)`, `B(t*)` whatever `x*`, `u*`. -/
theorem nls_affine_jacobian_constant (fs gs : List Fn) (x₁ u₁ x₂ u₂ : DVec ℝ) (t : ℝ) (i : ℕ) (hi : i < fs.length)
    (hx₂ : x₂.length = x₁.length) (hu₂ : u₂.length = u₁.length)
    (ha : (fs[i]).affineIn (x₁.length + u₁.length) = true) :
    (∀ j, j < x₁.length → ((linearize fs gs x₁ u₁ t).A.getD i []).getD j 0 = ((linearize fs gs x₂ u₂ t).A.getD i []).getD j 0) ∧
    (∀ j, j < u₁.length → ((linearize fs gs x₁ u₁ t).B.getD i []).getD j 0 = ((linearize fs gs x₂ u₂ t).B.getD i []).getD j 0) := by
  have hag := mkEnv_agree x₁ u₁ t x₂ u₂ hx₂ hu₂
  constructor
  · intro j hj
    simp only [linearize, linAt, jac_entry fs 0 x₁.length _ i j hi hj, jac_entry fs 0 x₂.length _ i j hi (hx₂ ▸ hj), Nat.zero_add]
    exact (D_affine_const _ _ _ hag j (by omega) _ ha).symm
  · intro j hj
    simp only [linearize, linAt, hx₂, jac_entry fs x₁.length u₁.length _ i j hi hj, jac_entry fs x₁.length u₂.length _ i j hi (hu₂ ▸ hj)]
    exact (D_affine_const _ _ _ hag (x₁.length + j) (by omega) _ ha).symm

/-- non-vacuity: `f = t·x₀ + 2·u₀ + cos t` (time-varying coefficient and constant term, nx = nu = 1) is affine; linearised at
`(x*, u*, t*) = (5, -3, 2)` and evaluated far away at `(x', u') = (100, 7)` the affine model returns `f(100, 7, 2)`; the
product `x₀·u₀` and `sin x₀` are not affine. -/
example :
    let f : Fn := .add (.add (.mul (.var 2) (.var 0)) (.mul (.const false 2 1) (.var 1))) (.cos (.var 2))
    f.affineIn 2 = true ∧ (Fn.mul (.var 0) (.var 1)).affineIn 2 = false ∧ (Fn.sin (.var 0)).affineIn 2 = false ∧
    ((linearize [f] [] [5] [-3] 2).predict [100] [7]).1.getD 0 0 = 2 * 100 + 2 * 7 + Real.cos 2 := by
  refine ⟨by decide, by decide, by decide, ?_⟩
  have h := nls_affine_exact [.add (.add (.mul (.var 2) (.var 0)) (.mul (.const false 2 1) (.var 1))) (.cos (.var 2))] []
    [5] [-3] 2 0 (by simp) (by decide) [100] [7] rfl rfl
  rw [h]
  simp [Fn.eval, mkEnv]

/-! ### 4c. A linear time-variant system written as an `NLS`: the linearisation returns its coefficient matrices

`Fn.affRow nx a b c` is the tree `Σ_j a_j(t) x_j + Σ_j b_j(t) u_j + c(t)` with coefficient trees that mention the time only
(`Fn.freeOf`). For such a component of `f` (same for `g` with `C`, `D`): the Jacobian entries ARE the coefficients at the
reference time — `A[i][j] = a_j(t*)`, `B[i][j] = b_j(t*)`, whatever `x*`, `u*` — and (`nls_affine_exact` + `affRow_affine`) the
affine model equals the row at every point; taking `x' = u' = 0` there, `c1[i] = c(t*)`. So `NLS` and `LTV` agree on an LTV
system. -/

/-- `A[i][j] = a_j(t*)` and `B[i][j] = b_j(t*)` for a component `f_i = Σ a_j(t) x_j + Σ b_j(t) u_j + c(t)`. -/
theorem nls_ltv_jacobians (fs gs : List Fn) (x u : DVec ℝ) (t : ℝ) (i : ℕ) (hi : i < fs.length)
    (a b : List Fn) (c : Fn) (hf : fs[i] = Fn.affRow x.length a b c)
    (ha : ∀ e ∈ a, e.freeOf (x.length + u.length) = true) (hb : ∀ e ∈ b, e.freeOf (x.length + u.length) = true)
    (hc : c.freeOf (x.length + u.length) = true) (hla : a.length ≤ x.length) :
    (∀ j, j < x.length →
      ((linearize fs gs x u t).A.getD i []).getD j 0 = (a.getD j Fn.zero).eval (mkEnv x u t)) ∧
    (∀ j, j < u.length →
      ((linearize fs gs x u t).B.getD i []).getD j 0 = (b.getD j Fn.zero).eval (mkEnv x u t)) := by
  constructor
  · intro j hj
    simp only [linearize, linAt, jac_entry fs 0 x.length _ i j hi hj, Nat.zero_add, hf, Fn.affRow, Fn.D, Fn.eval]
    rw [D_lincomb _ _ j (by omega) a ha 0, D_lincomb _ _ j (by omega) b hb x.length, D_free _ _ j (by omega) c hc]
    simp [show ¬ x.length ≤ j by omega]
  · intro j hj
    simp only [linearize, linAt, jac_entry fs x.length u.length _ i j hi hj, hf, Fn.affRow, Fn.D, Fn.eval]
    rw [D_lincomb _ _ (x.length + j) (by omega) a ha 0, D_lincomb _ _ (x.length + j) (by omega) b hb x.length,
      D_free _ _ (x.length + j) (by omega) c hc]
    have e1 : a[x.length + j]? = none := List.getElem?_eq_none (by omega)
    simp [e1, Fn.zero, Fn.eval]

/-- the same for a component of the observation: `C[i][j] = a_j(t*)`, `D[i][j] = b_j(t*)` for `g_i = Σ a_j(t) x_j + Σ b_j(t) u_j + c(t)`. -/
theorem nls_ltv_jacobians_obs (fs gs : List Fn) (x u : DVec ℝ) (t : ℝ) (i : ℕ) (hi : i < gs.length)
    (a b : List Fn) (c : Fn) (hg : gs[i] = Fn.affRow x.length a b c)
    (ha : ∀ e ∈ a, e.freeOf (x.length + u.length) = true) (hb : ∀ e ∈ b, e.freeOf (x.length + u.length) = true)
    (hc : c.freeOf (x.length + u.length) = true) (hla : a.length ≤ x.length) :
    (∀ j, j < x.length →
      ((linearize fs gs x u t).C.getD i []).getD j 0 = (a.getD j Fn.zero).eval (mkEnv x u t)) ∧
    (∀ j, j < u.length →
      ((linearize fs gs x u t).D.getD i []).getD j 0 = (b.getD j Fn.zero).eval (mkEnv x u t)) :=
  nls_ltv_jacobians gs fs x u t i hi a b c hg ha hb hc hla

/-- the affine model of such a component is the row itself at **every** `(x', u')`: `(A x' + B u' + c1)_i = Σ a_j(t*) x'_j +
Σ b_j(t*) u'_j + c(t*)` (the right-hand side is the evaluation of the tree `affRow`). -/
theorem nls_ltv_exact (fs gs : List Fn) (x u : DVec ℝ) (t : ℝ) (i : ℕ) (hi : i < fs.length)
    (a b : List Fn) (c : Fn) (hf : fs[i] = Fn.affRow x.length a b c)
    (ha : ∀ e ∈ a, e.freeOf (x.length + u.length) = true) (hb : ∀ e ∈ b, e.freeOf (x.length + u.length) = true)
    (hc : c.freeOf (x.length + u.length) = true)
    (x' u' : DVec ℝ) (hx : x'.length = x.length) (hu : u'.length = u.length) :
    ((linearize fs gs x u t).predict x' u').1.getD i 0 = (Fn.affRow x.length a b c).eval (mkEnv x' u' t) := by
  rw [← hf]
  exact nls_affine_exact fs gs x u t i hi (by rw [hf]; exact affRow_affine _ _ a b c ha hb hc) x' u' hx hu

/-- the constant term of the affine model — its value at the origin, `A·0 + B·0 + c1` — is the row's constant term at the
reference time: `c1[i] = c(t*)`, whatever `x*`, `u*`. -/
theorem nls_ltv_constant (fs gs : List Fn) (x u : DVec ℝ) (t : ℝ) (i : ℕ) (hi : i < fs.length)
    (a b : List Fn) (c : Fn) (hf : fs[i] = Fn.affRow x.length a b c)
    (ha : ∀ e ∈ a, e.freeOf (x.length + u.length) = true) (hb : ∀ e ∈ b, e.freeOf (x.length + u.length) = true)
    (hc : c.freeOf (x.length + u.length) = true) (hla : a.length ≤ x.length) (hlb : b.length ≤ u.length) :
    ((linearize fs gs x u t).predict (List.replicate x.length 0) (List.replicate u.length 0)).1.getD i 0
      = c.eval (mkEnv x u t) := by
  rw [nls_ltv_exact fs gs x u t i hi a b c hf ha hb hc _ _ (by simp) (by simp)]
  have hz := mkEnv_origin x.length u.length t
  simp only [Fn.affRow, Fn.eval]
  rw [eval_lincomb_zero _ a 0 (fun j _ hj => hz j (by omega)),
    eval_lincomb_zero _ b x.length (fun j _ hj => hz j (by omega)),
    eval_free _ _ _ (mkEnv_agree x u t _ _ (by simp) (by simp)) c hc]
  ring

/-- **`c1[i] = c(t*)` on the field itself**: for a component `f_i = Σ a_j(t) x_j + Σ b_j(t) u_j + c(t)` the entry `c1[i]` of the
linearisation (`f(x*,u*,t*) − A x* − B u*` in the code) is the row's constant term at the reference time, whatever `x*`, `u*`. -/
theorem nls_ltv_c1 (fs gs : List Fn) (x u : DVec ℝ) (t : ℝ) (i : ℕ) (hi : i < fs.length)
    (a b : List Fn) (c : Fn) (hf : fs[i] = Fn.affRow x.length a b c)
    (ha : ∀ e ∈ a, e.freeOf (x.length + u.length) = true) (hb : ∀ e ∈ b, e.freeOf (x.length + u.length) = true)
    (hc : c.freeOf (x.length + u.length) = true) (hla : a.length ≤ x.length) (hlb : b.length ≤ u.length) :
    (linearize fs gs x u t).c1.getD i 0 = c.eval (mkEnv x u t) := by
  rw [← predict_origin fs gs x u t i hi]
  exact nls_ltv_constant fs gs x u t i hi a b c hf ha hb hc hla hlb

/-- the same for the observation: `c2[i] = c(t*)` for `g_i = Σ a_j(t) x_j + Σ b_j(t) u_j + c(t)`. -/
theorem nls_ltv_c2 (fs gs : List Fn) (x u : DVec ℝ) (t : ℝ) (i : ℕ) (hi : i < gs.length)
    (a b : List Fn) (c : Fn) (hg : gs[i] = Fn.affRow x.length a b c)
    (ha : ∀ e ∈ a, e.freeOf (x.length + u.length) = true) (hb : ∀ e ∈ b, e.freeOf (x.length + u.length) = true)
    (hc : c.freeOf (x.length + u.length) = true) (hla : a.length ≤ x.length) (hlb : b.length ≤ u.length) :
    (linearize fs gs x u t).c2.getD i 0 = c.eval (mkEnv x u t) :=
  nls_ltv_c1 gs fs x u t i hi a b c hg ha hb hc hla hlb

/-- non-vacuity of `nls_ltv_c1`: the row `t·x₀ + cos t·x₁ + 3·u₀ + t²` linearised at `((5, −1), (2), 4)` has `c1 = [16]`. -/
example :
    let f : Fn := Fn.affRow 2 [.var 3, .cos (.var 3)] [.const false 3 1] (.pow (.var 3) 2)
    (linearize (α := ℝ) [f] [] [5, -1] [2] 4).c1.getD 0 0 = 16 := by
  intro f
  have h := nls_ltv_c1 [f] [] [5, -1] [2] 4 0 (by simp) [.var 3, .cos (.var 3)] [.const false 3 1] (.pow (.var 3) 2) rfl
    (by decide) (by decide) (by decide) (by simp) (by simp)
  exact h.trans (by simp [Fn.eval, mkEnv, npow]; norm_num)

/-- non-vacuity: the row `t·x₀ + cos t·x₁ + 3·u₀ + t²` (nx = 2, nu = 1, time = variable 3) linearised at
`(x*, u*, t*) = ((5, −1), (2), 4)` has `A = [4, cos 4]`, `B = [3]`. -/
example :
    let f : Fn := Fn.affRow 2 [.var 3, .cos (.var 3)] [.const false 3 1] (.pow (.var 3) 2)
    let L := linearize (α := ℝ) [f] [] [5, -1] [2] 4
    (L.A.getD 0 []).getD 0 0 = 4 ∧ (L.A.getD 0 []).getD 1 0 = Real.cos 4 ∧ (L.B.getD 0 []).getD 0 0 = 3 := by
  intro f L
  have h := nls_ltv_jacobians [f] [] [5, -1] [2] 4 0 (by simp) [.var 3, .cos (.var 3)] [.const false 3 1] (.pow (.var 3) 2) rfl
    (by decide) (by decide) (by decide) (by simp)
  refine ⟨?_, ?_, ?_⟩
  · exact (h.1 0 (by simp)).trans (by simp [Fn.eval, mkEnv])
  · exact (h.1 1 (by simp)).trans (by simp [Fn.eval, mkEnv])
  · exact (h.2 0 (by simp)).trans (by simp [Fn.eval, mkEnv])

/-! ## 7. Statelessness (object re-use) -/

/-- reading `A … c2` does not depend on how many calls (with whatever arguments) were made since `set_refpoint`
(documented semantics: `_ref_t` is the system's own copy, which `set_refpoint` always produces) -/
theorem nls_read_unchanged_by_calls (fs gs : List Fn) (S : NState ℝ) (t : ℝ) (hr : S.reft = some (.own t))
    (xus : List (DVec ℝ × DVec ℝ)) :
    readLin fs gs (runN false false false fs gs S (xus.map fun xu => .call xu.1 xu.2)) = readLin fs gs S := by
  obtain ⟨q1, q2, q3, q4, q5, _⟩ := runN_nonref false false false fs gs (xus.map fun xu => NEv.call xu.1 xu.2) S
    (by intro e he; simp only [List.mem_map] at he; obtain ⟨_, _, rfl⟩ := he; rfl) (Or.inl rfl)
  unfold readLin
  rw [q1, q2, q3, q4, q5, hr]
  cases S.refx <;> cases S.refu <;> cases S.reff <;> cases S.refg <;> simp [RefT.value]

/-! ## 8. Error paths (an observation outside the property: its histories contain no raising calls) -/

/-- **Whatever the last `set_refpoint` attempt did** (succeeded, could not resolve its arguments, user function raised), under
either error-path semantics: after any later non-`set_refpoint` events the five `_ref_*` attributes are exactly those the
attempt left behind. Together with `nls_history_complete` this describes the reference point of every history. -/
theorem nls_history_after_attempt (pf : Bool) (fs gs : List Fn) (S0 : NState ℝ) (pre post : List (NEv ℝ)) (e : NEv ℝ)
    (hpost : ∀ e' ∈ post, e'.isRef = false) :
    let S1 := (stepN false false pf fs gs (runN false false pf fs gs S0 pre) e).1
    let S2 := runN false false pf fs gs S0 (pre ++ e :: post)
    S2.refx = S1.refx ∧ S2.refu = S1.refu ∧ S2.reft = S1.reft ∧ S2.reff = S1.reff ∧ S2.refg = S1.refg := by
  intro S1 S2
  have : S2 = runN false false pf fs gs S1 post := by simp [S2, S1, runN_append, runN_cons]
  rw [this]
  obtain ⟨q1, q2, q3, q4, q5, _⟩ := runN_nonref false false pf fs gs post S1 hpost (Or.inl rfl)
  exact ⟨q1, q2, q3, q4, q5⟩

/-- **Histories whose last `set_refpoint` raised, the code as it is (`partialF = true`)**: a `set_refpoint(state=x, input=None)`
that cannot resolve the input (no `forward` yet) has overwritten `_ref_state` only — the next read mixes the new state
with the old input, time and frozen `f, g`; one whose user function raises has overwritten state, input and time. (The
property's histories contain no raising calls; this is an observation about the code, `partial_update_defect_witness`.) -/
theorem nls_history_last_attempt_raised (fs gs : List Fn) (S : NState ℝ) (x : DVec ℝ) (tr : TRef ℝ) (hl : S.last = none) :
    let S1 := (stepN false false true fs gs S (.refpoint (some x) none tr)).1
    S1.refx = some x ∧ S1.refu = S.refu ∧ S1.reft = S.reft ∧ S1.reff = S.reff ∧ S1.refg = S.refg ∧
    (stepN false false true fs gs S (.refpoint (some x) none tr)).2 = .raised := by
  simp [stepN, setRefpoint, orLast, hl]

/-- what atomic error paths (`partialF = false`, *not* the code) would give: a call that raises leaves the object as it was: a `forward` whose user
function raises, a `set_refpoint` that cannot resolve its arguments, a `set_refpoint` whose user function raises. -/
theorem nls_failed_call_atomic (al ax : Bool) (fs gs : List Fn) (S : NState ℝ) (e : NEv ℝ)
    (h : (stepN al ax false fs gs S e).2 = .raised) : (stepN al ax false fs gs S e).1 = S := by
  cases e with
  | call x u => simp [stepN] at h
  | reset t => simp [stepN] at h
  | assign t => simp [stepN] at h
  | poke tgt v => simp [stepN] at h
  | callRaise x u => simp [stepN]
  | refpoint x? u? tr =>
    simp only [stepN, setRefpoint] at h ⊢
    cases hx : orLast x? (S.last.map Prod.fst) with
    | none => simp
    | some x =>
      cases hu : orLast u? (S.last.map Prod.snd) with
      | none => simp
      | some u => simp [hx, hu] at h
  | refRaise x? u? tr =>
    simp only [stepN, setRefpoint]
    cases orLast x? (S.last.map Prod.fst) <;> simp
    cases orLast u? (S.last.map Prod.snd) <;> simp

/-- … hence continuing after the exception gives the result of the history without the failed call -/
theorem nls_history_without_failed_call (al ax : Bool) (fs gs : List Fn) (S0 : NState ℝ) (pre post : List (NEv ℝ))
    (e : NEv ℝ) (h : (stepN al ax false fs gs (runN al ax false fs gs S0 pre) e).2 = .raised) :
    runN al ax false fs gs S0 (pre ++ e :: post) = runN al ax false fs gs S0 (pre ++ post) := by
  rw [runN_append, runN_cons, nls_failed_call_atomic al ax fs gs _ e h, ← runN_append]

/-- witness that the code (`partialF = true`) is not atomic: `f = x²`; `set_refpoint(1, 0, 0)`; then
`set_refpoint(state=3)` before any `forward` raises (no `self.input`) — but `_ref_state` is already overwritten: the
matrices now read `A = 6`, `c1 = −17` although the last successful reference point is `x* = 1` (`A = 2`, `c1 = −1`). -/
theorem partial_update_defect_witness :
    let fs := [Fn.pow (.var 0) 2]
    let gs := [Fn.var 0]
    let evs : List (NEv ℝ) := [.refpoint (some [(1 : ℝ)]) (some [(0 : ℝ)]) (.val 0), .refpoint (some [(3 : ℝ)]) none (.val 0)]
    (readLin fs gs (runN false false true fs gs (NState.init 0 : NState ℝ) evs)).map (fun L => (L.A, L.c1))
        = some (([[(6 : ℝ)]] : DMat ℝ), ([(-17 : ℝ)] : DVec ℝ)) ∧
    (readLin fs gs (runN false false false fs gs (NState.init 0 : NState ℝ) evs)).map (fun L => (L.A, L.c1))
        = some (([[(2 : ℝ)]] : DMat ℝ), ([(-1 : ℝ)] : DVec ℝ)) := by
  refine ⟨?_, ?_⟩
  · simp [readLin, runN, stepN, setRefpoint, NState.init, orLast, refTOf, RefT.value, linAt, jac,
      mkEnv, Fn.D, Fn.eval, Fn.one, Fn.zero, npow, evalAll, bmv, DMat.mulVec, DVec.sub, dot_real]
    norm_num
  · simp [readLin, runN, stepN, setRefpoint, NState.init, orLast, refTOf, RefT.value, linAt, jac,
      mkEnv, Fn.D, Fn.eval, Fn.one, Fn.zero, npow, evalAll, bmv, DMat.mulVec, DVec.sub, dot_real]
    norm_num

/-! ## non-vacuity -/

/-- `nls_history`'s hypotheses are satisfiable with a non-trivial history -/
example : readLin [Fn.mul (.var 0) (.var 2)] [Fn.var 0]
    (runN false false false [Fn.mul (.var 0) (.var 2)] [Fn.var 0] (NState.init 0 : NState ℝ)
      ([.call [(1 : ℝ)] [(0 : ℝ)]] ++ .refpoint none none .default :: [.call [(1 : ℝ)] [(0 : ℝ)], .reset ⟨7, 1⟩]))
    = some (linearize [Fn.mul (.var 0) (.var 2)] [Fn.var 0] [(1 : ℝ)] [(0 : ℝ)]
        (refTime (runN false false false [Fn.mul (.var 0) (.var 2)] [Fn.var 0] (NState.init 0 : NState ℝ)
          [.call [(1 : ℝ)] [(0 : ℝ)]]).clock .default)) :=
  nls_history false [Fn.mul (.var 0) (.var 2)] [Fn.var 0] (NState.init 0) [.call [(1 : ℝ)] [(0 : ℝ)]]
    [.call [(1 : ℝ)] [(0 : ℝ)], .reset ⟨7, 1⟩] none none .default [(1 : ℝ)] [(0 : ℝ)]
    (by simp [runN, stepN, NState.init, orLast]) (by simp [runN, stepN, NState.init, orLast])
    (by simp [NEv.isRef])

/-- `clock_history` on a concrete history -/
example : runClock .ltv 3 ([.call, .reset ⟨9, 1⟩] ++ .refpoint (some ⟨5, 2⟩) :: [.call, .callRaise, .call]) = 4 := by
  rw [clock_history .ltv 3 _ _ _ 2 (by decide) (by decide)]; decide

/-- explicit constants on a concrete tree: `e = sin(x₀·x₁)` on the box `|x| ≤ 2`, perturbation bound `(1/2, 1/4)` -/
example : ((Fn.sin (.mul (.var 0) (.var 1))).bnd (fun _ => (2 : ℝ)) (fun i => if i = 0 then 1 / 2 else 1 / 4)).r
    = 1 / 8 + (3 / 2 + 1 / 8) * (3 / 2 + 1 / 8) / 2 := by
  simp [Fn.bnd, Bnd.trig, Bnd.mul]; norm_num

/-- second-order bound: non-trivial instance (`e = sin(x₀·x₁)`, two variables) -/
example : ∃ K M : ℝ, 0 ≤ K ∧ 0 ≤ M ∧ ∀ d : ℕ → ℝ, (∀ i, i ∉ Finset.range 2 → d i = 0) →
    nrm (Finset.range 2) d ≤ 1 →
      |∑ v ∈ Finset.range 2, ((Fn.sin (.mul (.var 0) (.var 1))).D v).eval (fun _ => 1) * d v|
        ≤ M * nrm (Finset.range 2) d ∧
      |(Fn.sin (.mul (.var 0) (.var 1))).eval (fun i => 1 + d i) - (Fn.sin (.mul (.var 0) (.var 1))).eval (fun _ => 1)
        - ∑ v ∈ Finset.range 2, ((Fn.sin (.mul (.var 0) (.var 1))).D v).eval (fun _ => 1) * d v|
        ≤ K * nrm (Finset.range 2) d ^ 2 :=
  second_order (Finset.range 2) (fun _ => 1) _

end PP.Dyn
