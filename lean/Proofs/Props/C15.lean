import Proofs.Lemmas.Dynamics
/-!
# C15 — dynamics follow their equations; NLS linearisation is exact at the reference point

Property theorems only (helpers: `Proofs/Lemmas/Dynamics.lean`; model: `Pose/Model/Dynamics.lean`).

* §1 clock: every completed call advances the time by exactly one; `reset` / `systime =` /
  `LTV.set_refpoint(t)` set it; after *any* interleaving the clock is the last set value plus the
  number of completed calls since (`clock_history`, `clock_no_set`, `clock_history_complete`); clocks of several
  systems are independent state machines, assignments between them copy values (`multi_clock_independent`).
* §2 `bmv`, `bvv`, `bvmv` are `Matrix.mulVec`, `Matrix.vecMulVec`, `l ⬝ᵥ M *ᵥ r`; on batches of every shape they act
  item-wise under the torch broadcasting rule (`bmv_batched`, `bvv_batched`, `bvmv_batched`, `lti_batched`).
* §3 LTI / LTV: a forward at clock `t` returns `A_t x + B_t u + c1_t`, `C_t x + D_t u + c2_t`
  (`lti_eq`, `ltv_eq_periodic`, `ltv_eq_plain`, `ltv_plain_raises`), roll-outs of every length use
  the slices `c, c+1, …` (`rollout_spec`), histories tie to the clock machine (`runLin_clocks`).
* §4 NLS: the symbolic partial derivative is the derivative (`symdiff_correct`); the entries of
  `A, B, C, D` are the partial derivatives of the components of `f`, `g` at the reference point
  (`jacobian_A … jacobian_D`); `A x* + B u* + c1 = f(x*,u*,t*)`, same for `g` (`affine_reproduces`);
  over all histories (`nls_history`, `nls_history_complete`, `nls_read_without_refpoint`, `nls_refpoint_success_iff`,
  `nls_forward_history`; clock: `nls_clock`, `nls_rollout_time`); the error of the affine model is second order with explicit
  constants (`second_order`, `nls_second_order`, `second_order_explicit`, `bnd_scale`, `nls_second_order_explicit`).
* §5 what the code did before fix D32 when the reference time is the live clock buffer
  (`nls_history_alias`, `nls_history_alias_ok`, `alias_defect_witness`).
* §6 before fix D38 the code kept the caller's tensors as `_ref_state/_ref_input` (`nls_history_code_ok`,
  `alias_state_defect_witness`); §7 statelessness (`lti_history_independent`, `nls_call_history_independent`,
  `nls_read_unchanged_by_calls`); §8 error paths are atomic (`nls_failed_call_atomic`,
  `nls_history_without_failed_call`, `partial_update_defect_witness`); copies: `multi_copy_independent`.
-/
namespace PP.Dyn
open PP

/-! ## 1. The clock -/

/-- every completed call advances the time by exactly one (any kind of system, any clock value) -/
theorem clock_call (k : Kind) (c : Int) (evs : List Ev) :
    runClock k c (evs ++ [.call]) = runClock k c evs + 1 := by
  simp [runClock, List.foldl_append, stepClock]

/-- `reset(t)` and `systime = t` set the time (a float is truncated toward zero by the int64 buffer);
`LTV.set_refpoint(t=…)` sets it, every other `set_refpoint` leaves it alone; a call whose forward
raises, and direct calls of `.forward`, leave it alone. -/
theorem clock_set (k : Kind) (c : Int) (evs : List Ev) (t : TArg) :
    runClock k c (evs ++ [.reset t]) = t.trunc ∧ runClock k c (evs ++ [.assign t]) = t.trunc ∧
    runClock .ltv c (evs ++ [.refpoint (some t)]) = t.trunc ∧
    runClock .lti c (evs ++ [.refpoint (some t)]) = runClock .lti c evs ∧
    runClock .nls c (evs ++ [.refpoint (some t)]) = runClock .nls c evs ∧
    runClock k c (evs ++ [.refpoint none]) = runClock k c evs ∧
    runClock k c (evs ++ [.callRaise]) = runClock k c evs ∧
    runClock k c (evs ++ [.fwdDirect]) = runClock k c evs := by
  simp only [runClock, List.foldl_append, List.foldl_cons, List.foldl_nil, stepClock, true_and]

/-- an integer time is stored as it is; floats go toward zero -/
theorem trunc_int (m : Int) : (⟨m, 1⟩ : TArg).trunc = m := by simp [TArg.trunc]

example : (⟨27, 10⟩ : TArg).trunc = 2 ∧ (⟨-27, 10⟩ : TArg).trunc = -2 := by decide

/-- histories compose -/
theorem clock_append (k : Kind) (c : Int) (a b : List Ev) :
    runClock k c (a ++ b) = runClock k (runClock k c a) b := by
  simp [runClock, List.foldl_append]

/-- no setting event in the history: the clock is the initial value plus the number of completed calls -/
theorem clock_no_set (k : Kind) (evs : List Ev) : ∀ (c : Int), (∀ e ∈ evs, setVal k e = none) →
    runClock k c evs = c + calls evs := by
  induction evs with
  | nil => intro c _; simp [runClock, calls]
  | cons e es ih =>
    intro c h
    have he := h e (by simp)
    have := ih (stepClock k c e) (fun e' he' => h e' (by simp [he']))
    simp only [runClock, List.foldl_cons] at this ⊢
    rw [this, stepClock_eq, he]
    by_cases hc : isCall e
    · simp [calls, hc]; omega
    · simp [calls, hc]

/-- **Clock after any interleaving**: the last setting event's value plus the number of completed calls
since — whatever happened before. -/
theorem clock_history (k : Kind) (c : Int) (pre post : List Ev) (e : Ev) (v : Int)
    (he : setVal k e = some v) (hpost : ∀ e' ∈ post, setVal k e' = none) :
    runClock k c (pre ++ e :: post) = v + calls post := by
  rw [clock_append]
  have : runClock k (runClock k c pre) (e :: post) = runClock k (stepClock k (runClock k c pre) e) post := by
    simp [runClock]
  rw [this, stepClock_eq, he]
  exact clock_no_set k post v hpost

/-- the two cases above cover every history -/
theorem clock_history_complete (k : Kind) (evs : List Ev) :
    (∀ e ∈ evs, setVal k e = none) ∨
    ∃ pre e post v, evs = pre ++ e :: post ∧ setVal k e = some v ∧ ∀ e' ∈ post, setVal k e' = none := by
  induction evs with
  | nil => left; simp
  | cons e es ih =>
    rcases ih with h | ⟨pre, e', post, v, rfl, hv, hp⟩
    · cases hs : setVal k e with
      | none => left; intro e' he'; rcases List.mem_cons.1 he' with rfl | h' <;> [exact hs; exact h e' h']
      | some v => right; exact ⟨[], e, es, v, rfl, hs, h⟩
    · right; exact ⟨e :: pre, e', post, v, rfl, hv, hp⟩

/-- the clock observed after the `j`-th event is the run of the first `j+1` events -/
theorem traceClock_spec (k : Kind) (evs : List Ev) : ∀ (c : Int) (j : Nat), j < evs.length →
    (traceClock k c evs)[j]? = some (runClock k c (evs.take (j + 1))) := by
  induction evs with
  | nil => intro c j h; simp at h
  | cons e es ih =>
    intro c j hj
    cases j with
    | zero => simp [traceClock, runClock]
    | succ j =>
      have := ih (stepClock k c e) j (by simpa using hj)
      simpa [traceClock, runClock] using this

example : traceClock .ltv 0 [.call, .call, .callRaise, .reset ⟨5, 1⟩, .call, .assign ⟨-11, 4⟩, .call,
    .refpoint (some ⟨7, 1⟩), .refpoint none, .call] = [1, 2, 2, 5, 6, -2, -1, 7, 7, 8] := by decide

/-! ### several systems: every clock is its own state machine -/

/-- an event on system `j ≠ i` does not touch the clock of system `i` -/
theorem multi_step_other (ks : List Kind) (cs : List Int) (j : Nat) (e : MEv) (i : Nat) (h : j ≠ i) :
    (stepMulti ks cs (j, e)).getD i 0 = cs.getD i 0 := by
  simp [stepMulti, List.getD_eq_getElem?_getD, h]

/-- **Clocks of distinct systems are independent.** For any list of events tagged with a system id — including
`b.systime = a.systime`, `b.reset(a.systime)`, `ltv.set_refpoint(t=a.systime)`, which copy the *value* the other
clock has at that moment — the clock of system `i` is the single-system clock machine run on `i`'s own events
(so `clock_history` holds per system: assigning from another system or from a shared tensor shares nothing). -/
theorem multi_clock_independent (ks : List Kind) (evs : List (Nat × MEv)) : ∀ (cs : List Int) (i : Nat),
    i < cs.length →
    (runMulti ks cs evs).getD i 0
      = runClock (ks.getD i .lti) (cs.getD i 0) (projEv i (resolveMulti ks cs evs)) := by
  induction evs with
  | nil => intro cs i _; simp [runMulti, resolveMulti, projEv, runClock]
  | cons te r ih =>
    intro cs i hi
    have hlen : i < (stepMulti ks cs te).length := by simpa [stepMulti] using hi
    have h1 : runMulti ks cs (te :: r) = runMulti ks (stepMulti ks cs te) r := by simp [runMulti]
    rw [h1, ih (stepMulti ks cs te) i hlen]
    by_cases h : te.1 = i
    · have e1 : (stepMulti ks cs te).getD i 0 = stepClock (ks.getD i .lti) (cs.getD i 0) (te.2.toEv cs) := by
        subst h
        simp [stepMulti, List.getD_eq_getElem?_getD, hi]
      simp only [resolveMulti, projEv, List.filterMap_cons, h, if_true, e1]
      simp [runClock]
    · have e1 : (stepMulti ks cs te).getD i 0 = cs.getD i 0 := multi_step_other ks cs te.1 te.2 i h
      simp only [resolveMulti, projEv, List.filterMap_cons, h, if_false, e1]

/-- **A copy is a new independent system with the same state.** `sys_i = deepcopy(sys_j)` (or a pickle round trip, or
`load_state_dict(sys_j.state_dict())` into a fresh object), `i ≠ j`: from then on, whatever events follow on any system,
the copy's time is the single-system clock machine started at the original's time and run on the copy's own events, and
the original's time is the same machine run on the original's own events — neither sees the other's calls or resets. -/
theorem multi_copy_independent (ks : List Kind) (cs : List Int) (i j : Nat) (hij : i ≠ j) (hi : i < cs.length)
    (hj : j < cs.length) (evs : List (Nat × MEv)) :
    let cs' := stepMulti ks cs (i, .copyOf j)
    (runMulti ks cs ((i, .copyOf j) :: evs)).getD i 0
        = runClock (ks.getD i .lti) (cs.getD j 0) (projEv i (resolveMulti ks cs' evs)) ∧
    (runMulti ks cs ((i, .copyOf j) :: evs)).getD j 0
        = runClock (ks.getD j .lti) (cs.getD j 0) (projEv j (resolveMulti ks cs' evs)) := by
  intro cs'
  have h1 : runMulti ks cs ((i, .copyOf j) :: evs) = runMulti ks cs' evs := by simp [runMulti, cs']
  have hl : cs'.length = cs.length := by simp [cs', stepMulti]
  have ei : cs'.getD i 0 = cs.getD j 0 := by
    simp [cs', stepMulti, MEv.toEv, stepClock, TArg.trunc, List.getD_eq_getElem?_getD, hi]
  have ej : cs'.getD j 0 = cs.getD j 0 := multi_step_other ks cs i (.copyOf j) j hij
  rw [h1]
  exact ⟨by rw [multi_clock_independent ks evs cs' i (by omega), ei],
         by rw [multi_clock_independent ks evs cs' j (by omega), ej]⟩

/-- the number of systems never changes -/
theorem multi_length (ks : List Kind) (evs : List (Nat × MEv)) : ∀ cs : List Int,
    (runMulti ks cs evs).length = cs.length := by
  induction evs with
  | nil => intro cs; simp [runMulti]
  | cons te r ih =>
    intro cs
    have h1 : runMulti ks cs (te :: r) = runMulti ks (stepMulti ks cs te) r := by simp [runMulti]
    rw [h1, ih]; simp [stepMulti]

example : traceMulti [.lti, .ltv, .nls] [0, 0, 0]
    [(0, .own (.assign ⟨3, 1⟩)), (1, .assignFrom 0), (0, .own .call), (0, .own (.reset ⟨0, 1⟩)), (1, .own .call),
     (2, .refFrom 1), (1, .refFrom 0), (1, .resetFrom 2)]
    = [[3, 0, 0], [3, 3, 0], [4, 3, 0], [0, 3, 0], [0, 4, 0], [0, 4, 0], [0, 0, 0], [0, 0, 0]] := by decide

/-! ## 2. `bmv`, `bvv`, `bvmv` -/

/-- `bmv` is the matrix–vector product -/
theorem bmv_spec {n m : ℕ} (M : Matrix (Fin n) (Fin m) ℝ) (v : Fin m → ℝ) :
    bmv (rowsOf M) (List.ofFn v) = List.ofFn (M.mulVec v) := bmv_eq_mulVec M v

/-- `bvv` is the outer product `l rᵀ` -/
theorem bvv_spec {n m : ℕ} (l : Fin n → ℝ) (r : Fin m → ℝ) :
    bvv (List.ofFn l) (List.ofFn r) = rowsOf (Matrix.vecMulVec l r) := by
  unfold bvv rowsOf
  rw [List.map_ofFn]
  congr 1; funext i
  simp only [Function.comp, List.map_ofFn, Matrix.vecMulVec_apply]
  rfl

/-- `bvmv` is the bilinear form `lᵀ M r` -/
theorem bvmv_spec {n m : ℕ} (l : Fin n → ℝ) (M : Matrix (Fin n) (Fin m) ℝ) (r : Fin m → ℝ) :
    bvmv (List.ofFn l) (rowsOf M) (List.ofFn r) = l ⬝ᵥ M.mulVec r := by
  rw [Matrix.dotProduct_mulVec]
  unfold bvmv
  rw [vecMul_rowsOf]

/-! ### the helpers on batches of every shape -/
section
open Batch

/-- **`bmv` on batches**: whenever the batch shapes broadcast (to `out`), the result has batch shape `out` and item `i` is
the matrix–vector product of the items the torch broadcasting rule pairs (`proj`: missing leading dimensions dropped,
extent-1 dimensions read index 0) — for every rank and every shape. -/
theorem bmv_batched (M : Batch.T (DMat ℝ)) (v : Batch.T (DVec ℝ)) (out : Shape)
    (h : broadcastShapes M.shape v.shape = some out) :
    ∃ r, bmvB M v = some r ∧ r.shape = out ∧
      ∀ i, inb out i → r.get i = bmv (M.get (proj M.shape i)) (v.get (proj v.shape i)) :=
  bcast2_itemwise bmv M v out h

/-- `bvv` on batches: item `i` is the outer product of the paired items -/
theorem bvv_batched (l r : Batch.T (DVec ℝ)) (out : Shape) (h : broadcastShapes l.shape r.shape = some out) :
    ∃ z, bvvB l r = some z ∧ z.shape = out ∧
      ∀ i, inb out i → z.get i = bvv (l.get (proj l.shape i)) (r.get (proj r.shape i)) :=
  bcast2_itemwise bvv l r out h

/-- the helpers raise exactly when the batch shapes do not broadcast -/
theorem bmv_batched_raises (M : Batch.T (DMat ℝ)) (v : Batch.T (DVec ℝ)) :
    (bmvB M v).isSome = (broadcastShapes M.shape v.shape).isSome := bcast2_isSome bmv M v

/-- **`bvmv` on batches** (`(lvec.mT @ mat) @ rvec`, two broadcasts in a row): item `i` of the result is `lᵀ M r` of the
three items the broadcasting rule pairs with `i` *directly* — the intermediate shape does not matter. -/
theorem bvmv_batched (l : Batch.T (DVec ℝ)) (M : Batch.T (DMat ℝ)) (r : Batch.T (DVec ℝ)) (s1 out : Shape)
    (h1 : broadcastShapes l.shape M.shape = some s1) (h2 : broadcastShapes s1 r.shape = some out) :
    ∃ z, bvmvB l M r = some z ∧ z.shape = out ∧
      ∀ i, inb out i → z.get i = bvmv (l.get (proj l.shape i)) (M.get (proj M.shape i)) (r.get (proj r.shape i)) := by
  obtain ⟨lm, e1, sh1, it1⟩ := bcast2_itemwise DMat.vecMul l M s1 h1
  obtain ⟨z, e2, sh2, it2⟩ := bcast2_itemwise DVec.dot lm r out (by rw [sh1]; exact h2)
  refine ⟨z, by simp [bvmvB, e1, e2], sh2, ?_⟩
  intro i hi
  have hlen : out.length ≤ i.length := by rw [inb_length hi]
  have hl1 : s1.length ≤ i.length := le_trans (broadcastShapes_length h2).1 hlen
  rw [it2 i hi, sh1, it1 _ (proj_inb_left h2 hi), proj_proj h1 i hl1, proj_proj_right h1 i hl1]
  rfl

/-- **One LTI forward on batches of every shape**: `bmv(A, x) + bmv(B, u) + c` with `A, B, c, x, u` of *independent*
batch shapes that broadcast: item `i` of the result is `A_i x_i + B_i u_i + c_i` of the items paired with `i` directly. -/
theorem lti_batched (A B : Batch.T (DMat ℝ)) (c : Batch.T (DVec ℝ)) (x u : Batch.T (DVec ℝ)) (s1 s2 s3 out : Shape)
    (h1 : broadcastShapes A.shape x.shape = some s1) (h2 : broadcastShapes B.shape u.shape = some s2)
    (h3 : broadcastShapes s1 s2 = some s3) (h4 : broadcastShapes s3 c.shape = some out) :
    ∃ z, affineB A B (some c) x u = some z ∧ z.shape = out ∧
      ∀ i, inb out i → z.get i = affine (A.get (proj A.shape i)) (B.get (proj B.shape i)) (some (c.get (proj c.shape i)))
        (x.get (proj x.shape i)) (u.get (proj u.shape i)) := by
  obtain ⟨ax, e1, sh1, it1⟩ := bcast2_itemwise bmv A x s1 h1
  obtain ⟨bu, e2, sh2, it2⟩ := bcast2_itemwise bmv B u s2 h2
  obtain ⟨z0, e3, sh3, it3⟩ := bcast2_itemwise DVec.add ax bu s3 (by rw [sh1, sh2]; exact h3)
  obtain ⟨z, e4, sh4, it4⟩ := bcast2_itemwise DVec.add z0 c out (by rw [sh3]; exact h4)
  refine ⟨z, by simp [affineB, bmvB, e1, e2, e3, e4], sh4, ?_⟩
  intro i hi
  have hlen : out.length ≤ i.length := by rw [inb_length hi]
  have l3 : s3.length ≤ i.length := le_trans (broadcastShapes_length h4).1 hlen
  have l1 : s1.length ≤ i.length := le_trans (broadcastShapes_length h3).1 l3
  have l2 : s2.length ≤ i.length := le_trans (broadcastShapes_length h3).2 l3
  have i3 : inb s3 (proj s3 i) := proj_inb_left h4 hi
  have l3' : s3.length ≤ (proj s3 i).length := by rw [proj_length s3 i l3]
  rw [it4 i hi, sh3, it3 _ i3, sh1, sh2, it1 _ (proj_inb_left h3 i3), it2 _ (proj_inb_right h3 i3)]
  rw [proj_proj h1 _ (le_trans (broadcastShapes_length h3).1 l3'), proj_proj_right h1 _ (le_trans (broadcastShapes_length h3).1 l3'),
    proj_proj h2 _ (le_trans (broadcastShapes_length h3).2 l3'), proj_proj_right h2 _ (le_trans (broadcastShapes_length h3).2 l3')]
  have h3' : broadcastShapes s2 s1 = some s3 := by rw [broadcastShapes_comm]; exact h3
  rw [proj_trans h1 h3 i l3, proj_trans_right h1 h3 i l3, proj_trans h2 h3' i l3, proj_trans_right h2 h3' i l3]
  rfl

/-- … and without a constant term -/
theorem lti_batched_noconst (A B : Batch.T (DMat ℝ)) (x u : Batch.T (DVec ℝ)) (s1 s2 out : Shape)
    (h1 : broadcastShapes A.shape x.shape = some s1) (h2 : broadcastShapes B.shape u.shape = some s2)
    (h3 : broadcastShapes s1 s2 = some out) :
    ∃ z, affineB A B none x u = some z ∧ z.shape = out ∧
      ∀ i, inb out i → z.get i = affine (A.get (proj A.shape i)) (B.get (proj B.shape i)) none
        (x.get (proj x.shape i)) (u.get (proj u.shape i)) := by
  obtain ⟨ax, e1, sh1, it1⟩ := bcast2_itemwise bmv A x s1 h1
  obtain ⟨bu, e2, sh2, it2⟩ := bcast2_itemwise bmv B u s2 h2
  obtain ⟨z, e3, sh3, it3⟩ := bcast2_itemwise DVec.add ax bu out (by rw [sh1, sh2]; exact h3)
  refine ⟨z, by simp [affineB, bmvB, e1, e2, e3], sh3, ?_⟩
  intro i hi
  have hlen : out.length ≤ i.length := by rw [inb_length hi]
  have l1 : s1.length ≤ i.length := le_trans (broadcastShapes_length h3).1 hlen
  have l2 : s2.length ≤ i.length := le_trans (broadcastShapes_length h3).2 hlen
  rw [it3 i hi, sh1, sh2, it1 _ (proj_inb_left h3 hi), it2 _ (proj_inb_right h3 hi),
    proj_proj h1 i l1, proj_proj_right h1 i l1, proj_proj h2 i l2, proj_proj_right h2 i l2]
  rfl

example : (bmvB (⟨[2, 1], fun k => [[(k : ℝ) + 1, 0], [0, 1]]⟩ : Batch.T (DMat ℝ)) ⟨[3], fun k => [1, (k : ℝ)]⟩).map (·.shape)
    = some [2, 3] := by
  simp [bmvB, bcast2, broadcastShapes, padTo, bzip, bdim]
end

/-! ## 3. LTI / LTV -/

/-- **LTI**: at *every* clock value — hence after every history — a forward returns
`A x + B u + c1` and `C x + D u + c2` (a missing constant is zero). -/
theorem lti_eq {n m p : ℕ} (A : Matrix (Fin n) (Fin n) ℝ) (B : Matrix (Fin n) (Fin m) ℝ)
    (C : Matrix (Fin p) (Fin n) ℝ) (D : Matrix (Fin p) (Fin m) ℝ)
    (c1 : Option (Fin n → ℝ)) (c2 : Option (Fin p → ℝ)) (t : Int) (x : Fin n → ℝ) (u : Fin m → ℝ) :
    linForward (mkSys .lti false (fun _ : Fin 1 => A) (fun _ => B) (fun _ => C) (fun _ => D)
        (c1.map fun c _ => c) (c2.map fun c _ => c)) t (List.ofFn x) (List.ofFn u) =
      some (List.ofFn (A.mulVec x + B.mulVec u + optC c1), List.ofFn (C.mulVec x + D.mulVec u + optC c2)) := by
  have := linForward_mkSys .lti false (fun _ : Fin 1 => A) (fun _ => B) (fun _ => C) (fun _ => D)
    (c1.map fun c _ => c) (c2.map fun c _ => c) t 0 (by simp [sliceIdx]) x u
  rw [this]
  cases c1 <;> cases c2 <;> rfl

/-- **LTV, `self._A[..., self._t % T, :, :]`**: a forward at clock `t` uses slice `t mod T`. -/
theorem ltv_eq_periodic {T n m p : ℕ} (hT : 0 < T)
    (A : Fin T → Matrix (Fin n) (Fin n) ℝ) (B : Fin T → Matrix (Fin n) (Fin m) ℝ)
    (C : Fin T → Matrix (Fin p) (Fin n) ℝ) (D : Fin T → Matrix (Fin p) (Fin m) ℝ)
    (c1 : Option (Fin T → Fin n → ℝ)) (c2 : Option (Fin T → Fin p → ℝ))
    (t : Int) (x : Fin n → ℝ) (u : Fin m → ℝ) :
    let i : Fin T := ⟨(t % (T : Int)).toNat, by
      have h1 := Int.emod_nonneg t (show (T : Int) ≠ 0 by omega)
      have h2 := Int.emod_lt_of_pos t (show (0 : Int) < T by omega)
      omega⟩
    linForward (mkSys .ltv true A B C D c1 c2) t (List.ofFn x) (List.ofFn u) =
      some (List.ofFn ((A i).mulVec x + (B i).mulVec u + optC (c1.map (· i))),
            List.ofFn ((C i).mulVec x + (D i).mulVec u + optC (c2.map (· i)))) := by
  intro i
  exact linForward_mkSys .ltv true A B C D c1 c2 t i (by simp [sliceIdx, i]; omega) x u

/-- **LTV, `self._A[..., self._t, :, :]`**: for `0 ≤ t < T` a forward at clock `t` uses slice `t`. -/
theorem ltv_eq_plain {T n m p : ℕ}
    (A : Fin T → Matrix (Fin n) (Fin n) ℝ) (B : Fin T → Matrix (Fin n) (Fin m) ℝ)
    (C : Fin T → Matrix (Fin p) (Fin n) ℝ) (D : Fin T → Matrix (Fin p) (Fin m) ℝ)
    (c1 : Option (Fin T → Fin n → ℝ)) (c2 : Option (Fin T → Fin p → ℝ))
    (i : Fin T) (x : Fin n → ℝ) (u : Fin m → ℝ) :
    linForward (mkSys .ltv false A B C D c1 c2) (i.val : Int) (List.ofFn x) (List.ofFn u) =
      some (List.ofFn ((A i).mulVec x + (B i).mulVec u + optC (c1.map (· i))),
            List.ofFn ((C i).mulVec x + (D i).mulVec u + optC (c2.map (· i)))) := by
  have hi := i.isLt
  exact linForward_mkSys .ltv false A B C D c1 c2 i.val i (by simp [sliceIdx, pyIndex]) x u

/-- python indexing wraps negative times: for `-T ≤ t < 0` the forward uses slice `T + t` -/
theorem ltv_eq_plain_negative {T n m p : ℕ}
    (A : Fin T → Matrix (Fin n) (Fin n) ℝ) (B : Fin T → Matrix (Fin n) (Fin m) ℝ)
    (C : Fin T → Matrix (Fin p) (Fin n) ℝ) (D : Fin T → Matrix (Fin p) (Fin m) ℝ)
    (c1 : Option (Fin T → Fin n → ℝ)) (c2 : Option (Fin T → Fin p → ℝ))
    (i : Fin T) (x : Fin n → ℝ) (u : Fin m → ℝ) :
    linForward (mkSys .ltv false A B C D c1 c2) ((i.val : Int) - T) (List.ofFn x) (List.ofFn u) =
      some (List.ofFn ((A i).mulVec x + (B i).mulVec u + optC (c1.map (· i))),
            List.ofFn ((C i).mulVec x + (D i).mulVec u + optC (c2.map (· i)))) := by
  have hi := i.isLt
  refine linForward_mkSys .ltv false A B C D c1 c2 _ i ?_ x u
  simp only [sliceIdx, pyIndex, Bool.false_eq_true, if_false]
  rw [if_neg (by omega), if_pos (by omega)]
  congr 1; omega

/-- … and outside `[-T, T)` the forward raises (`IndexError`); by `clock_set` the clock then stays. -/
theorem ltv_plain_raises {T n m p : ℕ}
    (A : Fin T → Matrix (Fin n) (Fin n) ℝ) (B : Fin T → Matrix (Fin n) (Fin m) ℝ)
    (C : Fin T → Matrix (Fin p) (Fin n) ℝ) (D : Fin T → Matrix (Fin p) (Fin m) ℝ)
    (c1 : Option (Fin T → Fin n → ℝ)) (c2 : Option (Fin T → Fin p → ℝ))
    (t : Int) (ht : (T : Int) ≤ t ∨ t < -(T : Int)) (x u : DVec ℝ) :
    linForward (mkSys .ltv false A B C D c1 c2) t x u = none := by
  have : sliceIdx .ltv false T t = none := by
    simp only [sliceIdx, pyIndex, Bool.false_eq_true, if_false]
    rw [if_neg (by omega), if_neg (by omega)]
  simp [linForward, mkSys, this]

/-- in a history of a linear system a successful call advances the clock by one and a call whose
forward raises leaves it; the clocks of `runLin` are those of the clock machine. -/
theorem runLin_clocks (S : LinSys ℝ) (evs : List (LEv ℝ)) : ∀ (c : Int),
    (runLin S c evs).map Prod.fst = traceClock S.kind c (absEvs S c evs) := by
  induction evs with
  | nil => intro c; simp [runLin, absEvs, traceClock]
  | cons e es ih => intro c; simp [runLin, absEvs, traceClock, ih]

/-- the outputs of the `j`-th event are the forward at the clock left by the events before it -/
theorem runLin_call (S : LinSys ℝ) (c : Int) (x u : DVec ℝ) (es : List (LEv ℝ)) :
    runLin S c (.call x u :: es) =
      (if (linForward S c x u).isSome then c + 1 else c, linForward S c x u) ::
        runLin S (if (linForward S c x u).isSome then c + 1 else c) es := by
  by_cases h : (linForward S c x u).isSome <;> simp [runLin, LEv.toEv, LEv.out, stepClock, h]

/-- **Roll-out of any length** from clock `c`: step `i` uses the matrices of time `c + i`
(`step` is any per-time map, e.g. the right-hand sides of `ltv_eq_periodic`). -/
theorem rollout_spec (S : LinSys ℝ) {n m p : ℕ}
    (step : Int → (Fin n → ℝ) → (Fin m → ℝ) → (Fin n → ℝ) × (Fin p → ℝ))
    (hstep : ∀ t x u, linForward S t (List.ofFn x) (List.ofFn u)
      = some (List.ofFn (step t x u).1, List.ofFn (step t x u).2))
    (us : List (Fin m → ℝ)) : ∀ (c : Int) (x : Fin n → ℝ),
    rollout S c (List.ofFn x) (us.map fun u => List.ofFn u)
      = (trajSpec step c x us).map fun xy => (List.ofFn xy.1, List.ofFn xy.2) := by
  induction us with
  | nil => intro c x; simp [rollout, trajSpec]
  | cons u us ih =>
    intro c x
    simp only [List.map_cons, rollout, hstep, trajSpec]
    rw [ih]

/-- the `i`-th step of the specification trajectory runs at time `c + i`, from the `i`-th state -/
theorem trajSpec_get {n m p : ℕ} (step : Int → (Fin n → ℝ) → (Fin m → ℝ) → (Fin n → ℝ) × (Fin p → ℝ))
    (us : List (Fin m → ℝ)) : ∀ (c : Int) (x : Fin n → ℝ) (i : ℕ) (hi : i < us.length),
    (trajSpec step c x us)[i]? = some (step (c + i) (trajState step c x us i) us[i]) := by
  induction us with
  | nil => intro c x i hi; simp at hi
  | cons u us ih =>
    intro c x i hi
    cases i with
    | zero => simp [trajSpec, trajState]
    | succ i =>
      have := ih (c + 1) (step c x u).1 i (by simpa using hi)
      simp only [trajSpec, List.getElem?_cons_succ, this, trajState, List.getElem_cons_succ]
      congr 2; push_cast; ring

/-! ## 4. NLS -/

/-- a call returns `f(x, u, t)`, `g(x, u, t)` at the current time and advances it by one -/
theorem nls_call (al ax pf : Bool) (fs gs : List Fn) (S : NState ℝ) (x u : DVec ℝ) :
    (stepN al ax pf fs gs S (.call x u)).1.clock = S.clock + 1 ∧
    ∃ f g, (stepN al ax pf fs gs S (.call x u)).2 = .outputs f g ∧
      f = evalAll fs (mkEnv x u (S.clock : ℝ)) ∧ g = evalAll gs (mkEnv x u (S.clock : ℝ)) := by
  simp [stepN]

/-- **The NLS clock over all histories** (calls, `set_refpoint`s that succeed or raise, resets, assignments;
both semantics of `_ref_t`): it is the clock machine run on the corresponding events — `set_refpoint` never
moves it — so `clock_history` applies: last set value plus completed calls since. -/
theorem nls_clock (al ax pf : Bool) (fs gs : List Fn) (evs : List (NEv ℝ)) : ∀ (S : NState ℝ),
    (runN al ax pf fs gs S evs).clock = runClock .nls S.clock (evs.map NEv.toEv) := by
  induction evs with
  | nil => intro S; simp [runN, runClock]
  | cons e es ih =>
    intro S
    rw [runN_cons, ih]
    have : (stepN al ax pf fs gs S e).1.clock = stepClock .nls S.clock e.toEv := by
      cases e with
      | poke tgt v => cases tgt <;> simp [stepN, pokeN, NEv.toEv, stepClock]
      | callRaise x u => cases pf <;> simp [stepN, NEv.toEv, stepClock]
      | refRaise x? u? tr =>
        simp only [stepN, NEv.toEv, stepClock, setRefpoint]
        cases orLast x? (S.last.map Prod.fst) <;> simp
        cases orLast u? (S.last.map Prod.snd) <;> cases pf <;> simp
      | call x u => simp [stepN, NEv.toEv, stepClock]
      | reset t => simp [stepN, NEv.toEv, stepClock]
      | assign t => simp [stepN, NEv.toEv, stepClock]
      | refpoint x? u? tr =>
        simp only [stepN, NEv.toEv, stepClock, setRefpoint]
        cases orLast x? (S.last.map Prod.fst) <;> simp
        cases orLast u? (S.last.map Prod.snd) <;> cases pf <;> simp
    rw [this]; simp [runClock]

/-- after `n` calls in a row the time is `c + n` (the `i`-th call is evaluated at time `c + i`) -/
theorem nls_rollout_time (al ax pf : Bool) (fs gs : List Fn) (S : NState ℝ) (xus : List (DVec ℝ × DVec ℝ)) :
    (runN al ax pf fs gs S (xus.map fun xu => .call xu.1 xu.2)).clock = S.clock + xus.length := by
  rw [nls_clock, clock_no_set]
  · congr 1
    induction xus with
    | nil => simp [calls]
    | cons xu xus ih =>
      simp only [calls, List.map_cons, NEv.toEv, List.filter_cons, isCall, if_true, List.length_cons] at ih ⊢
      push_cast at ih ⊢
      rw [ih]
  · intro e he
    simp only [List.map_map, List.mem_map, Function.comp] at he
    obtain ⟨_, _, rfl⟩ := he
    simp [NEv.toEv, setVal]

/-- **The symbolic partial derivative is the partial derivative**, for every expression tree, every
environment, every variable. (This is the oracle for `A, B, C, D`.) -/
theorem symdiff_correct (e : Fn) (env : ℕ → ℝ) (v : ℕ) :
    HasDerivAt (fun s => e.eval (Function.update env v s)) ((e.D v).eval env) (env v) := by
  have := symdiff e env v (env v)
  rwa [Function.update_eq_self] at this

/-- `A[i][j] = ∂f_i/∂x_j (x*, u*, t*)` -/
theorem jacobian_A (fs gs : List Fn) (x u : DVec ℝ) (t : ℝ) (i j : ℕ) (hi : i < fs.length) (hj : j < x.length) :
    HasDerivAt (fun s => (fs[i]).eval (mkEnv (x.set j s) u t))
      (((linearize fs gs x u t).A.getD i []).getD j 0) (x.getD j 0) := by
  have h := symdiff_correct fs[i] (mkEnv x u t) j
  rw [mkEnv_state x u t j hj] at h
  simp only [linearize, linAt, jac_entry fs 0 x.length _ i j hi hj, Nat.zero_add]
  simpa [mkEnv_set_state x u t j hj] using h

/-- `B[i][j] = ∂f_i/∂u_j (x*, u*, t*)` -/
theorem jacobian_B (fs gs : List Fn) (x u : DVec ℝ) (t : ℝ) (i j : ℕ) (hi : i < fs.length) (hj : j < u.length) :
    HasDerivAt (fun s => (fs[i]).eval (mkEnv x (u.set j s) t))
      (((linearize fs gs x u t).B.getD i []).getD j 0) (u.getD j 0) := by
  have h := symdiff_correct fs[i] (mkEnv x u t) (x.length + j)
  rw [mkEnv_input x u t j hj] at h
  simp only [linearize, linAt, jac_entry fs x.length u.length _ i j hi hj]
  simpa [mkEnv_set_input x u t j hj] using h

/-- `C[i][j] = ∂g_i/∂x_j (x*, u*, t*)` -/
theorem jacobian_C (fs gs : List Fn) (x u : DVec ℝ) (t : ℝ) (i j : ℕ) (hi : i < gs.length) (hj : j < x.length) :
    HasDerivAt (fun s => (gs[i]).eval (mkEnv (x.set j s) u t))
      (((linearize fs gs x u t).C.getD i []).getD j 0) (x.getD j 0) := by
  have h := symdiff_correct gs[i] (mkEnv x u t) j
  rw [mkEnv_state x u t j hj] at h
  simp only [linearize, linAt, jac_entry gs 0 x.length _ i j hi hj, Nat.zero_add]
  simpa [mkEnv_set_state x u t j hj] using h

/-- `D[i][j] = ∂g_i/∂u_j (x*, u*, t*)` -/
theorem jacobian_D (fs gs : List Fn) (x u : DVec ℝ) (t : ℝ) (i j : ℕ) (hi : i < gs.length) (hj : j < u.length) :
    HasDerivAt (fun s => (gs[i]).eval (mkEnv x (u.set j s) t))
      (((linearize fs gs x u t).D.getD i []).getD j 0) (u.getD j 0) := by
  have h := symdiff_correct gs[i] (mkEnv x u t) (x.length + j)
  rw [mkEnv_input x u t j hj] at h
  simp only [linearize, linAt, jac_entry gs x.length u.length _ i j hi hj]
  simpa [mkEnv_set_input x u t j hj] using h

/-- **The affine model is exact at the reference point**: `A x* + B u* + c1 = f(x*, u*, t*)` and
`C x* + D u* + c2 = g(x*, u*, t*)`, for all `f`, `g`, all reference points. -/
theorem affine_reproduces (fs gs : List Fn) (x u : DVec ℝ) (t : ℝ) :
    (linearize fs gs x u t).predict x u = (evalAll fs (mkEnv x u t), evalAll gs (mkEnv x u t)) :=
  affine_reproduces' fs gs x u t

/-- **All histories (documented semantics: the reference point is a snapshot).** After a successful
`set_refpoint(x?, u?, t?)` — `None`s resolved to the last call's state/input and to the clock at that
moment — and *any* later calls (also calls whose user function raises, under either semantics `pf` of error paths),
resets, `systime` assignments **and in-place updates of the caller's own tensors** (`poke`), reading `A, B, C, D, c1, c2` yields the linearisation at exactly that point; so
`jacobian_*` and `affine_reproduces` apply. -/
theorem nls_history (pf : Bool) (fs gs : List Fn) (S0 : NState ℝ) (pre post : List (NEv ℝ))
    (x? u? : Option (DVec ℝ)) (tr : TRef ℝ) (x u : DVec ℝ)
    (hx : orLast x? ((runN false false pf fs gs S0 pre).last.map Prod.fst) = some x)
    (hu : orLast u? ((runN false false pf fs gs S0 pre).last.map Prod.snd) = some u)
    (hpost : ∀ e ∈ post, e.isRef = false) :
    readLin fs gs (runN false false pf fs gs S0 (pre ++ .refpoint x? u? tr :: post))
      = some (linearize fs gs x u (refTime (runN false false pf fs gs S0 pre).clock tr)) := by
  rw [runN_append, runN_cons]
  set S := runN false false pf fs gs S0 pre with hS
  obtain ⟨r1, r2, r3, r4, r5, _⟩ := setRefpoint_ok false pf fs gs S x? u? tr x u hx hu
  have hstep : (stepN false false pf fs gs S (.refpoint x? u? tr)).1 = (setRefpoint false fs gs S x? u? tr pf).1 := rfl
  rw [hstep]
  obtain ⟨q1, q2, q3, q4, q5, _⟩ := runN_nonref false false pf fs gs post (setRefpoint false fs gs S x? u? tr pf).1 hpost (Or.inl rfl)
  have hv : ∀ c : Int, (refTOf false S.clock tr).value c = refTime S.clock tr := by
    intro c; cases tr <;> simp [refTOf, refTime, RefT.value]
  unfold readLin
  rw [q1, q2, q3, q4, q5, r1, r2, r3, r4, r5]
  simp only [hv, linearize]

/-- the cases of `nls_history` cover every history: either there was no `set_refpoint` attempt at all, or there is a last one -/
theorem nls_history_complete (evs : List (NEv ℝ)) :
    (∀ e ∈ evs, e.isRef = false) ∨
    ∃ pre e post, evs = pre ++ e :: post ∧ e.isRef = true ∧ ∀ e' ∈ post, e'.isRef = false := by
  induction evs with
  | nil => left; simp
  | cons e es ih =>
    rcases ih with h | ⟨pre, e', post, rfl, hv, hp⟩
    · cases hs : e.isRef with
      | false => left; intro e' he'; rcases List.mem_cons.1 he' with rfl | h' <;> [exact hs; exact h e' h']
      | true => right; exact ⟨[], e, es, rfl, hs, h⟩
    · right; exact ⟨e :: pre, e', post, rfl, hv, hp⟩

/-- before any `set_refpoint` attempt, whatever else happened, reading `A … c2` raises (no reference point) -/
theorem nls_read_without_refpoint (pf : Bool) (fs gs : List Fn) (c : Int) (evs : List (NEv ℝ))
    (h : ∀ e ∈ evs, e.isRef = false) : readLin fs gs (runN false false pf fs gs (NState.init c) evs) = none := by
  obtain ⟨q1, _, _, _, _, _⟩ := runN_nonref false false pf fs gs evs (NState.init c) h (Or.inl rfl)
  unfold readLin
  rw [q1]; rfl

/-- `set_refpoint` succeeds exactly when both the state and the input can be resolved (given, or a `forward` happened) -/
theorem nls_refpoint_success_iff (al ax pf : Bool) (fs gs : List Fn) (S : NState ℝ) (x? u? : Option (DVec ℝ)) (tr : TRef ℝ) :
    (stepN al ax pf fs gs S (.refpoint x? u? tr)).2 = .done ↔
      (orLast x? (S.last.map Prod.fst)).isSome ∧ (orLast u? (S.last.map Prod.snd)).isSome := by
  simp only [stepN, setRefpoint]
  cases orLast x? (S.last.map Prod.fst) <;> cases orLast u? (S.last.map Prod.snd) <;> simp

/-- **Every forward of every history**: after any events `pre` (calls, raising calls, `set_refpoint`s, resets, assignments,
in-place updates), a call returns `f(x, u, t)`, `g(x, u, t)` with `t` the clock-machine time of that history (so by
`clock_history`: the last set value plus the completed calls since). -/
theorem nls_forward_history (al ax pf : Bool) (fs gs : List Fn) (S0 : NState ℝ) (pre : List (NEv ℝ)) (x u : DVec ℝ) :
    (stepN al ax pf fs gs (runN al ax pf fs gs S0 pre) (.call x u)).2 =
      .outputs (evalAll fs (mkEnv x u ((runClock .nls S0.clock (pre.map NEv.toEv) : Int) : ℝ)))
               (evalAll gs (mkEnv x u ((runClock .nls S0.clock (pre.map NEv.toEv) : Int) : ℝ))) := by
  simp [stepN, nls_clock]

/-- **The time handed to `f`, `g` is the clock itself, exactly** — an integer, whatever its size and whatever the dtype of
the state: for every history there is an integer `n` (the clock-machine time, `clock_history`) such that the forward
returns `f(x, u, n)`, `g(x, u, n)` and the time variable of the user's functions reads exactly `n`. -/
theorem forward_time_exact (al ax pf : Bool) (fs gs : List Fn) (S0 : NState ℝ) (pre : List (NEv ℝ)) (x u : DVec ℝ) :
    ∃ n : Int, n = runClock .nls S0.clock (pre.map NEv.toEv) ∧
      (stepN al ax pf fs gs (runN al ax pf fs gs S0 pre) (.call x u)).2
        = .outputs (evalAll fs (mkEnv x u (n : ℝ))) (evalAll gs (mkEnv x u (n : ℝ))) ∧
      mkEnv x u ((n : Int) : ℝ) (x.length + u.length) = (n : ℝ) :=
  ⟨_, rfl, nls_forward_history al ax pf fs gs S0 pre x u, mkEnv_time x u _⟩

/-- different clock values are different times for `f`, `g` (no two integer times are merged, however large) -/
theorem forward_time_injective (a b : Int) : (ofInt a : ℝ) = ofInt b ↔ a = b := by
  simp

/-- e.g. `f = t − 16777216` (exact integer arithmetic on the time stamp) tells `2^24` and `2^24 + 1` apart -/
example : (Fn.sub (.var 2) (.const false 16777216 1)).eval (mkEnv [(0 : ℝ)] [(0 : ℝ)] (ofInt 16777217)) = 1 ∧
    (Fn.sub (.var 2) (.const false 16777216 1)).eval (mkEnv [(0 : ℝ)] [(0 : ℝ)] (ofInt 16777216)) = 0 := by
  constructor
  · simp [Fn.eval, mkEnv]; norm_num
  · simp [Fn.eval, mkEnv]

/-- a `set_refpoint` that cannot resolve its arguments (no `forward` yet) raises -/
theorem nls_refpoint_raises (al ax pf : Bool) (fs gs : List Fn) (c : Int) (u? : Option (DVec ℝ)) (tr : TRef ℝ) :
    ∃ S, stepN al ax pf fs gs (NState.init c) (.refpoint none u? tr) = (S, .raised) := by
  simp [stepN, setRefpoint, NState.init, orLast]

/-- **Second-order error of the first-order expansion**, for every expression tree `e`, every point `p`
and every finite set `vs` of variables: there are constants `K, M` with
`|e(p + d) − e(p) − Σ_v ∂_v e(p)·d_v| ≤ K·|d|²` for all perturbations `d` of the variables in `vs`
with `|d| = Σ_v |d_v| ≤ 1` (and the linear part is bounded by `M·|d|`). -/
theorem second_order (vs : Finset ℕ) (p : ℕ → ℝ) (e : Fn) :
    ∃ K M : ℝ, 0 ≤ K ∧ 0 ≤ M ∧ ∀ d : ℕ → ℝ, (∀ i, i ∉ vs → d i = 0) → nrm vs d ≤ 1 →
      |∑ v ∈ vs, (e.D v).eval p * d v| ≤ M * nrm vs d ∧
      |e.eval (fun i => p i + d i) - e.eval p - ∑ v ∈ vs, (e.D v).eval p * d v| ≤ K * nrm vs d ^ 2 :=
  SO_Fn vs p e

/-- **The affine model's error is second order in the distance from the reference point**: for every
component `i` of `f` there is `K` such that for all `(x', u')` (same dimensions) at distance
`δ = Σ|x'_j − x*_j| + Σ|u'_j − u*_j| ≤ 1`:  `|(A x' + B u' + c1)_i − f_i(x', u', t*)| ≤ K δ²`. -/
theorem nls_second_order (fs gs : List Fn) (x u : DVec ℝ) (t : ℝ) (i : ℕ) (hi : i < fs.length) :
    ∃ K : ℝ, 0 ≤ K ∧ ∀ x' u' : DVec ℝ, x'.length = x.length → u'.length = u.length →
      dist1 x u t x' u' ≤ 1 →
      |((linearize fs gs x u t).predict x' u').1.getD i 0 - (fs[i]).eval (mkEnv x' u' t)|
        ≤ K * dist1 x u t x' u' ^ 2 := by
  obtain ⟨K, M, hK, _, H⟩ := SO_Fn (Finset.range (x.length + u.length)) (mkEnv x u t) fs[i]
  refine ⟨K, hK, fun x' u' hx hu hd => ?_⟩
  have h2 := (H _ (mkEnv_diff_support x u t x' u' hx hu) hd).2
  have e : (fun j => mkEnv x u t j + (mkEnv x' u' t j - mkEnv x u t j)) = mkEnv x' u' t := by
    funext j; ring
  rw [e] at h2
  rw [predict_component fs gs x u t x' u' hx hu i hi, abs_sub_comm]
  have e2 : ∀ a b c : ℝ, a - (b + c) = a - b - c := fun a b c => by ring
  rw [e2]
  exact h2

/-- **Second-order expansion with explicit constants.** For every tree `e`, every point `p` and perturbation `d` of the
variables in `vs`, every box `ea` containing `p` and `p + d` and every bound `da` of `|d|`: the computable triple
`(m0, l, r) = e.bnd ea da` (model, executable) bounds the values, the first-order part and the remainder:
`|e(p+d) − e(p) − Σ_v ∂_v e(p)·d_v| ≤ r`. `r` is assembled like half a bound of the second directional derivative
(`r(ab) = r_a|b| + |a|r_b + l_a l_b + l_a r_b`, `r(sin a) = r(cos a) = r_a + (l_a + r_a)²/2`, sharp Taylor constant ½). -/
theorem second_order_explicit (vs : Finset ℕ) (p d ea da : ℕ → ℝ) (hp : ∀ i, |p i| ≤ ea i)
    (hq : ∀ i, |p i + d i| ≤ ea i) (hd : ∀ i, |d i| ≤ da i) (hs : ∀ i, i ∉ vs → d i = 0) (e : Fn) :
    |e.eval p| ≤ (e.bnd ea da).m0 ∧ |e.eval (fun i => p i + d i)| ≤ (e.bnd ea da).m0 ∧
    |∑ v ∈ vs, (e.D v).eval p * d v| ≤ (e.bnd ea da).l ∧
    |e.eval (fun i => p i + d i) - e.eval p - ∑ v ∈ vs, (e.D v).eval p * d v| ≤ (e.bnd ea da).r :=
  SOB_Fn vs p d ea da hp hq hd hs e

/-- … and the constants are second order: scaling the perturbation bound by `0 ≤ h ≤ 1` scales the first-order bound by
`h` and the remainder bound by at most `h²` (same box). -/
theorem bnd_scale (ea da : ℕ → ℝ) (he : ∀ i, 0 ≤ ea i) (hd : ∀ i, 0 ≤ da i) (h : ℝ) (h0 : 0 ≤ h) (h1 : h ≤ 1) (e : Fn) :
    (e.bnd ea (fun i => h * da i)).m0 = (e.bnd ea da).m0 ∧ (e.bnd ea (fun i => h * da i)).l = h * (e.bnd ea da).l ∧
    (e.bnd ea (fun i => h * da i)).r ≤ h ^ 2 * (e.bnd ea da).r ∧ 0 ≤ (e.bnd ea da).r := by
  obtain ⟨a1, a2, _, a4, _, _, a7⟩ := bnd_scale' ea da he hd h h0 h1 e
  exact ⟨a1, a2, a4, a7⟩

/-- **The affine model's error with an explicit constant.** Reference point `(x, u, t)`, any `(x', u')` of the same
dimensions, any box `ea` containing both points and any direction bound `da` with `|(x',u') − (x,u)| ≤ h·da` componentwise,
`0 ≤ h ≤ 1`: for every component `i` of `f`
`|(A x' + B u' + c1)_i − f_i(x', u', t)| ≤ h² · K`,  `K = (f_i.bnd ea da).r` — computable from the tree, the box and the
direction (the driver op `c15.bnd` evaluates it; the harness uses it as the bound of its second-order oracle). -/
theorem nls_second_order_explicit (fs gs : List Fn) (x u : DVec ℝ) (t : ℝ) (i : ℕ) (hi : i < fs.length)
    (x' u' : DVec ℝ) (hx : x'.length = x.length) (hu : u'.length = u.length) (ea da : ℕ → ℝ) (h : ℝ)
    (h0 : 0 ≤ h) (h1 : h ≤ 1) (hda : ∀ j, 0 ≤ da j)
    (hp : ∀ j, |mkEnv x u t j| ≤ ea j) (hq : ∀ j, |mkEnv x' u' t j| ≤ ea j)
    (hd : ∀ j, |mkEnv x' u' t j - mkEnv x u t j| ≤ h * da j) :
    |((linearize fs gs x u t).predict x' u').1.getD i 0 - (fs[i]).eval (mkEnv x' u' t)|
      ≤ h ^ 2 * ((fs[i]).bnd ea da).r := by
  have he : ∀ j, 0 ≤ ea j := fun j => (abs_nonneg _).trans (hp j)
  have e : (fun j => mkEnv x u t j + (mkEnv x' u' t j - mkEnv x u t j)) = mkEnv x' u' t := by funext j; ring
  have H := SOB_Fn (Finset.range (x.length + u.length)) (mkEnv x u t) (fun j => mkEnv x' u' t j - mkEnv x u t j) ea
    (fun j => h * da j) hp (by intro j; rw [show mkEnv x u t j + (mkEnv x' u' t j - mkEnv x u t j) = mkEnv x' u' t j by ring]; exact hq j)
    hd (mkEnv_diff_support x u t x' u' hx hu) fs[i]
  obtain ⟨_, _, _, h4⟩ := H
  rw [e] at h4
  obtain ⟨_, _, _, a4, _, _, _⟩ := bnd_scale' ea da he hda h h0 h1 fs[i]
  rw [predict_component fs gs x u t x' u' hx hu i hi, abs_sub_comm]
  have e2 : ∀ a b c : ℝ, a - (b + c) = a - b - c := fun a b c => by ring
  rw [e2]
  exact h4.trans a4

/-! ## 5. Historical (before fix D32): `_ref_t` could be the clock buffer itself (`aliasT = true`) -/

/-- what the code returns after a successful `set_refpoint` and any later non-`set_refpoint` events:
the Jacobians are taken at the reference state and input but at `_ref_t`, which is the *current* clock
when `t` was `None` (or the caller passed `sys.systime`), while `_ref_f`, `_ref_g` are frozen at the
clock of the `set_refpoint` call. -/
theorem nls_history_alias (fs gs : List Fn) (S0 : NState ℝ) (pre post : List (NEv ℝ))
    (x? u? : Option (DVec ℝ)) (tr : TRef ℝ) (x u : DVec ℝ)
    (hx : orLast x? ((runN true false false fs gs S0 pre).last.map Prod.fst) = some x)
    (hu : orLast u? ((runN true false false fs gs S0 pre).last.map Prod.snd) = some u)
    (hpost : ∀ e ∈ post, e.isRef = false) :
    let c0 := (runN true false false fs gs S0 pre).clock
    let cnow := runClock .nls c0 (post.map NEv.toEv)
    readLin fs gs (runN true false false fs gs S0 (pre ++ .refpoint x? u? tr :: post))
      = some (linAt fs gs x u ((refTOf true c0 tr).value cnow)
          (evalAll fs (mkEnv x u (refTime c0 tr))) (evalAll gs (mkEnv x u (refTime c0 tr)))) := by
  intro c0 cnow
  rw [runN_append, runN_cons]
  set S := runN true false false fs gs S0 pre with hS
  obtain ⟨r1, r2, r3, r4, r5, r6⟩ := setRefpoint_ok true false fs gs S x? u? tr x u hx hu
  have hstep : (stepN true false false fs gs S (.refpoint x? u? tr)).1 = (setRefpoint true fs gs S x? u? tr).1 := rfl
  rw [hstep]
  obtain ⟨q1, q2, q3, q4, q5, q6⟩ := runN_nonref true false false fs gs post (setRefpoint true fs gs S x? u? tr).1 hpost (Or.inl rfl)
  have hv : (refTOf true S.clock tr).value S.clock = refTime S.clock tr := by
    cases tr <;> simp [refTOf, refTime, RefT.value]
  unfold readLin
  rw [q1, q2, q3, q4, q5, q6, r1, r2, r3, r4, r5, r6]
  simp only [hv]
  rfl

/-- the code agrees with the documented linearisation when the reference time was given as a fresh
value, or when the clock has the same value as at `set_refpoint` time -/
theorem nls_history_alias_ok (fs gs : List Fn) (S0 : NState ℝ) (pre post : List (NEv ℝ))
    (x? u? : Option (DVec ℝ)) (tr : TRef ℝ) (x u : DVec ℝ)
    (hx : orLast x? ((runN true false false fs gs S0 pre).last.map Prod.fst) = some x)
    (hu : orLast u? ((runN true false false fs gs S0 pre).last.map Prod.snd) = some u)
    (hpost : ∀ e ∈ post, e.isRef = false)
    (hsafe : (∃ t, tr = .val t) ∨
      runClock .nls (runN true false false fs gs S0 pre).clock (post.map NEv.toEv) = (runN true false false fs gs S0 pre).clock) :
    readLin fs gs (runN true false false fs gs S0 (pre ++ .refpoint x? u? tr :: post))
      = some (linearize fs gs x u (refTime (runN true false false fs gs S0 pre).clock tr)) := by
  have h := nls_history_alias fs gs S0 pre post x? u? tr x u hx hu hpost
  simp only at h
  rw [h]
  have : (refTOf true (runN true false false fs gs S0 pre).clock tr).value
      (runClock .nls (runN true false false fs gs S0 pre).clock (post.map NEv.toEv))
      = refTime (runN true false false fs gs S0 pre).clock tr := by
    rcases hsafe with ⟨t, rfl⟩ | hc
    · simp [refTOf, refTime, RefT.value]
    · rw [hc]; cases tr <;> simp [refTOf, refTime, RefT.value]
  rw [this, linearize]

/-- even then `c1`, `c2` still make the affine model reproduce the frozen `f(x*,u*,t*)`, `g(x*,u*,t*)` -/
theorem linAt_reproduces (fs gs : List Fn) (x u : DVec ℝ) (t : ℝ) (f g : DVec ℝ)
    (hf : f.length = fs.length) (hg : g.length = gs.length) :
    (linAt fs gs x u t f g).predict x u = (f, g) := by
  unfold linAt Lin.predict
  simp only
  congr 1
  · apply add_sub_cancel_lists <;> simp [bmv_length, jac_length, hf]
  · apply add_sub_cancel_lists <;> simp [bmv_length, jac_length, hg]

/-- **Witness of the defect**: `f(x,u,t) = x·t`; `sys(1,0); sys.set_refpoint(); sys(1,0)`. The documented
reference time is 1 and `∂f/∂x = 1` there, but the code now reports `A = 2` (the Jacobian at the
current time) together with a `c1` computed from the frozen `f(x*,u*,1)`. -/
theorem alias_defect_witness :
    let fs := [Fn.mul (.var 0) (.var 2)]
    let gs := [Fn.var 0]
    let evs : List (NEv ℝ) := [.call [(1 : ℝ)] [(0 : ℝ)], .refpoint none none .default, .call [(1 : ℝ)] [(0 : ℝ)]]
    (readLin fs gs (runN true false false fs gs (NState.init 0 : NState ℝ) evs)).map (·.A) = some ([[(2 : ℝ)]] : DMat ℝ) ∧
    (readLin fs gs (runN false false false fs gs (NState.init 0 : NState ℝ) evs)).map (·.A) = some ([[(1 : ℝ)]] : DMat ℝ) ∧
    (linearize fs gs [(1 : ℝ)] [(0 : ℝ)] (1 : ℝ)).A = ([[(1 : ℝ)]] : DMat ℝ) := by
  refine ⟨?_, ?_, ?_⟩
  · simp [readLin, runN, stepN, setRefpoint, NState.init, orLast, refTOf, RefT.value, linAt, jac, mkEnv,
      Fn.D, Fn.eval, Fn.one, Fn.zero]
  · simp [readLin, runN, stepN, setRefpoint, NState.init, orLast, refTOf, RefT.value, linAt, jac, mkEnv,
      Fn.D, Fn.eval, Fn.one, Fn.zero]
  · simp [linearize, linAt, jac, mkEnv, Fn.D, Fn.eval, Fn.one, Fn.zero]

/-! ## 6. Historical (before fix D38): `_ref_state`, `_ref_input` were the caller's tensors (`aliasX = true`) -/

/-- the code before D38 agreed with the documented linearisation as long as the caller does not update, in place, a tensor it
handed to the system (no `poke` after `set_refpoint`) -/
theorem nls_history_code_ok (fs gs : List Fn) (S0 : NState ℝ) (pre post : List (NEv ℝ))
    (x? u? : Option (DVec ℝ)) (tr : TRef ℝ) (x u : DVec ℝ)
    (hx : orLast x? ((runN false true false fs gs S0 pre).last.map Prod.fst) = some x)
    (hu : orLast u? ((runN false true false fs gs S0 pre).last.map Prod.snd) = some u)
    (hpost : ∀ e ∈ post, e.isRef = false) (hpoke : ∀ e ∈ post, e.isPoke = false) :
    readLin fs gs (runN false true false fs gs S0 (pre ++ .refpoint x? u? tr :: post))
      = some (linearize fs gs x u (refTime (runN false true false fs gs S0 pre).clock tr)) := by
  rw [runN_append, runN_cons]
  set S := runN false true false fs gs S0 pre with hS
  obtain ⟨r1, r2, r3, r4, r5, _⟩ := setRefpoint_ok false false fs gs S x? u? tr x u hx hu
  have hstep : (stepN false true false fs gs S (.refpoint x? u? tr)).1 = (setRefpoint false fs gs S x? u? tr).1 := rfl
  rw [hstep]
  obtain ⟨q1, q2, q3, q4, q5, _⟩ := runN_nonref false true false fs gs post (setRefpoint false fs gs S x? u? tr).1 hpost
    (Or.inr hpoke)
  have hv : ∀ c : Int, (refTOf false S.clock tr).value c = refTime S.clock tr := by
    intro c; cases tr <;> simp [refTOf, refTime, RefT.value]
  unfold readLin
  rw [q1, q2, q3, q4, q5, r1, r2, r3, r4, r5]
  simp only [hv, linearize]

/-- **Witness of the second aliasing defect**: `f(x,u,t) = x²`; `sys.set_refpoint(x, u, t)` with `x = 1`, then the
caller re-uses its tensor: `x.add_(2)`. Documented: the reference point stays `x* = 1`, `A = 2`. The code now reports
`A = 6` (Jacobian at the tensor's new content) with `c1 = f(1) − 6·3 = −17`, so `A·3 + c1 = 1 = f(1) ≠ f(3) = 9`: the
affine model is exact at neither point. -/
theorem alias_state_defect_witness :
    let fs := [Fn.pow (.var 0) 2]
    let gs := [Fn.var 0]
    let evs : List (NEv ℝ) := [.refpoint (some [(1 : ℝ)]) (some [(0 : ℝ)]) (.val 0), .poke .refX [(3 : ℝ)]]
    (readLin fs gs (runN false true false fs gs (NState.init 0 : NState ℝ) evs)).map (fun L => (L.A, L.c1))
        = some (([[(6 : ℝ)]] : DMat ℝ), ([(-17 : ℝ)] : DVec ℝ)) ∧
    (readLin fs gs (runN false false false fs gs (NState.init 0 : NState ℝ) evs)).map (fun L => (L.A, L.c1))
        = some (([[(2 : ℝ)]] : DMat ℝ), ([(-1 : ℝ)] : DVec ℝ)) := by
  refine ⟨?_, ?_⟩
  · simp [readLin, runN, stepN, pokeN, setSome, setRefpoint, NState.init, orLast, refTOf, RefT.value, linAt, jac,
      mkEnv, Fn.D, Fn.eval, Fn.one, Fn.zero, npow, evalAll, bmv, DMat.mulVec, DVec.sub, dot_real]
    norm_num
  · simp [readLin, runN, stepN, pokeN, setRefpoint, NState.init, orLast, refTOf, RefT.value, linAt, jac,
      mkEnv, Fn.D, Fn.eval, Fn.one, Fn.zero, npow, evalAll, bmv, DMat.mulVec, DVec.sub, dot_real]
    norm_num

/-! ## 7. Statelessness (object re-use) -/

/-- an LTI object has no memory: whatever happened before (any clock value), the same `(x, u)` gives the same outputs -/
theorem lti_history_independent (S : LinSys ℝ) (h : S.kind = .lti) (c c' : Int) (x u : DVec ℝ) :
    linForward S c x u = linForward S c' x u := by
  simp [linForward, sliceIdx, h]

/-- the outputs of an NLS call depend on `(x, u)` and the clock only — not on earlier calls, on the reference point,
or on which semantics of the reference point is in force -/
theorem nls_call_history_independent (al ax pf al' ax' pf' : Bool) (fs gs : List Fn) (S S' : NState ℝ) (h : S.clock = S'.clock)
    (x u : DVec ℝ) : (stepN al ax pf fs gs S (.call x u)).2 = (stepN al' ax' pf' fs gs S' (.call x u)).2 := by
  simp [stepN, h]

/-- reading `A … c2` does not depend on how many calls (with whatever arguments) were made since `set_refpoint`
(documented semantics: `_ref_t` is the system's own copy, which `set_refpoint` always produces) -/
theorem nls_read_unchanged_by_calls (fs gs : List Fn) (S : NState ℝ) (t : ℝ) (hr : S.reft = some (.own t))
    (xus : List (DVec ℝ × DVec ℝ)) :
    readLin fs gs (runN false false false fs gs S (xus.map fun xu => .call xu.1 xu.2)) = readLin fs gs S := by
  obtain ⟨q1, q2, q3, q4, q5, _⟩ := runN_nonref false false false fs gs (xus.map fun xu => NEv.call xu.1 xu.2) S
    (by intro e he; simp only [List.mem_map] at he; obtain ⟨_, _, rfl⟩ := he; rfl) (Or.inl rfl)
  unfold readLin
  rw [q1, q2, q3, q4, q5, hr]
  cases S.refx <;> cases S.refu <;> cases S.reff <;> cases S.refg <;> simp [RefT.value]

/-! ## 8. Error paths (an observation outside the property: its histories contain no raising calls) -/

/-- what atomic error paths (`partialF = false`, *not* the code) would give: a call that raises leaves the object as it was: a `forward` whose user
function raises, a `set_refpoint` that cannot resolve its arguments, a `set_refpoint` whose user function raises. -/
theorem nls_failed_call_atomic (al ax : Bool) (fs gs : List Fn) (S : NState ℝ) (e : NEv ℝ)
    (h : (stepN al ax false fs gs S e).2 = .raised) : (stepN al ax false fs gs S e).1 = S := by
  cases e with
  | call x u => simp [stepN] at h
  | reset t => simp [stepN] at h
  | assign t => simp [stepN] at h
  | poke tgt v => simp [stepN] at h
  | callRaise x u => simp [stepN]
  | refpoint x? u? tr =>
    simp only [stepN, setRefpoint] at h ⊢
    cases hx : orLast x? (S.last.map Prod.fst) with
    | none => simp
    | some x =>
      cases hu : orLast u? (S.last.map Prod.snd) with
      | none => simp
      | some u => simp [hx, hu] at h
  | refRaise x? u? tr =>
    simp only [stepN, setRefpoint]
    cases orLast x? (S.last.map Prod.fst) <;> simp
    cases orLast u? (S.last.map Prod.snd) <;> simp

/-- … hence continuing after the exception gives the result of the history without the failed call -/
theorem nls_history_without_failed_call (al ax : Bool) (fs gs : List Fn) (S0 : NState ℝ) (pre post : List (NEv ℝ))
    (e : NEv ℝ) (h : (stepN al ax false fs gs (runN al ax false fs gs S0 pre) e).2 = .raised) :
    runN al ax false fs gs S0 (pre ++ e :: post) = runN al ax false fs gs S0 (pre ++ post) := by
  rw [runN_append, runN_cons, nls_failed_call_atomic al ax fs gs _ e h, ← runN_append]

/-- witness that the code (`partialF = true`) is not atomic: `f = x²`; `set_refpoint(1, 0, 0)`; then
`set_refpoint(state=3)` before any `forward` raises (no `self.input`) — but `_ref_state` is already overwritten: the
matrices now read `A = 6`, `c1 = −17` although the last successful reference point is `x* = 1` (`A = 2`, `c1 = −1`). -/
theorem partial_update_defect_witness :
    let fs := [Fn.pow (.var 0) 2]
    let gs := [Fn.var 0]
    let evs : List (NEv ℝ) := [.refpoint (some [(1 : ℝ)]) (some [(0 : ℝ)]) (.val 0), .refpoint (some [(3 : ℝ)]) none (.val 0)]
    (readLin fs gs (runN false false true fs gs (NState.init 0 : NState ℝ) evs)).map (fun L => (L.A, L.c1))
        = some (([[(6 : ℝ)]] : DMat ℝ), ([(-17 : ℝ)] : DVec ℝ)) ∧
    (readLin fs gs (runN false false false fs gs (NState.init 0 : NState ℝ) evs)).map (fun L => (L.A, L.c1))
        = some (([[(2 : ℝ)]] : DMat ℝ), ([(-1 : ℝ)] : DVec ℝ)) := by
  refine ⟨?_, ?_⟩
  · simp [readLin, runN, stepN, setRefpoint, NState.init, orLast, refTOf, RefT.value, linAt, jac,
      mkEnv, Fn.D, Fn.eval, Fn.one, Fn.zero, npow, evalAll, bmv, DMat.mulVec, DVec.sub, dot_real]
    norm_num
  · simp [readLin, runN, stepN, setRefpoint, NState.init, orLast, refTOf, RefT.value, linAt, jac,
      mkEnv, Fn.D, Fn.eval, Fn.one, Fn.zero, npow, evalAll, bmv, DMat.mulVec, DVec.sub, dot_real]
    norm_num

/-! ## non-vacuity -/

/-- `nls_history`'s hypotheses are satisfiable with a non-trivial history -/
example : readLin [Fn.mul (.var 0) (.var 2)] [Fn.var 0]
    (runN false false false [Fn.mul (.var 0) (.var 2)] [Fn.var 0] (NState.init 0 : NState ℝ)
      ([.call [(1 : ℝ)] [(0 : ℝ)]] ++ .refpoint none none .default :: [.call [(1 : ℝ)] [(0 : ℝ)], .reset ⟨7, 1⟩]))
    = some (linearize [Fn.mul (.var 0) (.var 2)] [Fn.var 0] [(1 : ℝ)] [(0 : ℝ)]
        (refTime (runN false false false [Fn.mul (.var 0) (.var 2)] [Fn.var 0] (NState.init 0 : NState ℝ)
          [.call [(1 : ℝ)] [(0 : ℝ)]]).clock .default)) :=
  nls_history false [Fn.mul (.var 0) (.var 2)] [Fn.var 0] (NState.init 0) [.call [(1 : ℝ)] [(0 : ℝ)]]
    [.call [(1 : ℝ)] [(0 : ℝ)], .reset ⟨7, 1⟩] none none .default [(1 : ℝ)] [(0 : ℝ)]
    (by simp [runN, stepN, NState.init, orLast]) (by simp [runN, stepN, NState.init, orLast])
    (by simp [NEv.isRef])

/-- `clock_history` on a concrete history -/
example : runClock .ltv 3 ([.call, .reset ⟨9, 1⟩] ++ .refpoint (some ⟨5, 2⟩) :: [.call, .callRaise, .call]) = 4 := by
  rw [clock_history .ltv 3 _ _ _ 2 (by decide) (by decide)]; decide

/-- explicit constants on a concrete tree: `e = sin(x₀·x₁)` on the box `|x| ≤ 2`, perturbation bound `(1/2, 1/4)` -/
example : ((Fn.sin (.mul (.var 0) (.var 1))).bnd (fun _ => (2 : ℝ)) (fun i => if i = 0 then 1 / 2 else 1 / 4)).r
    = 1 / 8 + (3 / 2 + 1 / 8) * (3 / 2 + 1 / 8) / 2 := by
  simp [Fn.bnd, Bnd.trig, Bnd.mul]; norm_num

/-- second-order bound: non-trivial instance (`e = sin(x₀·x₁)`, two variables) -/
example : ∃ K M : ℝ, 0 ≤ K ∧ 0 ≤ M ∧ ∀ d : ℕ → ℝ, (∀ i, i ∉ Finset.range 2 → d i = 0) →
    nrm (Finset.range 2) d ≤ 1 →
      |∑ v ∈ Finset.range 2, ((Fn.sin (.mul (.var 0) (.var 1))).D v).eval (fun _ => 1) * d v|
        ≤ M * nrm (Finset.range 2) d ∧
      |(Fn.sin (.mul (.var 0) (.var 1))).eval (fun i => 1 + d i) - (Fn.sin (.mul (.var 0) (.var 1))).eval (fun _ => 1)
        - ∑ v ∈ Finset.range 2, ((Fn.sin (.mul (.var 0) (.var 1))).D v).eval (fun _ => 1) * d v|
        ≤ K * nrm (Finset.range 2) d ^ 2 :=
  second_order (Finset.range 2) (fun _ => 1) _

end PP.Dyn
