import Pose.Model.Batch
import Pose.Gen.Handled
import Pose.Gen.LTypes
/-!
# Helper lemmas for C06 (row-major indexing, broadcasting projections). Core Lean only.
-/
namespace PP.Batch

theorem inb_length : ∀ {s : Shape} {i : List Nat}, inb s i → i.length = s.length
  | [], [], _ => rfl
  | [], _ :: _, h => by simp [inb] at h
  | _ :: _, [], h => by simp [inb] at h
  | _ :: s, _ :: is, h => by
    simp only [inb] at h
    simp [inb_length h.2]

/-- pointwise characterisation of `inb` -/
theorem inb_iff : ∀ {s : Shape} {i : List Nat},
    inb s i ↔ i.length = s.length ∧ ∀ k, k < s.length → i.getD k 0 < s.getD k 0
  | [], [] => by simp [inb]
  | [], _ :: _ => by simp [inb]
  | _ :: _, [] => by simp [inb]
  | n :: s, j :: is => by
    simp only [inb, List.length_cons]
    rw [inb_iff (s := s) (i := is)]
    constructor
    · rintro ⟨h0, hl, hk⟩
      refine ⟨by omega, ?_⟩
      intro k hk'
      cases k with
      | zero => simpa using h0
      | succ k => simpa using hk k (by omega)
    · rintro ⟨hl, hk⟩
      refine ⟨by simpa using hk 0 (by omega), by omega, ?_⟩
      intro k hk'
      simpa using hk (k + 1) (by omega)

theorem numel_pos_of_inb : ∀ {s : Shape} {i : List Nat}, inb s i → 0 < numel s
  | [], [], _ => by simp [numel]
  | [], _ :: _, h => by simp [inb] at h
  | _ :: _, [], h => by simp [inb] at h
  | n :: s, j :: is, h => by
    simp only [inb] at h
    simp only [numel]
    exact Nat.mul_pos (by omega) (numel_pos_of_inb h.2)

theorem ravel_lt : ∀ {s : Shape} {i : List Nat}, inb s i → ravel s i < numel s
  | [], [], _ => by simp [ravel, numel]
  | [], _ :: _, h => by simp [inb] at h
  | _ :: _, [], h => by simp [inb] at h
  | n :: s, j :: is, h => by
    simp only [inb] at h
    simp only [ravel, numel]
    have h2 := ravel_lt h.2
    calc j * numel s + ravel s is < j * numel s + numel s := by omega
      _ = (j + 1) * numel s := by rw [Nat.add_mul, Nat.one_mul]
      _ ≤ n * numel s := Nat.mul_le_mul_right _ (by omega)

theorem unravel_inb : ∀ {s : Shape} {k : Nat}, k < numel s → inb s (unravel s k)
  | [], _, _ => by simp [unravel, inb]
  | n :: s, k, h => by
    simp only [numel] at h
    simp only [unravel, inb]
    have hpos : 0 < numel s := by
      rcases Nat.eq_zero_or_pos (numel s) with h0 | h0
      · rw [h0] at h; omega
      · exact h0
    refine ⟨?_, unravel_inb (Nat.mod_lt _ hpos)⟩
    exact Nat.div_lt_of_lt_mul (by rw [Nat.mul_comm]; exact h)

/-- **unravel ∘ ravel = id** on valid multi-indices -/
theorem unravel_ravel' : ∀ {s : Shape} {i : List Nat}, inb s i → unravel s (ravel s i) = i
  | [], [], _ => by simp [unravel]
  | [], _ :: _, h => by simp [inb] at h
  | _ :: _, [], h => by simp [inb] at h
  | n :: s, j :: is, h => by
    simp only [inb] at h
    have hr := ravel_lt h.2
    have hpos : 0 < numel s := by omega
    simp only [ravel, unravel]
    have e1 : (j * numel s + ravel s is) / numel s = j := by
      rw [Nat.add_comm, Nat.add_mul_div_right _ _ hpos, Nat.div_eq_of_lt hr]; omega
    have e2 : (j * numel s + ravel s is) % numel s = ravel s is := by
      rw [Nat.add_comm, Nat.add_mul_mod_self_right]; exact Nat.mod_eq_of_lt hr
    rw [e1, e2, unravel_ravel' h.2]

/-- **ravel ∘ unravel = id** on valid flat indices -/
theorem ravel_unravel' : ∀ {s : Shape} {k : Nat}, k < numel s → ravel s (unravel s k) = k
  | [], k, h => by simp [numel] at h; simp [ravel, h]
  | n :: s, k, h => by
    simp only [numel] at h
    have hpos : 0 < numel s := by
      rcases Nat.eq_zero_or_pos (numel s) with h0 | h0
      · rw [h0] at h; omega
      · exact h0
    simp only [unravel, ravel]
    rw [ravel_unravel' (Nat.mod_lt _ hpos)]
    have := Nat.div_add_mod k (numel s)
    rw [Nat.mul_comm] at this
    exact this

/-! ### broadcasting -/

theorem bdim_some {a b d : Nat} (h : bdim a b = some d) :
    (a = d ∨ a = 1) ∧ (b = d ∨ b = 1) ∧ (d = a ∨ d = b) := by
  unfold bdim at h
  split at h
  · simp at h; omega
  · split at h
    · simp at h; omega
    · split at h
      · simp at h; omega
      · simp at h

theorem bdim_comm (a b : Nat) : bdim a b = bdim b a := by
  unfold bdim
  by_cases h1 : a = b
  · subst h1; rfl
  · have h1' : ¬ b = a := fun h => h1 h.symm
    simp only [h1, h1', if_false]
    by_cases ha : a = 1 <;> by_cases hb : b = 1 <;> simp [ha, hb]

theorem bzip_length : ∀ {p q r : Shape}, bzip p q = some r → r.length = p.length ∧ r.length = q.length
  | [], [], r, h => by simp [bzip] at h; subst h; simp
  | [], _ :: _, _, h => by simp [bzip] at h
  | _ :: _, [], _, h => by simp [bzip] at h
  | a :: as, b :: bs, r, h => by
    simp only [bzip] at h
    split at h
    · rename_i d r' hd hr
      simp at h; subst h
      have := bzip_length hr
      simp [this.1.symm, this.2.symm]
    · simp at h

theorem bzip_comm : ∀ (p q : Shape), bzip p q = bzip q p
  | [], [] => rfl
  | [], _ :: _ => rfl
  | _ :: _, [] => rfl
  | a :: as, b :: bs => by
    simp only [bzip]
    rw [bdim_comm a b, bzip_comm as bs]

theorem bzip_spec : ∀ {p q r : Shape}, bzip p q = some r → ∀ k, k < r.length →
      (p.getD k 0 = r.getD k 0 ∨ p.getD k 0 = 1) ∧ (q.getD k 0 = r.getD k 0 ∨ q.getD k 0 = 1) ∧
      (r.getD k 0 = p.getD k 0 ∨ r.getD k 0 = q.getD k 0)
  | [], [], r, h => by simp [bzip] at h; subst h; simp
  | [], _ :: _, _, h => by simp [bzip] at h
  | _ :: _, [], _, h => by simp [bzip] at h
  | a :: as, b :: bs, r, h => by
    simp only [bzip] at h
    split at h
    · rename_i d r' hd hr
      simp at h; subst h
      intro k hk
      cases k with
      | zero => simpa using bdim_some hd
      | succ k => simpa using bzip_spec hr k (by simpa using hk)
    · simp at h

theorem padTo_length {n : Nat} {s : Shape} (h : s.length ≤ n) : (padTo n s).length = n := by
  simp [padTo]; omega

theorem padTo_self (s : Shape) : padTo s.length s = s := by simp [padTo]

/-- validity of the equal-rank projection -/
theorem projEq_inb : ∀ {p q r : Shape} {i : List Nat}, bzip p q = some r → inb r i → inb p (projEq p i)
  | [], [], r, i, h, hi => by
    simp [bzip] at h; subst h
    cases i with
    | nil => simp [projEq, inb]
    | cons _ _ => simp [inb] at hi
  | [], _ :: _, _, _, h, _ => by simp [bzip] at h
  | _ :: _, [], _, _, h, _ => by simp [bzip] at h
  | a :: as, b :: bs, r, i, h, hi => by
    simp only [bzip] at h
    split at h
    · rename_i d r' hd hr
      simp at h; subst h
      cases i with
      | nil => simp [inb] at hi
      | cons j is =>
        simp only [inb] at hi
        simp only [projEq, inb]
        refine ⟨?_, projEq_inb hr hi.2⟩
        have := bdim_some hd
        by_cases ha : a = 1
        · simp [ha]
        · simp only [ha, if_false]; omega
    · simp at h

theorem projEq_replicate_one : ∀ (m : Nat) (s : Shape) (i : List Nat), m ≤ i.length →
    projEq (List.replicate m 1 ++ s) i = List.replicate m 0 ++ projEq s (i.drop m)
  | 0, s, i, _ => by simp
  | m + 1, s, [], h => by simp at h
  | m + 1, s, j :: is, h => by
    simp only [List.length_cons] at h
    simp only [List.replicate_succ, List.cons_append, projEq, List.drop_succ_cons, if_true]
    rw [projEq_replicate_one m s is (by omega)]

theorem inb_replicate_drop : ∀ (m : Nat) (s : Shape) (i : List Nat), inb (List.replicate m 1 ++ s) i →
    inb s (i.drop m)
  | 0, s, i, h => by simpa using h
  | m + 1, s, [], h => by simp [List.replicate_succ, inb] at h
  | m + 1, s, j :: is, h => by
    simp only [List.replicate_succ, List.cons_append, inb] at h
    simpa using inb_replicate_drop m s is h.2

theorem inb_of_replicate_zero : ∀ (m : Nat) (s : Shape) (j : List Nat),
    inb (List.replicate m 1 ++ s) (List.replicate m 0 ++ j) → inb s j
  | 0, s, j, h => by simpa using h
  | m + 1, s, j, h => by
    simp only [List.replicate_succ, List.cons_append, inb] at h
    exact inb_of_replicate_zero m s j h.2

/-- **The broadcasting projection lands on a real item of the operand.** -/
theorem proj_inb_left {a b out : Shape} {i : List Nat} (h : broadcastShapes a b = some out) (hi : inb out i) :
    inb a (proj a i) := by
  unfold broadcastShapes at h
  simp only at h
  have hla : a.length ≤ max a.length b.length := Nat.le_max_left _ _
  have hlen := bzip_length h
  rw [padTo_length hla] at hlen
  have hil := inb_length hi
  have h1 := projEq_inb h hi
  unfold padTo at h1
  rw [projEq_replicate_one _ _ _ (by omega)] at h1
  have h2 := inb_of_replicate_zero _ _ _ h1
  unfold proj
  have e : i.length - a.length = max a.length b.length - a.length := by omega
  rw [e]; exact h2

theorem broadcastShapes_comm (a b : Shape) : broadcastShapes a b = broadcastShapes b a := by
  unfold broadcastShapes
  simp only [Nat.max_comm a.length b.length]
  exact bzip_comm _ _

theorem proj_inb_right {a b out : Shape} {i : List Nat} (h : broadcastShapes a b = some out) (hi : inb out i) :
    inb b (proj b i) := by
  rw [broadcastShapes_comm] at h
  exact proj_inb_left h hi

theorem bdim_self (a : Nat) : bdim a a = some a := by simp [bdim]

theorem bzip_self : ∀ (s : Shape), bzip s s = some s
  | [] => rfl
  | a :: s => by simp [bzip, bdim_self, bzip_self s]

theorem bdim_of_spec {a b d : Nat} (ha : a = d ∨ a = 1) (hb : b = d ∨ b = 1) (hd : d = a ∨ d = b) : bdim a b = some d := by
  unfold bdim
  rcases ha with rfl | rfl <;> rcases hb with rfl | rfl
  · simp
  · by_cases h : a = 1 <;> simp [h]
  · by_cases h : 1 = b
    · simp [h]
    · simp [h]
  · rcases hd with rfl | rfl <;> simp

theorem bzip_of_spec : ∀ (p q r : Shape), p.length = r.length → q.length = r.length →
    (∀ k, k < r.length → (p.getD k 0 = r.getD k 0 ∨ p.getD k 0 = 1) ∧ (q.getD k 0 = r.getD k 0 ∨ q.getD k 0 = 1) ∧
      (r.getD k 0 = p.getD k 0 ∨ r.getD k 0 = q.getD k 0)) → bzip p q = some r
  | [], [], [], _, _, _ => rfl
  | [], [], _ :: _, h, _, _ => by simp at h
  | [], _ :: _, [], _, h, _ => by simp at h
  | [], _ :: _, _ :: _, h, _, _ => by simp at h
  | _ :: _, [], r, h1, h2, _ => by rw [← h2] at h1; simp at h1
  | _ :: _, _ :: _, [], h, _, _ => by simp at h
  | a :: p, b :: q, d :: r, h1, h2, h => by
    have h0 := h 0 (by simp)
    simp only [List.getD_cons_zero] at h0
    have hrec := bzip_of_spec p q r (by simpa using h1) (by simpa using h2) (fun k hk => by simpa using h (k + 1) (by simpa using hk))
    simp [bzip, bdim_of_spec h0.1 h0.2.1 h0.2.2, hrec]

/-! ### torch's own broadcast loop -/

theorem merge1_eq_bdim (c s : Nat) : merge1 c s = bdim c s := by
  unfold merge1 bdim
  by_cases h1 : s = c
  · subst h1; simp
  · have h1' : ¬ c = s := fun h => h1 h.symm
    simp only [h1, h1', if_false]
    by_cases hc : c = 1
    · subst hc
      have : ¬ s = 1 := h1
      simp [this]
    · simp only [hc, if_false]
      by_cases hs : s = 1
      · simp [hs]
      · simp [hs, h1']

theorem bzip_ones_left : ∀ (b : Shape), bzip (List.replicate b.length 1) b = some b
  | [] => rfl
  | y :: ys => by
    simp only [List.length_cons, List.replicate_succ, bzip, bzip_ones_left ys]
    have : bdim 1 y = some y := by unfold bdim; by_cases h : 1 = y <;> simp [h]
    simp [this]

theorem bzip_snoc : ∀ (p q : Shape) (x y : Nat), p.length = q.length →
    bzip (p ++ [x]) (q ++ [y]) = match bzip p q, bdim x y with
      | some r, some d => some (r ++ [d])
      | _, _ => none
  | [], [], x, y, _ => by
    simp only [List.nil_append, bzip]
    cases bdim x y <;> simp
  | [], _ :: _, _, _, h => by simp at h
  | _ :: _, [], _, _, h => by simp at h
  | a :: p, b :: q, x, y, h => by
    simp only [List.cons_append, bzip]
    rw [bzip_snoc p q x y (by simpa using h)]
    cases bdim a b <;> cases bzip p q <;> cases bdim x y <;> simp

theorem padTo_snoc (n : Nat) (a : Shape) (x : Nat) (h : a.length + 1 ≤ n + 1) :
    padTo (n + 1) (a ++ [x]) = padTo n a ++ [x] := by
  unfold padTo
  simp only [List.length_append, List.length_cons, List.length_nil]
  have : n + 1 - (a.length + 0 + 1) = n - a.length := by omega
  rw [this, List.append_assoc]

theorem padTo_nil (n : Nat) : padTo n [] = List.replicate n 1 := by simp [padTo]

/-- the padded, leading-aligned definition and the trailing-aligned recursion agree -/
theorem broadcastShapes_eq_bcastRev : ∀ (k : Nat) (a b : Shape), a.length + b.length = k →
    broadcastShapes a b = (bcastRev a.reverse b.reverse).map List.reverse := by
  intro k
  induction k using Nat.strongRecOn with
  | ind k ih =>
    intro a b hk
    rcases List.eq_nil_or_concat a with rfl | ⟨a', x, ha⟩
    · unfold broadcastShapes
      simp only [List.length_nil, Nat.zero_max, padTo_nil, padTo_self, List.reverse_nil]
      rw [bzip_ones_left]
      cases hb : b.reverse <;> simp [bcastRev, ← hb]
    · rw [List.concat_eq_append] at ha
      subst ha
      rcases List.eq_nil_or_concat b with rfl | ⟨b', y, hb⟩
      · rw [broadcastShapes_comm]
        unfold broadcastShapes
        simp only [List.length_nil, Nat.zero_max, padTo_nil, padTo_self, List.reverse_nil]
        rw [bzip_ones_left]
        simp only [List.reverse_append, List.reverse_cons, List.reverse_nil, List.nil_append, List.singleton_append, bcastRev]
        simp
      · rw [List.concat_eq_append] at hb
        subst hb
        have hlen : max (a' ++ [x]).length (b' ++ [y]).length = max a'.length b'.length + 1 := by
          simp only [List.length_append, List.length_cons, List.length_nil]; omega
        have ih' := ih (a'.length + b'.length) (by simp at hk; omega) a' b' rfl
        unfold broadcastShapes at ih' ⊢
        simp only at ih' ⊢
        rw [hlen, padTo_snoc _ a' x (by have := Nat.le_max_left a'.length b'.length; omega),
          padTo_snoc _ b' y (by have := Nat.le_max_right a'.length b'.length; omega),
          bzip_snoc _ _ x y (by rw [padTo_length (Nat.le_max_left _ _), padTo_length (Nat.le_max_right _ _)]), ih']
        simp only [List.reverse_append, List.reverse_cons, List.reverse_nil, List.nil_append, List.singleton_append, bcastRev]
        cases bcastRev a'.reverse b'.reverse <;> cases bdim x y <;> simp

theorem mergeRev_ones : ∀ (n : Nat) (s : List Nat), s.length ≤ n →
    mergeRev (List.replicate n 1) s = some (s ++ List.replicate (n - s.length) 1)
  | n, [], _ => by simp [mergeRev]
  | 0, _ :: _, h => by simp at h
  | n + 1, y :: ys, h => by
    simp only [List.replicate_succ, mergeRev, List.length_cons]
    rw [mergeRev_ones n ys (by simpa using h), merge1_eq_bdim]
    have : bdim 1 y = some y := by unfold bdim; by_cases h : 1 = y <;> simp [h]
    simp [this]

theorem mergeRev_pad : ∀ (xs ys : List Nat),
    mergeRev (xs ++ List.replicate (max xs.length ys.length - xs.length) 1) ys = bcastRev xs ys
  | [], ys => by
    simp only [List.nil_append, List.length_nil, Nat.zero_max, Nat.sub_zero]
    rw [mergeRev_ones _ ys (Nat.le_refl _)]
    cases ys <;> simp [bcastRev]
  | x :: xs, [] => by simp [mergeRev, bcastRev]
  | x :: xs, y :: ys => by
    simp only [List.cons_append, List.length_cons, mergeRev, bcastRev]
    have : max (xs.length + 1) (ys.length + 1) - (xs.length + 1) = max xs.length ys.length - xs.length := by omega
    rw [this, mergeRev_pad xs ys, merge1_eq_bdim]

/-! ### facts used for `LieTensor.add` -/

theorem bdim_absorb {a b d : Nat} (h : bdim a b = some d) : bdim b d = some d := by
  have := bdim_some h
  unfold bdim
  by_cases h1 : b = d
  · simp [h1]
  · have hb : b = 1 := by omega
    subst hb
    simp [h1]

theorem bzip_absorb : ∀ {p q r : Shape}, bzip p q = some r → bzip q r = some r
  | [], [], r, h => by simp [bzip] at h; subst h; simp [bzip]
  | [], _ :: _, _, h => by simp [bzip] at h
  | _ :: _, [], _, h => by simp [bzip] at h
  | a :: as, b :: bs, r, h => by
    simp only [bzip] at h
    split at h
    · rename_i d r' hd hr
      simp at h; subst h
      simp [bzip, bdim_absorb hd, bzip_absorb hr]
    · simp at h

theorem broadcastShapes_absorb {a b out : Shape} (h : broadcastShapes a b = some out) :
    broadcastShapes b out = some out := by
  unfold broadcastShapes at h ⊢
  simp only at h ⊢
  have hl := (bzip_length h).1
  rw [padTo_length (Nat.le_max_left _ _)] at hl
  have hb : b.length ≤ out.length := by have := Nat.le_max_right a.length b.length; omega
  have e : max b.length out.length = out.length := Nat.max_eq_right hb
  rw [e]
  have e2 : padTo out.length out = out := padTo_self out
  rw [e2]
  have := bzip_absorb h
  rw [← hl] at this
  exact this

theorem projEq_self : ∀ {s : Shape} {i : List Nat}, inb s i → projEq s i = i
  | [], [], _ => rfl
  | [], _ :: _, h => by simp [inb] at h
  | _ :: _, [], h => by simp [inb] at h
  | n :: s, j :: is, h => by
    simp only [inb] at h
    simp only [projEq, projEq_self h.2]
    by_cases hn : n = 1
    · simp [hn]; omega
    · simp [hn]

theorem proj_self {s : Shape} {i : List Nat} (h : inb s i) : proj s i = i := by
  unfold proj
  rw [inb_length h]
  simp [projEq_self h]

/-! ### `getD` helpers -/

theorem getD_of_lt {l : List Nat} {k : Nat} (h : k < l.length) : l.getD k 0 = l[k] := by
  simp [List.getD_eq_getElem?_getD, List.getElem?_eq_getElem h]

theorem getD_set (l : List Nat) (d k v : Nat) :
    (l.set d v).getD k 0 = if d = k ∧ d < l.length then v else l.getD k 0 := by
  simp only [List.getD_eq_getElem?_getD, List.getElem?_set]
  by_cases h : d = k
  · subst h
    by_cases h2 : d < l.length
    · simp [h2]
    · simp [h2]
  · simp [h]

theorem getD_modify (l : List Nat) (d k : Nat) (f : Nat → Nat) (hk : k < l.length) :
    (l.modify d f).getD k 0 = if d = k then f (l.getD k 0) else l.getD k 0 := by
  simp only [List.getD_eq_getElem?_getD, List.getElem?_modify, List.getElem?_eq_getElem hk]
  by_cases h : d = k <;> simp [h]

/-! ### validity of the single-input steps: the map sends valid output indices to valid input indices -/

theorem reshape_inb {s s' : Shape} (h : numel s' = numel s) {i : List Nat} (hi : inb s' i) :
    inb s (unravel s (ravel s' i)) := by
  apply unravel_inb
  rw [← h]; exact ravel_lt hi

theorem isPerm_spec {p : List Nat} {n : Nat} (h : isPerm p n = true) :
    p.length = n ∧ ∀ a, a < n → a ∈ p := by
  unfold isPerm at h
  simp only [Bool.and_eq_true, beq_iff_eq, List.all_eq_true, List.mem_range] at h
  refine ⟨h.1, fun a ha => ?_⟩
  have := h.2 a ha
  exact List.contains_iff_mem.mp this

theorem permute_inb {s : Shape} {p : List Nat} (hp : isPerm p s.length = true) {i : List Nat}
    (hi : inb (p.map (fun a => s.getD a 0)) i) : inb s (unpermute p i) := by
  obtain ⟨hlen, hmem⟩ := isPerm_spec hp
  rw [inb_iff] at hi ⊢
  obtain ⟨hil, hik⟩ := hi
  simp only [List.length_map] at hil hik
  refine ⟨by simp [unpermute, hlen], ?_⟩
  intro k hk
  have hkm := hmem k hk
  have hm : p.idxOf k < p.length := List.idxOf_lt_length_of_mem hkm
  have hpk : p[p.idxOf k] = k := List.getElem_idxOf hm
  have e1 : (unpermute p i).getD k 0 = i.getD (p.idxOf k) 0 := by
    unfold unpermute
    simp only [List.getD_eq_getElem?_getD, List.getElem?_map]
    rw [List.getElem?_range (by omega)]
    simp
  rw [e1]
  have h2 := hik (p.idxOf k) hm
  have e2 : (p.map (fun a => s.getD a 0)).getD (p.idxOf k) 0 = s.getD k 0 := by
    simp only [List.getD_eq_getElem?_getD, List.getElem?_map, List.getElem?_eq_getElem hm, hpk]
    simp
  rw [e2] at h2
  exact h2

theorem index_inb {s : Shape} {dim : Nat} {idx : List Nat} (hd : dim < s.length)
    (hidx : idx.all (fun j => decide (j < s.getD dim 0)) = true) {i : List Nat}
    (hi : inb (s.set dim idx.length) i) : inb s (i.modify dim (fun j => idx.getD j 0)) := by
  rw [inb_iff] at hi ⊢
  obtain ⟨hil, hik⟩ := hi
  simp only [List.length_set] at hil hik
  refine ⟨by simp [List.length_modify, hil], ?_⟩
  intro k hk
  rw [getD_modify _ _ _ _ (by omega)]
  have h2 := hik k hk
  rw [getD_set] at h2
  by_cases hdk : dim = k
  · subst hdk
    simp only [hd, and_self, if_true] at h2 ⊢
    have hj : idx.getD (i.getD dim 0) 0 ∈ idx := by
      rw [getD_of_lt h2]; exact List.getElem_mem _
    have := (List.all_eq_true.mp hidx) _ hj
    simpa using this
  · simp only [hdk, false_and, if_false] at h2 ⊢
    exact h2

theorem modEq_inb : ∀ {reps sp : Shape} {i : List Nat}, reps.length = sp.length →
    inb (mulEq reps sp) i → inb sp (modEq sp i)
  | [], [], i, _, h => by
    cases i with
    | nil => simp [modEq, inb]
    | cons _ _ => simp [mulEq, inb] at h
  | [], _ :: _, _, hl, _ => by simp at hl
  | _ :: _, [], _, hl, _ => by simp at hl
  | r :: rs, n :: sp, i, hl, h => by
    cases i with
    | nil => simp [mulEq, inb] at h
    | cons j is =>
      simp only [mulEq, inb] at h
      simp only [modEq, inb]
      refine ⟨?_, modEq_inb (by simpa using hl) h.2⟩
      apply Nat.mod_lt
      rcases Nat.eq_zero_or_pos n with h0 | h0
      · subst h0; simp at h
      · exact h0

theorem mulEq_length : ∀ {reps sp : Shape}, reps.length = sp.length → (mulEq reps sp).length = sp.length
  | [], [], _ => rfl
  | [], _ :: _, hl => by simp at hl
  | _ :: _, [], hl => by simp at hl
  | _ :: rs, _ :: sp, hl => by simp [mulEq, mulEq_length (reps := rs) (sp := sp) (by simpa using hl)]

theorem repeat_inb {s reps : Shape} (h : s.length ≤ reps.length) {i : List Nat}
    (hi : inb (mulEq reps (padTo reps.length s)) i) :
    inb s ((modEq (padTo reps.length s) i).drop (reps.length - s.length)) := by
  have hl : reps.length = (padTo reps.length s).length := (padTo_length h).symm
  have h1 := modEq_inb hl hi
  unfold padTo at h1 ⊢
  exact inb_replicate_drop _ _ _ h1

/-- every step maps valid output indices to valid input indices -/
theorem step_inb {s s' : Shape} {st : Step} {g : List Nat → List Nat} (h : st.apply s = some (s', g))
    {i : List Nat} (hi : inb s' i) : inb s (g i) := by
  cases st with
  | reshape t =>
    simp only [Step.apply] at h
    split at h
    · rename_i hn
      simp only [Option.some.injEq, Prod.mk.injEq] at h
      obtain ⟨rfl, rfl⟩ := h
      exact reshape_inb hn hi
    · simp at h
  | permute p =>
    simp only [Step.apply] at h
    split at h
    · rename_i hp
      simp only [Option.some.injEq, Prod.mk.injEq] at h
      obtain ⟨rfl, rfl⟩ := h
      exact permute_inb hp hi
    · simp at h
  | index dim idx =>
    simp only [Step.apply] at h
    split at h
    · rename_i hc
      simp only [Option.some.injEq, Prod.mk.injEq] at h
      obtain ⟨rfl, rfl⟩ := h
      exact index_inb hc.1 hc.2 hi
    · simp at h
  | expand t =>
    simp only [Step.apply] at h
    split at h
    · rename_i hc
      simp only [Option.some.injEq, Prod.mk.injEq] at h
      obtain ⟨rfl, rfl⟩ := h
      exact proj_inb_left hc.1 hi
    · simp at h
  | repeat_ reps =>
    simp only [Step.apply] at h
    split at h
    · rename_i hc
      simp only [Option.some.injEq, Prod.mk.injEq] at h
      obtain ⟨rfl, rfl⟩ := h
      exact repeat_inb hc hi
    · simp at h

/-! ### several inputs -/

theorem locate_spec : ∀ (ls : List Nat) (j : Nat), j < ls.sum →
    (locate ls j).1 < ls.length ∧ (locate ls j).2 < ls.getD (locate ls j).1 0 ∧
    j = (ls.take (locate ls j).1).sum + (locate ls j).2
  | [], j, h => by simp at h
  | l :: ls, j, h => by
    simp only [locate]
    by_cases hj : j < l
    · simp [hj]
    · simp only [hj, if_false]
      have h' : j - l < ls.sum := by simp only [List.sum_cons] at h; omega
      obtain ⟨h1, h2, h3⟩ := locate_spec ls (j - l) h'
      refine ⟨by simpa using h1, by simpa using h2, ?_⟩
      simp only [List.take_succ_cons, List.sum_cons]
      omega

theorem getD_map_shape (ss : List Shape) (dim t : Nat) (ht : t < ss.length) :
    (ss.map (fun s => s.getD dim 0)).getD t 0 = (ss.getD t []).getD dim 0 := by
  simp [List.getD_eq_getElem?_getD, List.getElem?_map, List.getElem?_eq_getElem ht]

theorem cat_valid {ss : List Shape} {dim : Nat} {out : Shape} {g : List Nat → Nat × List Nat}
    (h : catMap ss dim = some (out, g)) {i : List Nat} (hi : inb out i) :
    (g i).1 < ss.length ∧ inb (ss.getD (g i).1 []) (g i).2 := by
  cases ss with
  | nil => simp [catMap] at h
  | cons s0 rest =>
    simp only [catMap] at h
    split at h
    · rename_i hc
      obtain ⟨hd, hall⟩ := hc
      simp only [Option.some.injEq, Prod.mk.injEq] at h
      obtain ⟨rfl, rfl⟩ := h
      generalize hss : (s0 :: rest) = ss at *
      rw [inb_iff] at hi
      obtain ⟨hil, hik⟩ := hi
      simp only [List.length_set] at hil hik
      have hdim := hik dim hd
      rw [getD_set] at hdim
      simp only [hd, and_self, if_true] at hdim
      obtain ⟨h1, h2, _⟩ := locate_spec _ _ hdim
      simp only [List.length_map] at h1
      refine ⟨h1, ?_⟩
      simp only
      rw [getD_map_shape ss dim _ h1] at h2
      have hmem : ss.getD (locate (ss.map fun s => s.getD dim 0) (i.getD dim 0)).1 [] ∈ ss := by
        rw [List.getD_eq_getElem?_getD, List.getElem?_eq_getElem h1]; simp
      have hprop := (List.all_eq_true.mp hall) _ hmem
      simp only [Bool.and_eq_true, beq_iff_eq] at hprop
      obtain ⟨hlen, hset⟩ := hprop
      generalize ss.getD (locate (ss.map fun s => s.getD dim 0) (i.getD dim 0)).1 [] = st at *
      generalize (locate (ss.map fun s => s.getD dim 0) (i.getD dim 0)).2 = r at *
      rw [inb_iff]
      refine ⟨by simp [List.length_set, hil, hlen], ?_⟩
      intro k hk
      rw [getD_set]
      by_cases hdk : dim = k
      · subst hdk
        have : dim < i.length := by omega
        simp only [this, and_self, if_true]
        exact h2
      · simp only [hdk, false_and, if_false]
        have h3 := hik k (by omega)
        rw [getD_set] at h3
        simp only [hdk, false_and, if_false] at h3
        have e : st.getD k 0 = s0.getD k 0 := by
          have := congrArg (fun l => l.getD k 0) hset
          simp only [getD_set, hdk, false_and, if_false] at this
          exact this
        rw [e]; exact h3
    · simp at h

theorem overwrite_valid {s : Shape} {dim : Nat} {idx : List Nat} {out : Shape} {g : List Nat → Nat × List Nat}
    (h : overwriteMap s dim idx = some (out, g)) {i : List Nat} (hi : inb out i) :
    out = s ∧ (((g i).1 = 0 ∧ (g i).2 = i ∧ ¬ i.getD dim 0 ∈ idx) ∨
      ((g i).1 = 1 ∧ inb (s.set dim idx.length) (g i).2 ∧ idx.getD ((g i).2.getD dim 0) 0 = i.getD dim 0 ∧
        ∀ k, k ≠ dim → (g i).2.getD k 0 = i.getD k 0)) := by
  simp only [overwriteMap] at h
  split at h
  · rename_i hc
    obtain ⟨hd, _, _⟩ := hc
    simp only [Option.some.injEq, Prod.mk.injEq] at h
    obtain ⟨rfl, rfl⟩ := h
    refine ⟨rfl, ?_⟩
    by_cases hm : idx.contains (i.getD dim 0) = true
    · right
      simp only [hm, if_true]
      have hmem : i.getD dim 0 ∈ idx := List.contains_iff_mem.mp hm
      have hlt : idx.idxOf (i.getD dim 0) < idx.length := List.idxOf_lt_length_of_mem hmem
      rw [inb_iff] at hi ⊢
      obtain ⟨hil, hik⟩ := hi
      have hdi : dim < i.length := by omega
      refine ⟨trivial, ⟨by simp [List.length_set, hil], ?_⟩, ?_, ?_⟩
      · intro k hk
        simp only [List.length_set] at hk
        rw [getD_set, getD_set]
        by_cases hdk : dim = k
        · subst hdk; simp only [hd, hdi, and_self, if_true]; exact hlt
        · simp only [hdk, false_and, if_false]; exact hik k hk
      · rw [getD_set]; simp only [hdi, and_self, if_true]
        rw [getD_of_lt hlt]; exact List.getElem_idxOf hlt
      · intro k hk
        rw [getD_set]; simp [Ne.symm hk]
    · left
      simp only [hm, Bool.false_eq_true, if_false]
      refine ⟨trivial, trivial, ?_⟩
      intro hmem; exact hm (List.contains_iff_mem.mpr hmem)
  · simp at h

theorem gather_valid {s si : Shape} {dim : Nat} {index : Nat → Nat} {out : Shape} {g : List Nat → List Nat}
    (h : gatherMap s si dim index = some (out, g)) {i : List Nat} (hi : inb out i) :
    out = si ∧ inb s (g i) ∧ (g i).getD dim 0 = index (ravel si i) ∧ ∀ k, k ≠ dim → (g i).getD k 0 = i.getD k 0 := by
  simp only [gatherMap] at h
  split at h
  · rename_i hc
    obtain ⟨hd, hlen, hle, hidx⟩ := hc
    simp only [Option.some.injEq, Prod.mk.injEq] at h
    obtain ⟨rfl, rfl⟩ := h
    have hr := ravel_lt hi
    have hix : index (ravel si i) < s.getD dim 0 := by
      have := (List.all_eq_true.mp hidx) (ravel si i) (List.mem_range.mpr hr)
      simpa using this
    rw [inb_iff] at hi
    obtain ⟨hil, hik⟩ := hi
    have hdi : dim < i.length := by omega
    refine ⟨rfl, ?_, ?_, ?_⟩
    · rw [inb_iff]
      refine ⟨by simp [List.length_set]; omega, ?_⟩
      intro k hk
      rw [getD_set]
      by_cases hdk : dim = k
      · subst hdk; simp only [hdi, and_self, if_true]; exact hix
      · simp only [hdk, false_and, if_false]
        have h1 := hik k (by omega)
        have h2 := (List.all_eq_true.mp hle) k (List.mem_range.mpr hk)
        simp only [Bool.or_eq_true, beq_iff_eq, decide_eq_true_eq] at h2
        rcases h2 with h2 | h2
        · exact absurd h2.symm hdk
        · omega
    · rw [getD_set]; simp [hdi]
    · intro k hk; rw [getD_set]; simp [Ne.symm hk]
  · simp at h

theorem scatter_valid {s si ssrc : Shape} {dim : Nat} {index : Nat → Nat} (hd : dim < s.length)
    (hsi : si.length = s.length) (hsrc : ssrc.length = s.length)
    (hle : ∀ k, k < s.length → si.getD k 0 ≤ ssrc.getD k 0) {i : List Nat} (hi : inb s i) :
    ((scatterMap s si dim index i).1 = 0 ∧ (scatterMap s si dim index i).2 = i) ∨
    ((scatterMap s si dim index i).1 = 1 ∧ inb ssrc (scatterMap s si dim index i).2 ∧
      inb si (scatterMap s si dim index i).2 ∧
      index (ravel si (scatterMap s si dim index i).2) = i.getD dim 0 ∧
      ∀ k, k ≠ dim → (scatterMap s si dim index i).2.getD k 0 = i.getD k 0) := by
  unfold scatterMap
  simp only
  split
  · rename_i p hin hhit
    right
    have hp := List.mem_of_find?_eq_some hhit
    have hpred := List.find?_some hhit
    simp only [List.mem_range] at hp
    simp only [beq_iff_eq] at hpred
    rw [inb_iff] at hi
    obtain ⟨hil, hik⟩ := hi
    have hdi : dim < i.length := by omega
    have hall := List.all_eq_true.mp hin
    have hcoord : ∀ k, k < s.length → k ≠ dim → i.getD k 0 < si.getD k 0 := by
      intro k hk hne
      have := hall k (List.mem_range.mpr hk)
      simp only [Bool.or_eq_true, beq_iff_eq, decide_eq_true_eq] at this
      rcases this with h | h
      · exact absurd h hne
      · exact h
    have hinb_si : inb si (i.set dim p) := by
      rw [inb_iff]
      refine ⟨by simp [List.length_set]; omega, ?_⟩
      intro k hk
      rw [getD_set]
      by_cases hdk : dim = k
      · subst hdk; simp only [hdi, and_self, if_true]; exact hp
      · simp only [hdk, false_and, if_false]; exact hcoord k (by omega) (Ne.symm hdk)
    refine ⟨rfl, ?_, hinb_si, hpred, ?_⟩
    · show inb ssrc (i.set dim p)
      rw [inb_iff] at hinb_si ⊢
      refine ⟨by simp [List.length_set]; omega, ?_⟩
      intro k hk
      have := hinb_si.2 k (by omega)
      have := hle k (by omega)
      omega
    · intro k hk
      show (i.set dim p).getD k 0 = i.getD k 0
      rw [getD_set]; simp [Ne.symm hk]
  · left; exact ⟨rfl, rfl⟩



/-! ### the core of `broadcast_itemwise` (restated in `Proofs/Props/C06.lean`) -/

/-- The broadcast of two scalar batches only: a scalar result forces both operands to be scalar batches
(this is when the code substitutes `shape = (1,)`). -/
theorem broadcast_nil' {a b : Shape} (h : broadcastShapes a b = some []) : a = [] ∧ b = [] := by
  unfold broadcastShapes at h
  simp only at h
  have hl := bzip_length h
  rw [padTo_length (Nat.le_max_left _ _)] at hl
  have ha : a.length = 0 := by have := Nat.le_max_left a.length b.length; simp at hl; omega
  have hb : b.length = 0 := by have := Nat.le_max_right a.length b.length; simp at hl; omega
  exact ⟨List.eq_nil_of_length_eq_zero ha, List.eq_nil_of_length_eq_zero hb⟩


/-- **Broadcast = item by item.** For every pair of broadcastable lshapes (any rank including none, any
extents including 0), every item-level kernel `f` and every output multi-index `i`:
the op site returns lshape `broadcastShapes …`, and `out[i] = f (x[π₁ i]) (y[π₂ i])` with `π` the torch
broadcasting projections; the last extent is the kernel's `dOut` (the declared fall-back `dDecl` only when
the batch is empty). -/
theorem broadcast_itemwise' {α β γ : Type} (f : α → β → γ) (dOut dDecl : Nat) (hd : 0 < dOut)
    (x : T α) (y : T β) (out : Shape) (h : broadcastShapes x.shape y.shape = some out) :
    ∃ r, binop f dOut dDecl x y = some r ∧ r.shape = out ∧
      r.last = (if numel out = 0 then dDecl else dOut) ∧
      ∀ i, inb out i → r.get i = f (x.get (proj x.shape i)) (y.get (proj y.shape i)) := by
  have hn : numel (if out = [] then [1] else out) = numel out := by
    by_cases ho : out = []
    · subst ho; simp [numel]
    · simp [ho]
  unfold binop broadcastInputs
  simp only [h, hn]
  by_cases h0 : numel out = 0
  · -- empty batch: `dim = dDecl`, `view(out_shape + (dDecl,))` of 0 scalars
    simp only [h0, Nat.zero_mul, ne_eq, not_true_eq_false, if_false, viewLast, if_true]
    refine ⟨_, rfl, rfl, rfl, ?_⟩
    intro i hi
    have := numel_pos_of_inb hi
    omega
  · have hne : numel out * dOut ≠ 0 := Nat.mul_ne_zero h0 (by omega)
    simp only [hne, ne_eq, not_false_eq_true, if_true, viewLast, h0, if_false, Nat.mul_mod_right]
    have hdiv : numel out * dOut / numel out = dOut := Nat.mul_div_cancel_left _ (by omega)
    refine ⟨_, rfl, rfl, by simp [hdiv], ?_⟩
    intro i hi
    simp only [Out.get, flatExpand]
    by_cases ho : out = []
    · subst ho
      obtain ⟨ha, hb⟩ := broadcast_nil' h
      cases i with
      | nil => simp [ha, hb, proj, projEq, unravel, ravel]
      | cons _ _ => simp [inb] at hi
    · simp only [ho, if_false]
      rw [unravel_ravel' hi]


/-- Corollary in the form the op sites use it (`dDecl = dOut`): the last extent is always the documented one,
including for empty batches (the `dim = … else p.shape[-1]` branch). -/
theorem broadcast_lastdim' {α β γ : Type} (f : α → β → γ) (d : Nat) (hd : 0 < d)
    (x : T α) (y : T β) (out : Shape) (h : broadcastShapes x.shape y.shape = some out) :
    ∃ r, binop f d d x y = some r ∧ r.shape = out ∧ r.last = d := by
  obtain ⟨r, h1, h2, h3, _⟩ := broadcast_itemwise' f d d hd x y out h
  exact ⟨r, h1, h2, by rw [h3]; split <;> rfl⟩


/-! ### corollaries and table facts (not clause-carrying: kept out of the property file)

* `unop_itemwise`, `unopFlat_itemwise`: `unop` is a map by definition; `broadcast_inputs(x, None)` has no caller in the library.
* `binop_local`, `unop_local`: cannot fail for the MODEL — its kernel `f` is per item by type.  Whether the implementation
  takes batch-level `.any()/.all()` decisions is decided by the `regime` stream (mixed-regime batches vs the same call on each
  item alone), not by these statements.
* `sig_*`, `ltypes_structure`, `mulSig_table`: `decide` over the model's own tables; the tie to the code is the `sig` stream.
* `effect_*`, `handled_*_pure`: about the memory effect table of the torch functions in `HANDLED_FUNCTIONS`, not about the
  pypose API the non-mutation clause talks about (that clause: purity monitor + the static lint `source_purity`).
* `broadcastShapes_eq_torch`: two models of torch's loop agree (the tie to torch is the `torchb` stream). -/

/-- the broadcast result is unique and not broadcastable means: no lshape satisfies the rule -/
theorem broadcast_none_iff (a b : Shape) : broadcastShapes a b = none ↔ ¬ ∃ out, broadcastShapes a b = some out := by
  cases broadcastShapes a b <;> simp


/-- **`broadcastShapes` is what torch computes**: the loop of `torch._refs._broadcast_shapes` (initialise with ones, merge
every shape from the trailing end, positions a shape lacks stay) returns the same lshape — or raises — for every pair
of shapes of every rank, extents 0 and 1 included. -/
theorem broadcastShapes_eq_torch (a b : Shape) : broadcastShapes a b = torchBroadcast a b := by
  rw [broadcastShapes_eq_bcastRev _ a b rfl]
  unfold torchBroadcast
  simp only
  rw [mergeRev_ones _ _ (by simp; exact Nat.le_max_left _ _)]
  simp only [List.length_reverse]
  have := mergeRev_pad a.reverse b.reverse
  simp only [List.length_reverse] at this
  rw [this]


example : torchBroadcast [2, 1, 3] [4, 1] = some [2, 4, 3] ∧ torchBroadcast [0, 3] [3] = some [0, 3] ∧
    torchBroadcast [2] [3] = none ∧ torchBroadcast [] [1, 0] = some [1, 0] := by decide



/-- Unary ops act item by item and keep the lshape — for every shape. -/
theorem unop_itemwise {α γ : Type} (f : α → γ) (d : Nat) (x : T α) (i : List Nat) :
    (unop f d x).shape = x.shape ∧ (unop f d x).last = d ∧ (unop f d x).get i = f (x.get i) := by
  simp [unop, Out.get, T.get]


/-- The `broadcast_inputs(x, None)` route (flatten, kernel, view back) is the same item-wise map, for every
shape including empty ones. -/
theorem unopFlat_itemwise {α γ : Type} (f : α → γ) (d : Nat) (hd : 0 < d) (x : T α) :
    unopFlat f d d x = some (unop f d x) := by
  unfold unopFlat broadcastInput1 unop
  simp only
  by_cases h0 : numel x.shape = 0
  · simp [h0, viewLast]
  · have hne : numel x.shape * d ≠ 0 := Nat.mul_ne_zero h0 (by omega)
    simp only [hne, ne_eq, not_false_eq_true, if_true, viewLast, h0, if_false, Nat.mul_mod_right]
    rw [Nat.mul_div_cancel_left _ (by omega)]


/-- **An output item depends only on the two items it is paired with** (no batch-level decision): changing any
other item of either operand — same shapes — leaves `out[i]` unchanged. This is the clause a batch-level
`.any()/.all()` switch violates. -/
theorem binop_local {α β γ : Type} (f : α → β → γ) (d : Nat) (hd : 0 < d) (x x' : T α) (y y' : T β) (out : Shape)
    (hx : x'.shape = x.shape) (hy : y'.shape = y.shape) (h : broadcastShapes x.shape y.shape = some out)
    (i : List Nat) (hi : inb out i)
    (hxi : x'.get (proj x.shape i) = x.get (proj x.shape i)) (hyi : y'.get (proj y.shape i) = y.get (proj y.shape i)) :
    ∃ r r', binop f d d x y = some r ∧ binop f d d x' y' = some r' ∧ r'.shape = r.shape ∧ r'.get i = r.get i := by
  obtain ⟨r, h1, h2, _, h4⟩ := broadcast_itemwise' f d d hd x y out h
  have h' : broadcastShapes x'.shape y'.shape = some out := by rw [hx, hy]; exact h
  obtain ⟨r', h1', h2', _, h4'⟩ := broadcast_itemwise' f d d hd x' y' out h'
  refine ⟨r, r', h1, h1', by rw [h2, h2'], ?_⟩
  rw [h4 i hi, h4' i hi, hx, hy, hxi, hyi]


/-- the unary version: `out[i]` depends on `x[i]` only -/
theorem unop_local {α γ : Type} (f : α → γ) (d : Nat) (x x' : T α) (_hs : x'.shape = x.shape) (i : List Nat)
    (hxi : x'.get i = x.get i) : (unop f d x').get i = (unop f d x).get i := by
  rw [(unop_itemwise f d x' i).2.2, (unop_itemwise f d x i).2.2, hxi]


/-- The only listed function whose result is not a selection of input items is `scatter_add`; the only ones
addressed by scalar positions are `take` and `masked_select`. -/
theorem handled_nonselection : ∀ n ∈ PP.Gen.handled,
    (semOf n = some Sem.accumulate → n = "scatter_add") ∧
    (semOf n = some Sem.element → n = "take" ∨ n = "masked_select") := by decide


/-- structure of the table: an algebra has dimension = manifold, its group one more; both share embedding and manifold -/
theorem ltypes_structure : ∀ t ∈ LT.all,
    t.algebra.onManifold = true ∧ t.group.onManifold = false ∧ t.group.dim = t.algebra.dim + 1 ∧
    t.group.dims.2.1 = t.group.dim ∧ t.algebra.dims.2.1 = t.group.dim ∧ t.algebra.manifold = t.group.manifold ∧
    t.algebra.dim = t.algebra.manifold := by decide


/-- Exp and Log are defined exactly on algebras / groups and are mutually inverse on ltypes -/
theorem sig_exp_log : ∀ t ∈ LT.all,
    ((sig .Exp t).isSome = t.onManifold) ∧ ((sig .Log t).isSome = !t.onManifold) ∧
    (t.onManifold = true → sig .Exp t = some (.lie t.group) ∧ sig .Log t.group = some (.lie t)) ∧
    (t.onManifold = false → sig .Log t = some (.lie t.algebra) ∧ sig .Exp t.algebra = some (.lie t)) := by decide


/-- every LieTensor an op returns passes the constructor's shape assertion, for every lshape: the `LieTensor(out, ltype=…)`
wrapping inside the ops never trips `__init__`'s check -/
theorem sig_init_ok (op : Op) (t r : LT) (ls : Shape) (_h : sig op t = some (.lie r)) : initOk r ((Res.lie r).shape ls) = true := by
  simp [initOk, Res.shape]


/-- the item width the binary op sites pass to `view` (`dOut`) is the dimension of the ltype they wrap the result in -/
theorem sig_binop_dout : ∀ t ∈ LT.all, t.onManifold = false →
    sig .Mul t = some (.lie t) ∧ sig .Retr t = some (.lie t) ∧ sig .add t = some (.lie t) ∧
    sig .Adj t = some (.lie t.algebra) ∧ sig .AdjT t = some (.lie t.algebra) ∧ sig .Jinvp t = some (.lie t.algebra) ∧
    t.algebra.dim = t.manifold := by decide


/-- group-only ops raise on algebras; `Jr` exists for SO3 / so3 only -/
theorem sig_errors : ∀ t ∈ LT.all,
    (t.onManifold = true → sig .Mul t = some (.lie t) ∧ sig .Act3 t = none ∧ sig .Act4 t = none ∧ sig .Retr t = none ∧ sig .Adj t = none ∧
      sig .AdjT t = none ∧ sig .Jinvp t = none ∧ sig .Log t = none) ∧
    ((sig .Jr t).isSome = decide (t.group = LT.SO3)) := by decide


/-- a batched binary op site returns, for every broadcastable lshape pair, exactly the shape of the signature table:
broadcast lshape followed by the result ltype's dimension — and that shape passes `LieTensor.__init__` -/
theorem op_result_shape {α β γ : Type} (f : α → β → γ) (op : Op) (t r : LT) (hs : sig op t = some (.lie r)) (x : T α) (y : T β)
    (out : Shape) (h : broadcastShapes x.shape y.shape = some out) :
    ∃ res, binop f r.dim r.dim x y = some res ∧ res.shape ++ [res.last] = (Res.lie r).shape out ∧
      initOk r (res.shape ++ [res.last]) = true := by
  have hd : 0 < r.dim := by cases r <;> decide
  obtain ⟨res, h1, h2, h3⟩ := broadcast_lastdim' f r.dim hd x y out h
  refine ⟨res, h1, by simp [Res.shape, h2, h3], by simp [initOk, h3]⟩


example : sig .Exp .se3 = some (.lie .SE3) ∧ sig .Exp .SE3 = none ∧ sig .Jinvp .Sim3 = some (.lie .sim3) ∧ sig .Act4 .RxSO3 = some (.tensor [4]) ∧
    sig .matrix .so3 = some (.tensor [3, 3]) ∧ sig .Jr .SE3 = none ∧ (Res.lie LT.sim3).shape [2, 0, 3] = [2, 0, 3, 7] ∧
    initOk .SE3 [5, 7] = true ∧ initOk .SE3 [5, 8] = false := by decide

/-- every handled function of the regenerated list has a memory effect in the model -/
theorem handled_effects_defined : ∀ n ∈ PP.Gen.handled, ((semOf n).map effectOf).isSome = true := by decide


/-- **the in-place functions of the list are exactly those the naming convention marks** (trailing underscore /
`__setitem__`) — over the list as it is in `/repo` now -/
theorem handled_inplace_iff_name : ∀ n ∈ PP.Gen.handled,
    ((semOf n).map effectOf = some Effect.inplace) = (inplaceName n = true) := by decide


/-- an effect other than `inplace` leaves every existing slot as it was (and never frees one) -/
theorem effect_pure {α : Type} (e : Effect) (he : e ≠ .inplace) (st : Store α) (self : Nat) (val : α) :
    (∀ s, s < st.next → (applyEffect e st self val).1.mem s = st.mem s) ∧ st.next ≤ (applyEffect e st self val).1.next := by
  cases e with
  | fresh =>
    refine ⟨fun s hs => ?_, by simp [applyEffect]⟩
    simp only [applyEffect]
    have : s ≠ st.next := by omega
    simp [this]
  | view => exact ⟨fun _ _ => rfl, Nat.le_refl _⟩
  | inplace => exact absurd rfl he


/-- **Non-mutation of the handled functions in the model**: every function of the regenerated list whose name carries no
trailing underscore leaves every operand slot untouched — all existing memory is bit for bit what it was. -/
theorem handled_nonunderscore_pure {α : Type} (n : String) (hn : n ∈ PP.Gen.handled) (hu : inplaceName n = false)
    (st : Store α) (self : Nat) (val : α) :
    ∃ r, applyHandled n st self val = some r ∧ ∀ s, s < st.next → r.1.mem s = st.mem s := by
  have hdef := handled_effects_defined n hn
  have hiff := handled_inplace_iff_name n hn
  unfold applyHandled
  cases hs : semOf n with
  | none => simp [hs] at hdef
  | some sem =>
    simp only [Option.map_some]
    refine ⟨_, rfl, ?_⟩
    have hne : effectOf sem ≠ .inplace := by
      intro he
      rw [hs] at hiff
      simp only [Option.map_some, he, hu] at hiff
      simp at hiff
    exact (effect_pure (effectOf sem) hne st self val).1


/-- **Purity over histories**: any sequence of handled functions of the regenerated list, none of which carries a trailing
underscore, leaves every slot that existed at the start bit for bit unchanged — however long the sequence and whatever
operands (including results of earlier calls) it uses. -/
theorem handled_history_pure {α : Type} : ∀ (calls : List (String × Nat × α)) (st : Store α),
    (∀ c ∈ calls, c.1 ∈ PP.Gen.handled ∧ inplaceName c.1 = false) →
    ∃ st', runHandled st calls = some st' ∧ st.next ≤ st'.next ∧ ∀ s, s < st.next → st'.mem s = st.mem s
  | [], st, _ => ⟨st, rfl, Nat.le_refl _, fun _ _ => rfl⟩
  | (n, self, v) :: rest, st, h => by
    have hc := h (n, self, v) List.mem_cons_self
    obtain ⟨r, hr, hpure⟩ := handled_nonunderscore_pure n hc.1 hc.2 st self v
    have hnext : st.next ≤ r.1.next := by
      unfold applyHandled at hr
      cases hs : semOf n with
      | none => simp [hs] at hr
      | some sem =>
        simp only [hs, Option.map_some, Option.some.injEq] at hr
        subst hr
        cases effectOf sem <;> simp [applyEffect]
    obtain ⟨st', h1, h2, h3⟩ := handled_history_pure rest r.1 (fun c hcm => h c (List.mem_cons_of_mem _ hcm))
    refine ⟨st', by simp [runHandled, hr, h1], Nat.le_trans hnext h2, ?_⟩
    intro s hs
    rw [h3 s (by omega), hpure s hs]


example : ((runHandled (⟨fun s => 10 * s, 2⟩ : Store Nat) [("cat", 0, 7), ("permute", 2, 8), ("index_copy", 1, 9)]).map
    fun st => ((List.range 4).map st.mem, st.next)) = some ([0, 10, 7, 9], 4) := by decide


/-- an in-place function writes its first operand's slot only -/
theorem effect_inplace_local {α : Type} (st : Store α) (self : Nat) (val : α) :
    (applyEffect .inplace st self val).2 = self ∧ (applyEffect .inplace st self val).1.mem self = val ∧
    ∀ s, s ≠ self → (applyEffect .inplace st self val).1.mem s = st.mem s := by
  refine ⟨rfl, by simp [applyEffect], fun s hs => by simp [applyEffect, hs]⟩


example : inplaceName "copy_" = true ∧ inplaceName "__setitem__" = true ∧ inplaceName "__getitem__" = false ∧ inplaceName "clone" = false ∧
    (semOf "index_copy_").map effectOf = some Effect.inplace ∧ (semOf "index_copy").map effectOf = some Effect.fresh ∧
    (semOf "view").map effectOf = some Effect.view := by decide

example : let st : Store Nat := ⟨fun s => 10 * s, 3⟩
    ((applyHandled "cat" st 1 99).map fun r => ((List.range 4).map r.1.mem, r.1.next, r.2)) = some ([0, 10, 20, 99], 4, 3) ∧
    ((applyHandled "copy_" st 1 99).map fun r => ((List.range 4).map r.1.mem, r.1.next, r.2)) = some ([0, 99, 20, 30], 3, 1) ∧
    ((applyHandled "permute" st 1 99).map fun r => ((List.range 4).map r.1.mem, r.1.next, r.2)) = some ([0, 10, 20, 30], 3, 1) := by decide


theorem cls_noparam_agrees (handled : List String) (name : String) (args res : List Obj) (h : clsIsParam args = false) :
    (torchFunctionCls handled name args res).map (fun l => l.map (fun p => p.1.erase)) =
      torchFunction handled name (args.map Obj.erase) (res.map Obj.erase) := by
  unfold torchFunctionCls torchFunction
  by_cases hc : res ≠ [] ∧ name ∈ handled
  · have hc' : res.map Obj.erase ≠ [] ∧ name ∈ handled := ⟨by simpa using hc.1, hc.2⟩
    rw [if_pos hc, if_pos hc']
    cases firstLtype (args.map Obj.erase) with
    | none => rfl
    | some lt =>
      simp only [Option.map_some, List.map_map, h]
      congr 1
      apply List.map_congr_left
      intro o _
      cases o <;> simp [wrapObj, Obj.erase, wrapLeaf]
  · have hc' : ¬ (res.map Obj.erase ≠ [] ∧ name ∈ handled) := by
      intro hh; exact hc ⟨by simpa using hh.1, hh.2⟩
    rw [if_neg hc, if_neg hc']
    simp [List.map_map, Function.comp_def]


theorem mulSig_table : ∀ t ∈ LT.all,
    mulSig t .sameLie = some (.lie t) ∧ sig .Mul t = mulSig t .sameLie ∧
    (t.onManifold = false → mulSig t (.tensor 3) = sig .Act3 t ∧ mulSig t (.tensor 4) = sig .Act4 t ∧
      mulSig t (.lieOther .so3) = some (.tensor [3]) ∧ mulSig t (.lieOther .rxso3) = some (.tensor [4]) ∧
      mulSig t (.lieOther .se3) = none ∧ mulSig t (.tensor 5) = none ∧ mulSig t .scalar = none) ∧
    (t.onManifold = true → mulSig t (.tensor 1) = some (.lie t) ∧ mulSig t .scalar = some (.lie t)) := by decide


/-! ### `retain_ltype` (generic in the home policy; headline statements are restated in the property file) -/

/-! ## views: strided addressing = index arithmetic (pass 7) -/

theorem dot_cstrides : ∀ {s : Shape} {i : List Nat}, inb s i → dot i (cstrides s) = ravel s i
  | [], [], _ => rfl
  | [], _ :: _, h => by simp [inb] at h
  | _ :: _, [], h => by simp [inb] at h
  | _ :: s, _ :: is, h => by
    simp only [inb] at h
    simp [dot, cstrides, ravel, dot_cstrides h.2]

theorem view_ofT_get' (t : T α) (i : List Nat) (h : inb t.shape i) : (View.ofT t).get i = t.get i := by
  simp [View.ofT, View.get, T.get, dot_cstrides h]

theorem view_contiguous_get' (v : View α) (i : List Nat) (h : inb v.shape i) : v.contiguous.get i = v.get i := by
  simp [View.contiguous, T.get, unravel_ravel' h]

theorem contiguous_ofT' (t : T α) (k : Nat) (h : k < numel t.shape) : (View.ofT t).contiguous.data k = t.data k := by
  simp only [View.contiguous, View.ofT]
  rw [View.get]
  simp [dot_cstrides (unravel_inb h), ravel_unravel' h]

/-- slicing: stride arithmetic = index arithmetic -/
theorem dot_slice (start step : Nat) : ∀ (dim : Nat) (i st : List Nat), i.length = st.length →
    start * st.getD dim 0 + dot i (st.modify dim (· * step)) = dot (i.modify dim (fun j => start + j * step)) st
  | _, [], [], _ => by simp [dot]
  | _, [], _ :: _, h => by simp at h
  | _, _ :: _, [], h => by simp at h
  | 0, a :: as, b :: bs, _ => by
    simp [dot, List.modify, Nat.add_mul, Nat.mul_assoc, Nat.mul_comm step b, Nat.add_assoc]
  | dim + 1, a :: as, b :: bs, h => by
    have ih := dot_slice start step dim as bs (by simpa using h)
    simp [dot, List.modify] at ih ⊢
    omega

theorem dot_select (idx : Nat) : ∀ (dim : Nat) (i st : List Nat), dim < st.length → i.length + 1 = st.length →
    idx * st.getD dim 0 + dot i (st.eraseIdx dim) = dot (i.insertIdx dim idx) st
  | 0, i, b :: bs, _, _ => by
    simp [dot, List.insertIdx]
  | dim + 1, [], b :: bs, hd, h => by
    simp at h; simp [h] at hd
  | dim + 1, a :: as, b :: bs, hd, h => by
    have ih := dot_select idx dim as bs (by simpa using hd) (by simpa using h)
    simp [dot, List.insertIdx] at ih ⊢
    omega

theorem dot_replicate_zero : ∀ (k : Nat) (a r : List Nat), dot a (List.replicate k 0 ++ r) = dot (a.drop k) r
  | 0, a, r => by simp
  | k + 1, [], r => by simp [dot]
  | k + 1, x :: a, r => by
    simp [dot, List.replicate_succ, dot_replicate_zero k a r]

theorem dot_expandEq : ∀ (s : Shape) (i st : List Nat), dot i (expandStridesEq s st) = dot (projEq s i) st
  | [], i, st => by cases i <;> simp [expandStridesEq, projEq, dot]
  | n :: s, [], st => by cases st <;> simp [projEq, dot]
  | n :: s, a :: i, [] => by simp [expandStridesEq, projEq, dot]
  | n :: s, a :: i, b :: st => by
    simp only [expandStridesEq, projEq, dot, dot_expandEq s i st]
    split <;> simp

/-! ### permuted views (pass 10): `Σ_k i[k]·st[p[k]] = Σ_a i[p⁻¹ a]·st[a]` through `List.Perm.sum_nat` -/

theorem dot_map_idx (g : Nat → Nat) : ∀ (p i : List Nat), p.Nodup → i.length = p.length →
    dot i (p.map g) = (p.map (fun a => i.getD (p.idxOf a) 0 * g a)).sum
  | [], [], _, _ => by simp [dot]
  | [], _ :: _, _, h => by simp at h
  | _ :: _, [], _, h => by simp at h
  | a :: p, x :: i, hn, h => by
    have hn' := List.nodup_cons.mp hn
    have ih := dot_map_idx g p i hn'.2 (by simpa using h)
    have hc : (p.map (fun b => (x :: i).getD ((a :: p).idxOf b) 0 * g b)) = (p.map (fun b => i.getD (p.idxOf b) 0 * g b)) := by
      apply List.map_congr_left
      intro b hb
      have hne : (a == b) = false := by
        simp only [beq_eq_false_iff_ne, ne_eq]
        exact fun e => hn'.1 (e ▸ hb)
      simp [List.idxOf_cons, hne]
    simp only [List.map_cons, dot, List.sum_cons, ih, hc]
    simp

theorem dot_range' (h : Nat → Nat) : ∀ (n s : Nat) (st : List Nat), st.length = n →
    dot ((List.range' s n).map h) st = ((List.range' s n).map (fun a => h a * st.getD (a - s) 0)).sum
  | 0, s, st, _ => by simp [dot]
  | n + 1, s, [], hl => by simp at hl
  | n + 1, s, y :: st, hl => by
    have ih := dot_range' h n (s + 1) st (by simpa using hl)
    have hc : ((List.range' (s + 1) n).map (fun a => h a * (y :: st).getD (a - s) 0)) = ((List.range' (s + 1) n).map (fun a => h a * st.getD (a - (s + 1)) 0)) := by
      apply List.map_congr_left
      intro a ha
      have := (List.mem_range'_1.mp ha).1
      have e : a - s = (a - (s + 1)) + 1 := by omega
      rw [e]; simp
    simp only [List.range'_succ, List.map_cons, dot, List.sum_cons, ih, hc]
    simp

theorem dot_permute (p i st : List Nat) (hp : p.Perm (List.range st.length)) (hi : i.length = p.length) :
    dot i (p.map (fun a => st.getD a 0)) = dot (unpermute p i) st := by
  have hnd : p.Nodup := hp.nodup_iff.mpr List.nodup_range
  have hlen : p.length = st.length := by simpa using hp.length_eq
  rw [dot_map_idx _ p i hnd hi]
  rw [(hp.map (fun a => i.getD (p.idxOf a) 0 * st.getD a 0)).sum_nat]
  unfold unpermute
  rw [hlen, List.range_eq_range', dot_range' _ st.length 0 st rfl]
  simp

/-! a list of length `n` that contains every `a < n` is a permutation of `0 … n-1` (erase induction: no counting, no `Nodup`) -/

theorem perm_range_of_cover : ∀ (n : Nat) (p : List Nat), p.length = n → (∀ a, a < n → a ∈ p) → p.Perm (List.range n)
  | 0, p, hl, _ => by
    have : p = [] := List.length_eq_zero_iff.mp hl
    simp [this]
  | n + 1, p, hl, hc => by
    have hn : n ∈ p := hc n (Nat.lt_succ_self n)
    have h1 : p.Perm (n :: p.erase n) := List.perm_cons_erase hn
    have hl' : (p.erase n).length = n := by rw [List.length_erase_of_mem hn, hl]; rfl
    have hc' : ∀ a, a < n → a ∈ p.erase n := fun a ha =>
      (List.mem_erase_of_ne (Nat.ne_of_lt ha)).mpr (hc a (Nat.lt_succ_of_lt ha))
    have ih := perm_range_of_cover n (p.erase n) hl' hc'
    rw [List.range_succ]
    exact h1.trans ((List.Perm.cons n ih).trans (List.perm_append_singleton n (List.range n)).symm)

theorem isPerm_perm {p : List Nat} {n : Nat} (h : isPerm p n = true) : p.Perm (List.range n) := by
  simp only [isPerm, Bool.and_eq_true, beq_iff_eq, List.all_eq_true, List.mem_range] at h
  exact perm_range_of_cover n p h.1 (fun a ha => by simpa using h.2 a ha)

namespace Retain


/-- a policy never sends a wrapper captured from a torch slot to ANOTHER torch slot -/
def WrapOk (H : Home) : Prop := ∀ s f, H s (.wrap f) = s ∨ 3 ≤ H s (.wrap f)
/-- an original designates its own slot -/
def OrigOk (H : Home) : Prop := ∀ s, H s (.orig s) = s

theorem homeCur_wrapOk : WrapOk homeCur := by intro s f; right; simp only [homeCur]; split <;> omega
theorem homeCur_origOk : OrigOk homeCur := fun _ => rfl
theorem homeSlot_wrapOk : WrapOk homeSlot := fun _ _ => Or.inl rfl
theorem homeSlot_origOk : OrigOk homeSlot := fun _ => rfl

theorem patch_other (H : Home) : ∀ (fs : List Cap) (t : Table) (q : Nat), (∀ c ∈ fs, H c.1 c.2 ≠ q) → patch H t fs q = t q
  | [], _, _, _ => rfl
  | c :: fs, t, q, h => by
    simp only [patch]
    rw [patch_other H fs _ q (fun g hg => h g (List.mem_cons_of_mem _ hg))]
    have := h c (List.mem_cons_self)
    simp [Table.set, Ne.symm this]

theorem restore_other (H : Home) : ∀ (fs : List Cap) (t : Table) (q : Nat), (∀ c ∈ fs, H c.1 c.2 ≠ q) → restore H t fs q = t q
  | [], _, _, _ => rfl
  | c :: fs, t, q, h => by
    simp only [restore]
    rw [restore_other H fs _ q (fun g hg => h g (List.mem_cons_of_mem _ hg))]
    have := h c (List.mem_cons_self)
    simp [Table.set, Ne.symm this]

theorem restore_hit (H : Home) : ∀ (fs : List Cap) (t : Table) (q : Nat) (v : Fn), (∃ c ∈ fs, H c.1 c.2 = q) →
    (∀ c ∈ fs, H c.1 c.2 = q → c.2 = v) → restore H t fs q = v
  | [], _, _, _, h, _ => by simp at h
  | c :: fs, t, q, v, hex0, hall => by
    simp only [restore]
    by_cases hex : ∃ g ∈ fs, H g.1 g.2 = q
    · exact restore_hit H fs _ q v hex (fun g hg => hall g (List.mem_cons_of_mem _ hg))
    · have hno : ∀ g ∈ fs, H g.1 g.2 ≠ q := fun g hg hq => hex ⟨g, hg, hq⟩
      rw [restore_other H fs _ q hno]
      have hf : H c.1 c.2 = q := by
        obtain ⟨g, hg, hq⟩ := hex0
        rcases List.mem_cons.mp hg with rfl | hg'
        · exact hq
        · exact absurd hq (hno g hg')
      have hv := hall c List.mem_cons_self hf
      simp only [Table.set, hf, if_true]
      exact hv

/-- every captured function designates the slot it was read from, or a junk slot (≥ 3) — never another torch slot -/
def WellHomed (H : Home) (t : Table) : Prop := ∀ s, s < 3 → H s (t s) = s ∨ 3 ≤ H s (t s)

theorem wellHomed_congr {H : Home} {t t' : Table} (h : ∀ q, q < 3 → t' q = t q) (hw : WellHomed H t) : WellHomed H t' := by
  intro s hs; rw [h s hs]; exact hw s hs

theorem wellHomed_patch {H : Home} (hW : WrapOk H) : ∀ (fs : List Cap) {t : Table}, WellHomed H t → WellHomed H (patch H t fs)
  | [], _, hw => hw
  | c :: fs, t, hw => by
    simp only [patch]
    apply wellHomed_patch hW fs
    intro s hs
    simp only [Table.set]
    by_cases e : s = H c.1 c.2
    · simp only [e, if_true]; rw [← e]; exact hW s c.2
    · simp only [e, if_false]; exact hw s hs

theorem patch_congr (H : Home) : ∀ (fs : List Cap) (t t' : Table), (∀ q, q < 3 → t q = t' q) → ∀ q, q < 3 → patch H t fs q = patch H t' fs q
  | [], _, _, h, q, hq => h q hq
  | c :: fs, t, t', h, q, hq => by
    simp only [patch]
    apply patch_congr H fs _ _ _ q hq
    intro q' hq'
    simp only [Table.set]
    split
    · rfl
    · exact h q' hq'

theorem restore_congr (H : Home) : ∀ (fs : List Cap) (t t' : Table), (∀ q, q < 3 → t q = t' q) → ∀ q, q < 3 → restore H t fs q = restore H t' fs q
  | [], _, _, h, q, hq => h q hq
  | c :: fs, t, t', h, q, hq => by
    simp only [restore]
    apply restore_congr H fs _ _ _ q hq
    intro q' hq'
    simp only [Table.set]
    split
    · rfl
    · exact h q' hq'

theorem captured_congr (ord : List Nat) (ho : ∀ s ∈ ord, s < 3) (t t' : Table) (h : ∀ q, q < 3 → t q = t' q) :
    captured t ord = captured t' ord := by
  unfold captured
  apply List.map_congr_left
  intro s hs
  rw [h s (ho s hs)]

/-- the key step: `restore (…) (captured t ord)` puts every torch slot back to `t`, whatever happened in between to the
slots that no captured function designates -/
theorem restore_captured {H : Home} {ord : List Nat} (ho : ∀ s ∈ ord, s < 3) {t : Table} (hw : WellHomed H t) (t' : Table)
    (ht' : ∀ q, q < 3 → (∀ c ∈ captured t ord, H c.1 c.2 ≠ q) → t' q = t q) (q : Nat) (hq : q < 3) :
    restore H t' (captured t ord) q = t q := by
  have huniq : ∀ c ∈ captured t ord, H c.1 c.2 = q → c.2 = t q := by
    intro c hc hh
    obtain ⟨s, hs, rfl⟩ := List.mem_map.mp hc
    simp only at hh ⊢
    rcases hw s (ho s hs) with h | h
    · rw [h] at hh; rw [hh]
    · omega
  by_cases hex : ∃ c ∈ captured t ord, H c.1 c.2 = q
  · exact restore_hit H _ _ q (t q) hex huniq
  · have hno : ∀ c ∈ captured t ord, H c.1 c.2 ≠ q := fun c hc hh => hex ⟨c, hc, hh⟩
    rw [restore_other H _ _ q hno]
    exact ht' q hq hno

theorem run_nest (H : Home) (t : Table) (ord : List Nat) (inner k : Body) :
    run H t (.nest ord inner k) =
      match retain H ord t inner none with
      | (t', .ok, log1) => let (t'', o, log) := run H t' k; (t'', o, log1 ++ log)
      | (t', .raised, log1) => (t', .raised, log1) := by
  simp only [run, retain]
  cases run H (patch H t (captured t ord)) inner with
  | mk t1 ol => cases ol with
    | mk o l => cases o <;> rfl

/-- running a body never changes a torch slot -/
theorem run_preserves' (H : Home) (hW : WrapOk H) : ∀ (b : Body) (t : Table), b.ok → WellHomed H t →
    ∀ q, q < 3 → (run H t b).1 q = t q := by
  intro b
  induction b with
  | ret => intro t _ _ q _; simp [run]
  | raise => intro t _ _ q _; simp [run]
  | call s k ih => intro t hb hw q hq; simp only [run]; exact ih t hb.2 hw q hq
  | nest ord inner k ihi ihk =>
    intro t hb hw q hq
    obtain ⟨hord, hbi, hbk⟩ := hb
    have hin := ihi (patch H t (captured t ord)) hbi (wellHomed_patch hW _ hw)
    have hrest : ∀ q, q < 3 → restore H (run H (patch H t (captured t ord)) inner).1 (captured t ord) q = t q := by
      intro q' hq'
      apply restore_captured hord.1 hw _ _ q' hq'
      intro q'' hq'' hno
      rw [hin q'' hq'']
      exact patch_other H _ _ q'' hno
    simp only [run]
    cases hr : run H (patch H t (captured t ord)) inner with
    | mk t1 ol =>
      obtain ⟨o, l⟩ := ol
      rw [hr] at hrest
      simp only at hrest
      cases o with
      | ok =>
        simp only
        rw [ihk _ hbk (wellHomed_congr hrest hw) q hq]
        exact hrest q hq
      | raised => simp only; exact hrest q hq
  | try_ inner h k ihi ihh ihk =>
    intro t hb hw q hq
    obtain ⟨hbi, hbh, hbk⟩ := hb
    have h1 := ihi t hbi hw
    simp only [run]
    cases hr : run H t inner with
    | mk t1 ol =>
      obtain ⟨o, l⟩ := ol
      rw [hr] at h1
      simp only at h1
      have hw1 := wellHomed_congr h1 hw
      cases o with
      | ok => simp only; rw [ihk t1 hbk hw1 q hq]; exact h1 q hq
      | raised =>
        simp only
        have h2 := ihh t1 hbh hw1
        cases hr2 : run H t1 h with
        | mk t2 ol2 =>
          obtain ⟨o2, l2⟩ := ol2
          rw [hr2] at h2
          simp only at h2
          have hw2 := wellHomed_congr h2 hw1
          cases o2 with
          | ok => simp only; rw [ihk t2 hbk hw2 q hq, h2 q hq]; exact h1 q hq
          | raised => simp only; rw [h2 q hq]; exact h1 q hq

/-- **`retain_restores`** (generic in the home policy) -/
theorem retain_restores' (H : Home) (hW : WrapOk H) (ord : List Nat) (hord : ∀ s ∈ ord, s < 3) (t : Table) (hw : WellHomed H t)
    (body : Body) (hb : body.ok) (failAt : Option Nat) : ∀ q, q < 3 → (retain H ord t body failAt).1 q = t q := by
  intro q hq
  unfold retain
  cases failAt with
  | some j =>
    simp only
    apply restore_captured hord hw _ _ q hq
    intro q' _ hno
    exact patch_other H _ _ q' (fun c hc => hno c (List.mem_of_mem_take hc))
  | none =>
    simp only
    apply restore_captured hord hw _ _ q hq
    intro q' hq' hno
    rw [run_preserves' H hW body _ hb (wellHomed_patch hW _ hw) q' hq']
    exact patch_other H _ _ q' hno

theorem pristine_wellHomed (H : Home) (hO : OrigOk H) : WellHomed H pristine := by
  intro s _; left; exact hO s

theorem retain_history' (H : Home) (hW : WrapOk H) : ∀ (hist : List (List Nat × Body × Option Nat)) (t : Table),
    (∀ e ∈ hist, (∀ s ∈ e.1, s < 3) ∧ e.2.1.ok) → WellHomed H t → ∀ q, q < 3 → history H t hist q = t q
  | [], _, _, _, _, _ => rfl
  | (ord, b, fa) :: rest, t, hh, hw, q, hq => by
    simp only [history]
    have he := hh (ord, b, fa) List.mem_cons_self
    have h1 := retain_restores' H hW ord he.1 t hw b he.2 fa
    rw [retain_history' H hW rest _ (fun e hm => hh e (List.mem_cons_of_mem _ hm)) (wellHomed_congr h1 hw) q hq]
    exact h1 q hq

/-- what a body does depends only on the torch slots -/
theorem run_congr' (H : Home) : ∀ (b : Body) (t t' : Table), (∀ q, q < 3 → t q = t' q) → b.ok →
    (∀ q, q < 3 → (run H t b).1 q = (run H t' b).1 q) ∧ (run H t b).2 = (run H t' b).2 := by
  intro b
  induction b with
  | ret => intro t t' h _; exact ⟨by simpa [run] using h, by simp [run]⟩
  | raise => intro t t' h _; exact ⟨by simpa [run] using h, by simp [run]⟩
  | call s k ih =>
    intro t t' h hc
    obtain ⟨i1, i2⟩ := ih t t' h hc.2
    have hs : t s = t' s := h s hc.1
    refine ⟨by simpa [run] using i1, ?_⟩
    simp only [run]
    rw [hs]
    rw [Prod.ext_iff] at i2
    simp [i2.1, i2.2]
  | nest ord inner k ihi ihk =>
    intro t t' h hc
    obtain ⟨hord, hci, hck⟩ := hc
    have hcap := captured_congr ord hord.1 t t' h
    have hp := patch_congr H (captured t ord) t t' h
    obtain ⟨j1, j2⟩ := ihi _ _ hp hci
    simp only [run]
    rw [← hcap]
    cases hr : run H (patch H t (captured t ord)) inner with
    | mk t1 ol =>
      cases hr' : run H (patch H t' (captured t ord)) inner with
      | mk t1' ol' =>
        rw [hr, hr'] at j1 j2
        simp only at j1 j2
        subst j2
        obtain ⟨o, l⟩ := ol
        have hrest := restore_congr H (captured t ord) t1 t1' j1
        cases o with
        | raised => exact ⟨by simpa using hrest, rfl⟩
        | ok =>
          simp only
          obtain ⟨m1, m2⟩ := ihk _ _ hrest hck
          refine ⟨m1, ?_⟩
          rw [Prod.ext_iff] at m2
          simp [m2.1, m2.2]
  | try_ inner h k ihi ihh ihk =>
    intro t t' hh hc
    obtain ⟨hci, hch, hck⟩ := hc
    obtain ⟨j1, j2⟩ := ihi t t' hh hci
    simp only [run]
    cases hr : run H t inner with
    | mk t1 ol =>
      cases hr' : run H t' inner with
      | mk t1' ol' =>
        rw [hr, hr'] at j1 j2
        simp only at j1 j2
        subst j2
        obtain ⟨o, l⟩ := ol
        cases o with
        | ok =>
          simp only
          obtain ⟨m1, m2⟩ := ihk _ _ j1 hck
          refine ⟨m1, ?_⟩
          rw [Prod.ext_iff] at m2
          simp [m2.1, m2.2]
        | raised =>
          simp only
          obtain ⟨n1, n2⟩ := ihh _ _ j1 hch
          cases hs : run H t1 h with
          | mk t2 ol2 =>
            cases hs' : run H t1' h with
            | mk t2' ol2' =>
              rw [hs, hs'] at n1 n2
              simp only at n1 n2
              subst n2
              obtain ⟨o2, l2⟩ := ol2
              cases o2 with
              | raised => exact ⟨by simpa using n1, rfl⟩
              | ok =>
                simp only
                obtain ⟨m1, m2⟩ := ihk _ _ n1 hck
                refine ⟨m1, ?_⟩
                rw [Prod.ext_iff] at m2
                simp [m2.1, m2.2]

/-- **A failing call is atomic.** -/
theorem retain_atomic' (H : Home) (hW : WrapOk H) (ord1 ord2 : List Nat) (h1 : ∀ s ∈ ord1, s < 3) (h2 : ∀ s ∈ ord2, s < 3)
    (t : Table) (hw : WellHomed H t) (b1 b2 : Body) (hb1 : b1.ok) (hb2 : b2.ok) (fa : Option Nat) :
    let t1 := (retain H ord1 t b1 fa).1
    (retain H ord2 t1 b2 none).2 = (retain H ord2 t b2 none).2 ∧
      ∀ q, q < 3 → (retain H ord2 t1 b2 none).1 q = (retain H ord2 t b2 none).1 q := by
  intro t1
  have e1 : ∀ q, q < 3 → t1 q = t q := retain_restores' H hW ord1 h1 t hw b1 hb1 fa
  have hcap := captured_congr ord2 h2 t1 t e1
  have hp := patch_congr H (captured t1 ord2) t1 t e1
  obtain ⟨r1, r2⟩ := run_congr' H b2 _ _ hp hb2
  unfold retain
  simp only
  rw [← hcap]
  cases hr : run H (patch H t1 (captured t1 ord2)) b2 with
  | mk u ol =>
    cases hr' : run H (patch H t (captured t1 ord2)) b2 with
    | mk u' ol' =>
      rw [hr, hr'] at r1 r2
      simp only at r1 r2
      subst r2
      exact ⟨rfl, restore_congr H _ u u' r1⟩

/-- from the pristine table a full order patches every torch slot with the wrapper of its original -/
theorem retain_patches (H : Home) (hO : OrigOk H) (ord : List Nat) (hord : okOrd ord) : Patched (patch H pristine (captured pristine ord)) := by
  intro s hs
  have hmem := hord.2 s hs
  -- general statement: patching originals over any table, slot s ends as wrap (orig s) once s occurs in the list
  have gen : ∀ (l : List Nat) (u : Table), s ∈ l → patch H u (captured pristine l) s = Fn.wrap (Fn.orig s) := by
    intro l
    induction l with
    | nil => intro u h; simp at h
    | cons a rest ih =>
      intro u h
      simp only [captured, List.map_cons, patch, pristine, hO a]
      by_cases hr : s ∈ rest
      · exact ih _ hr
      · have ha : s = a := by rcases List.mem_cons.mp h with h | h; exact h; exact absurd h hr
        subst ha
        have hno : ∀ c ∈ List.map (fun s => (s, pristine s)) rest, H c.1 c.2 ≠ s := by
          intro c hc
          obtain ⟨q, hq, rfl⟩ := List.mem_map.mp hc
          simp only [pristine, hO q]
          intro e; subst e; exact hr hq
        have := patch_other H (List.map (fun s => (s, pristine s)) rest) (u.set s (Fn.wrap (Fn.orig s))) s hno
        simp only [captured, pristine] at this ⊢
        rw [this]
        simp [Table.set]
  exact gen ord pristine hmem

theorem patched_wellHomed {H : Home} (hW : WrapOk H) {t : Table} (h : Patched t) : WellHomed H t := by
  intro s hs; rw [h s hs]; exact hW s _

/-- **Inside the context every call finds a wrapper** — at any nesting depth, under try/except, before or after inner
contexts have exited or raised (policies that send wrappers to junk slots, like the code's). -/
theorem run_log_wrapped' (H : Home) (hW : WrapOk H) (hJ : ∀ s f, s < 3 → 3 ≤ H s (.wrap f)) : ∀ (b : Body) (t : Table),
    Patched t → b.ok → ∀ f ∈ (run H t b).2.2, ∃ s, s < 3 ∧ f = Fn.wrap (Fn.orig s) := by
  intro b
  induction b with
  | ret => intro t _ _ f hf; simp [run] at hf
  | raise => intro t _ _ f hf; simp [run] at hf
  | call s k ih =>
    intro t hp hc f hf
    simp only [run, List.mem_cons] at hf
    rcases hf with rfl | hf
    · exact ⟨s, hc.1, hp s hc.1⟩
    · exact ih t hp hc.2 f hf
  | nest ord inner k ihi ihk =>
    intro t hp hc f hf
    obtain ⟨hord, hci, hck⟩ := hc
    have hne : ∀ s, s < 3 → ∀ c ∈ captured t ord, H c.1 c.2 ≠ s := by
      intro s hs c hcm e
      obtain ⟨q, hq, rfl⟩ := List.mem_map.mp hcm
      simp only at e
      rw [hp q (hord.1 q hq)] at e
      have := hJ q (Fn.orig q) (hord.1 q hq)
      omega
    have hp1 : Patched (patch H t (captured t ord)) := by
      intro s hs
      rw [patch_other H _ _ s (hne s hs)]; exact hp s hs
    have hpres := run_preserves' H hW inner _ hci (patched_wellHomed hW hp1)
    simp only [run] at hf
    cases hr : run H (patch H t (captured t ord)) inner with
    | mk t1 ol =>
      obtain ⟨o, l⟩ := ol
      have hl : ∀ g ∈ l, ∃ s, s < 3 ∧ g = Fn.wrap (Fn.orig s) := by
        have := ihi _ hp1 hci
        rw [hr] at this
        exact this
      rw [hr] at hf hpres
      simp only at hpres
      cases o with
      | raised => simp only at hf; exact hl f hf
      | ok =>
        simp only at hf
        have hp2 : Patched (restore H t1 (captured t ord)) := by
          intro s hs
          rw [restore_other H _ _ s (hne s hs), hpres s hs]
          exact hp1 s hs
        rcases List.mem_append.mp hf with h1 | h2
        · exact hl f h1
        · exact ihk _ hp2 hck f h2
  | try_ inner h k ihi ihh ihk =>
    intro t hp hc f hf
    obtain ⟨hci, hch, hck⟩ := hc
    have hpre1 := run_preserves' H hW inner t hci (patched_wellHomed hW hp)
    have hl1 := ihi t hp hci
    simp only [run] at hf
    cases hr : run H t inner with
    | mk t1 ol =>
      obtain ⟨o, l⟩ := ol
      rw [hr] at hf hpre1 hl1
      simp only at hpre1 hl1
      have hp1 : Patched t1 := fun s hs => by rw [hpre1 s hs]; exact hp s hs
      cases o with
      | ok =>
        simp only at hf
        rcases List.mem_append.mp hf with h1 | h2
        · exact hl1 f h1
        · exact ihk t1 hp1 hck f h2
      | raised =>
        simp only at hf
        have hpre2 := run_preserves' H hW h t1 hch (patched_wellHomed hW hp1)
        have hl2 := ihh t1 hp1 hch
        cases hs : run H t1 h with
        | mk t2 ol2 =>
          obtain ⟨o2, l2⟩ := ol2
          rw [hs] at hf hpre2 hl2
          simp only at hpre2 hl2
          have hp2 : Patched t2 := fun s hs' => by rw [hpre2 s hs']; exact hp1 s hs'
          cases o2 with
          | raised =>
            simp only at hf
            rcases List.mem_append.mp hf with h1 | h2
            · exact hl1 f h1
            · exact hl2 f h2
          | ok =>
            simp only at hf
            rcases List.mem_append.mp hf with h12 | h3
            · rcases List.mem_append.mp h12 with h1 | h2
              · exact hl1 f h1
              · exact hl2 f h2
            · exact ihk t2 hp2 hck f h3



/-- a policy that only ever writes torch slots (by-slot restoring) leaves every other slot alone -/
theorem run_junk_untouched (H : Home) (hH : ∀ s f, s < 3 → H s f < 3) : ∀ (b : Body) (t : Table), b.ok →
    ∀ q, 3 ≤ q → (run H t b).1 q = t q := by
  intro b
  induction b with
  | ret => intro t _ q _; simp [run]
  | raise => intro t _ q _; simp [run]
  | call s k ih => intro t hb q hq; simp only [run]; exact ih t hb.2 q hq
  | nest ord inner k ihi ihk =>
    intro t hb q hq
    obtain ⟨hord, hbi, hbk⟩ := hb
    have hno : ∀ (u : Table), ∀ c ∈ captured u ord, H c.1 c.2 ≠ q := by
      intro u c hc
      obtain ⟨s, hs, rfl⟩ := List.mem_map.mp hc
      have := hH s (u s) (hord.1 s hs)
      simp only; omega
    simp only [run]
    have h1 := ihi (patch H t (captured t ord)) hbi q hq
    cases hr : run H (patch H t (captured t ord)) inner with
    | mk t1 ol =>
      obtain ⟨o, l⟩ := ol
      rw [hr] at h1
      simp only at h1
      have hrest : restore H t1 (captured t ord) q = t q := by
        rw [restore_other H _ _ q (hno t), h1, patch_other H _ _ q (hno t)]
      cases o with
      | ok => simp only; rw [ihk _ hbk q hq]; exact hrest
      | raised => simp only; exact hrest
  | try_ inner h k ihi ihh ihk =>
    intro t hb q hq
    obtain ⟨hbi, hbh, hbk⟩ := hb
    have h1 := ihi t hbi q hq
    simp only [run]
    cases hr : run H t inner with
    | mk t1 ol =>
      obtain ⟨o, l⟩ := ol
      rw [hr] at h1
      simp only at h1
      cases o with
      | ok => simp only; rw [ihk t1 hbk q hq]; exact h1
      | raised =>
        simp only
        have h2 := ihh t1 hbh q hq
        cases hr2 : run H t1 h with
        | mk t2 ol2 =>
          obtain ⟨o2, l2⟩ := ol2
          rw [hr2] at h2
          simp only at h2
          cases o2 with
          | ok => simp only; rw [ihk t2 hbk q hq, h2]; exact h1
          | raised => simp only; rw [h2]; exact h1

/-- **by-slot restoring restores EVERYTHING**: with saved `(module, name, value)` triples no slot at all — torch or
otherwise — differs after the context from what it was before, for every body, nesting depth and exit path -/
theorem retain_restores_all_bySlot' (ord : List Nat) (hord : ∀ s ∈ ord, s < 3) (t : Table) (body : Body) (hb : body.ok)
    (failAt : Option Nat) : ∀ q, (retain homeSlot ord t body failAt).1 q = t q := by
  intro q
  by_cases hq : q < 3
  · exact retain_restores' homeSlot homeSlot_wrapOk ord hord t (fun s _ => Or.inl rfl) body hb failAt q hq
  · have hno : ∀ (u : Table), ∀ c ∈ captured u ord, homeSlot c.1 c.2 ≠ q := by
      intro u c hc
      obtain ⟨s, hs, rfl⟩ := List.mem_map.mp hc
      have := hord s hs
      simp only [homeSlot]; omega
    unfold retain
    cases failAt with
    | some j =>
      simp only
      rw [restore_other _ _ _ q (hno t), patch_other _ _ _ q (fun c hc => hno t c (List.mem_of_mem_take hc))]
    | none =>
      simp only
      rw [restore_other _ _ _ q (hno t), run_junk_untouched homeSlot (fun s _ hs => hs) body _ hb q (by omega),
        patch_other _ _ _ q (hno t)]

/-- the six iteration orders of the three-element set -/
def orders : List (List Nat) := [[0, 1, 2], [0, 2, 1], [1, 0, 2], [1, 2, 0], [2, 0, 1], [2, 1, 0]]

/-- **the code as it is leaks**: one context nested in another — whatever the two iteration orders — leaves
`torch._functorch.vmap.wrapper` (slot 4) holding the outer wrapper after both have exited, although the three patched
slots are back.  (Reproduced on the implementation: `hasattr(torch._functorch.vmap, 'wrapper')` False → True.) -/
theorem nested_leaks_cur' : ∀ o1 ∈ orders, ∀ o2 ∈ orders,
    (retain homeCur o1 pristine (.nest o2 .ret .ret) none).1 4 = Fn.wrap (Fn.orig 2) ∧
    (retain homeCur o1 pristine (.nest o2 .ret .ret) none).1 4 ≠ pristine 4 ∧
    ∀ q, q < 3 → (retain homeCur o1 pristine (.nest o2 .ret .ret) none).1 q = pristine q := by decide

/-- a single (un-nested) context of the code as it is touches nothing but the three slots -/
theorem single_context_clean_cur : ∀ o1 ∈ orders, ∀ q ∈ [0, 1, 2, 3, 4, 5],
    (retain homeCur o1 pristine (.call 0 (.call 2 .raise)) none).1 q = pristine q := by decide

theorem orders_ok : ∀ o ∈ orders, okOrd o := by
  intro o ho
  simp only [orders, List.mem_cons, List.mem_nil_iff, or_false] at ho
  rcases ho with rfl | rfl | rfl | rfl | rfl | rfl <;>
    exact ⟨by intro s hs; simp at hs; omega, by intro s hs; simp; omega⟩

theorem depth_nestN (ord : List Nat) (n : Nat) (b : Body) : (nestN ord n b).depth = n + b.depth ∨ (nestN ord n b).depth = max n (n + b.depth) := by
  induction n with
  | zero => left; simp [nestN]
  | succ n ih =>
    left
    simp only [nestN, Body.depth]
    rcases ih with h | h <;> rw [h] <;> omega

theorem nestN_ok (ord : List Nat) (ho : okOrd ord) : ∀ (n : Nat) (b : Body), b.ok → (nestN ord n b).ok
  | 0, _, h => h
  | n + 1, b, h => ⟨ho, nestN_ok ord ho n b h, trivial⟩


theorem patch_wrapped (H : Home) : ∀ (fs : List Cap) (t : Table), Wrapped t → Wrapped (patch H t fs)
  | [], _, h => h
  | c :: fs, t, h => by
    simp only [patch]
    apply patch_wrapped H fs
    intro s hs
    simp only [Table.set]
    split
    · exact ⟨c.2, rfl⟩
    · exact h s hs

theorem restore_wrapped (H : Home) : ∀ (fs : List Cap) (t : Table), (∀ c ∈ fs, ∃ g, c.2 = Fn.wrap g) → Wrapped t → Wrapped (restore H t fs)
  | [], _, _, h => h
  | c :: fs, t, hc, h => by
    simp only [restore]
    apply restore_wrapped H fs _ (fun d hd => hc d (List.mem_cons_of_mem _ hd))
    intro s hs
    simp only [Table.set]
    split
    · exact hc c List.mem_cons_self
    · exact h s hs

theorem captured_wrapped {t : Table} {ord : List Nat} (ho : ∀ s ∈ ord, s < 3) (h : Wrapped t) : ∀ c ∈ captured t ord, ∃ g, c.2 = Fn.wrap g := by
  intro c hc
  obtain ⟨s, hs, rfl⟩ := List.mem_map.mp hc
  exact h s (ho s hs)

/-- **Inside a context every call finds a wrapper** — whatever the home policy: at any nesting depth (nested contexts may wrap
the wrapper again), under try/except, before or after inner contexts exited or raised; and the table stays wrapped. -/
theorem run_log_wrappers' (H : Home) : ∀ (b : Body) (t : Table), Wrapped t → b.ok →
    Wrapped (run H t b).1 ∧ ∀ f ∈ (run H t b).2.2, ∃ g, f = Fn.wrap g := by
  intro b
  induction b with
  | ret => intro t h _; exact ⟨h, by simp [run]⟩
  | raise => intro t h _; exact ⟨h, by simp [run]⟩
  | call s k ih =>
    intro t h hc
    obtain ⟨i1, i2⟩ := ih t h hc.2
    refine ⟨by simpa [run] using i1, ?_⟩
    intro f hf
    simp only [run, List.mem_cons] at hf
    rcases hf with rfl | hf
    · exact h s hc.1
    · exact i2 f hf
  | nest ord inner k ihi ihk =>
    intro t h hc
    obtain ⟨hord, hci, hck⟩ := hc
    obtain ⟨j1, j2⟩ := ihi _ (patch_wrapped H _ _ h) hci
    simp only [run]
    cases hr : run H (patch H t (captured t ord)) inner with
    | mk t1 ol =>
      obtain ⟨o, l⟩ := ol
      rw [hr] at j1 j2
      simp only at j1 j2
      have hrw := restore_wrapped H _ t1 (captured_wrapped hord.1 h) j1
      cases o with
      | raised => exact ⟨hrw, j2⟩
      | ok =>
        simp only
        obtain ⟨m1, m2⟩ := ihk _ hrw hck
        refine ⟨m1, ?_⟩
        intro f hf
        rcases List.mem_append.mp hf with h1 | h2
        · exact j2 f h1
        · exact m2 f h2
  | try_ inner hd k ihi ihh ihk =>
    intro t h hc
    obtain ⟨hci, hch, hck⟩ := hc
    obtain ⟨j1, j2⟩ := ihi t h hci
    simp only [run]
    cases hr : run H t inner with
    | mk t1 ol =>
      obtain ⟨o, l⟩ := ol
      rw [hr] at j1 j2
      simp only at j1 j2
      cases o with
      | ok =>
        simp only
        obtain ⟨m1, m2⟩ := ihk t1 j1 hck
        refine ⟨m1, fun f hf => ?_⟩
        rcases List.mem_append.mp hf with h1 | h2
        · exact j2 f h1
        · exact m2 f h2
      | raised =>
        simp only
        obtain ⟨n1, n2⟩ := ihh t1 j1 hch
        cases hs : run H t1 hd with
        | mk t2 ol2 =>
          obtain ⟨o2, l2⟩ := ol2
          rw [hs] at n1 n2
          simp only at n1 n2
          cases o2 with
          | raised =>
            refine ⟨n1, fun f hf => ?_⟩
            rcases List.mem_append.mp hf with h1 | h2
            · exact j2 f h1
            · exact n2 f h2
          | ok =>
            simp only
            obtain ⟨m1, m2⟩ := ihk t2 n1 hck
            refine ⟨m1, fun f hf => ?_⟩
            rcases List.mem_append.mp hf with h12 | h3
            · rcases List.mem_append.mp h12 with h1 | h2
              · exact j2 f h1
              · exact n2 f h2
            · exact m2 f h3

theorem patched_wrapped {t : Table} (h : Patched t) : Wrapped t := fun s hs => ⟨_, h s hs⟩


end Retain

end PP.Batch
